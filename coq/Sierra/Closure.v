(* Sierra/Closure.v -- the in-order acceptance pass computes a table that is closed under every
   control-flow edge: [annot_accepts p = true -> exists T, Closed p T].
   [T i] is the annotation statement [i] was processed with.  Proof: loop invariant over [pass]. *)
From Coq Require Import ZArith List Bool Lia FMapPositive Arith.
From Sierra Require Import Annot.
Import ListNotations.
Local Open Scope nat_scope.

(* ---------- table lemmas ---------- *)
Lemma key_inj i j : key i = key j -> i = j.
Proof. unfold key. intros H. apply SuccNat2Pos.inj in H. exact H. Qed.

Lemma tget_tset_same t i a : tget (tset t i a) i = Some a.
Proof. unfold tget, tset. apply PositiveMap.gss. Qed.
Lemma tget_tset_other t i j a : i <> j -> tget (tset t i a) j = tget t j.
Proof. unfold tget, tset. intros H. apply PositiveMap.gso. intro E. apply H. symmetry. apply key_inj. exact E. Qed.
Lemma tget_tdel_same t i : tget (tdel t i) i = None.
Proof. unfold tget, tdel. apply PositiveMap.grs. Qed.
Lemma tget_tdel_other t i j : i <> j -> tget (tdel t i) j = tget t j.
Proof. unfold tget, tdel. intros H. apply PositiveMap.gro. intro E. apply H. symmetry. apply key_inj. exact E. Qed.
Lemma tget_empty i : tget (PositiveMap.empty ann) i = None.
Proof. unfold tget. apply PositiveMap.gempty. Qed.

(* ---------- specification-level notions ---------- *)
Definition stmt_at (p : program) (i : nat) : option stmt := nth_error (stmts p) i.

Definition same (expected actual : ann) : Prop := same_annb expected actual = true.

(* the annotation statement [i], processed with [e] (variables left after taking the arguments: [m]),
   propagates along branch [b] *)
Definition post (e : ann) (m : vmap) (b : branch) (conv : bool) : option ann :=
  match put_vars m (b_results b) (b_outs b) with None => None | Some m' =>
  match track_update (a_track e) (b_track b) (b_ap b) (b_target b) with None => None | Some tr' =>
  match wallet_update (a_wallet e) (b_gas b) with None => None | Some w' =>
  Some {| a_vars := m'; a_fn := a_fn e; a_conv := conv; a_track := tr'; a_wallet := w' |}
  end end end.

Definition multi (iv : invoke) : bool := Nat.ltb 1 (length (i_branches iv)).

Section Closed.
Variable p : program.
Let n := length (stmts p).

(* what was established for one processed invoke statement, relative to a way [tgt] of looking up
   the annotation at a branch target *)
Definition invoke_ok (tgt : nat -> ann -> Prop) (i : nat) (iv : invoke) (e : ann) : Prop :=
  exists ts m,
    take_vars (a_vars e) (i_args iv) = Some (ts, m)
    /\ tys_eqb ts (i_params iv) = true
    /\ basic_structure i iv = true
    /\ call_ok p iv = true
    /\ forall b, In b (i_branches iv) ->
         exists a', post e m b (negb (multi iv)) = Some a'
                    /\ tgt (b_target b) a'
                    /\ (multi iv = true -> is_align (stmt_at p (b_target b)) = true).

Definition return_ok (vs : list var) (e : ann) : Prop :=
  exists ts f,
    take_vars (a_vars e) vs = Some (ts, [])
    /\ nth_error (funcs p) (a_fn e) = Some f
    /\ tracking_eqb (a_track e) (expected_track f) = true
    /\ tys_eqb ts (f_rets f) = true.

Definition stmt_ok (tgt : nat -> ann -> Prop) (i : nat) (s : stmt) (e : ann) : Prop :=
  match s with
  | SInvoke iv => invoke_ok tgt i iv e
  | SReturn vs => return_ok vs e
  end.

(* the final notion: T is total on [0,n), starts every function with its initial annotation, and is
   closed under every edge *)
Definition final_tgt (T : nat -> option ann) (d : nat) (a' : ann) : Prop :=
  d < n /\ exists e', T d = Some e' /\ same e' a'.

Definition Closed (T : nat -> option ann) : Prop :=
  (forall i s, stmt_at p i = Some s -> exists e, T i = Some e /\ stmt_ok (final_tgt T) i s e)
  /\ (forall k f, nth_error (funcs p) k = Some f ->
        exists a, init_ann k f = Some a /\ T (f_entry f) = Some a /\ f_entry f < n).

(* ---------- the loop invariant ---------- *)
Variable back : list nat.

Definition stage_tgt (i : nat) (t : table) (T : nat -> option ann) (d : nat) (a' : ann) : Prop :=
  d < n /\
  if Nat.ltb d i then exists e', T d = Some e' /\ same e' a'
  else exists x, tget t d = Some x /\ same x a'.

Record Inv (i : nat) (t : table) (T : nat -> option ann) : Prop := {
  inv_dom : forall j, i <= j -> T j = None;
  inv_done : forall j s, j < i -> stmt_at p j = Some s ->
               exists e, T j = Some e /\ stmt_ok (stage_tgt i t T) j s e;
  inv_back : forall d, d < i -> mem_nat d back = true -> tget t d = T d;
  inv_entry : forall k f, nth_error (funcs p) k = Some f ->
                exists a, init_ann k f = Some a /\ f_entry f < n /\
                  if Nat.ltb (f_entry f) i then T (f_entry f) = Some a
                  else tget t (f_entry f) = Some a
}.

(* set_or_assert only ever adds entries, and leaves a consistent entry at the index *)
Lemma set_or_assert_spec t d a t' :
  set_or_assert n t d a = Some t' ->
  d < n
  /\ (forall x v, tget t x = Some v -> tget t' x = Some v)
  /\ (forall x, x <> d -> tget t' x = tget t x)
  /\ (exists v, tget t' d = Some v /\ same v a).
Proof.
  unfold set_or_assert. destruct (Nat.ltb_spec d n) as [Hd|Hd]; [|discriminate].
  destruct (tget t d) as [ex|] eqn:Hg.
  - destruct (ann_consistent ex a) eqn:Hc; [|discriminate].
    intros H; inversion H; subst t'; clear H.
    split; [exact Hd|]. split; [auto|]. split; [auto|].
    exists ex. split; [exact Hg|].
    unfold ann_consistent in Hc. apply andb_prop in Hc. exact (proj1 Hc).
  - intros H; inversion H; subst t'; clear H.
    split; [exact Hd|]. split.
    + intros x v Hx. destruct (Nat.eq_dec d x) as [->|Hne].
      * rewrite Hg in Hx. discriminate.
      * rewrite tget_tset_other by exact Hne. exact Hx.
    + split.
      * intros x Hx. apply tget_tset_other. auto.
      * exists a. split; [apply tget_tset_same|].
        unfold same, same_annb.
        rewrite Nat.eqb_refl. cbn [andb].
        assert (Ht : forall tr, tracking_eqb tr tr = true).
        { intros [|c [b|]]; cbn; [reflexivity| |].
          - rewrite Z.eqb_refl, Nat.eqb_refl. reflexivity.
          - rewrite Z.eqb_refl. reflexivity. }
        rewrite Ht. cbn [andb].
        assert (Hv : forall v, veqb v v = true).
        { induction v as [|x v IH]; cbn; [reflexivity|]. rewrite Z.eqb_refl, IH. reflexivity. }
        assert (Hw : forall w, wallet_eqb w w = true).
        { intros [w|]; cbn; [apply Hv|reflexivity]. }
        rewrite Hw. cbn [andb].
        unfold vmap_eqb. induction (a_vars a) as [|[x ty0] r IH]; cbn; [reflexivity|].
        rewrite !Pos.eqb_refl, IH. reflexivity.
Qed.

Lemma same_refl_tab t t' d v a :
  (forall x w, tget t x = Some w -> tget t' x = Some w) ->
  tget t d = Some v -> same v a -> exists w, tget t' d = Some w /\ same w a.
Proof. intros Hm Hg Hs. exists v. split; [apply Hm; exact Hg | exact Hs]. Qed.

Lemma propagate_spec t i e m ms b t' :
  propagate p n t i e m ms b = Some t' ->
  exists a', post e m b (negb ms) = Some a'
    /\ (ms = true -> is_align (stmt_at p (b_target b)) = true)
    /\ (b_target b = i -> same e a')
    /\ set_or_assert n t (b_target b) a' = Some t'.
Proof.
  unfold propagate, post.
  destruct (ms && negb (is_align (nth_error (stmts p) (b_target b)))) eqn:Ha; [discriminate|].
  destruct (ms && match tget t (b_target b) with Some _ => true | None => false end); [discriminate|].
  destruct (put_vars m (b_results b) (b_outs b)) as [m'|]; [|discriminate].
  destruct (track_update (a_track e) (b_track b) (b_ap b) (b_target b)) as [tr'|]; [|discriminate].
  destruct (wallet_update (a_wallet e) (b_gas b)) as [w'|]; [|discriminate].
  match goal with |- context [same_annb e ?x] => set (a' := x) end.
  destruct (Nat.eqb (b_target b) i && negb (same_annb e a')) eqn:Hs; [discriminate|].
  intros H. exists a'. split; [reflexivity|]. split; [|split; [|exact H]].
  - intros ->. cbn in Ha. unfold stmt_at. destruct (is_align _); [reflexivity|discriminate].
  - intros E. apply Nat.eqb_eq in E. rewrite E in Hs. cbn in Hs.
    unfold same. destruct (same_annb e a'); [reflexivity|discriminate].
Qed.

Lemma propagate_all_spec bs : forall t i e m ms t',
  propagate_all p n t i e m ms bs = Some t' ->
  (forall x w, tget t x = Some w -> tget t' x = Some w)
  /\ forall b, In b bs ->
       exists a', post e m b (negb ms) = Some a'
         /\ (ms = true -> is_align (stmt_at p (b_target b)) = true)
         /\ (b_target b = i -> same e a')
         /\ b_target b < n
         /\ exists v, tget t' (b_target b) = Some v /\ same v a'.
Proof.
  induction bs as [|b r IH]; intros t i e m ms t' H; cbn in H.
  - inversion H; subst. split; [auto|]. intros b [].
  - destruct (propagate p n t i e m ms b) as [t1|] eqn:Hp; [|discriminate].
    destruct (propagate_spec _ _ _ _ _ _ _ Hp) as (a' & Hpost & Hal & Hself & Hset).
    destruct (set_or_assert_spec _ _ _ _ Hset) as (Hd & Hmono & _ & (v & Hv & Hsv)).
    destruct (IH _ _ _ _ _ _ H) as (Hmono' & Hall).
    split; [intros x w Hx; apply Hmono', Hmono, Hx|].
    intros b' [<-|Hin].
    + exists a'. repeat split; try assumption.
      exists v. split; [apply Hmono', Hv | exact Hsv].
    + apply Hall, Hin.
Qed.

Definition upd (T : nat -> option ann) (i : nat) (e : ann) : nat -> option ann :=
  fun j => if Nat.eqb j i then Some e else T j.

Hypothesis back_ok : forall i iv b, stmt_at p i = Some (SInvoke iv) -> In b (i_branches iv) ->
  b_target b < i -> mem_nat (b_target b) back = true.

Lemma take_entry_spec t i ids e ts m t1 :
  take_entry back t i ids = Some (e, ts, m, t1) ->
  tget t i = Some e /\ take_vars (a_vars e) ids = Some (ts, m)
  /\ (forall x, x <> i -> tget t1 x = tget t x)
  /\ (mem_nat i back = true -> tget t1 i = Some e).
Proof.
  unfold take_entry. destruct (tget t i) as [e0|] eqn:Hg; [|discriminate].
  destruct (take_vars (a_vars e0) ids) as [[ts0 m0]|] eqn:Ht; [|discriminate].
  intros H; inversion H; subst; clear H.
  split; [reflexivity|]. split; [exact Ht|]. split.
  - intros x Hx. destruct (mem_nat i back); [reflexivity|]. apply tget_tdel_other. auto.
  - intros ->. exact Hg.
Qed.

(* an old target condition survives the processing of statement i *)
Lemma stage_tgt_step i t T t' e d a' :
  tget t i = Some e ->
  (forall x w, x <> i -> tget t x = Some w -> tget t' x = Some w) ->
  stage_tgt i t T d a' -> stage_tgt (S i) t' (upd T i e) d a'.
Proof.
  intros He Hmono [Hd H]. split; [exact Hd|].
  unfold upd.
  destruct (Nat.ltb_spec d i) as [Hlt|Hge].
  - replace (Nat.ltb d (S i)) with true by (symmetry; apply Nat.ltb_lt; lia).
    replace (Nat.eqb d i) with false by (symmetry; apply Nat.eqb_neq; lia). exact H.
  - destruct H as (x & Hx & Hs).
    destruct (Nat.eq_dec d i) as [->|Hne].
    + replace (Nat.ltb i (S i)) with true by (symmetry; apply Nat.ltb_lt; lia).
      rewrite Nat.eqb_refl. exists e. split; [reflexivity|]. rewrite He in Hx. inversion Hx; subst. exact Hs.
    + replace (Nat.ltb d (S i)) with false by (symmetry; apply Nat.ltb_ge; lia).
      exists x. split; [apply Hmono; auto | exact Hs].
Qed.

Lemma stmt_ok_weaken (tg1 tg2 : nat -> ann -> Prop) j s e :
  (forall d a, tg1 d a -> tg2 d a) -> stmt_ok tg1 j s e -> stmt_ok tg2 j s e.
Proof.
  intros Hw. destruct s as [iv|vs]; cbn; [|auto].
  intros (ts & m & H1 & H2 & H3 & H4 & H5). exists ts, m. repeat split; try assumption.
  intros b Hb. destruct (H5 b Hb) as (a' & Ha & Ht & Hal). exists a'. auto.
Qed.

Lemma Inv_total i t T d : Inv i t T -> d < i -> d < n -> exists e, T d = Some e.
Proof.
  intros HI Hd Hn. unfold n in Hn.
  destruct (nth_error (stmts p) d) as [s|] eqn:Hs.
  - destruct (inv_done _ _ _ HI d s Hd Hs) as (e & He & _). eauto.
  - apply nth_error_None in Hs. lia.
Qed.

Lemma process_step i t T s t' :
  Inv i t T -> stmt_at p i = Some s -> process p n back t i s = Some t' ->
  exists e, Inv (S i) t' (upd T i e).
Proof.
  intros HI Hs Hp.
  assert (Hin : i < n).
  { unfold n. apply nth_error_Some. unfold stmt_at in Hs. congruence. }
  (* common facts once we know the entry e, that t -> t' preserves entries other than i, and the
     new statement's own condition *)
  assert (Hfin : forall e,
     tget t i = Some e ->
     (forall x w, x <> i -> tget t x = Some w -> tget t' x = Some w) ->
     (mem_nat i back = true -> tget t' i = Some e) ->
     stmt_ok (stage_tgt (S i) t' (upd T i e)) i s e ->
     Inv (S i) t' (upd T i e)).
  { intros e He Hmono Hkeep Hnew. constructor.
    - intros j Hj. unfold upd. replace (Nat.eqb j i) with false by (symmetry; apply Nat.eqb_neq; lia).
      apply (inv_dom _ _ _ HI). lia.
    - intros j s' Hj Hs'. destruct (Nat.eq_dec j i) as [->|Hne].
      + exists e. unfold upd at 1. rewrite Nat.eqb_refl. split; [reflexivity|].
        rewrite Hs in Hs'. inversion Hs'; subst. exact Hnew.
      + destruct (inv_done _ _ _ HI j s' ltac:(lia) Hs') as (ej & Hej & Hok).
        exists ej. split.
        * unfold upd. replace (Nat.eqb j i) with false by (symmetry; apply Nat.eqb_neq; lia). exact Hej.
        * eapply stmt_ok_weaken; [|exact Hok].
          intros d a. apply stage_tgt_step; assumption.
    - intros d Hd Hb. unfold upd. destruct (Nat.eq_dec d i) as [->|Hne].
      + rewrite Nat.eqb_refl. apply Hkeep, Hb.
      + replace (Nat.eqb d i) with false by (symmetry; apply Nat.eqb_neq; lia).
        assert (Hdi : d < i) by lia.
        destruct (Inv_total _ _ _ d HI Hdi ltac:(lia)) as (ed & Hed).
        rewrite Hed. apply Hmono; [exact Hne|].
        rewrite (inv_back _ _ _ HI d Hdi Hb). exact Hed.
    - intros k f Hf. destruct (inv_entry _ _ _ HI k f Hf) as (a & Ha & Hen & Hc).
      exists a. split; [exact Ha|]. split; [exact Hen|]. unfold upd.
      destruct (Nat.ltb_spec (f_entry f) i) as [Hlt|Hge].
      + replace (Nat.ltb (f_entry f) (S i)) with true by (symmetry; apply Nat.ltb_lt; lia).
        replace (Nat.eqb (f_entry f) i) with false by (symmetry; apply Nat.eqb_neq; lia). exact Hc.
      + destruct (Nat.eq_dec (f_entry f) i) as [E|Hne].
        * rewrite E in *. replace (Nat.ltb i (S i)) with true by (symmetry; apply Nat.ltb_lt; lia).
          rewrite Nat.eqb_refl. rewrite He in Hc. exact Hc.
        * replace (Nat.ltb (f_entry f) (S i)) with false by (symmetry; apply Nat.ltb_ge; lia).
          apply Hmono; [exact Hne | exact Hc]. }
  destruct s as [iv|vs]; cbn [process] in Hp.
  - destruct (take_entry back t i (i_args iv)) as [[[[e ts] m] t1]|] eqn:Ht; [|discriminate].
    destruct (take_entry_spec _ _ _ _ _ _ _ Ht) as (He & Htk & Hoth & Hkeep1).
    destruct (basic_structure i iv && tys_eqb ts (i_params iv) && call_ok p iv) eqn:Hc; [|discriminate].
    apply andb_prop in Hc. destruct Hc as [Hc Hcall]. apply andb_prop in Hc. destruct Hc as [Hbs Hty].
    destruct (propagate_all_spec _ _ _ _ _ _ _ Hp) as (Hmono2 & Hall).
    exists e. apply Hfin.
    + exact He.
    + intros x w Hx Hg. apply Hmono2. rewrite Hoth by exact Hx. exact Hg.
    + intros Hb. apply Hmono2, Hkeep1, Hb.
    + cbn [stmt_ok]. exists ts, m. repeat split; try assumption.
      intros b Hb. destruct (Hall b Hb) as (a' & Hpost & Hal & Hself & Hd & (v & Hv & Hsv)).
      exists a'. split; [exact Hpost|]. split; [|exact Hal].
      split; [exact Hd|]. unfold upd.
      destruct (Nat.ltb_spec (b_target b) (S i)) as [Hlt|Hge].
      * destruct (Nat.eq_dec (b_target b) i) as [E|Hne].
        -- rewrite E, Nat.eqb_refl. exists e. split; [reflexivity|]. apply Hself, E.
        -- replace (Nat.eqb (b_target b) i) with false by (symmetry; apply Nat.eqb_neq; lia).
           assert (Hdi : b_target b < i) by lia.
           destruct (Inv_total _ _ _ _ HI Hdi Hd) as (ed & Hed).
           exists ed. split; [exact Hed|].
           assert (Hbk : mem_nat (b_target b) back = true) by (eapply back_ok; eauto).
           pose proof (inv_back _ _ _ HI _ Hdi Hbk) as Hgb. rewrite Hed in Hgb.
           assert (Hg' : tget t' (b_target b) = Some ed).
           { apply Hmono2. rewrite Hoth by exact Hne. exact Hgb. }
           rewrite Hg' in Hv. inversion Hv; subst. exact Hsv.
      * exists v. split; [exact Hv | exact Hsv].
  - destruct (take_entry back t i vs) as [[[[e ts] m] t1]|] eqn:Ht; [|discriminate].
    destruct (take_entry_spec _ _ _ _ _ _ _ Ht) as (He & Htk & Hoth & Hkeep1).
    destruct m as [|? ?]; [|discriminate].
    destruct (nth_error (funcs p) (a_fn e)) as [f|] eqn:Hf; [|discriminate].
    destruct (tracking_eqb (a_track e) (expected_track f) && tys_eqb ts (f_rets f)) eqn:Hc; [|discriminate].
    inversion Hp; subst t'; clear Hp.
    apply andb_prop in Hc. destruct Hc as [Htr Hty].
    exists e. apply Hfin.
    + exact He.
    + intros x w Hx Hg. rewrite Hoth by exact Hx. exact Hg.
    + exact Hkeep1.
    + cbn [stmt_ok]. exists ts, f. repeat split; assumption.
Qed.

Lemma pass_inv l : forall i t T t',
  Inv i t T ->
  (forall k s, nth_error l k = Some s -> stmt_at p (i + k) = Some s) ->
  i + length l = n ->
  pass p n back t i l = Some t' ->
  exists T', Inv n t' T'.
Proof.
  induction l as [|s r IH]; intros i t T t' HI Hl Hlen Hp; cbn in Hp.
  - inversion Hp; subst. cbn in Hlen. replace n with i by lia. eauto.
  - destruct (process p n back t i s) as [t1|] eqn:Hpr; [|discriminate].
    assert (Hs : stmt_at p i = Some s).
    { specialize (Hl 0 s eq_refl). rewrite Nat.add_0_r in Hl. exact Hl. }
    destruct (process_step _ _ _ _ _ HI Hs Hpr) as (e & HI').
    eapply (IH (S i) t1 _ t' HI'); [| cbn in Hlen; lia | exact Hp].
    intros k s' Hk. replace (S i + k) with (i + S k) by lia. apply Hl. exact Hk.
Qed.

End Closed.

(* ---------- ProgramAnnotations::create ---------- *)
Lemma init_ann_conv k f a : init_ann k f = Some a -> a_conv a = false.
Proof. unfold init_ann. destruct (cost_ok f); [|discriminate]. destruct (vm_of_params _ _); [|discriminate]. intros H; inversion H; reflexivity. Qed.

Lemma create_spec p fs : forall t k t',
  (forall x v, tget t x = Some v -> a_conv v = false) ->
  create (length (stmts p)) t k fs = Some t' ->
  (forall x v, tget t x = Some v -> tget t' x = Some v)
  /\ (forall x v, tget t' x = Some v -> a_conv v = false)
  /\ forall j f, nth_error fs j = Some f ->
       exists a, init_ann (k + j) f = Some a /\ tget t' (f_entry f) = Some a
                 /\ f_entry f < length (stmts p).
Proof.
  induction fs as [|f r IH]; intros t k t' Hc H; cbn in H.
  - inversion H; subst. split; [auto|]. split; [exact Hc|]. intros j f Hj. destruct j; discriminate.
  - destruct (init_ann k f) as [a|] eqn:Hi; [|discriminate].
    destruct (set_or_assert (length (stmts p)) t (f_entry f) a) as [t1|] eqn:Hs; [|discriminate].
    assert (Hnone : tget t (f_entry f) = None).
    { unfold set_or_assert in Hs. destruct (Nat.ltb _ _); [|discriminate].
      destruct (tget t (f_entry f)) as [ex|] eqn:Hg; [|reflexivity].
      unfold ann_consistent in Hs. rewrite (Hc _ _ Hg) in Hs. rewrite andb_false_r in Hs. discriminate. }
    assert (Ht1 : t1 = tset t (f_entry f) a /\ f_entry f < length (stmts p)).
    { unfold set_or_assert in Hs. destruct (Nat.ltb_spec (f_entry f) (length (stmts p))); [|discriminate].
      rewrite Hnone in Hs. inversion Hs. auto. }
    destruct Ht1 as [-> Hlt].
    assert (Hc1 : forall x v, tget (tset t (f_entry f) a) x = Some v -> a_conv v = false).
    { intros x v Hx. destruct (Nat.eq_dec (f_entry f) x) as [<-|Hne].
      - rewrite tget_tset_same in Hx. inversion Hx; subst. eapply init_ann_conv; eauto.
      - rewrite tget_tset_other in Hx by exact Hne. eapply Hc; eauto. }
    destruct (IH _ _ _ Hc1 H) as (Hm & Hc' & Hall).
    split.
    + intros x v Hx. apply Hm. destruct (Nat.eq_dec (f_entry f) x) as [<-|Hne].
      * rewrite Hnone in Hx. discriminate.
      * rewrite tget_tset_other by exact Hne. exact Hx.
    + split; [exact Hc'|].
      intros j f' Hj. destruct j as [|j]; cbn in Hj.
      * inversion Hj; subst f'. exists a. rewrite Nat.add_0_r. split; [exact Hi|]. split; [|exact Hlt].
        apply Hm. apply tget_tset_same.
      * destruct (Hall j f' Hj) as (a' & Ha' & Hg' & Hl'). exists a'.
        replace (k + S j) with (S k + j) by lia. auto.
Qed.

(* ---------- backwards-jump targets ---------- *)
Lemma mem_nat_In x l : mem_nat x l = true <-> In x l.
Proof.
  unfold mem_nat. rewrite existsb_exists. split.
  - intros (y & Hy & E). apply Nat.eqb_eq in E. subst. exact Hy.
  - intros H. exists x. split; [exact H | apply Nat.eqb_refl].
Qed.

Lemma back_targets_spec l : forall i0 k iv b,
  nth_error l k = Some (SInvoke iv) -> In b (i_branches iv) -> b_target b < i0 + k ->
  In (b_target b) (back_targets_from i0 l).
Proof.
  induction l as [|s r IH]; intros i0 k iv b Hk Hb Hlt; [destruct k; discriminate|].
  cbn. apply in_or_app. destruct k as [|k]; cbn in Hk.
  - inversion Hk; subst s. left. apply filter_In. split.
    + apply in_map. exact Hb.
    + apply Nat.ltb_lt. lia.
  - right. apply (IH (S i0) k iv b Hk Hb). lia.
Qed.

(* ---------- the closure theorem ---------- *)
Theorem accepts_closed p : annot_accepts p = true -> exists T, Closed p T.
Proof.
  unfold annot_accepts. set (n := length (stmts p)). set (back := back_targets_from 0 (stmts p)).
  destruct (create n (PositiveMap.empty ann) 0 (funcs p)) as [t0|] eqn:Hc; [|discriminate].
  destruct (pass p n back t0 0 (stmts p)) as [t1|] eqn:Hp; [|discriminate].
  intros _.
  assert (Hback : forall i iv b, stmt_at p i = Some (SInvoke iv) -> In b (i_branches iv) ->
                    b_target b < i -> mem_nat (b_target b) back = true).
  { intros i iv b Hs Hb Hlt. apply mem_nat_In. unfold back.
    apply (back_targets_spec (stmts p) 0 i iv b Hs Hb). lia. }
  destruct (create_spec p (funcs p) (PositiveMap.empty ann) 0 t0) as (_ & _ & Hent).
  { intros x v Hx. rewrite tget_empty in Hx. discriminate. }
  { exact Hc. }
  assert (HI0 : Inv p back 0 t0 (fun _ => None)).
  { constructor.
    - reflexivity.
    - intros j s Hj. lia.
    - intros d Hd. lia.
    - intros k f Hf. destruct (Hent k f Hf) as (a & Ha & Hg & Hl). exists a. cbn in Ha. auto. }
  destruct (pass_inv p back Hback (stmts p) 0 t0 _ t1 HI0) as (T & HI).
  { intros k s Hk. exact Hk. }
  { reflexivity. }
  { exact Hp. }
  exists T. split.
  - intros i s Hs.
    assert (Hi : i < n). { unfold n. apply nth_error_Some. unfold stmt_at in Hs. congruence. }
    destruct (inv_done _ _ _ _ _ HI i s Hi Hs) as (e & He & Hok).
    exists e. split; [exact He|].
    eapply stmt_ok_weaken; [|exact Hok].
    intros d a [Hd H]. split; [exact Hd|].
    replace (Nat.ltb d (length (stmts p))) with true in H by (symmetry; apply Nat.ltb_lt; exact Hd).
    exact H.
  - intros k f Hf. destruct (inv_entry _ _ _ _ _ HI k f Hf) as (a & Ha & Hen & Hc').
    exists a. split; [exact Ha|]. split; [|exact Hen].
    replace (Nat.ltb (f_entry f) (length (stmts p))) with true in Hc' by (symmetry; apply Nat.ltb_lt; exact Hen).
    exact Hc'.
Qed.
