(* Sierra/Sem.v -- an abstract Sierra machine, independent of the checker's data structures, and the
   three consequences of acceptance:
     C15  every reachable configuration is well-typed and never stuck; paths that merge agree;
     C17  a function with declared ap change k moves ap by exactly k on every complete execution;
     C04  actual cost minus gas withdrawn never exceeds the declared entry cost (wallet potential).
   The machine is parameterised by what a libfunc branch may do dynamically ([branch_dyn]): exactly
   the declared ap change when it is Known, and an actual cost (net of gas withdrawn from the
   counter) of at most the declared branch cost.  Those are the libfunc-level obligations
   (libfunc_ap_ok / libfunc_cost_ok of DESIGN.md); function calls are not assumed but derived from
   the callee's own complete execution. *)
From Coq Require Import ZArith List Bool Lia PArith.
From Sierra Require Import Annot Closure Vmap.
Import ListNotations.
Local Open Scope Z_scope.

Section Machine.
Variable p : program.
Variable prices : list Z.                         (* gas price of each cost token *)
Hypothesis prices_nonneg : Forall (fun x => 0 <= x) prices.

Fixpoint price_with (ps w : list Z) : Z :=
  match ps, w with
  | q :: ps', x :: w' => q * x + price_with ps' w'
  | _, _ => 0
  end.
Definition price (w : list Z) : Z := price_with prices w.

Record cfg := { c_pc : nat; c_vars : fstate; c_ap : Z; c_cost : Z }.

Definition init_cfg (f : func) (s0 : fstate) : cfg :=
  {| c_pc := f_entry f; c_vars := s0; c_ap := 0; c_cost := 0 |}.

(* semantic meaning of the parameter list: start from the empty state and add each parameter *)
Fixpoint s_params (ps : list (var * ty)) (s : fstate) : option fstate :=
  match ps with
  | [] => Some s
  | (x, t) :: r => match s x with Some _ => None | None => s_params r (fadd s x t) end
  end.

(* what a non-call libfunc branch may do *)
Definition branch_dyn (b : branch) (dap dcost : Z) : Prop :=
  (forall k, b_ap b = Some k -> dap = k) /\ dcost <= price (b_gas b).

Inductive reach : nat -> cfg -> Prop :=
| reach_init k f s0 :
    nth_error (funcs p) k = Some f -> s_params (f_params f) (fun _ => None) = Some s0 ->
    reach k (init_cfg f s0)
| reach_step k c iv b ts s1 s2 dap dcost :
    reach k c ->
    stmt_at p (c_pc c) = Some (SInvoke iv) -> In b (i_branches iv) ->
    (forall g, i_kind iv <> LfCall g) ->
    s_take (c_vars c) (i_args iv) = Some (ts, s1) ->
    s_put s1 (b_results b) (b_outs b) = Some s2 ->
    branch_dyn b dap dcost ->
    reach k {| c_pc := b_target b; c_vars := s2; c_ap := c_ap c + dap; c_cost := c_cost c + dcost |}
| reach_call k c iv b ts s1 s2 g cg vs :
    reach k c ->
    stmt_at p (c_pc c) = Some (SInvoke iv) -> In b (i_branches iv) ->
    i_kind iv = LfCall g ->
    s_take (c_vars c) (i_args iv) = Some (ts, s1) ->
    s_put s1 (b_results b) (b_outs b) = Some s2 ->
    (* the callee runs to one of its return statements *)
    reach g cg -> stmt_at p (c_pc cg) = Some (SReturn vs) ->
    reach k {| c_pc := b_target b; c_vars := s2;
               c_ap := c_ap c + (c_ap cg + 2);
               c_cost := c_cost c + (c_cost cg + price call_overhead) |}.

(* a configuration is safe when its statement can execute: arguments present with exactly the
   declared types, results fresh, targets inside the program and aligned for multi-branch
   libfuncs; a return leaves nothing behind and returns exactly the declared types *)
Definition safe (k : nat) (c : cfg) : Prop :=
  match stmt_at p (c_pc c) with
  | None => False
  | Some (SInvoke iv) =>
      exists s1, s_take (c_vars c) (i_args iv) = Some (i_params iv, s1)
        /\ forall b, In b (i_branches iv) ->
             (exists s2, s_put s1 (b_results b) (b_outs b) = Some s2)
             /\ (b_target b < length (stmts p))%nat
             /\ (multi iv = true -> is_align (stmt_at p (b_target b)) = true)
  | Some (SReturn vs) =>
      exists f s1, nth_error (funcs p) k = Some f
        /\ s_take (c_vars c) vs = Some (f_rets f, s1) /\ forall x, s1 x = None
  end.

Variable T : nat -> option ann.
Hypothesis HC : Closed p T.

(* the invariant tying a reachable configuration to the table *)
Definition tied (k : nat) (c : cfg) : Prop :=
  (c_pc c < length (stmts p))%nat /\
  exists e, T (c_pc c) = Some e /\ a_fn e = k /\ sorted (a_vars e)
    /\ fequiv (c_vars c) (den (a_vars e))
    /\ (forall a, a_track e = Enabled a None -> c_ap c = a)
    /\ (forall f, nth_error (funcs p) k = Some f -> (a_wallet e = None <-> f_cost f = None))
    /\ (forall f w cf, nth_error (funcs p) k = Some f -> a_wallet e = Some w -> f_cost f = Some cf ->
          vnonneg w = true /\ c_cost c + price w <= price cf).

Lemma price_with_vsub ps : forall a b,
  price_with ps (vsub a b) = price_with ps a - price_with ps b.
Proof.
  induction ps as [|q ps IH]; intros a b; [destruct a, b; reflexivity|].
  destruct a as [|x a], b as [|y b]; cbn.
  - reflexivity.
  - specialize (IH [] b). cbn in IH. destruct ps; cbn in *; lia.
  - destruct ps; cbn; lia.
  - rewrite IH. lia.
Qed.

Lemma price_with_vzero ps : forall a, vzero a = true -> price_with ps a = 0.
Proof.
  induction ps as [|q ps IH]; intros a H; [destruct a; reflexivity|].
  destruct a as [|x a]; cbn in *; [reflexivity|].
  apply andb_prop in H. destruct H as [H1 H2]. apply Z.eqb_eq in H1. subst. rewrite IH by exact H2. lia.
Qed.

Lemma price_with_veqb ps : forall a b, veqb a b = true -> price_with ps a = price_with ps b.
Proof.
  induction ps as [|q ps IH]; intros a b H; [destruct a, b; reflexivity|].
  destruct a as [|x a], b as [|y b]; cbn in *.
  - reflexivity.
  - apply andb_prop in H. destruct H as [H1 H2]. apply Z.eqb_eq in H1. subst.
    rewrite (price_with_vzero ps b H2). lia.
  - apply andb_prop in H. destruct H as [H1 H2]. apply Z.eqb_eq in H1. subst.
    rewrite (price_with_vzero ps a H2). lia.
  - apply andb_prop in H. destruct H as [H1 H2]. apply Z.eqb_eq in H1. subst.
    rewrite (IH a b H2). reflexivity.
Qed.

Lemma price_with_nonneg ps : Forall (fun x => 0 <= x) ps ->
  forall a, vnonneg a = true -> 0 <= price_with ps a.
Proof.
  induction 1 as [|q ps Hq Hps IH]; intros a H; [destruct a; cbn; lia|].
  destruct a as [|x a]; cbn in *; [lia|].
  apply andb_prop in H. destruct H as [H1 H2]. apply Z.leb_le in H1.
  specialize (IH a H2). nia.
Qed.

Lemma veqb_vnonneg : forall a b, veqb a b = true -> vnonneg b = true -> vnonneg a = true.
Proof.
  induction a as [|x a IH]; intros b H Hb; [reflexivity|].
  destruct b as [|y b]; cbn in *.
  - apply andb_prop in H. destruct H as [H1 H2]. apply Z.eqb_eq in H1. subst. cbn.
    clear IH. induction a as [|z a IHa]; cbn in *; [reflexivity|].
    apply andb_prop in H2. destruct H2 as [H3 H4]. apply Z.eqb_eq in H3. subst. cbn. apply IHa, H4.
  - apply andb_prop in H. destruct H as [H1 H2]. apply Z.eqb_eq in H1. subst.
    apply andb_prop in Hb. destruct Hb as [Hb1 Hb2]. rewrite Hb1. cbn. eapply IH; eauto.
Qed.

Lemma vadd_price ps : forall a b, price_with ps (vadd a b) = price_with ps a + price_with ps b.
Proof.
  induction ps as [|q ps IH]; intros a b; [destruct a, b; reflexivity|].
  destruct a as [|x a], b as [|y b]; cbn; try lia.
  rewrite IH. lia.
Qed.

(* unpacking [same] *)
Lemma same_unpack e' a' : same e' a' ->
  a_fn e' = a_fn a' /\ a_track e' = a_track a'
  /\ opt_eqb veqb (a_wallet e') (a_wallet a') = true /\ a_vars a' = a_vars e'.
Proof.
  unfold same, same_annb. intros H.
  apply andb_prop in H. destruct H as [H H4]. apply andb_prop in H. destruct H as [H H3].
  apply andb_prop in H. destruct H as [H1 H2].
  apply Nat.eqb_eq in H1. apply tracking_eqb_eq in H2. apply vmap_eqb_eq in H4. auto.
Qed.

(* one local step preserves [tied]; [dap]/[dcost] are only constrained through the two facts the
   caller provides *)
Lemma tied_step k c iv b ts s1 s2 dap dcost :
  tied k c ->
  stmt_at p (c_pc c) = Some (SInvoke iv) -> In b (i_branches iv) ->
  s_take (c_vars c) (i_args iv) = Some (ts, s1) ->
  s_put s1 (b_results b) (b_outs b) = Some s2 ->
  (forall x, b_ap b = Some x -> dap = x) ->
  (forall e, T (c_pc c) = Some e -> a_wallet e <> None -> dcost <= price (b_gas b)) ->
  tied k {| c_pc := b_target b; c_vars := s2; c_ap := c_ap c + dap; c_cost := c_cost c + dcost |}.
Proof.
  intros (Hpc & e & HT & Hfn & Hsort & Hvars & Hap & Hpres & Hcost) Hs Hb Htake Hput Hdap Hdcost.
  destruct HC as [HC1 _].
  destruct (HC1 _ _ Hs) as (e0 & HT0 & Hok). rewrite HT in HT0. inversion HT0; subst e0; clear HT0.
  cbn [stmt_ok] in Hok. destruct Hok as (ts0 & m & Htk & Hty & Hbs & Hcall & Hbr).
  destruct (Hbr b Hb) as (a' & Hpost & (Hd & e' & HTd & Hsame) & _).
  destruct (same_unpack _ _ Hsame) as (Sfn & Str & Sw & Sv).
  (* relate the semantic take/put to the checker's *)
  destruct (take_vars_sem _ _ _ _ Hsort Htk) as (Hsm & sA & HsA & HeA).
  pose proof (s_take_equiv (i_args iv) _ _ Hvars) as Q. rewrite Htake, HsA in Q.
  destruct Q as [-> Q].
  unfold post in Hpost.
  destruct (put_vars m (b_results b) (b_outs b)) as [m'|] eqn:Hpv; [|discriminate].
  destruct (track_update (a_track e) (b_track b) (b_ap b) (b_target b)) as [tr'|] eqn:Htr; [|discriminate].
  destruct (wallet_update (a_wallet e) (b_gas b)) as [w'|] eqn:Hw; [|discriminate].
  inversion Hpost; subst a'; clear Hpost. cbn in Sfn, Str, Sw, Sv.
  destruct (put_vars_sem _ _ _ _ Hsm Hpv) as (Hsm' & sB & HsB & HeB).
  assert (E1 : fequiv s1 (den m)) by (intros z; rewrite Q; apply HeA).
  pose proof (s_put_equiv (b_results b) (b_outs b) _ _ E1) as Q2. rewrite Hput, HsB in Q2.
  split; [exact Hd|].
  exists e'. cbn. split; [exact HTd|]. split; [congruence|]. split; [rewrite <- Sv; exact Hsm'|].
  split; [intros z; rewrite Q2, <- Sv; apply HeB|]. split; [|split].
  - (* ap *)
    intros a Ha. rewrite Str in Ha.
    unfold track_update in Htr. destruct (b_track b).
    + destruct (a_track e) as [|c0 base] eqn:Hte.
      * inversion Htr; subst; congruence.
      * destruct (b_ap b) as [x|] eqn:Hbap.
        -- assert (Etr : tr' = Enabled (c0 + x) base) by congruence.
           rewrite Etr in Ha. injection Ha as Ea Eb. subst base. rewrite <- Ea.
           rewrite (Hap c0 eq_refl), (Hdap x eq_refl). reflexivity.
        -- inversion Htr; subst; congruence.
    + destruct (a_track e); inversion Htr; subst; congruence.
    + inversion Htr; subst; congruence.
  - (* wallet presence *)
    intros f Hf. rewrite <- (Hpres f Hf).
    unfold wallet_update in Hw. destruct (a_wallet e) as [w0|].
    + destruct (vnonneg (vsub w0 (b_gas b))); [|discriminate]. inversion Hw; subst w'.
      destruct (a_wallet e'); [|discriminate]. split; discriminate.
    + inversion Hw; subst w'. destruct (a_wallet e'); [discriminate|]. split; reflexivity.
  - (* cost *)
    intros f w cf Hf Hwal Hcf.
    unfold wallet_update in Hw. destruct (a_wallet e) as [w0|] eqn:Hw0.
    + destruct (vnonneg (vsub w0 (b_gas b))) eqn:Hnn; [|discriminate].
      inversion Hw; subst w'. rewrite Hwal in Sw. cbn in Sw.
      destruct (Hcost f w0 cf Hf eq_refl Hcf) as [_ Hc0].
      split; [eapply veqb_vnonneg; eauto|].
      assert (Hdc : dcost <= price (b_gas b)) by (apply (Hdcost e HT); rewrite Hw0; discriminate).
      unfold price in *. rewrite (price_with_veqb _ _ _ Sw), price_with_vsub. lia.
    + inversion Hw; subst w'. rewrite Hwal in Sw. discriminate.
Qed.

Lemma s_params_sem ps : forall m m' s, sorted m -> fequiv s (den m) ->
  vm_of_params ps m = Some m' ->
  forall s', s_params ps s = Some s' -> fequiv s' (den m').
Proof.
  induction ps as [|[x t] r IH]; intros m m' s Hs He H s' Hp; cbn in *.
  - inversion H; inversion Hp; subst. exact He.
  - destruct (vm_insert m x t) as [m1|] eqn:Hin; [|discriminate].
    destruct (vm_insert_spec _ None _ _ _ Hs I Hin) as (Hg & Hs1 & He1).
    destruct (s x) eqn:Hsx; [discriminate|].
    eapply (IH m1 m' (fadd s x t)); eauto.
    intros z. rewrite He1. unfold fadd. rewrite He. reflexivity.
Qed.

Hypothesis gas_uniform :
  (* either gas checking is on for every function or for none (the compiler's single flag) *)
  forall k f g fg, nth_error (funcs p) k = Some f -> nth_error (funcs p) g = Some fg ->
    f_cost f <> None -> f_cost fg <> None.

Theorem reach_tied k c : reach k c -> tied k c.
Proof.
  induction 1 as [k f s0 Hf Hp | k c iv b ts s1 s2 dap dcost Hr IH Hs Hb Hk Htake Hput Hdyn
                 | k c iv b ts s1 s2 g cg vs Hr IH Hs Hb Hk Htake Hput Hrg IHg Hret].
  - destruct HC as [_ HC2]. destruct (HC2 _ _ Hf) as (a & Hia & HTa & Hlt).
    unfold init_ann in Hia. destruct (cost_ok f) eqn:Hco; [|discriminate].
    destruct (vm_of_params (f_params f) []) as [m|] eqn:Hvp; [|discriminate].
    inversion Hia; subst a; clear Hia.
    split; [exact Hlt|].
    exists {| a_vars := m; a_fn := k; a_conv := false; a_track := Enabled 0 None; a_wallet := f_cost f |}.
    cbn. split; [exact HTa|]. split; [reflexivity|].
    split; [eapply vm_of_params_sorted; [|exact Hvp]; exact I|].
    split; [eapply (s_params_sem _ [] m (fun _ => None)); eauto; [exact I | intros z; reflexivity]|].
    split; [intros a Ha; inversion Ha; reflexivity|].
    split; [intros f' Hf'; rewrite Hf in Hf'; inversion Hf'; subst f'; reflexivity|].
    intros f' w cf Hf' Hw Hcf. rewrite Hf in Hf'. inversion Hf'; subst f'.
    rewrite Hw in Hcf. inversion Hcf; subst cf.
    unfold cost_ok in Hco. rewrite Hw in Hco. split; [exact Hco|lia].
  - destruct Hdyn as [Hd1 Hd2]. eapply tied_step; eauto.
  - (* call: derive the dynamic facts from the callee's own execution *)
    pose proof IH as IH0.
    destruct IH as (Hpc & e & HT & Hfn & Hsort & Hvars & Hap & Hpres & Hcost).
    destruct HC as [HC1 _].
    destruct (HC1 _ _ Hs) as (e0 & HT0 & Hok). rewrite HT in HT0. inversion HT0; subst e0; clear HT0.
    cbn [stmt_ok] in Hok. destruct Hok as (ts0 & m & Htk & Hty & Hbs & Hcall & Hbr).
    (* callee at its return *)
    destruct IHg as (Hpcg & eg & HTg & Hfng & Hsortg & Hvarsg & Hapg & Hpresg & Hcostg).
    destruct (HC1 _ _ Hret) as (eg0 & HTg0 & Hokg). rewrite HTg in HTg0. inversion HTg0; subst eg0; clear HTg0.
    cbn [stmt_ok] in Hokg. destruct Hokg as (tsg & fg & Htkg & Hfg & Htrg & Htyg).
    rewrite Hfng in Hfg.
    unfold call_ok in Hcall. rewrite Hk, Hfg in Hcall.
    destruct (i_branches iv) as [|b0 [|b1 rest]] eqn:Hbrs; try discriminate.
    destruct Hb as [<-|[]].
    apply andb_prop in Hcall. destruct Hcall as [Hcall Hc4]. apply andb_prop in Hcall. destruct Hcall as [Hcall Hc3].
    apply andb_prop in Hcall. destruct Hcall as [Hc1 Hc2].
    apply tracking_eqb_eq in Htrg.
    eapply (tied_step k c iv b0 ts s1 s2 (c_ap cg + 2) (c_cost cg + price call_overhead)); eauto.
    + rewrite Hbrs. left. reflexivity.
    + intros x Hx. rewrite Hx in Hc1. destruct (f_ap fg) as [kg|] eqn:Hkg; [|discriminate].
      apply Z.eqb_eq in Hc1. subst x.
      unfold expected_track in Htrg. rewrite Hkg in Htrg. rewrite (Hapg kg Htrg). reflexivity.
    + (* cost of the call *)
      intros e1 HT1 Hw1. rewrite HT in HT1. inversion HT1; subst e1; clear HT1.
      (* the caller has a wallet, so its function has a cost, so (single flag) the callee has one *)
      assert (Hfk : exists f, nth_error (funcs p) k = Some f).
      { clear - Hr. induction Hr; eauto. }
      destruct Hfk as (f & Hf).
      assert (Hcf : f_cost f <> None) by (intros E; apply Hw1, (Hpres f Hf), E).
      pose proof (gas_uniform k f g fg Hf Hfg Hcf) as Hcgn.
      destruct (f_cost fg) as [cg0|] eqn:Hcg; [|congruence].
      destruct (a_wallet eg) as [wg|] eqn:Hwg.
      * destruct (Hcostg fg wg cg0 Hfg eq_refl Hcg) as [Hnn Hle].
        pose proof (price_with_nonneg prices prices_nonneg _ Hnn) as Hp0.
        unfold vge in Hc2.
        pose proof (price_with_nonneg prices prices_nonneg _ Hc2) as Hp1.
        unfold price in *. rewrite price_with_vsub, vadd_price in Hp1. lia.
      * exfalso. destruct (Hpresg fg Hfg) as [Hx _]. specialize (Hx eq_refl). congruence.
Qed.


Lemma reach_fn k c : reach k c -> exists f, nth_error (funcs p) k = Some f.
Proof. induction 1; eauto. Qed.

(* ---- C15: never stuck, exactly typed, nothing left over ---- *)
Theorem reach_safe k c : reach k c -> safe k c.
Proof.
  intros Hr. destruct (reach_tied _ _ Hr) as (Hpc & e & HT & Hfn & Hsort & Hvars & _).
  unfold safe. destruct (stmt_at p (c_pc c)) as [s|] eqn:Hs.
  2:{ unfold stmt_at in Hs. apply nth_error_None in Hs. lia. }
  destruct HC as [HC1 _]. destruct (HC1 _ _ Hs) as (e0 & HT0 & Hok).
  rewrite HT in HT0. inversion HT0; subst e0; clear HT0.
  destruct s as [iv|vs]; cbn [stmt_ok] in Hok.
  - destruct Hok as (ts & m & Htk & Hty & Hbs & Hcall & Hbr).
    apply tys_eqb_eq in Hty. subst ts.
    destruct (take_vars_sem _ _ _ _ Hsort Htk) as (Hsm & sA & HsA & HeA).
    pose proof (s_take_equiv (i_args iv) _ _ Hvars) as Q. rewrite HsA in Q.
    destruct (s_take (c_vars c) (i_args iv)) as [[ts1 s1]|]; [|contradiction].
    destruct Q as [-> Q]. exists s1. split; [reflexivity|].
    intros b Hb. destruct (Hbr b Hb) as (a' & Hpost & (Hd & _) & Hal).
    split; [|split; [exact Hd | exact Hal]].
    unfold post in Hpost.
    destruct (put_vars m (b_results b) (b_outs b)) as [m'|] eqn:Hpv; [|discriminate].
    destruct (put_vars_sem _ _ _ _ Hsm Hpv) as (_ & sB & HsB & _).
    assert (E1 : fequiv s1 (den m)) by (intros z; rewrite Q; apply HeA).
    pose proof (s_put_equiv (b_results b) (b_outs b) _ _ E1) as Q2. rewrite HsB in Q2.
    destruct (s_put s1 (b_results b) (b_outs b)) as [s2|]; [eauto|contradiction].
  - destruct Hok as (ts & f & Htk & Hf & Htr & Hty).
    apply tys_eqb_eq in Hty. subst ts. rewrite Hfn in Hf.
    destruct (take_vars_sem _ _ _ _ Hsort Htk) as (_ & sA & HsA & HeA).
    pose proof (s_take_equiv vs _ _ Hvars) as Q. rewrite HsA in Q.
    destruct (s_take (c_vars c) vs) as [[ts1 s1]|]; [|contradiction].
    destruct Q as [-> Q]. exists f, s1. split; [exact Hf|]. split; [reflexivity|].
    intros x. rewrite Q, HeA. reflexivity.
Qed.

(* paths that merge agree on the set and types of live variables *)
Theorem reach_merge k c1 c2 :
  reach k c1 -> reach k c2 -> c_pc c1 = c_pc c2 -> fequiv (c_vars c1) (c_vars c2).
Proof.
  intros H1 H2 E.
  destruct (reach_tied _ _ H1) as (_ & e1 & HT1 & _ & _ & Hv1 & _).
  destruct (reach_tied _ _ H2) as (_ & e2 & HT2 & _ & _ & Hv2 & _).
  rewrite E, HT2 in HT1. inversion HT1; subst e2.
  intros x. rewrite Hv1, Hv2. reflexivity.
Qed.

(* ---- C17: declared function ap change = actual ap movement at every return ---- *)
Theorem reach_ap_exact k c f vs a :
  reach k c -> stmt_at p (c_pc c) = Some (SReturn vs) ->
  nth_error (funcs p) k = Some f -> f_ap f = Some a -> c_ap c = a.
Proof.
  intros Hr Hs Hf Ha.
  destruct (reach_tied _ _ Hr) as (_ & e & HT & Hfn & _ & _ & Hap & _).
  destruct HC as [HC1 _]. destruct (HC1 _ _ Hs) as (e0 & HT0 & Hok).
  rewrite HT in HT0. inversion HT0; subst e0; clear HT0.
  cbn [stmt_ok] in Hok. destruct Hok as (ts & f' & _ & Hf' & Htr & _).
  rewrite Hfn, Hf in Hf'. inversion Hf'; subst f'.
  apply tracking_eqb_eq in Htr. unfold expected_track in Htr. rewrite Ha in Htr.
  apply Hap, Htr.
Qed.

(* ---- C04: actual cost, net of gas withdrawn from the counter, is covered by the entry cost ---- *)
Theorem reach_cost_bound k c f cf :
  reach k c -> nth_error (funcs p) k = Some f -> f_cost f = Some cf ->
  c_cost c <= price cf.
Proof.
  intros Hr Hf Hcf.
  destruct (reach_tied _ _ Hr) as (_ & e & HT & Hfn & _ & _ & _ & Hpres & Hcost).
  destruct (a_wallet e) as [w|] eqn:Hw.
  - destruct (Hcost f w cf Hf eq_refl Hcf) as [Hnn Hle].
    pose proof (price_with_nonneg prices prices_nonneg _ Hnn). unfold price in *. lia.
  - destruct (Hpres f Hf) as [Hx _]. specialize (Hx eq_refl). congruence.
Qed.

End Machine.

(* ---------- from acceptance ---------- *)
Definition gas_uniform (p : program) : Prop :=
  forall k f g fg, nth_error (funcs p) k = Some f -> nth_error (funcs p) g = Some fg ->
    f_cost f <> None -> f_cost fg <> None.

Definition gas_uniformb (p : program) : bool :=
  forallb (fun f => match f_cost f with Some _ => true | None => false end) (funcs p)
  || forallb (fun f => match f_cost f with Some _ => false | None => true end) (funcs p).

Lemma gas_uniformb_ok p : gas_uniformb p = true -> gas_uniform p.
Proof.
  unfold gas_uniformb, gas_uniform. intros H k f g fg Hf Hg Hc.
  apply orb_prop in H. destruct H as [H|H]; rewrite forallb_forall in H.
  - specialize (H fg (nth_error_In _ _ Hg)). destruct (f_cost fg); [discriminate|discriminate].
  - specialize (H f (nth_error_In _ _ Hf)). destruct (f_cost f); [discriminate|congruence].
Qed.

Theorem accepted_safe p prices :
  annot_accepts p = true -> gas_uniformb p = true -> Forall (fun x => 0 <= x) prices ->
  forall k c, reach p prices k c -> safe p k c.
Proof.
  intros Ha Hg Hp k c Hr. destruct (accepts_closed p Ha) as (T & HT).
  eapply reach_safe; eauto. apply gas_uniformb_ok, Hg.
Qed.

Theorem accepted_merge p prices :
  annot_accepts p = true -> gas_uniformb p = true -> Forall (fun x => 0 <= x) prices ->
  forall k c1 c2, reach p prices k c1 -> reach p prices k c2 -> c_pc c1 = c_pc c2 ->
  fequiv (c_vars c1) (c_vars c2).
Proof.
  intros Ha Hg Hp k c1 c2 H1 H2 E. destruct (accepts_closed p Ha) as (T & HT).
  eapply reach_merge; eauto. apply gas_uniformb_ok, Hg.
Qed.

Theorem accepted_ap_exact p prices :
  annot_accepts p = true -> gas_uniformb p = true -> Forall (fun x => 0 <= x) prices ->
  forall k c f vs a, reach p prices k c -> stmt_at p (c_pc c) = Some (SReturn vs) ->
  nth_error (funcs p) k = Some f -> f_ap f = Some a -> c_ap c = a.
Proof.
  intros Ha Hg Hp k c f vs a Hr Hs Hf Hfa. destruct (accepts_closed p Ha) as (T & HT).
  eapply reach_ap_exact; eauto. apply gas_uniformb_ok, Hg.
Qed.

Theorem accepted_cost_bound p prices :
  annot_accepts p = true -> gas_uniformb p = true -> Forall (fun x => 0 <= x) prices ->
  forall k c f cf, reach p prices k c -> nth_error (funcs p) k = Some f -> f_cost f = Some cf ->
  c_cost c <= price prices cf.
Proof.
  intros Ha Hg Hp k c f cf Hr Hf Hcf. destruct (accepts_closed p Ha) as (T & HT).
  eapply reach_cost_bound; eauto. apply gas_uniformb_ok, Hg.
Qed.
