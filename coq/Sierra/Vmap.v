(* Sierra/Vmap.v -- the sorted association lists of the checker denote finite maps; take_vars /
   put_vars on them compute the semantic take / put on functions [var -> option ty]. *)
From Coq Require Import ZArith List Bool Lia PArith.
From Sierra Require Import Annot.
Import ListNotations.

Definition fstate := var -> option ty.
Definition den (m : vmap) : fstate := vm_get m.
Definition fremove (s : fstate) (x : var) : fstate := fun y => if Pos.eqb y x then None else s y.
Definition fadd (s : fstate) (x : var) (t : ty) : fstate := fun y => if Pos.eqb y x then Some t else s y.
Definition fequiv (a b : fstate) : Prop := forall x, a x = b x.

(* semantic (machine-level) take and put *)
Fixpoint s_take (s : fstate) (ids : list var) : option (list ty * fstate) :=
  match ids with
  | [] => Some ([], s)
  | x :: r => match s x with
              | None => None
              | Some t => match s_take (fremove s x) r with
                          | Some (ts, s') => Some (t :: ts, s') | None => None end
              end
  end.
Fixpoint s_put (s : fstate) (ids : list var) (ts : list ty) : option fstate :=
  match ids, ts with
  | [], [] => Some s
  | x :: r, t :: tr => match s x with Some _ => None | None => s_put (fadd s x t) r tr end
  | _, _ => None
  end.

(* strictly increasing keys, all above a bound *)
Fixpoint sorted_from (lo : option var) (m : vmap) : Prop :=
  match m with
  | [] => True
  | (y, _) :: r => (match lo with Some l => Pos.lt l y | None => True end) /\ sorted_from (Some y) r
  end.
Definition sorted (m : vmap) : Prop := sorted_from None m.

Lemma sorted_from_weaken lo lo' m :
  (match lo', lo with Some a, Some b => Pos.le a b | None, _ => True | Some _, None => False end) ->
  sorted_from lo m -> sorted_from lo' m.
Proof.
  destruct m as [|[y t] r]; cbn; [auto|]. intros H [H1 H2]. split; [|exact H2].
  destruct lo' as [a|]; [|exact I]. destruct lo as [b|]; [|contradiction]. lia.
Qed.

Lemma vm_get_below lo m x :
  sorted_from (Some lo) m -> Pos.le x lo -> vm_get m x = None.
Proof.
  destruct m as [|[y t] r]; cbn; [reflexivity|]. intros [H1 _] Hx.
  destruct (Pos.eqb_spec x y); [lia|]. destruct (Pos.ltb_spec x y); [reflexivity|lia].
Qed.

Lemma vm_remove_spec m : forall lo x t m',
  sorted_from lo m -> vm_remove m x = Some (t, m') ->
  vm_get m x = Some t /\ sorted_from lo m' /\ fequiv (den m') (fremove (den m) x).
Proof.
  induction m as [|[y ty0] r IH]; intros lo x t m' Hs H; cbn in H; [discriminate|].
  cbn in Hs. destruct Hs as [Hlo Hr].
  cbn [vm_get]. destruct (Pos.eqb_spec x y) as [->|Hne].
  - inversion H; subst. split; [reflexivity|]. split.
    + eapply sorted_from_weaken; [|exact Hr]. destruct lo; [lia|exact I].
    + intros z. unfold den, fremove. cbn [vm_get].
      destruct (Pos.eqb_spec z y) as [->|Hz].
      * eapply vm_get_below; [exact Hr|lia].
      * destruct (Pos.ltb_spec z y) as [Hzl|Hzg]; [|reflexivity].
        eapply vm_get_below; [exact Hr|lia].
  - destruct (Pos.ltb_spec x y) as [Hlt|Hge]; [discriminate|].
    destruct (vm_remove r x) as [[t' r']|] eqn:Hrm; [|discriminate].
    inversion H; subst. destruct (IH (Some y) x t r' Hr Hrm) as (Hg & Hs' & He).
    split; [exact Hg|]. split.
    + cbn. split; [exact Hlo|exact Hs'].
    + intros z. unfold den, fremove in *. cbn [vm_get].
      destruct (Pos.eqb_spec z y) as [->|Hz].
      * destruct (Pos.eqb_spec y x); [congruence|reflexivity].
      * destruct (Pos.ltb_spec z y) as [Hzl|Hzg].
        -- destruct (Pos.eqb_spec z x); [lia|reflexivity].
        -- apply He.
Qed.

Lemma vm_remove_none m : forall lo x,
  sorted_from lo m -> vm_remove m x = None -> vm_get m x = None.
Proof.
  induction m as [|[y ty0] r IH]; intros lo x Hs H; cbn in *; [reflexivity|].
  destruct Hs as [_ Hr].
  destruct (Pos.eqb_spec x y); [discriminate|]. destruct (Pos.ltb_spec x y); [reflexivity|].
  destruct (vm_remove r x) as [[? ?]|] eqn:Hrm; [discriminate|]. eapply IH; eauto.
Qed.

Lemma vm_get_some_remove m : forall lo x t,
  sorted_from lo m -> vm_get m x = Some t -> exists m', vm_remove m x = Some (t, m').
Proof.
  induction m as [|[y ty0] r IH]; intros lo x t Hs H; cbn in *; [discriminate|].
  destruct Hs as [_ Hr].
  destruct (Pos.eqb_spec x y); [inversion H; eauto|]. destruct (Pos.ltb_spec x y); [discriminate|].
  destruct (IH _ _ _ Hr H) as (m' & ->). eauto.
Qed.

Lemma vm_insert_spec m : forall lo x t m',
  sorted_from lo m -> (match lo with Some l => Pos.lt l x | None => True end) ->
  vm_insert m x t = Some m' ->
  vm_get m x = None /\ sorted_from lo m' /\ fequiv (den m') (fadd (den m) x t).
Proof.
  induction m as [|[y ty0] r IH]; intros lo x t m' Hs Hlox H; cbn in H.
  - inversion H; subst. split; [reflexivity|]. split; [cbn; auto|].
    intros z. unfold den, fadd. cbn. destruct (Pos.eqb_spec z x); [reflexivity|].
    destruct (Pos.ltb z x); reflexivity.
  - cbn in Hs. destruct Hs as [Hlo Hr]. cbn [vm_get].
    destruct (Pos.eqb_spec x y) as [->|Hne]; [discriminate|].
    destruct (Pos.ltb_spec x y) as [Hlt|Hge].
    + inversion H; subst. split; [reflexivity|]. split.
      * cbn. split; [exact Hlox|]. split; [exact Hlt|exact Hr].
      * intros z. unfold den, fadd. cbn [vm_get].
        destruct (Pos.eqb_spec z x) as [->|Hz]; [reflexivity|].
        destruct (Pos.ltb_spec z x) as [Hzl|Hzg]; [|reflexivity].
        destruct (Pos.eqb_spec z y); [lia|]. destruct (Pos.ltb_spec z y); [reflexivity|lia].
    + destruct (vm_insert r x t) as [r'|] eqn:Hin; [|discriminate].
      inversion H; subst. destruct (IH (Some y) x t r' Hr ltac:(cbn; lia) Hin) as (Hg & Hs' & He).
      split; [exact Hg|]. split; [cbn; split; [exact Hlo|exact Hs']|].
      intros z. unfold den, fadd in *. cbn [vm_get].
      destruct (Pos.eqb_spec z y) as [->|Hz].
      * destruct (Pos.eqb_spec y x); [congruence|reflexivity].
      * destruct (Pos.ltb_spec z y) as [Hzl|Hzg].
        -- destruct (Pos.eqb_spec z x); [lia|reflexivity].
        -- apply He.
Qed.

Lemma vm_insert_none m : forall lo x t,
  sorted_from lo m -> vm_insert m x t = None -> vm_get m x <> None.
Proof.
  induction m as [|[y ty0] r IH]; intros lo x t Hs H; cbn in *; [discriminate|].
  destruct Hs as [_ Hr].
  destruct (Pos.eqb_spec x y); [discriminate|]. destruct (Pos.ltb_spec x y); [discriminate|].
  destruct (vm_insert r x t) eqn:Hin; [discriminate|]. eapply IH; eauto.
Qed.

Lemma s_take_equiv ids : forall a b, fequiv a b -> 
  match s_take a ids, s_take b ids with
  | Some (ts, a'), Some (ts', b') => ts = ts' /\ fequiv a' b'
  | None, None => True
  | _, _ => False
  end.
Proof.
  induction ids as [|x r IH]; intros a b E; cbn; [auto|].
  rewrite (E x). destruct (b x) as [t|]; [|exact I].
  specialize (IH (fremove a x) (fremove b x)).
  assert (E' : fequiv (fremove a x) (fremove b x)) by (intros z; unfold fremove; rewrite E; reflexivity).
  specialize (IH E').
  destruct (s_take (fremove a x) r) as [[ts a']|], (s_take (fremove b x) r) as [[ts' b']|]; try contradiction; auto.
  destruct IH as [-> ?]. auto.
Qed.

Lemma s_put_equiv ids : forall ts a b, fequiv a b ->
  match s_put a ids ts, s_put b ids ts with
  | Some a', Some b' => fequiv a' b'
  | None, None => True
  | _, _ => False
  end.
Proof.
  induction ids as [|x r IH]; intros ts a b E; destruct ts as [|t tr]; cbn; auto.
  rewrite (E x). destruct (b x); [exact I|].
  apply IH. intros z. unfold fadd. rewrite E. reflexivity.
Qed.

(* the checker's take_vars is the semantic take on the denotation *)
Lemma take_vars_sem ids : forall m ts m',
  sorted m -> take_vars m ids = Some (ts, m') ->
  sorted m' /\ exists s', s_take (den m) ids = Some (ts, s') /\ fequiv s' (den m').
Proof.
  induction ids as [|x r IH]; intros m ts m' Hs H; cbn in H.
  - inversion H; subst. split; [exact Hs|]. exists (den m'). split; [reflexivity|]. intros z; reflexivity.
  - destruct (vm_remove m x) as [[t m1]|] eqn:Hrm; [|discriminate].
    destruct (take_vars m1 r) as [[ts1 m2]|] eqn:Htk; [|discriminate].
    inversion H; subst.
    destruct (vm_remove_spec _ _ _ _ _ Hs Hrm) as (Hg & Hs1 & He).
    destruct (IH _ _ _ Hs1 Htk) as (Hs2 & s' & Hst & He').
    split; [exact Hs2|]. cbn. unfold den at 1. rewrite Hg.
    pose proof (s_take_equiv r (fremove (den m) x) (den m1)) as Q.
    assert (E : fequiv (fremove (den m) x) (den m1)) by (intros z; symmetry; apply He).
    specialize (Q E). rewrite Hst in Q.
    destruct (s_take (fremove (den m) x) r) as [[ts' a']|]; [|contradiction].
    destruct Q as [-> Q]. exists a'. split; [reflexivity|].
    intros z. rewrite Q. apply He'.
Qed.

Lemma put_vars_sem ids : forall ts m m',
  sorted m -> put_vars m ids ts = Some m' ->
  sorted m' /\ exists s', s_put (den m) ids ts = Some s' /\ fequiv s' (den m').
Proof.
  induction ids as [|x r IH]; intros ts m m' Hs H; destruct ts as [|t tr]; cbn in H; try discriminate.
  - inversion H; subst. split; [exact Hs|]. exists (den m'). split; [reflexivity|]. intros z; reflexivity.
  - destruct (vm_insert m x t) as [m1|] eqn:Hin; [|discriminate].
    destruct (vm_insert_spec _ None _ _ _ Hs I Hin) as (Hg & Hs1 & He).
    destruct (IH _ _ _ Hs1 H) as (Hs2 & s' & Hst & He').
    split; [exact Hs2|]. cbn. unfold den at 1. rewrite Hg.
    pose proof (s_put_equiv r tr (fadd (den m) x t) (den m1)) as Q.
    assert (E : fequiv (fadd (den m) x t) (den m1)) by (intros z; symmetry; apply He).
    specialize (Q E). rewrite Hst in Q.
    destruct (s_put (fadd (den m) x t) r tr) as [a'|]; [|contradiction].
    exists a'. split; [reflexivity|]. intros z. rewrite Q. apply He'.
Qed.

Lemma vm_of_params_sorted ps : forall m m', sorted m -> vm_of_params ps m = Some m' -> sorted m'.
Proof.
  induction ps as [|[x t] r IH]; intros m m' Hs H; cbn in H.
  - inversion H; subst; exact Hs.
  - destruct (vm_insert m x t) as [m1|] eqn:Hin; [|discriminate].
    destruct (vm_insert_spec _ None _ _ _ Hs I Hin) as (_ & Hs1 & _). eapply IH; eauto.
Qed.

(* boolean equalities *)
Lemma list_eqb_eq {A} (eqb : A -> A -> bool) (H : forall x y, eqb x y = true -> x = y) :
  forall a b, list_eqb eqb a b = true -> a = b.
Proof.
  induction a as [|x a IH]; destruct b as [|y b]; cbn; try discriminate; [reflexivity|].
  intros E. apply andb_prop in E. destruct E as [E1 E2]. f_equal; [apply H, E1 | apply IH, E2].
Qed.
Lemma vmap_eqb_eq a b : vmap_eqb a b = true -> a = b.
Proof.
  apply list_eqb_eq. intros [x t] [y u]; cbn. intros E. apply andb_prop in E. destruct E as [E1 E2].
  apply Pos.eqb_eq in E1, E2. congruence.
Qed.
Lemma tys_eqb_eq a b : tys_eqb a b = true -> a = b.
Proof. apply list_eqb_eq. intros x y E. apply Pos.eqb_eq, E. Qed.
Lemma tracking_eqb_eq a b : tracking_eqb a b = true -> a = b.
Proof.
  destruct a as [|c s], b as [|c' s']; cbn; try discriminate; [reflexivity|].
  intros E. apply andb_prop in E. destruct E as [E1 E2]. apply Z.eqb_eq in E1. subst.
  destruct s, s'; cbn in E2; try discriminate; [apply Nat.eqb_eq in E2; subst|]; reflexivity.
Qed.
