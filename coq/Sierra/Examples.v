(* Sierra/Examples.v -- a small program used for the non-vacuity examples of C15 / C17 / C04:
   two functions, a two-way branch whose arms merge, a function call, dup/drop.
     f0(x:t1, n:t1): 0: dup(x)->(x,y)  1: match(n){fallthrough(n') 6()}  2: align  3: z=f1(y)
                     4: drop(z)  5: jump 9  6: align  7: n'=const  8: drop(y)  9: return(x,n')
     f1(a:t1):       10: a=op(a)  11: return(a) *)
From Coq Require Import ZArith List Bool Lia.
From Sierra Require Import Annot Closure Vmap Sem Corr.
Import ListNotations.
Open Scope Z_scope.

Definition ex_prog : program :=
  P [ I KOther [1] [1] [B 1 [1; 3] [1; 1] (Some 1) TNone [100]] (Some 0);          (* 0: dup *)
      I KOther [1] [2] [B 2 [2] [1] (Some 0) TNone [100]; B 6 [] [] (Some 0) TNone [100]] (Some 0);
      I KAlign [] [] [B 3 [] [] (Some 0) TNone [0]] (Some 0);                        (* 2 *)
      I (KCall 1) [1] [3] [B 4 [4] [1] (Some 5) TNone [500]] (Some 0);              (* 3: call f1 *)
      I KOther [1] [4] [B 5 [] [] (Some 0) TNone [0]] (Some 0);                      (* 4: drop *)
      I KOther [] [] [B 9 [] [] (Some 0) TNone [100]] None;                          (* 5: jump 9 *)
      I KAlign [] [] [B 7 [] [] (Some 5) TNone [600]] (Some 0);                      (* 6 *)
      I KOther [] [] [B 8 [2] [1] (Some 0) TNone [0]] (Some 0);                      (* 7: const *)
      I KOther [1] [3] [B 9 [] [] (Some 0) TNone [0]] (Some 0);                      (* 8: drop y *)
      R [1; 2];                                                                      (* 9 *)
      I KOther [1] [1] [B 11 [1] [1] (Some 3) TNone [300]] (Some 0);                 (* 10: f1 body *)
      R [1] ]
    [ F 0 [(1, 1); (2, 1)] [1; 1] (Some [1000]) (Some 6);
      F 10 [(1, 1)] [1] (Some [300]) (Some 3) ].

(* a complete execution of f1: entry, one step, at its return with ap moved by 3 and cost 250 *)
Definition ex_cfg_f1_ret : cfg :=
  {| c_pc := 11; c_vars := fadd (fremove (fadd (fun _ => None) 1%positive 1%positive) 1%positive) 1%positive 1%positive;
     c_ap := 0 + 3; c_cost := 0 + 250 |}.

Lemma ex_reach_f1_ret : reach ex_prog [1] 1 ex_cfg_f1_ret.
Proof.
  pose (f1 := F 10 [(1, 1)] [1] (Some [300]) (Some 3)).
  pose (s0 := fadd (fun _ : var => @None ty) 1%positive 1%positive).
  assert (H0 : reach ex_prog [1] 1 (init_cfg f1 s0)) by (apply reach_init; reflexivity).
  eapply (reach_step _ _ _ _ _ (B 11 [1] [1] (Some 3) TNone [300]) _ _ _ 3 250) in H0.
  - exact H0.
  - reflexivity.
  - left. reflexivity.
  - intros g H. discriminate.
  - cbn. reflexivity.
  - cbn. reflexivity.
  - split; [intros k H; inversion H; reflexivity | cbn; lia].
Qed.
