(* Sierra/Annot.v -- model of the acceptance pass of the Sierra-to-CASM compiler
   (crates/cairo-lang-sierra-to-casm/src/compiler.rs::compile, annotations.rs,
   environment/{mod,ap_tracking,gas_wallet}.rs, cairo-lang-sierra/src/edit_state.rs), restricted to
   the components properties C15 / C04 / C17 / C02 speak about:
     variable -> type map (take_vars / put_vars / check_types_match / merge equality / dangling),
     function id, convergence_allowed / must_set, branch-align requirement,
     ap tracking (Enabled{ap_change, base} / Disabled, update, Enable/Disable, return check),
     gas wallet (update >= 0 per token, merge equality), the in-order single pass with
     backwards-jump clones (strictly smaller targets only, as written).
   Dropped (the real check is stricter there): reference expressions, stack indices, introduction
   points, frame state, code-size limits.  The per-branch effects (output types, ap change,
   ap-tracking change, gas cost) are *data* printed by the translator from the real registry and
   from the real compile's debug info.   Model file: no proofs. *)
From Coq Require Import ZArith List Bool Lia FMapPositive.
Import ListNotations.
Open Scope Z_scope.

(* ---------- programs ---------- *)
Definition var := positive.
Definition ty := positive.

Inductive trackchg := TNone | TEnable | TDisable.

Record branch := {
  b_target : nat;              (* absolute statement index (Fallthrough already resolved to i+1) *)
  b_results : list var;
  b_outs : list ty;            (* output types of this branch (libfunc signature) *)
  b_ap : option Z;             (* Some k = ApChange::Known k ; None = not known *)
  b_track : trackchg;
  b_gas : list Z               (* cost per token, fixed token order *)
}.

Inductive lfkind := LfOther | LfCall (callee : nat) | LfBranchAlign.

Record invoke := {
  i_kind : lfkind;
  i_params : list ty;          (* libfunc param_signatures types *)
  i_args : list var;
  i_branches : list branch;
  i_fallthrough : option nat   (* libfunc.fallthrough() *)
}.

Inductive stmt := SInvoke (iv : invoke) | SReturn (vs : list var).

Record func := {
  f_entry : nat;
  f_params : list (var * ty);
  f_rets : list ty;
  f_cost : option (list Z);    (* metadata.gas_info.function_costs, None when gas checks are off *)
  f_ap : option Z              (* metadata.ap_change_info.function_ap_change *)
}.

Record program := { stmts : list stmt; funcs : list func }.

(* ---------- annotations ---------- *)
Inductive tracking := Disabled | Enabled (c : Z) (base : option nat).   (* None = FunctionStart *)

(* variable map: association list sorted by strictly increasing key (canonical form) *)
Definition vmap := list (var * ty).

Record ann := {
  a_vars : vmap;
  a_fn : nat;
  a_conv : bool;
  a_track : tracking;
  a_wallet : option (list Z)
}.

Fixpoint vm_get (m : vmap) (x : var) : option ty :=
  match m with
  | [] => None
  | (y, t) :: r => if Pos.eqb x y then Some t else if Pos.ltb x y then None else vm_get r x
  end.

Fixpoint vm_remove (m : vmap) (x : var) : option (ty * vmap) :=
  match m with
  | [] => None
  | (y, t) :: r =>
      if Pos.eqb x y then Some (t, r)
      else if Pos.ltb x y then None
      else match vm_remove r x with Some (t', r') => Some (t', (y, t) :: r') | None => None end
  end.

Fixpoint vm_insert (m : vmap) (x : var) (t : ty) : option vmap :=
  match m with
  | [] => Some [(x, t)]
  | (y, t') :: r =>
      if Pos.eqb x y then None
      else if Pos.ltb x y then Some ((x, t) :: m)
      else match vm_insert r x t with Some r' => Some ((y, t') :: r') | None => None end
  end.

(* EditState::take_vars: remove the ids in order, failing on a missing one *)
Fixpoint take_vars (m : vmap) (ids : list var) : option (list ty * vmap) :=
  match ids with
  | [] => Some ([], m)
  | x :: r =>
      match vm_remove m x with
      | None => None
      | Some (t, m') =>
          match take_vars m' r with Some (ts, m'') => Some (t :: ts, m'') | None => None end
      end
  end.

(* EditState::put_vars over zip_eq(results, types): fails on an override (and, here, on a length
   mismatch, which check_basic_structure excludes before the real zip_eq) *)
Fixpoint put_vars (m : vmap) (ids : list var) (ts : list ty) : option vmap :=
  match ids, ts with
  | [], [] => Some m
  | x :: r, t :: tr =>
      match vm_insert m x t with Some m' => put_vars m' r tr | None => None end
  | _, _ => None
  end.

Fixpoint list_eqb {A} (eqb : A -> A -> bool) (a b : list A) : bool :=
  match a, b with
  | [], [] => true
  | x :: a', y :: b' => eqb x y && list_eqb eqb a' b'
  | _, _ => false
  end.

Definition vmap_eqb (a b : vmap) : bool :=
  list_eqb (fun p q => Pos.eqb (fst p) (fst q) && Pos.eqb (snd p) (snd q)) a b.

Definition opt_eqb {A} (eqb : A -> A -> bool) (a b : option A) : bool :=
  match a, b with Some x, Some y => eqb x y | None, None => true | _, _ => false end.

Definition tracking_eqb (a b : tracking) : bool :=
  match a, b with
  | Disabled, Disabled => true
  | Enabled c s, Enabled c' s' => (c =? c') && opt_eqb Nat.eqb s s'
  | _, _ => false
  end.

(* token vectors: pointwise, missing entries are 0 *)
Fixpoint vsub (a b : list Z) : list Z :=
  match a with
  | [] => map Z.opp b
  | x :: a' => match b with [] => a | y :: b' => (x - y) :: vsub a' b' end
  end.
Fixpoint vnonneg (a : list Z) : bool :=
  match a with [] => true | x :: r => (0 <=? x) && vnonneg r end.
Definition vzero (a : list Z) : bool := forallb (fun x => x =? 0) a.
Fixpoint veqb (a b : list Z) : bool :=
  match a with
  | [] => vzero b
  | x :: a' => match b with [] => vzero a | y :: b' => (x =? y) && veqb a' b' end
  end.
(* a >= b pointwise *)
Definition vge (a b : list Z) : bool := vnonneg (vsub a b).

Definition wallet_eqb (a b : option (list Z)) : bool := opt_eqb veqb a b.

(* GasWallet::update *)
Definition wallet_update (w : option (list Z)) (cost : list Z) : option (option (list Z)) :=
  match w with
  | None => Some None
  | Some v => let v' := vsub v cost in if vnonneg v' then Some (Some v') else None
  end.

(* propagate_annotations: the ap-tracking component *)
Definition track_update (t : tracking) (chg : trackchg) (ap : option Z) (dest : nat) : option tracking :=
  match chg with
  | TDisable => Some Disabled
  | TEnable => match t with Disabled => Some (Enabled 0 (Some dest)) | _ => None end
  | TNone => match t, ap with
             | Enabled c b, Some k => Some (Enabled (c + k) b)
             | _, _ => Some Disabled
             end
  end.

(* ---------- the annotation table ---------- *)
Definition table := PositiveMap.t ann.
Definition key (i : nat) : positive := Pos.of_succ_nat i.
Definition tget (t : table) (i : nat) : option ann := PositiveMap.find (key i) t.
Definition tset (t : table) (i : nat) (a : ann) : table := PositiveMap.add (key i) a t.
Definition tdel (t : table) (i : nat) : table := PositiveMap.remove (key i) t.

(* set_or_assert *)
Definition same_annb (expected actual : ann) : bool :=
  Nat.eqb (a_fn expected) (a_fn actual)
  && tracking_eqb (a_track expected) (a_track actual)
  && wallet_eqb (a_wallet expected) (a_wallet actual)
  && vmap_eqb (a_vars actual) (a_vars expected).
Definition ann_consistent (expected actual : ann) : bool :=
  same_annb expected actual && a_conv expected.

Definition set_or_assert (n : nat) (t : table) (i : nat) (a : ann) : option table :=
  if Nat.ltb i n then
    match tget t i with
    | None => Some (tset t i a)
    | Some e => if ann_consistent e a then Some t else None
    end
  else None.

Definition mem_nat (x : nat) (l : list nat) : bool := existsb (Nat.eqb x) l.

(* targets of backwards jumps: strictly smaller than the jumping statement (as written) *)
Fixpoint back_targets_from (i : nat) (l : list stmt) : list nat :=
  match l with
  | [] => []
  | s :: r =>
      (match s with
       | SInvoke iv => filter (fun t => Nat.ltb t i) (map b_target (i_branches iv))
       | SReturn _ => []
       end) ++ back_targets_from (S i) r
  end.

(* get_annotations_after_take_args *)
Definition take_entry (back : list nat) (t : table) (i : nat) (ids : list var)
  : option (ann * list ty * vmap * table) :=
  match tget t i with
  | None => None
  | Some e =>
      let t' := if mem_nat i back then t else tdel t i in
      match take_vars (a_vars e) ids with
      | Some (ts, m) => Some (e, ts, m, t')
      | None => None
      end
  end.

Definition tys_eqb (a b : list ty) : bool := list_eqb Pos.eqb a b.

Definition is_align (s : option stmt) : bool :=
  match s with
  | Some (SInvoke iv) => match i_kind iv with LfBranchAlign => true | _ => false end
  | _ => false
  end.

Definition call_overhead : list Z := [200].      (* ConstCost::steps(2), in Const-token units *)
Fixpoint vadd (a b : list Z) : list Z :=
  match a, b with
  | [], _ => b
  | _, [] => a
  | x :: a', y :: b' => (x + y) :: vadd a' b'
  end.

(* checks that tie a function_call statement to the callee's metadata; they are what the soundness
   theorems for C04 / C17 need from a call statement *)
Definition call_ok (p : program) (iv : invoke) : bool :=
  match i_kind iv with
  | LfCall g =>
      match nth_error (funcs p) g, i_branches iv with
      | Some fg, [b] =>
          (match b_ap b with
           | Some k => match f_ap fg with Some kg => k =? kg + 2 | None => false end
           | None => true end)
          && (match f_cost fg with
              | Some cg => vge (b_gas b) (vadd cg call_overhead)
              | None => true end)
          && tys_eqb (i_params iv) (map snd (f_params fg))
          && tys_eqb (b_outs b) (f_rets fg)
      | _, _ => false
      end
  | _ => true
  end.

(* check_basic_structure *)
Definition basic_structure (i : nat) (iv : invoke) : bool :=
  Nat.eqb (length (i_args iv)) (length (i_params iv))
  && forallb (fun b => Nat.eqb (length (b_results b)) (length (b_outs b))) (i_branches iv)
  && match i_fallthrough iv with
     | Some k => match nth_error (i_branches iv) k with
                 | Some b => Nat.eqb (b_target b) (S i)      (* target == Fallthrough *)
                 | None => false end
     | None => true
     end.

(* one branch: propagate_annotations *)
(* [i] is the statement being processed and [e] the annotation it was processed with.  The real
   pass never compares the annotation a statement propagates to ITSELF with [e] (only strictly
   smaller targets are kept for comparison); the model adds exactly that comparison, so it is
   stricter than the code there: a self-targeting statement that changes the annotation is
   rejected by the model (and, if the real compiler accepts it, reported). *)
Definition propagate (p : program) (n : nat) (t : table) (i : nat) (e : ann) (m : vmap)
    (must_set : bool) (b : branch) : option table :=
  let dest := b_target b in
  if must_set && negb (is_align (nth_error (stmts p) dest)) then None else
  if must_set && (match tget t dest with Some _ => true | None => false end) then None else
  match put_vars m (b_results b) (b_outs b) with None => None | Some m' =>
  match track_update (a_track e) (b_track b) (b_ap b) dest with None => None | Some tr' =>
  match wallet_update (a_wallet e) (b_gas b) with None => None | Some w' =>
  let a' := {| a_vars := m'; a_fn := a_fn e; a_conv := negb must_set; a_track := tr';
              a_wallet := w' |} in
  if Nat.eqb dest i && negb (same_annb e a') then None else
  set_or_assert n t dest a'
  end end end.

Fixpoint propagate_all (p : program) (n : nat) (t : table) (i : nat) (e : ann) (m : vmap)
    (must_set : bool) (bs : list branch) : option table :=
  match bs with
  | [] => Some t
  | b :: r => match propagate p n t i e m must_set b with
              | Some t' => propagate_all p n t' i e m must_set r
              | None => None end
  end.

Definition expected_track (f : func) : tracking :=
  match f_ap f with Some k => Enabled k None | None => Disabled end.

(* one statement of the in-order pass *)
Definition process (p : program) (n : nat) (back : list nat) (t : table) (i : nat) (s : stmt)
  : option table :=
  match s with
  | SReturn vs =>
      match take_entry back t i vs with
      | None => None
      | Some (e, ts, m, t') =>
          match m, nth_error (funcs p) (a_fn e) with
          | [], Some f =>
              if tracking_eqb (a_track e) (expected_track f) && tys_eqb ts (f_rets f)
              then Some t' else None
          | _, _ => None           (* DanglingReferences / unknown function *)
          end
      end
  | SInvoke iv =>
      match take_entry back t i (i_args iv) with
      | None => None
      | Some (e, ts, m, t') =>
          if basic_structure i iv && tys_eqb ts (i_params iv) && call_ok p iv
          then propagate_all p n t' i e m (Nat.ltb 1 (length (i_branches iv))) (i_branches iv)
          else None
      end
  end.

Fixpoint pass (p : program) (n : nat) (back : list nat) (t : table) (i : nat) (l : list stmt)
  : option table :=
  match l with
  | [] => Some t
  | s :: r => match process p n back t i s with
              | Some t' => pass p n back t' (S i) r
              | None => None end
  end.

(* ProgramAnnotations::create *)
Fixpoint vm_of_params (ps : list (var * ty)) (m : vmap) : option vmap :=
  match ps with
  | [] => Some m
  | (x, t) :: r => match vm_insert m x t with Some m' => vm_of_params r m' | None => None end
  end.

(* validate_metadata: function costs are non-negative *)
Definition cost_ok (f : func) : bool :=
  match f_cost f with Some c => vnonneg c | None => true end.

Definition init_ann (k : nat) (f : func) : option ann :=
  if cost_ok f then
    match vm_of_params (f_params f) [] with
    | Some m => Some {| a_vars := m; a_fn := k; a_conv := false;
                        a_track := Enabled 0 None; a_wallet := f_cost f |}
    | None => None
    end
  else None.

Fixpoint create (n : nat) (t : table) (k : nat) (fs : list func) : option table :=
  match fs with
  | [] => Some t
  | f :: r =>
      match init_ann k f with
      | Some a => match set_or_assert n t (f_entry f) a with
                  | Some t' => create n t' (S k) r
                  | None => None end
      | None => None
      end
  end.

Definition annot_accepts (p : program) : bool :=
  let n := length (stmts p) in
  let back := back_targets_from 0 (stmts p) in
  match create n (PositiveMap.empty ann) 0 (funcs p) with
  | Some t => match pass p n back t 0 (stmts p) with Some _ => true | None => false end
  | None => false
  end.
