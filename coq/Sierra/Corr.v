(* Sierra/Corr.v -- constructors used by the translator output (harness/h15) and the executable
   comparison with the real compiler: every program the real `compile` accepted must be accepted
   by the (proved sound) model checker. *)
From Coq Require Import ZArith List Bool.
From Sierra Require Import Annot.
Import ListNotations.
Open Scope Z_scope.

Definition zp (z : Z) : positive := Z.to_pos z.
Definition KOther := LfOther.
Definition KAlign := LfBranchAlign.
Definition KCall (g : Z) := LfCall (Z.to_nat g).

Definition B (target : Z) (results outs : list Z) (ap : option Z) (tr : trackchg) (gas : list Z)
  : branch :=
  {| b_target := Z.to_nat target; b_results := map zp results; b_outs := map zp outs;
     b_ap := ap; b_track := tr; b_gas := gas |}.
Definition I (k : lfkind) (params args : list Z) (brs : list branch) (ft : option Z) : stmt :=
  SInvoke {| i_kind := k; i_params := map zp params; i_args := map zp args; i_branches := brs;
             i_fallthrough := option_map Z.to_nat ft |}.
Definition R (vs : list Z) : stmt := SReturn (map zp vs).
Definition F (entry : Z) (params : list (Z * Z)) (rets : list Z) (cost : option (list Z))
    (ap : option Z) : func :=
  {| f_entry := Z.to_nat entry; f_params := map (fun '(x, t) => (zp x, zp t)) params;
     f_rets := map zp rets; f_cost := cost; f_ap := ap |}.
Definition P (ss : list stmt) (fs : list func) : program := {| stmts := ss; funcs := fs |}.

(* 0 = accepted; 1 = model rejects *)
Definition verdict (p : program) : Z := if annot_accepts p then 0 else 1.

Definition check_accept (cs : list (Z * program)) : list (Z * Z) :=
  flat_map (fun '(k, p) => let v := verdict p in if v =? 0 then [] else [(k, v)]) cs.
