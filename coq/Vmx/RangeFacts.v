(* Vmx/RangeFacts.v -- the boolean checks of Range.v as propositions. *)
From Vmx Require Import Range.

Lemma forallb_In {A} (f : A -> bool) (l : list A) (x : A) :
  forallb f l = true -> In x l -> f x = true.
Proof. intros H Hin. rewrite forallb_forall in H. exact (H x Hin). Qed.

Lemma stmt_ap_ok_spec c s ps p :
  stmt_ap_ok c s = true -> stmt_paths c s = Some ps -> In p ps ->
  exists tgt apc cost, In (tgt, apc, cost) (si_branches s) /\ r_exit p = tgt /\
    (forall k, apc = Some k -> r_apk p = k).
Proof.
  unfold stmt_ap_ok. intros H Hps Hp. rewrite Hps in H.
  pose proof (forallb_In _ _ _ H Hp) as Hb.
  apply existsb_exists in Hb. destruct Hb as ([[tgt apc] cost] & Hin & Hb).
  cbn [ap_agrees] in Hb. apply andb_prop in Hb. destruct Hb as [H1 H2]. apply Z.eqb_eq in H1.
  exists tgt, apc, cost. split; [exact Hin|]. split; [exact H1|].
  intros k ->. apply Z.eqb_eq in H2. exact H2.
Qed.

Lemma stmt_steps_ok_spec c s ps p :
  stmt_steps_ok c s = true -> stmt_paths c s = Some ps -> In p ps ->
  exists tgt apc cost, In (tgt, apc, cost) (si_branches s) /\ r_exit p = tgt /\
    100 * r_steps p <= cost.
Proof.
  unfold stmt_steps_ok. intros H Hps Hp. rewrite Hps in H.
  pose proof (forallb_In _ _ _ H Hp) as Hb.
  apply existsb_exists in Hb. destruct Hb as ([[tgt apc] cost] & Hin & Hb).
  cbn [steps_agrees] in Hb. apply andb_prop in Hb. destruct Hb as [H1 H2]. apply Z.eqb_eq in H1.
  apply Z.leb_le in H2. exists tgt, apc, cost. split; [exact Hin|]. split; [exact H1|exact H2].
Qed.

Lemma stmt_cost_ok_spec c s ps p :
  stmt_cost_ok c s = true -> stmt_paths c s = Some ps -> In p ps ->
  exists tgt apc cost, In (tgt, apc, cost) (si_branches s) /\ r_exit p = tgt /\
    100 * r_steps p + 70 * r_rc p <= cost.
Proof.
  unfold stmt_cost_ok. intros H Hps Hp. rewrite Hps in H.
  pose proof (forallb_In _ _ _ H Hp) as Hb.
  apply existsb_exists in Hb. destruct Hb as ([[tgt apc] cost] & Hin & Hb).
  cbn [cost_agrees] in Hb. apply andb_prop in Hb. destruct Hb as [H1 H2]. apply Z.eqb_eq in H1.
  apply Z.leb_le in H2. exists tgt, apc, cost. split; [exact Hin|]. split; [exact H1|exact H2].
Qed.
