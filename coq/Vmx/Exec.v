(* Vmx/Exec.v -- a checker for the algebraic semantics on a CONCRETE total memory: [exec] follows
   the step relation of Sem.v deterministically, evaluating each constraint.  Used to exhibit runs
   (non-vacuity examples, and the bridge from the executable VM of VmRun.v: the final partial memory
   of a successful [vm_run], completed with 0, is a total memory on which [exec] succeeds).
   Model file: definitions only; ExecSound.v has the proof. *)
From Vmx Require Export Sem.

Fixpoint lookup (x : Z) (l : list (Z * Z)) : option Z :=
  match l with
  | [] => None
  | (k, v) :: r => if Z.eqb x k then Some v else lookup x r
  end.
Definition mem_of (l : list (Z * Z)) : mem :=
  fun x => match lookup x l with Some v => v | None => 0 end.
Definition canonical_list (l : list (Z * Z)) : bool :=
  forallb (fun kv => (0 <=? snd kv) && (snd kv <? P)) l.

Section Exec.
Variables (m : mem) (pb : Z) (c : code).

Fixpoint exec (fuel : nat) (d : nat) (s : st) : option st :=
  match fuel with
  | O => None
  | S k =>
    match fetch pb c s with
    | None => None
    | Some i =>
      match ibody i with
      | AssertEq a b =>
          if cellv m s a =? resv m s b
          then exec k d {| pc := pc s + isize i; ap := next_ap s i; fp := fp s |} else None
      | Jnz t x =>
          if cellv m s x =? 0
          then exec k d {| pc := pc s + isize i; ap := next_ap s i; fp := fp s |}
          else exec k d {| pc := rel_target m s t; ap := next_ap s i; fp := fp s |}
      | Jump t rel =>
          exec k d {| pc := if rel then rel_target m s t else abs_target m s t;
                      ap := next_ap s i; fp := fp s |}
      | AddAp r =>
          if inc_ap i then None else
          exec k d {| pc := pc s + isize i; ap := ap s + resv m s r; fp := fp s |}
      | Call t rel =>
          if inc_ap i then None else
          if (m (ap s) =? fp s) && (m (ap s + 1) =? pc s + isize i)
          then exec k (S d) {| pc := if rel then rel_target m s t else abs_target m s t;
                               ap := ap s + 2; fp := ap s + 2 |}
          else None
      | Ret =>
          if inc_ap i then None else
          match d with
          | O => Some s
          | S d' => exec k d' {| pc := m (fp s - 1); ap := ap s; fp := m (fp s - 2) |}
          end
      | Unsupported _ => None
      end
    end
  end.
End Exec.
