(* Vmx/Casm.v -- the CASM instruction AST printed by the translator (harness/h03/src/translate.rs)
   from cairo-lang-casm's [Instruction] (instructions.rs, operand.rs, hints/mod.rs).  Unlike
   C16/Casm.v every instruction carries its size ([InstructionBody::op_size] as computed by the
   Rust code) and its hints as data.  Model file: no proofs. *)
From Base Require Export Felt.
From Coq Require Import String.

Inductive reg := AP | FP.
Record cellref := cr { c_reg : reg; c_off : Z }.
Inductive doi := DDeref (c : cellref) | DImm (v : Z).
Inductive opn := OAdd | OMul.
Inductive resop :=
  | RDeref (c : cellref)
  | RDouble (c : cellref) (o : Z)
  | RImm (v : Z)
  | RBin (op : opn) (a : cellref) (b : doi).

Inductive body :=
  | AddAp (r : resop)
  | AssertEq (a : cellref) (b : resop)
  | Call (t : doi) (rel : bool)
  | Jnz (t : doi) (c : cellref)
  | Jump (t : doi) (rel : bool)
  | Ret
  | Unsupported (what : string).          (* QM31AssertEq, Blake2sCompress: not modelled *)

(* CoreHint variants used by the verified set; everything else is [HOther name]. *)
Inductive hint :=
  | HAllocSegment (dst : cellref)
  | HTestLessThan (lhs rhs : resop) (dst : cellref)
  | HTestLessThanOrEqual (lhs rhs : resop) (dst : cellref)
  | HWideMul128 (lhs rhs : resop) (high low : cellref)
  | HDivMod (lhs rhs : resop) (quotient remainder : cellref)
  | HSquareRoot (value : resop) (dst : cellref)
  | HLinearSplit (value scalar max_x : resop) (x y : cellref)
  | HUint256DivMod (dividend0 dividend1 divisor0 divisor1 : resop)
                   (quotient0 quotient1 remainder0 remainder1 : cellref)
  | HOther (name : string).

Record instr := Ins { ibody : body; inc_ap : bool; isize : Z; ihints : list hint }.

(* One Sierra invoke statement of the compiled program (translator: CairoProgram.debug_info.
   sierra_statement_info[i] and the BranchChanges of the compiled invocation): the half-open range
   of code offsets of its CASM and, per branch, (offset of the target statement's code,
   declared ApChange::Known k, declared Const gas cost). *)
Record stmt_info := SI {
  si_idx : Z; si_libfunc : string; si_lo : Z; si_hi : Z;
  si_branches : list (Z * option Z * Z) }.

(* code = instructions with their offsets (in felts) from the start of the compiled program *)
Definition code := list (Z * instr).

Fixpoint code_at (c : code) (p : Z) : option instr :=
  match c with
  | [] => None
  | (q, i) :: r => if Z.eqb p q then Some i else code_at r p
  end.
