(* Vmx/Sem.v -- algebraic semantics of CASM over a TOTAL, FIXED memory [m : Z -> Z] (flat, relocated,
   canonical felts): a run is a sequence of register states whose steps are constraints on [m].
   Hints do not occur.  This is the meaning of a Cairo execution trace as the AIR sees it
   (Cairo whitepaper, section 4.5), restricted to the instruction forms that sierra-to-casm emits.

   Conventions
   * [pb] is the address at which the compiled program is loaded; [code_at c (pc - pb)] is the fetch.
   * Addresses [reg + off] and the program counter are computed in Z (registers are far below P in
     any real run); VALUES are felts: every arithmetic result is reduced mod P, and the address of a
     double dereference is the felt [(m c + o) mod P].
   * Immediates are the signed integers of the CASM text ([jmp rel -5], [[ap] = [fp-3] + -1]):
     as values they denote [v mod P]; as relative jump / call offsets they are added to [pc] in Z.
   * [depth] is a ghost call depth: [Call] increments it, [Ret] at depth [S d] returns to the caller,
     and a run [reaches] its end at the [Ret] of depth 0, i.e. the ret matching the entry (that
     instruction is not executed: the final state is the one AT the ret, where results are at
     [ap - k]).
   Model file: no proofs. *)
From Vmx Require Export Casm.

Record st := { pc : Z; ap : Z; fp : Z }.
Definition mem := Z -> Z.

Definition mem_canonical (m : mem) : Prop := forall x, 0 <= m x < P.
(* the range-check builtin constrains every cell of its segment that the run consumed *)
Definition rc_ok (m : mem) (lo hi : Z) : Prop := forall x, lo <= x < hi -> 0 <= m x < 2 ^ 128.

Section Sem.
Variable m : mem.
Variable pb : Z.
Variable c : code.

Definition regv (s : st) (r : reg) : Z := match r with AP => ap s | FP => fp s end.
Definition cellv (s : st) (x : cellref) : Z := m (regv s (c_reg x) + c_off x).
Definition doiv (s : st) (d : doi) : Z :=
  match d with DDeref x => cellv s x | DImm v => v mod P end.
Definition resv (s : st) (r : resop) : Z :=
  match r with
  | RDeref x => cellv s x
  | RDouble x o => m ((cellv s x + o) mod P)
  | RImm v => v mod P
  | RBin OAdd a b => (cellv s a + doiv s b) mod P
  | RBin OMul a b => (cellv s a * doiv s b) mod P
  end.

Definition fetch (s : st) : option instr := code_at c (pc s - pb).
Definition next_ap (s : st) (i : instr) : Z := if inc_ap i then ap s + 1 else ap s.
(* target of a relative jump/call *)
Definition rel_target (s : st) (t : doi) : Z :=
  match t with DImm v => pc s + v | DDeref x => (pc s + cellv s x) mod P end.
Definition abs_target (s : st) (t : doi) : Z :=
  match t with DImm v => v mod P | DDeref x => cellv s x end.

Inductive step : nat -> st -> nat -> st -> Prop :=
  | S_assert : forall d s i a b,
      fetch s = Some i -> ibody i = AssertEq a b ->
      cellv s a = resv s b ->
      step d s d {| pc := pc s + isize i; ap := next_ap s i; fp := fp s |}
  | S_jnz_zero : forall d s i t x,
      fetch s = Some i -> ibody i = Jnz t x ->
      cellv s x = 0 ->
      step d s d {| pc := pc s + isize i; ap := next_ap s i; fp := fp s |}
  | S_jnz_taken : forall d s i t x,
      fetch s = Some i -> ibody i = Jnz t x ->
      cellv s x <> 0 ->
      step d s d {| pc := rel_target s t; ap := next_ap s i; fp := fp s |}
  | S_jump : forall d s i t rel,
      fetch s = Some i -> ibody i = Jump t rel ->
      step d s d {| pc := if rel then rel_target s t else abs_target s t;
                    ap := next_ap s i; fp := fp s |}
  | S_addap : forall d s i r,
      fetch s = Some i -> ibody i = AddAp r -> inc_ap i = false ->
      step d s d {| pc := pc s + isize i; ap := ap s + resv s r; fp := fp s |}
  | S_call : forall d s i t rel,
      fetch s = Some i -> ibody i = Call t rel -> inc_ap i = false ->
      m (ap s) = fp s -> m (ap s + 1) = pc s + isize i ->
      step d s (S d) {| pc := if rel then rel_target s t else abs_target s t;
                        ap := ap s + 2; fp := ap s + 2 |}
  | S_ret : forall d s i,
      fetch s = Some i -> ibody i = Ret -> inc_ap i = false ->
      step (S d) s d {| pc := m (fp s - 1); ap := ap s; fp := m (fp s - 2) |}.

(* [reaches d s s']: from [s] at ghost depth [d] the run arrives at [s'], which sits on the [Ret]
   that matches the frame of depth 0. *)
Inductive reaches : nat -> st -> st -> Prop :=
  | R_ret : forall s i, fetch s = Some i -> ibody i = Ret -> reaches 0 s s
  | R_step : forall d s d1 s1 s', step d s d1 s1 -> reaches d1 s1 s' -> reaches d s s'.

End Sem.
