(* Vmx/Symex.v -- deep-embedded symbolic executor.  [symex] runs a code object on symbolic
   expressions over the initial registers [ap0], [fp0]; the program counter, the ap offset
   ([sapk], relative to ap0), the frame pointer (the entry frame, or [ap0 + k] inside a callee) and
   the return stack are concrete, so [symex] is evaluated by [vm_compute].  It returns one
   (path condition, final symbolic state) per path that ends at the entry frame's [ret], or [None]
   if it meets anything it does not support (fuel exhausted = loop/recursion, computed jumps,
   non-immediate [ap +=], absolute jumps, QM31/Blake).  Model file: no proofs
   (soundness w.r.t. Sem.v is SymexSound.v). *)
From Vmx Require Export Sem.

Inductive sexp :=
  | SMem (r : reg) (off : Z)        (* m (r0 + off), r0 = ap0 or fp0 *)
  | SInd (e : sexp) (off : Z)       (* m ((e + off) mod P) *)
  | SConst (z : Z)                  (* z mod P *)
  | SAdd (a b : sexp)
  | SMul (a b : sexp).
Inductive cstr := CEq (a b : sexp) | CZero (e : sexp) | CNonZero (e : sexp).

Record sst := { spc : Z; sapk : Z; sfp : option Z; sstack : list (Z * option Z) }.

Definition scell (s : sst) (x : cellref) : sexp :=
  match c_reg x with
  | AP => SMem AP (sapk s + c_off x)
  | FP => match sfp s with None => SMem FP (c_off x) | Some k => SMem AP (k + c_off x) end
  end.
Definition sdoi (s : sst) (d : doi) : sexp :=
  match d with DDeref x => scell s x | DImm v => SConst v end.
Definition sres (s : sst) (r : resop) : sexp :=
  match r with
  | RDeref x => scell s x
  | RDouble x o => SInd (scell s x) o
  | RImm v => SConst v
  | RBin OAdd a b => SAdd (scell s a) (sdoi s b)
  | RBin OMul a b => SMul (scell s a) (sdoi s b)
  end.

Definition sbump (s : sst) (i : instr) (npc : Z) : sst :=
  {| spc := npc; sapk := if inc_ap i then sapk s + 1 else sapk s; sfp := sfp s;
     sstack := sstack s |}.

Definition paths := list (list cstr * sst).

Fixpoint symex (c : code) (fuel : nat) (acc : list cstr) (s : sst) : option paths :=
  match fuel with
  | O => None
  | S k =>
    match code_at c (spc s) with
    | None => None
    | Some i =>
      match ibody i with
      | AssertEq a b =>
          symex c k (CEq (scell s a) (sres s b) :: acc) (sbump s i (spc s + isize i))
      | Jnz (DImm v) x =>
          match symex c k (CZero (scell s x) :: acc) (sbump s i (spc s + isize i)),
                symex c k (CNonZero (scell s x) :: acc) (sbump s i (spc s + v)) with
          | Some l1, Some l2 => Some (l1 ++ l2)
          | _, _ => None
          end
      | Jump (DImm v) true => symex c k acc (sbump s i (spc s + v))
      | Call (DImm v) true =>
          if inc_ap i then None else
          symex c k acc {| spc := spc s + v; sapk := sapk s + 2; sfp := Some (sapk s + 2);
                           sstack := (spc s + isize i, sfp s) :: sstack s |}
      | Ret =>
          if inc_ap i then None else
          match sstack s with
          | [] => Some [(acc, s)]
          | (rpc, f) :: r =>
              symex c k acc {| spc := rpc; sapk := sapk s; sfp := f; sstack := r |}
          end
      | AddAp (RImm v) =>
          if inc_ap i then None else
          if (0 <=? v) && (v <? P) then
            symex c k acc {| spc := spc s + isize i; sapk := sapk s + v; sfp := sfp s;
                             sstack := sstack s |}
          else None
      | _ => None
      end
    end
  end.

Definition sinit (entry : Z) : sst := {| spc := entry; sapk := 0; sfp := None; sstack := [] |}.

Section Den.
Variables (m : mem) (ap0 fp0 : Z).
Fixpoint den (e : sexp) : Z :=
  match e with
  | SMem AP o => m (ap0 + o)
  | SMem FP o => m (fp0 + o)
  | SInd e o => m ((den e + o) mod P)
  | SConst z => z mod P
  | SAdd a b => (den a + den b) mod P
  | SMul a b => (den a * den b) mod P
  end.
Definition holds (x : cstr) : Prop :=
  match x with
  | CEq a b => den a = den b
  | CZero e => den e = 0
  | CNonZero e => den e <> 0
  end.
Fixpoint all_hold (cs : list cstr) (G : Prop) : Prop :=
  match cs with [] => G | x :: r => holds x -> all_hold r G end.
(* [Q] is a predicate on the final value of ap *)
Fixpoint all_paths (ps : paths) (Q : Z -> Prop) : Prop :=
  match ps with
  | [] => True
  | (cs, s) :: r => all_hold cs (Q (ap0 + sapk s)) /\ all_paths r Q
  end.
End Den.
