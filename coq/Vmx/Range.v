(* Vmx/Range.v -- syntactic path enumeration of the CASM of ONE Sierra statement: from the first
   instruction of the statement's code range [lo, hi) every control path is followed (both arms of
   each jnz, whatever the memory) until the program counter leaves the range; each path records
   the exit offset, the ap movement, the number of instructions executed (steps) and the number of
   double-dereference asserts (range-check / builtin cell uses).  [None] = the statement contains
   something not followed here (call, ret, absolute / backward computed jump, non-immediate ap +=, fuel).
   A forward computed relative jump (jump table) is over-approximated: any later instruction of the
   statement may be its target.
   Since every feasible path is a syntactic path, a bound proved for all enumerated paths holds
   for every execution of the statement.  Model file: no proofs. *)
From Vmx Require Export Casm.

Record rpath := RP { r_exit : Z; r_apk : Z; r_steps : Z; r_rc : Z }.

Definition is_double (r : resop) : Z := match r with RDouble _ _ => 1 | _ => 0 end.

(* the canonical failing instruction [x] = [x] + k (k <> 0 mod P), emitted by casm_build's `fail`:
   no memory satisfies it, so no execution continues past it *)
Definition cell_eqb (a b : cellref) : bool :=
  (match c_reg a, c_reg b with AP, AP | FP, FP => true | _, _ => false end) && (c_off a =? c_off b).
Definition is_fail (a : cellref) (b : resop) : bool :=
  match b with
  | RBin OAdd a' (DImm v) => cell_eqb a a' && negb (v mod P =? 0)
  | _ => false
  end.

Fixpoint rpaths (c : code) (lo hi : Z) (fuel : nat) (pc apk steps rc : Z) : option (list rpath) :=
  if negb ((lo <=? pc) && (pc <? hi)) then Some [RP pc apk steps rc] else
  match fuel with
  | O => None
  | S k =>
    match code_at c pc with
    | None => None
    | Some i =>
      let apk' := if inc_ap i then apk + 1 else apk in
      match ibody i with
      | AssertEq a b =>
          if is_fail a b then Some []
          else rpaths c lo hi k (pc + isize i) apk' (steps + 1) (rc + is_double b)
      | Jnz (DImm v) _ =>
          match rpaths c lo hi k (pc + isize i) apk' (steps + 1) rc,
                rpaths c lo hi k (pc + v) apk' (steps + 1) rc with
          | Some l1, Some l2 => Some (l1 ++ l2)
          | _, _ => None
          end
      | Jump (DImm v) true => rpaths c lo hi k (pc + v) apk' (steps + 1) rc
      | Jump (DDeref _) true =>
          (* jump table (enum_match with 3+ variants: jmp rel [selector] followed by one jmp per
             variant): over-approximated by a jump to ANY later instruction of the statement *)
          let tgts := filter (fun q => (pc <? q) && (q <? hi)) (map fst c) in
          fold_right (fun q acc =>
                        match rpaths c lo hi k q apk' (steps + 1) rc, acc with
                        | Some l1, Some l2 => Some (l1 ++ l2)
                        | _, _ => None
                        end) (Some []) tgts
      | AddAp (RImm v) =>
          if inc_ap i then None else
          if (0 <=? v) && (v <? P) then rpaths c lo hi k (pc + isize i) (apk + v) (steps + 1) rc
          else None
      | _ => None
      end
    end
  end.

Definition stmt_paths (c : code) (s : stmt_info) : option (list rpath) :=
  rpaths c (si_lo s) (si_hi s) 200 (si_lo s) 0 0 0.

(* a path agrees with a branch: it exits at the branch's target and moves ap by the declared amount *)
Definition ap_agrees (p : rpath) (b : Z * option Z * Z) : bool :=
  let '(tgt, apc, _) := b in
  (r_exit p =? tgt) && match apc with Some k => r_apk p =? k | None => true end.
(* ... executes at most the declared number of steps (Const cost = 100*steps + 10*holes + 70*rc) *)
Definition steps_agrees (p : rpath) (b : Z * option Z * Z) : bool :=
  let '(tgt, _, cost) := b in
  (r_exit p =? tgt) && (100 * r_steps p <=? cost).
(* ... and, counting every double dereference as a range-check use (true for the integer
   libfuncs, whose only builtin is RangeCheck), costs at most the declared Const cost *)
Definition cost_agrees (p : rpath) (b : Z * option Z * Z) : bool :=
  let '(tgt, _, cost) := b in
  (r_exit p =? tgt) && (100 * r_steps p + 70 * r_rc p <=? cost).

Definition stmt_ap_ok (c : code) (s : stmt_info) : bool :=
  match stmt_paths c s with
  | None => true                                  (* not covered *)
  | Some ps => forallb (fun p => existsb (ap_agrees p) (si_branches s)) ps
  end.
Definition stmt_cost_ok (c : code) (s : stmt_info) : bool :=
  match stmt_paths c s with
  | None => true
  | Some ps => forallb (fun p => existsb (cost_agrees p) (si_branches s)) ps
  end.
Definition stmt_steps_ok (c : code) (s : stmt_info) : bool :=
  match stmt_paths c s with
  | None => true
  | Some ps => forallb (fun p => existsb (steps_agrees p) (si_branches s)) ps
  end.
Definition stmt_covered (c : code) (s : stmt_info) : bool :=
  match stmt_paths c s with Some _ => true | None => false end.
