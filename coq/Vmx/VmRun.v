(* Vmx/VmRun.v -- an executable Cairo VM over a PARTIAL, write-once memory with hints as functions,
   after cairo-vm 3.2.0 (vm_core.rs: compute_operands with the deduction rules for assert_eq,
   opcode_assertions, update_registers; range-check builtin validation on write) restricted to the
   instruction forms of Casm.v, on a flat address space.  [honest] transcribes the CoreHints used by
   the verified set from cairo-lang-runner/src/casm_run/mod.rs::execute_core_hint.
   Used for completeness (C06): with honest hints the run of a libfunc never fails and returns the
   mathematical result.  Model file: no proofs. *)
From Vmx Require Export Exec.
From Coq Require Import String.

Definition pmem := list (Z * Z).               (* newest first; a cell is written at most once *)
Record cfg := { rc_lo : Z; rc_hi : Z }.        (* the range_check builtin's segment *)

Inductive err :=
  | EFetch | EAssert | ERange | EUnknown | EHint | EFuel | EUnsupported | EInconsistent.
Inductive res (A : Type) := Ok (a : A) | Err (e : err).
Arguments Ok {A} a.
Arguments Err {A} e.

Definition bind {A B} (r : res A) (f : A -> res B) : res B :=
  match r with Ok a => f a | Err e => Err e end.

(* [fm v = v mod P] (VmRunFacts.fm_mod), computed without a division when v is within one P of the
   canonical range -- the complete 8-bit sweeps evaluate it millions of times *)
Definition Pc : Z := Eval vm_compute in P.          (* P as a literal *)
Definition Pc2 : Z := Eval vm_compute in 2 * P.
Definition B128 : Z := Eval vm_compute in 2 ^ 128.   (* the range-check bound as a literal *)
Definition fm (v : Z) : Z :=
  if v <? 0 then (if - Pc <=? v then v + Pc else v mod Pc)
  else if v <? Pc then v
  else if v <? Pc2 then v - Pc else v mod Pc.

Section Vm.
Variable cf : cfg.

(* memory.insert + RangeCheckBuiltinRunner validation rule *)
Definition pwrite (m : pmem) (addr v : Z) : res pmem :=
  match lookup addr m with
  | Some v' => if v' =? v then Ok m else Err EInconsistent
  | None =>
      if (rc_lo cf <=? addr) && (addr <? rc_hi cf) && negb ((0 <=? v) && (v <? B128))
      then Err ERange else Ok ((addr, v) :: m)
  end.

Definition caddr (s : st) (x : cellref) : Z := regv s (c_reg x) + c_off x.
Definition pcell (m : pmem) (s : st) (x : cellref) : option Z := lookup (caddr s x) m.
Definition pdoi (m : pmem) (s : st) (d : doi) : option Z :=
  match d with DDeref x => pcell m s x | DImm v => Some (fm v) end.
Definition pres (m : pmem) (s : st) (r : resop) : option Z :=
  match r with
  | RDeref x => pcell m s x
  | RDouble x o =>
      match pcell m s x with Some a => lookup (fm (a + o)) m | None => None end
  | RImm v => Some (fm v)
  | RBin op a b =>
      match pcell m s a, pdoi m s b with
      | Some x, Some y =>
          Some (match op with OAdd => fm (x + y) | OMul => fm (x * y) end)
      | _, _ => None
      end
  end.

(* assert_eq: check when both sides are known, otherwise deduce the one unknown cell *)
Definition do_assert (m : pmem) (s : st) (a : cellref) (b : resop) : res pmem :=
  match pcell m s a, pres m s b with
  | Some x, Some y => if x =? y then Ok m else Err EAssert
  | None, Some y => pwrite m (caddr s a) y
  | Some x, None =>
      match b with
      | RDeref y => pwrite m (caddr s y) x
      | RDouble y o =>
          match pcell m s y with
          | Some p => pwrite m (fm (p + o)) x
          | None => Err EUnknown
          end
      | RBin OAdd u v =>
          match pcell m s u, pdoi m s v, v with
          | Some xu, None, DDeref yv => pwrite m (caddr s yv) (fm (x - xu))
          | None, Some xv, _ => pwrite m (caddr s u) (fm (x - xv))
          | _, _, _ => Err EUnknown
          end
      | RBin OMul _ _ => Err EUnsupported      (* deduction by field division: not needed here *)
      | RImm _ => Err EUnknown
      end
  | None, None => Err EUnknown
  end.

Definition ptarget (m : pmem) (s : st) (t : doi) (rel : bool) : option Z :=
  match t with
  | DImm v => Some (if rel then pc s + v else fm v)
  | DDeref x =>
      match pcell m s x with
      | Some v => Some (if rel then fm (pc s + v) else v)
      | None => None
      end
  end.

Definition nxt (s : st) (i : instr) : st :=
  {| pc := pc s + isize i; ap := next_ap s i; fp := fp s |}.

(* one instruction, hints already executed; [d] is the call depth *)
Definition exec_body (i : instr) (d : nat) (s : st) (m : pmem) : res (nat * st * pmem) :=
  match ibody i with
  | AssertEq a b => bind (do_assert m s a b) (fun m' => Ok (d, nxt s i, m'))
  | Jnz t x =>
      match pcell m s x with
      | None => Err EUnknown
      | Some v =>
          if v =? 0 then Ok (d, nxt s i, m)
          else match ptarget m s t true with
               | Some p => Ok (d, {| pc := p; ap := next_ap s i; fp := fp s |}, m)
               | None => Err EUnknown
               end
      end
  | Jump t rel =>
      match ptarget m s t rel with
      | Some p => Ok (d, {| pc := p; ap := next_ap s i; fp := fp s |}, m)
      | None => Err EUnknown
      end
  | AddAp r =>
      if inc_ap i then Err EUnsupported else
      match pres m s r with
      | Some v => Ok (d, {| pc := pc s + isize i; ap := ap s + v; fp := fp s |}, m)
      | None => Err EUnknown
      end
  | Call t rel =>
      if inc_ap i then Err EUnsupported else
      match ptarget m s t rel with
      | None => Err EUnknown
      | Some p =>
          bind (pwrite m (ap s) (fp s)) (fun m1 =>
          bind (pwrite m1 (ap s + 1) (pc s + isize i)) (fun m2 =>
          Ok (S d, {| pc := p; ap := ap s + 2; fp := ap s + 2 |}, m2)))
      end
  | Ret =>
      if inc_ap i then Err EUnsupported else
      match d with
      | O => Err EUnsupported                       (* handled by [vm_run] *)
      | S d' =>
          match lookup (fp s - 1) m, lookup (fp s - 2) m with
          | Some rpc, Some rfp => Ok (d', {| pc := rpc; ap := ap s; fp := rfp |}, m)
          | _, _ => Err EUnknown
          end
      end
  | Unsupported _ => Err EUnsupported
  end.

Definition hint_sem := hint -> st -> pmem -> res pmem.

Fixpoint run_hints (hs : hint_sem) (l : list hint) (s : st) (m : pmem) : res pmem :=
  match l with
  | [] => Ok m
  | h :: r => bind (hs h s m) (fun m' => run_hints hs r s m')
  end.

(* runs from depth [d] until the [ret] of depth 0 (not executed); [pb] is the load address *)
Fixpoint vm_run (hs : hint_sem) (pb : Z) (c : code) (fuel : nat) (d : nat) (s : st) (m : pmem)
  : res (st * pmem) :=
  match fuel with
  | O => Err EFuel
  | S k =>
    match fetch pb c s with
    | None => Err EFetch
    | Some i =>
        match ibody i, d with
        | Ret, O => if inc_ap i then Err EUnsupported else Ok (s, m)
        | _, _ =>
            bind (run_hints hs (ihints i) s m) (fun m1 =>
            bind (exec_body i d s m1) (fun r =>
            let '(d', s', m') := r in vm_run hs pb c k d' s' m'))
        end
    end
  end.

(* ---------- honest hints: execute_core_hint ---------- *)
Definition wcell (m : pmem) (s : st) (x : cellref) (v : Z) : res pmem := pwrite m (caddr s x) v.

Definition honest : hint_sem := fun h s m =>
  match h with
  | HTestLessThan lhs rhs dst =>
      match pres m s lhs, pres m s rhs with
      | Some a, Some b => wcell m s dst (if a <? b then 1 else 0)
      | _, _ => Err EHint
      end
  | HTestLessThanOrEqual lhs rhs dst =>
      match pres m s lhs, pres m s rhs with
      | Some a, Some b => wcell m s dst (if a <=? b then 1 else 0)
      | _, _ => Err EHint
      end
  | HWideMul128 lhs rhs high low =>
      match pres m s lhs, pres m s rhs with
      | Some a, Some b =>
          bind (wcell m s high ((a * b) / B128)) (fun m1 => wcell m1 s low ((a * b) mod B128))
      | _, _ => Err EHint
      end
  | HDivMod lhs rhs q r =>
      match pres m s lhs, pres m s rhs with
      | Some a, Some b =>
          if b =? 0 then Err EHint        (* BigUint division by zero panics *)
          else bind (wcell m s q (a / b)) (fun m1 => wcell m1 s r (a mod b))
      | _, _ => Err EHint
      end
  | HSquareRoot v dst =>
      match pres m s v with
      | Some a => wcell m s dst (Z.sqrt a)
      | None => Err EHint
      end
  | HLinearSplit value scalar max_x x y =>
      match pres m s value, pres m s scalar, pres m s max_x with
      | Some v, Some sc, Some mx =>
          if sc =? 0 then Err EHint else
          let xv := Z.min (v / sc) mx in
          bind (wcell m s x xv) (fun m1 => wcell m1 s y (fm (v - xv * sc)))
      | _, _, _ => Err EHint
      end
  | HUint256DivMod d0 d1 v0 v1 q0 q1 r0 r1 =>
      match pres m s d0, pres m s d1, pres m s v0, pres m s v1 with
      | Some a0, Some a1, Some b0, Some b1 =>
          let a := a0 + a1 * B128 in let b := b0 + b1 * B128 in
          if b =? 0 then Err EHint else
          let q := a / b in let r := a mod b in
          bind (wcell m s q0 (q mod B128)) (fun m1 =>
          bind (wcell m1 s q1 (q / B128)) (fun m2 =>
          bind (wcell m2 s r0 (r mod B128)) (fun m3 => wcell m3 s r1 (r / B128))))
      | _, _, _, _ => Err EHint
      end
  | HAllocSegment _ => Err EHint
  | HOther _ => Err EHint
  end.
End Vm.

(* ---------- the fixed frame used by the completeness statements ---------- *)
Definition AP0 : Z := 1000.
Definition RC0 : Z := Eval vm_compute in 2 ^ 20.
Definition CFG : cfg := Eval vm_compute in {| rc_lo := 2 ^ 20; rc_hi := 2 ^ 21 |}.

(* arguments occupy [AP0 - 2 - n, AP0 - 2) *)
Fixpoint place (a : Z) (l : list Z) : pmem :=
  match l with [] => [] | v :: r => (a, v) :: place (a + 1) r end.
Definition init_mem (args : list Z) : pmem := place (AP0 - 2 - Z.of_nat (List.length args)) args.
Definition init_st (entry : Z) : st := {| pc := entry; ap := AP0; fp := AP0 |}.

Definition run_honest (c : code) (entry : Z) (fuel : nat) (args : list Z) : res (st * pmem) :=
  vm_run CFG (honest CFG) 0 c fuel 0 (init_st entry) (init_mem args).

(* the last [n] cells below the final ap *)
Definition outputs (r : res (st * pmem)) (n : nat) : option (list (option Z)) :=
  match r with
  | Ok (s, m) => Some (map (fun k => lookup (ap s - Z.of_nat n + Z.of_nat k) m) (seq 0 n))
  | Err _ => None
  end.
