(* Vmx/ExecSound.v -- [exec] only accepts runs of the step relation. *)
From Vmx Require Import Exec.

Lemma exec_sound m pb c : forall fuel d s s',
  exec m pb c fuel d s = Some s' -> reaches m pb c d s s'.
Proof.
  induction fuel as [|k IH]; intros d s s' H; [discriminate|].
  cbn [exec] in H.
  destruct (fetch pb c s) as [i|] eqn:Hf; [|discriminate].
  destruct (ibody i) as [r|a b|t rel|t x|t rel| |w] eqn:Hb.
  - destruct (inc_ap i) eqn:Hi; [discriminate|].
    eapply R_step; [eapply S_addap; eauto|apply IH; exact H].
  - destruct (cellv m s a =? resv m s b) eqn:E; [|discriminate]. apply Z.eqb_eq in E.
    eapply R_step; [eapply S_assert; eauto|apply IH; exact H].
  - destruct (inc_ap i) eqn:Hi; [discriminate|].
    destruct ((m (ap s) =? fp s) && (m (ap s + 1) =? pc s + isize i)) eqn:E; [|discriminate].
    apply andb_prop in E. destruct E as [E1 E2]. apply Z.eqb_eq in E1, E2.
    eapply R_step; [eapply S_call; eauto|apply IH; exact H].
  - destruct (cellv m s x =? 0) eqn:E.
    + apply Z.eqb_eq in E. eapply R_step; [eapply S_jnz_zero; eauto|apply IH; exact H].
    + apply Z.eqb_neq in E. eapply R_step; [eapply S_jnz_taken; eauto|apply IH; exact H].
  - eapply R_step; [eapply S_jump; eauto|apply IH; exact H].
  - destruct (inc_ap i) eqn:Hi; [discriminate|].
    destruct d as [|d'].
    + injection H as <-. eapply R_ret; eauto.
    + eapply R_step; [eapply S_ret; eauto|apply IH; exact H].
  - discriminate.
Qed.

Lemma mem_of_canonical l : canonical_list l = true -> mem_canonical (mem_of l).
Proof.
  intros H x. unfold mem_of.
  induction l as [|[k v] r IH]; cbn [lookup].
  - unfold P. lia.
  - cbn [canonical_list forallb snd] in H. apply andb_prop in H. destruct H as [Hv Hr].
    destruct (x =? k).
    + apply andb_prop in Hv. destruct Hv as [H1 H2]. apply Z.leb_le in H1. apply Z.ltb_lt in H2. lia.
    + apply IH. exact Hr.
Qed.
