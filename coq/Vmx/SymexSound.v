(* Vmx/SymexSound.v -- the once-and-for-all link between [symex] and the step relation of Sem.v:
   every run that reaches the entry frame's [ret] satisfies one of the path conditions returned by
   [symex], and ends with the ap offset / frame pointer of that path.  Covers forward jumps,
   [jnz], [ap += imm] and [call rel]/[ret] through the symbolic return stack. *)
From Vmx Require Import Symex.

Section Sound.
Variables (m : mem) (pb : Z) (c : code) (ap0 fp0 : Z).

Definition fpval (f : option Z) : Z := match f with None => fp0 | Some k => ap0 + k end.

(* each symbolic frame is backed by the two cells written by its [call] *)
Fixpoint stack_ok (f : option Z) (stk : list (Z * option Z)) : Prop :=
  match stk with
  | [] => f = None
  | (rpc, f') :: r =>
      m (fpval f - 1) = pb + rpc /\ m (fpval f - 2) = fpval f' /\ stack_ok f' r
  end.

Definition matches (s : sst) (d : nat) (x : st) : Prop :=
  pc x = pb + spc s /\ ap x = ap0 + sapk s /\ fp x = fpval (sfp s) /\
  d = List.length (sstack s) /\ stack_ok (sfp s) (sstack s).

Lemma fetch_match s d x : matches s d x -> fetch pb c x = code_at c (spc s).
Proof.
  intros (Hpc & _). unfold fetch. f_equal. lia.
Qed.

Lemma scell_den s d x cl : matches s d x -> den m ap0 fp0 (scell s cl) = cellv m x cl.
Proof.
  intros (_ & Hap & Hfp & _). unfold scell, cellv, regv.
  destruct cl as [r o]; cbn [c_reg c_off]. destruct r.
  - cbn [den]. rewrite Hap. f_equal. lia.
  - rewrite Hfp. destruct (sfp s) as [k|]; cbn [den fpval]; f_equal; lia.
Qed.

Lemma sdoi_den s d x t : matches s d x -> den m ap0 fp0 (sdoi s t) = doiv m x t.
Proof.
  intros H. destruct t; cbn [sdoi doiv den]; [apply (scell_den _ _ _ _ H)|reflexivity].
Qed.

Lemma sres_den s d x r : matches s d x -> den m ap0 fp0 (sres s r) = resv m x r.
Proof.
  intros H. destruct r as [cl|cl o|v|op a b]; cbn [sres resv den].
  - apply (scell_den _ _ _ _ H).
  - rewrite (scell_den _ _ _ _ H). reflexivity.
  - reflexivity.
  - destruct op; cbn [den]; rewrite (scell_den _ _ _ _ H), (sdoi_den _ _ _ _ H); reflexivity.
Qed.

Lemma sbump_matches s d x i npc :
  matches s d x ->
  matches (sbump s i npc) d {| pc := pb + npc; ap := next_ap x i; fp := fp x |}.
Proof.
  intros (Hpc & Hap & Hfp & Hd & Hst).
  unfold matches, sbump, next_ap; cbn [pc ap fp spc sapk sfp sstack].
  repeat split; auto. destruct (inc_ap i); lia.
Qed.

Lemma symex_sound_gen : forall fuel acc s ps,
  symex c fuel acc s = Some ps ->
  forall d x x', matches s d x -> Forall (holds m ap0 fp0) acc ->
  reaches m pb c d x x' ->
  exists cs fs, In (cs, fs) ps /\ Forall (holds m ap0 fp0) cs /\
                ap x' = ap0 + sapk fs /\ fp x' = fp0.
Proof.
  induction fuel as [|k IH]; intros acc s ps Hsym d x x' Hm Hacc Hr; [discriminate|].
  cbn [symex] in Hsym.
  pose proof (fetch_match _ _ _ Hm) as Hf.
  destruct (code_at c (spc s)) as [i|] eqn:Hi; [|discriminate].
  inversion Hr as [x0 i0 Hf0 Hb0 | d0 x0 d1 x1 x0' Hstep Hrest]; subst.
  - (* the run is already at the final ret *)
    rewrite Hf in Hf0. injection Hf0 as <-. rewrite Hb0 in Hsym.
    destruct (inc_ap i); [discriminate|].
    destruct Hm as (Hpc & Hap & Hfp & Hd & Hst).
    destruct (sstack s) as [|[rpc f] r] eqn:Hs; [|discriminate].
    injection Hsym as <-. exists acc, s. repeat split; auto.
    + left; reflexivity.
    + cbn [stack_ok] in Hst. rewrite Hst in Hfp. exact Hfp.
  - inversion Hstep as
      [ d' s' i' a b Hf' Hb' Heq
      | d' s' i' t cl Hf' Hb' Hz
      | d' s' i' t cl Hf' Hb' Hnz
      | d' s' i' t rel Hf' Hb'
      | d' s' i' r Hf' Hb' Hinc
      | d' s' i' t rel Hf' Hb' Hinc Hw1 Hw2
      | d' s' i' Hf' Hb' Hinc ]; subst;
    rewrite Hf in Hf'; injection Hf' as <-; rewrite Hb' in Hsym.
    + (* assert *)
      eapply IH; [exact Hsym| |constructor; [|exact Hacc]|exact Hrest].
      * destruct Hm as (Hpc & Hm'). rewrite Hpc.
        replace (pb + spc s + isize i) with (pb + (spc s + isize i)) by lia.
        apply sbump_matches. split; auto.
      * cbn [holds]. rewrite (scell_den _ _ _ _ Hm), (sres_den _ _ _ _ Hm). exact Heq.
    + (* jnz, zero *)
      destruct t as [tc|v]; [discriminate|].
      destruct (symex c k (CZero (scell s cl) :: acc) _) as [l1|] eqn:E1; [|discriminate].
      destruct (symex c k (CNonZero (scell s cl) :: acc) _) as [l2|] eqn:E2; [|discriminate].
      injection Hsym as <-.
      destruct (IH _ _ _ E1 d1 {| pc := pc x + isize i; ap := next_ap x i; fp := fp x |} x')
        as (cs & fs & Hin & Hrest'); auto.
      * destruct Hm as (Hpc & Hm'). rewrite Hpc.
        replace (pb + spc s + isize i) with (pb + (spc s + isize i)) by lia.
        apply sbump_matches. split; auto.
      * constructor; [|exact Hacc]. cbn [holds]. rewrite (scell_den _ _ _ _ Hm). exact Hz.
      * exists cs, fs. split; [apply in_or_app; left; exact Hin|exact Hrest'].
    + (* jnz, taken *)
      destruct t as [tc|v]; [discriminate|].
      destruct (symex c k (CZero (scell s cl) :: acc) _) as [l1|] eqn:E1; [|discriminate].
      destruct (symex c k (CNonZero (scell s cl) :: acc) _) as [l2|] eqn:E2; [|discriminate].
      injection Hsym as <-.
      destruct (IH _ _ _ E2 d1 {| pc := rel_target m x (DImm v); ap := next_ap x i; fp := fp x |} x')
        as (cs & fs & Hin & Hrest'); auto.
      * cbn [rel_target]. destruct Hm as (Hpc & Hm'). rewrite Hpc.
        replace (pb + spc s + v) with (pb + (spc s + v)) by lia.
        apply sbump_matches. split; auto.
      * constructor; [|exact Hacc]. cbn [holds]. rewrite (scell_den _ _ _ _ Hm). exact Hnz.
      * exists cs, fs. split; [apply in_or_app; right; exact Hin|exact Hrest'].
    + (* jump *)
      destruct t as [tc|v]; [discriminate|]. destruct rel; [|discriminate].
      eapply IH; [exact Hsym| |exact Hacc|exact Hrest].
      cbn [rel_target]. destruct Hm as (Hpc & Hm'). rewrite Hpc.
      replace (pb + spc s + v) with (pb + (spc s + v)) by lia.
      apply sbump_matches. split; auto.
    + (* ap += imm *)
      destruct r as [?|? ?|v|? ? ?]; try discriminate.
      rewrite Hinc in Hsym.
      destruct ((0 <=? v) && (v <? P)) eqn:Hv; [|discriminate].
      apply andb_prop in Hv. destruct Hv as [Hv1 Hv2].
      apply Z.leb_le in Hv1. apply Z.ltb_lt in Hv2.
      eapply IH; [exact Hsym| |exact Hacc|exact Hrest].
      destruct Hm as (Hpc & Hap & Hfp & Hd & Hst).
      unfold matches; cbn [pc ap fp spc sapk sfp sstack resv].
      rewrite Z.mod_small by lia. repeat split; auto; lia.
    + (* call *)
      destruct t as [tc|v]; [discriminate|]. destruct rel; [|discriminate].
      rewrite Hinc in Hsym.
      eapply IH; [exact Hsym| |exact Hacc|exact Hrest].
      destruct Hm as (Hpc & Hap & Hfp & Hd & Hst).
      unfold matches; cbn [pc ap fp spc sapk sfp sstack rel_target length stack_ok fpval].
      repeat split; try lia.
      * replace (ap0 + (sapk s + 2) - 1) with (ap x + 1) by lia. rewrite Hw2. lia.
      * replace (ap0 + (sapk s + 2) - 2) with (ap x) by lia. rewrite Hw1. exact Hfp.
      * exact Hst.
    + (* ret to a caller inside the code object *)
      rewrite Hinc in Hsym.
      destruct Hm as (Hpc & Hap & Hfp & Hd & Hst).
      destruct (sstack s) as [|[rpc f] r] eqn:Hs; [discriminate|].
      cbn [stack_ok] in Hst. destruct Hst as (Hr1 & Hr2 & Hst).
      eapply IH; [exact Hsym| |exact Hacc|exact Hrest].
      unfold matches; cbn [pc ap fp spc sapk sfp sstack].
      rewrite Hfp, Hr1, Hr2. cbn [length] in Hd. repeat split; auto; lia.
Qed.

Lemma all_hold_elim cs G : Forall (holds m ap0 fp0) cs -> all_hold m ap0 fp0 cs G -> G.
Proof.
  induction cs as [|x r IH]; cbn [all_hold]; intros HF H; [exact H|].
  inversion HF; subst. auto.
Qed.

Lemma all_paths_in ps Q cs fs :
  all_paths m ap0 fp0 ps Q -> In (cs, fs) ps -> all_hold m ap0 fp0 cs (Q (ap0 + sapk fs)).
Proof.
  induction ps as [|[cs' s'] r IH]; cbn [all_paths In]; intros H Hin; [contradiction|].
  destruct H as [H1 H2]. destruct Hin as [E|Hin]; [injection E as -> ->; exact H1|auto].
Qed.
End Sound.

(* The form used by every libfunc theorem: [ps] is computed by [vm_compute] from the generated
   code object, [Q] is the postcondition as a predicate on the final ap. *)
Theorem symex_sound : forall (m : mem) (pb : Z) (c : code) (entry : Z) (fuel : nat) (ps : paths)
    (Q : Z -> Prop) (s0 s' : st),
  symex c fuel [] (sinit entry) = Some ps ->
  all_paths m (ap s0) (fp s0) ps Q ->
  pc s0 = pb + entry ->
  reaches m pb c 0 s0 s' ->
  Q (ap s') /\ fp s' = fp s0.
Proof.
  intros m pb c entry fuel ps Q s0 s' Hsym Hall Hpc Hr.
  destruct (symex_sound_gen m pb c (ap s0) (fp s0) fuel [] (sinit entry) ps Hsym 0%nat s0 s')
    as (cs & fs & Hin & Hcs & Hap & Hfp); auto.
  - unfold matches, sinit; cbn [spc sapk sfp sstack fpval length stack_ok]. repeat split; auto; lia.
  - split; [|exact Hfp]. rewrite Hap.
    eapply all_hold_elim; [exact Hcs|]. eapply all_paths_in; eauto.
Qed.
