(* Vmx/VmRunFacts.v -- facts about the executable VM's helpers. *)
From Vmx Require Import VmRun.
Ltac Zify.zify_post_hook ::= Z.div_mod_to_equations.

Lemma fm_mod v : fm v = v mod P.
Proof.
  unfold fm. change Pc with P. change Pc2 with (2 * P).
  destruct (v <? 0) eqn:E0.
  - apply Z.ltb_lt in E0. destruct (- P <=? v) eqn:E1; [|reflexivity].
    apply Z.leb_le in E1. unfold P in *. lia.
  - apply Z.ltb_ge in E0. destruct (v <? P) eqn:E1.
    + apply Z.ltb_lt in E1. symmetry. apply Z.mod_small. lia.
    + apply Z.ltb_ge in E1. destruct (v <? 2 * P) eqn:E2; [|reflexivity].
      apply Z.ltb_lt in E2. unfold P in *. lia.
Qed.
