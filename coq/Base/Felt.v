(* Base/Felt.v -- the Stark field as canonical representatives in [0,P).
   Model file: definitions only (plus a handful of one-line range lemmas used everywhere). *)
From Coq Require Export ZArith List Lia Bool.
Export ListNotations.
Open Scope Z_scope.

Definition P : Z := 2^251 + 17 * 2^192 + 1.

Definition fnorm (x : Z) : Z := x mod P.
Definition fadd (a b : Z) : Z := (a + b) mod P.
Definition fsub (a b : Z) : Z := (a - b) mod P.
Definition fmul (a b : Z) : Z := (a * b) mod P.

Lemma P_pos : 0 < P.
Proof. unfold P. lia. Qed.

Lemma fnorm_range x : 0 <= fnorm x < P.
Proof. unfold fnorm. apply Z.mod_pos_bound. exact P_pos. Qed.

Lemma fnorm_small x : 0 <= x < P -> fnorm x = x.
Proof. intros H. unfold fnorm. apply Z.mod_small. exact H. Qed.
