(* C11/Str.v -- strings as lists of Unicode code points, with exactly the std operations the
   formatter uses: len (UTF-8 bytes), trim (char::is_whitespace = White_Space), split(' '),
   lines(), repeat.  Model file: no proofs. *)
From Coq Require Export NArith List Bool Lia.
Export ListNotations.
Open Scope N_scope.

Definition str := list N.

(* char::is_whitespace: the Unicode White_Space property *)
Definition is_ws (c : N) : bool :=
  ((9 <=? c) && (c <=? 13)) || (c =? 32) || (c =? 0x85) || (c =? 0xA0) || (c =? 0x1680)
  || ((0x2000 <=? c) && (c <=? 0x200A)) || (c =? 0x2028) || (c =? 0x2029) || (c =? 0x202F)
  || (c =? 0x205F) || (c =? 0x3000).

(* char::len_utf8 *)
Definition utf8_len (c : N) : N :=
  if c <? 0x80 then 1 else if c <? 0x800 then 2 else if c <? 0x10000 then 3 else 4.

(* str::len *)
Fixpoint blen (s : str) : N :=
  match s with [] => 0 | c :: r => utf8_len c + blen r end.

Definition is_nil {A} (l : list A) : bool := match l with [] => true | _ => false end.

Fixpoint trim_start (s : str) : str :=
  match s with [] => [] | c :: r => if is_ws c then trim_start r else s end.

Fixpoint trim_end (s : str) : str :=
  match s with
  | [] => []
  | c :: r => match trim_end r with
              | [] => if is_ws c then [] else [c]
              | r' => c :: r'
              end
  end.

(* str::trim *)
Definition trim (s : str) : str := trim_end (trim_start s).

(* " ".repeat(n) and friends *)
Definition rep (c : N) (n : N) : str := List.repeat c (N.to_nat n).

(* chars().take_while(|c| *c == x).count() *)
Fixpoint count_prefix (x : N) (s : str) : N :=
  match s with [] => 0 | c :: r => if c =? x then 1 + count_prefix x r else 0 end.

(* chars().skip(n).collect() *)
Definition skip (n : N) (s : str) : str := skipn (N.to_nat n) s.

(* str::split(d): never empty; "" gives [""] *)
Fixpoint split_on (d : N) (s : str) : list str :=
  match s with
  | [] => [[]]
  | c :: r =>
      if c =? d then [] :: split_on d r
      else match split_on d r with
           | h :: t => (c :: h) :: t
           | [] => [[c]]
           end
  end.

(* strip_suffix('\r') *)
Fixpoint strip_cr (s : str) : str :=
  match s with
  | [] => []
  | [c] => if c =? 13 then [] else [c]
  | c :: r => c :: strip_cr r
  end.

(* str::lines(): split_inclusive('\n'); a piece that ends in '\n' loses it and then one '\r';
   a trailing empty piece is not produced *)
Definition lines (s : str) : list str :=
  let ps := split_on 10 s in
  map strip_cr (removelast ps) ++ (if is_nil (last ps []) then [] else [last ps []]).

(* last char *)
Definition last_char (s : str) : option N :=
  match s with [] => None | _ => Some (last s 0) end.

(* join("\n") *)
Fixpoint join_nl (ls : list str) : str :=
  match ls with
  | [] => []
  | [l] => l
  | l :: r => l ++ 10 :: join_nl r
  end.
