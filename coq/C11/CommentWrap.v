(* C11/CommentWrap.v -- model of the comment re-wrapping code of
   crates/cairo-lang-formatter/src/formatter_impl.rs (struct CommentLine, from_string,
   is_same_prefix, is_open_line, Display, fn format_leading_comment), transcribed as written:
   the output string is accumulated line by line, `saturating_sub` is N's truncated subtraction.
   [alnum] stands for char::is_alphanumeric (a large Unicode table): it is a parameter of the
   model, every theorem holds for every such function, and the correspondence run instantiates it
   with the table the implementation reports for the characters of the case at hand.
   Model file: no proofs. *)
From C11 Require Export Str.

Record CommentLine := {
  n_slashes : N;
  n_exclamations : N;
  n_leading_spaces : N;
  content : str;
}.

Definition slash := 47.
Definition excl := 33.
Definition space := 32.
Definition comma := 44.
Definition nl := 10.

(* CommentLine::from_string *)
Definition from_string (comment_line : str) : CommentLine :=
  let l0 := trim comment_line in
  let ns := count_prefix slash l0 in
  let l1 := skip ns l0 in
  let ne := count_prefix excl l1 in
  let l2 := skip ne l1 in
  let nsp := count_prefix space l2 in
  {| n_slashes := ns; n_exclamations := ne; n_leading_spaces := nsp; content := skip nsp l2 |}.

(* is_same_prefix *)
Definition is_same_prefix (a b : CommentLine) : bool :=
  (n_slashes a =? n_slashes b) && (n_exclamations a =? n_exclamations b)
  && (n_leading_spaces a =? n_leading_spaces b).

(* impl Display for CommentLine *)
Definition to_string (c : CommentLine) : str :=
  rep slash (n_slashes c) ++ rep excl (n_exclamations c) ++ rep space (n_leading_spaces c)
  ++ trim (content c).

Definition with_content (c : CommentLine) (s : str) : CommentLine :=
  {| n_slashes := n_slashes c; n_exclamations := n_exclamations c;
     n_leading_spaces := n_leading_spaces c; content := s |}.

Section Wrap.
  Variable alnum : N -> bool.

  (* is_open_line: content.ends_with(|c| c.is_alphanumeric() || c == ',') *)
  Definition is_open_line (c : CommentLine) : bool :=
    match last_char (content c) with
    | Some ch => alnum ch || (ch =? comma)
    | None => false
    end.

  (* the closure append_line *)
  Definition append_line (cur_indent : N) (formatted : str) (cl : CommentLine) : str :=
    formatted ++ rep space cur_indent ++ to_string cl ++ [nl].

  (* word.starts_with(['/', '!']) *)
  Definition starts_prefix_char (word : str) : bool :=
    match word with c :: _ => (c =? slash) || (c =? excl) | [] => false end.

  (* body of `for word in orig_comment_line.content.split(' ')`;
     state = (formatted_comment, current_line, last_line_broken);
     orig_spaces = orig_comment_line.n_leading_spaces *)
  Definition word_step (cur_indent max_comment_width orig_spaces : N)
             (st : str * CommentLine * bool) (word : str) : str * CommentLine * bool :=
    let '(formatted, current_line, last_line_broken) := st in
    if is_nil (content current_line)
       || (blen (content current_line) + blen word <=? max_comment_width)
       (* The empty word of a double space never starts a line of its own. *)
       || is_nil (trim word)
       (* A word that would be read back as part of the comment prefix stays on its line. *)
       || ((orig_spaces =? 0) && starts_prefix_char word)
    then (formatted, with_content current_line (content current_line ++ word ++ [space]),
          last_line_broken)
    else (append_line cur_indent formatted current_line,
          with_content current_line (word ++ [space]), true).

  (* body of `for line in content.lines()`;
     state = (formatted_comment, prev_comment_line, last_line_broken) *)
  Definition line_step (cur_indent max_line_width : N)
             (st : str * CommentLine * bool) (line : str) : str * CommentLine * bool :=
    let '(formatted, prev_comment_line, last_line_broken) := st in
    let orig := from_string line in
    let max_comment_width :=
      max_line_width - cur_indent - n_slashes orig - n_exclamations orig - n_leading_spaces orig in
    let '(formatted1, current_line) :=
      if last_line_broken && is_open_line prev_comment_line && is_same_prefix prev_comment_line orig
      then (formatted, with_content prev_comment_line (content prev_comment_line ++ [space]))
      else (append_line cur_indent formatted prev_comment_line, with_content orig [])
    in
    let '(formatted2, current_line2, last_line_broken2) :=
      fold_left (word_step cur_indent max_comment_width (n_leading_spaces orig)) (split_on space (content orig))
                (formatted1, current_line, false) in
    (formatted2, with_content orig (trim (content current_line2)), last_line_broken2).

  (* fn format_leading_comment(content, cur_indent, max_line_width) *)
  Definition format_leading_comment (c : str) (cur_indent max_line_width : N) : str :=
    let '(formatted, prev_comment_line, _) :=
      fold_left (line_step cur_indent max_line_width) (lines c) ([], from_string [], false) in
    trim (append_line cur_indent formatted prev_comment_line).
End Wrap.
