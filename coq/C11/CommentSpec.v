(* C11/CommentSpec.v -- what "the words of a comment" are (specification side of the comment theorems).
   Model file: no proofs. *)
From C11 Require Export CommentWrap.

(* pieces between whitespace characters *)
Fixpoint wsplit (s : str) : list str :=
  match s with
  | [] => [[]]
  | c :: r =>
      if is_ws c then [] :: wsplit r
      else match wsplit r with
           | h :: t => (c :: h) :: t
           | [] => [[c]]
           end
  end.

(* the whitespace-separated words of a string *)
Definition ws_words (s : str) : list str := filter (fun w => negb (is_nil w)) (wsplit s).

(* a word of a comment, tagged with the kind of comment line it stands on: number of slashes and
   of exclamation marks of the prefix (`//` = (2,0), `///` = (3,0) doc, `//!` = (2,1) inner) *)
Definition tword := (N * N * str)%type.

Definition cl_words (cl : CommentLine) : list tword :=
  map (fun w => (n_slashes cl, n_exclamations cl, w)) (ws_words (content cl)).

(* the words of one comment line as the formatter reads it (prefix stripped) *)
Definition line_words (l : str) : list tword := cl_words (from_string l).

(* the words of a (multi-line) comment: line by line *)
Definition comment_words (c : str) : list tword := flat_map line_words (split_on nl c).

(* first character of a word is not `/` or `!` *)
Definition good_start (w : str) : bool :=
  match w with [] => true | x :: _ => negb (x =? slash) && negb (x =? excl) end.

(* A line is prefix-safe when its prefix ends in a space (and is a comment prefix), or no word of
   it starts with `/` or `!`: then a word moved to the start of a continuation line cannot be
   read as part of the prefix. *)
Definition line_safe (cl : CommentLine) : bool :=
  ((0 <? n_leading_spaces cl) && (0 <? n_slashes cl + n_exclamations cl))
  || forallb good_start (ws_words (content cl)).

Definition comment_safe (c : str) : bool :=
  forallb (fun l => line_safe (from_string l)) (lines c).
