(* C11/Corr.v -- boolean comparison of the models with what the implementation answered
   (case files written by harness/h11).  No proofs. *)
From C11 Require Export CommentWrap LineBreak.

Fixpoint str_eqb (a b : str) : bool :=
  match a, b with
  | [], [] => true
  | x :: a', y :: b' => (x =? y) && str_eqb a' b'
  | _, _ => false
  end.

(* char::is_alphanumeric restricted to the characters of the shard (reported by the implementation) *)
Definition in_tbl (tbl : list N) (c : N) : bool := existsb (N.eqb c) tbl.

Fixpoint bad_indices {A} (f : A -> bool) (l : list A) (i : nat) : list nat :=
  match l with
  | [] => []
  | x :: r => if f x then bad_indices f r (S i) else i :: bad_indices f r (S i)
  end.

(* comment leg: (content, cur_indent, max_line_width, output of format_leading_comment) *)
Definition check_cw (tbl : list N) (cases : list (str * N * N * str)) : list nat :=
  bad_indices (fun c => let '(content, i, w, out) := c in
                        str_eqb (format_leading_comment (in_tbl tbl) content i w) out) cases 0.

(* short constructors for the dumped LineBuilder trees *)
Definition B (e : bool) (prec : N) (ind : nat) (o s g c : bool) : comp :=
  Break {| is_empty_line_breakpoint := e; precedence := prec;
           break_indentation := match ind with O => Indented | S O => IndentedWithTail | _ => NotIndented end;
           is_optional := o; space_if_not_broken := s; is_single_breakpoint := g;
           is_comma_if_broken := c |}.
Definition T := Token.
Definition Z := Zone.
Definition S_ := Space.
Definition I := Indent.
Definition C := Comment.
Definition LB (ch : list comp) (o : bool) (p : list comp) : builder :=
  {| children := ch; is_open := o; pending := p |}.

(* line-breaker leg: (tree, max_line_length, tab_size, output of build) *)
Definition check_lb (tbl : list N) (cases : list (builder * N * N * str)) : list nat :=
  bad_indices (fun c => let '(tree, w, tab, out) := c in
                        closed_l (children tree) &&
                        match build (in_tbl tbl) w tab tree with
                        | Some s => str_eqb s out
                        | None => false
                        end) cases 0.
