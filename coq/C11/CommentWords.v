(* C11/CommentWords.v -- string-level preservation of comment words (uses CommentProofs). *)
From C11 Require Import CommentSpec CommentProofs.

(* ---------- split / comment_words structure ---------- *)
Lemma split_on_app_sep d a b : split_on d (a ++ d :: b) = split_on d a ++ split_on d b.
Proof.
  induction a as [|x a IH]; cbn [app split_on].
  - rewrite N.eqb_refl. reflexivity.
  - destruct (x =? d). { rewrite IH. reflexivity. }
    rewrite IH. destruct (split_on d a) as [|h t] eqn:E; [exfalso; eapply split_on_nonempty; eauto|]. reflexivity.
Qed.

Lemma comment_words_app_nl a b : comment_words (a ++ nl :: b) = comment_words a ++ comment_words b.
Proof. unfold comment_words. rewrite split_on_app_sep. apply flat_map_app. Qed.

Definition nlfree (s : str) : bool := forallb (fun c => negb (c =? nl)) s.

Lemma split_on_nlfree s : nlfree s = true -> split_on nl s = [s].
Proof.
  induction s as [|c r IH]; cbn; [reflexivity|]. intros H. apply andb_true_iff in H as [Hc Hr].
  apply negb_true_iff in Hc. rewrite Hc. rewrite IH by assumption. reflexivity.
Qed.

Lemma comment_words_nlfree s : nlfree s = true -> comment_words s = line_words s.
Proof. intros H. unfold comment_words. rewrite split_on_nlfree by assumption. cbn. apply app_nil_r. Qed.

Lemma line_words_ws_l a x : all_ws a -> line_words (a ++ x) = line_words x.
Proof. intros H. unfold line_words. rewrite from_string_ws_l by assumption. reflexivity. Qed.
Lemma line_words_ws_r x b : all_ws b -> line_words (x ++ b) = line_words x.
Proof. intros H. unfold line_words. rewrite from_string_ws_r by assumption. reflexivity. Qed.

Lemma line_words_all_ws a : all_ws a -> line_words a = [].
Proof. intros H. rewrite <- (app_nil_r a). rewrite line_words_ws_l by assumption. reflexivity. Qed.

Lemma comment_words_cons_ws c s : is_ws c = true -> comment_words (c :: s) = comment_words s.
Proof.
  intros Hc. unfold comment_words. cbn [split_on]. destruct (c =? nl) eqn:E.
  - cbn. reflexivity.
  - destruct (split_on nl s) as [|h t] eqn:Es; [exfalso; eapply split_on_nonempty; eauto|].
    cbn [flat_map]. f_equal. apply (line_words_ws_l [c] h). unfold all_ws. cbn. rewrite Hc. reflexivity.
Qed.

Lemma comment_words_ws_l a s : all_ws a -> comment_words (a ++ s) = comment_words s.
Proof.
  unfold all_ws. induction a as [|c a IH]; cbn [app forallb]; intros H; [reflexivity|].
  apply andb_true_iff in H as [Hc Ha]. rewrite comment_words_cons_ws by assumption. auto.
Qed.

Lemma split_on_snoc d s c : (c =? d) = false ->
  split_on d (s ++ [c]) = removelast (split_on d s) ++ [last (split_on d s) [] ++ [c]].
Proof.
  intros Hc. induction s as [|x s IH]; cbn [app split_on].
  - rewrite Hc. reflexivity.
  - destruct (x =? d).
    + rewrite IH. destruct (split_on d s) as [|h t] eqn:E; [exfalso; eapply split_on_nonempty; eauto|].
      cbn [removelast last]. destruct t; reflexivity.
    + rewrite IH. destruct (split_on d s) as [|h t] eqn:E; [exfalso; eapply split_on_nonempty; eauto|].
      destruct t as [|h2 t2]; cbn; reflexivity.
Qed.

Lemma comment_words_snoc_ws s c : is_ws c = true -> comment_words (s ++ [c]) = comment_words s.
Proof.
  intros Hc. destruct (c =? nl) eqn:E.
  - apply N.eqb_eq in E. subst c. rewrite comment_words_app_nl. cbn. apply app_nil_r.
  - unfold comment_words. rewrite split_on_snoc by assumption.
    assert (Hne : split_on nl s <> []) by apply split_on_nonempty.
    rewrite (app_removelast_last [] Hne) at 3. rewrite !flat_map_app. f_equal. cbn [flat_map].
    f_equal. apply line_words_ws_r. unfold all_ws. cbn. rewrite Hc. reflexivity.
Qed.

Lemma comment_words_ws_r s b : all_ws b -> comment_words (s ++ b) = comment_words s.
Proof.
  revert s. unfold all_ws. induction b as [|c b IH]; intros s H. { rewrite app_nil_r. reflexivity. }
  cbn [forallb] in H. apply andb_true_iff in H as [Hc Hb].
  change (s ++ c :: b) with (s ++ [c] ++ b). rewrite app_assoc. rewrite IH by assumption.
  apply comment_words_snoc_ws. exact Hc.
Qed.

Lemma comment_words_trim s : comment_words (trim s) = comment_words s.
Proof.
  destruct (trim_decomp s) as [a [b [Ha [Hb E]]]]. rewrite E at 2.
  rewrite comment_words_ws_l by assumption. rewrite comment_words_ws_r by assumption. reflexivity.
Qed.

(* ---------- re-reading a rendered line ---------- *)
Lemma count_prefix_rep x n r : count_prefix x (rep x n ++ r) = n + count_prefix x r.
Proof.
  unfold rep. rewrite <- (N2Nat.id n) at 2. generalize (N.to_nat n) as m. clear n.
  induction m as [|m IH]; [reflexivity|]. cbn [repeat app count_prefix]. rewrite N.eqb_refl, IH. lia.
Qed.

Lemma skip_rep x n r : skip n (rep x n ++ r) = r.
Proof. unfold skip, rep. generalize (N.to_nat n) as m. induction m; cbn; auto. Qed.

Lemma skip_0 s : skip 0 s = s.
Proof. reflexivity. Qed.

Definition hd_is (x : N) (s : str) : bool := match s with c :: _ => c =? x | [] => false end.

Lemma count_prefix_0 x s : hd_is x s = false -> count_prefix x s = 0.
Proof. destruct s as [|c r]; cbn; [reflexivity|]. intros ->. reflexivity. Qed.

Lemma rep_hd x n r : 0 < n -> exists t, rep x n ++ r = x :: t.
Proof.
  intros H. unfold rep. destruct (N.to_nat n) eqn:E; [lia|]. cbn. eexists. reflexivity.
Qed.

Lemma rep_0 x : rep x 0 = [].
Proof. reflexivity. Qed.

Definition starts_nows (s : str) : Prop := match s with c :: _ => is_ws c = false | [] => True end.

Lemma trim_start_id s : starts_nows s -> trim_start s = s.
Proof. destruct s as [|c r]; cbn; [reflexivity|]. intros ->. reflexivity. Qed.

Lemma trim_start_starts s : starts_nows (trim_start s).
Proof. induction s as [|c r IH]; cbn; [exact I|]. destruct (is_ws c) eqn:E; [exact IH|]. cbn. exact E. Qed.

Lemma trim_end_cons_nonnil c r : trim_end r <> [] -> trim_end (c :: r) = c :: trim_end r.
Proof. cbn. destruct (trim_end r); [congruence|reflexivity]. Qed.

Lemma trim_end_idem s : trim_end (trim_end s) = trim_end s.
Proof.
  induction s as [|c r IH]; cbn [trim_end]; [reflexivity|].
  destruct (trim_end r) as [|x t] eqn:E.
  - destruct (is_ws c) eqn:Hc; cbn; [reflexivity|]. rewrite Hc. reflexivity.
  - rewrite trim_end_cons_nonnil; rewrite IH; [reflexivity|discriminate].
Qed.

Lemma trim_end_app_fix p t : t <> [] -> trim_end t = t -> trim_end (p ++ t) = p ++ t.
Proof.
  intros Hne Ht. induction p as [|c p IH]; cbn [app trim_end]; [exact Ht|].
  rewrite IH. destruct (p ++ t) eqn:E; [|reflexivity]. destruct p; cbn in E; congruence.
Qed.

Lemma trim_end_starts s : starts_nows s -> starts_nows (trim_end s).
Proof.
  destruct s as [|c r]; cbn; [auto|]. intros Hc. destruct (trim_end r); cbn; [rewrite Hc; cbn; exact Hc| exact Hc].
Qed.

Lemma trim_facts s : starts_nows (trim s) /\ trim_end (trim s) = trim s.
Proof.
  unfold trim. split; [apply trim_end_starts, trim_start_starts | apply trim_end_idem].
Qed.

Lemma ws_words_hd x r : is_ws x = false -> exists w rest, ws_words (x :: r) = (x :: w) :: rest.
Proof.
  intros Hx. unfold ws_words. cbn [wsplit]. rewrite Hx.
  destruct (wsplit r) as [|h t] eqn:E; [exfalso; eapply wsplit_nonempty; eauto|].
  cbn. eexists. eexists. reflexivity.
Qed.

Lemma slash_nows : is_ws slash = false. Proof. reflexivity. Qed.
Lemma excl_nows : is_ws excl = false. Proof. reflexivity. Qed.

Definition pgood (cl : CommentLine) : bool :=
  (0 <? n_leading_spaces cl) && (0 <? n_slashes cl + n_exclamations cl).

Lemma line_safe_unfold cl : line_safe cl = pgood cl || forallb good_start (ws_words (content cl)).
Proof. reflexivity. Qed.


Lemma trim_fix s : starts_nows s -> trim_end s = s -> trim s = s.
Proof. intros H1 H2. unfold trim. rewrite trim_start_id by assumption. exact H2. Qed.

Lemma trim_nows_all s : forallb (fun ch => negb (is_ws ch)) s = true -> trim s = s.
Proof.
  intros Hall. apply trim_fix.
  - destruct s; cbn in *; [exact I|]. apply andb_true_iff in Hall as [H _]. apply negb_true_iff in H. exact H.
  - induction s as [|ch r IH]; cbn in *; [reflexivity|].
    apply andb_true_iff in Hall as [H Hr]. apply negb_true_iff in H. rewrite IH by assumption.
    destruct r; [rewrite H|]; reflexivity.
Qed.

(* reading back a string that is literally prefix ++ text *)
Lemma from_string_parts a b c t :
  let X := rep slash a ++ rep excl b ++ rep space c ++ t in
  trim X = X ->
  hd_is slash (rep excl b ++ rep space c ++ t) = false ->
  hd_is excl (rep space c ++ t) = false ->
  hd_is space t = false ->
  from_string X = {| n_slashes := a; n_exclamations := b; n_leading_spaces := c; content := t |}.
Proof.
  intros X Ht H1 H2 H3. unfold from_string. rewrite Ht. unfold X.
  rewrite count_prefix_rep, (count_prefix_0 _ _ H1), N.add_0_r, skip_rep.
  rewrite count_prefix_rep, (count_prefix_0 _ _ H2), N.add_0_r, skip_rep.
  rewrite count_prefix_rep, (count_prefix_0 _ _ H3), N.add_0_r, skip_rep. reflexivity.
Qed.

Lemma hd_is_rep_other x y n r : (y =? x) = false -> 0 < n -> hd_is x (rep y n ++ r) = false.
Proof. intros Hxy Hn. destruct (rep_hd y n r Hn) as [t ->]. cbn. exact Hxy. Qed.

Lemma rep_zero x n : n = 0 -> rep x n = [].
Proof. intros ->. reflexivity. Qed.

Lemma all_ws_rep_space n : all_ws (rep space n).
Proof. unfold all_ws, rep. induction (N.to_nat n); cbn; auto. Qed.

(* the words of a rendered line, read back by the formatter, are the words of the line *)
Lemma line_words_render i cl :
  line_safe cl = true -> line_words (rep space i ++ to_string cl) = cl_words cl.
Proof.
  intros Hs. rewrite line_words_ws_l by apply all_ws_rep_space. clear i.
  unfold to_string. destruct cl as [ns ne nsp c]. cbn [n_slashes n_exclamations n_leading_spaces content].
  destruct (trim_facts c) as [Hst Hte]. unfold cl_words. cbn [n_slashes n_exclamations content].
  rewrite <- (ws_words_trim c).
  rewrite line_safe_unfold in Hs. unfold pgood in Hs. cbn [n_slashes n_exclamations n_leading_spaces content] in Hs.
  rewrite <- (ws_words_trim c) in Hs.
  destruct (trim c) as [|x tc] eqn:Etc.
  - (* no text: the trailing spaces vanish, no words either way *)
    rewrite app_nil_r. rewrite app_assoc. rewrite line_words_ws_r by apply all_ws_rep_space.
    unfold line_words.
    pose proof (from_string_parts ns ne 0 []) as F. cbn zeta in F. rewrite rep_0 in F. cbn [app] in F.
    rewrite !app_nil_r in F. rewrite F; [reflexivity| | | |reflexivity].
    + apply trim_nows_all. unfold rep. rewrite forallb_app. apply andb_true_iff. split.
      * induction (N.to_nat ns); cbn; auto.
      * induction (N.to_nat ne); cbn; auto.
    + destruct (N.eq_dec ne 0) as [->|Hne]; [reflexivity|]. rewrite <- (app_nil_r (rep excl ne)). apply (hd_is_rep_other slash excl ne []); [reflexivity|lia].
    + reflexivity.
  - cbn in Hst. (* x is not whitespace *)
    destruct (ws_words_hd x tc Hst) as [w [rest Ew]].
    assert (Hgood : pgood {| n_slashes := ns; n_exclamations := ne; n_leading_spaces := nsp; content := c |} = false ->
                    (x =? slash) = false /\ (x =? excl) = false).
    { unfold pgood. cbn [n_slashes n_exclamations n_leading_spaces]. intros Hp. rewrite Hp in Hs. cbn [orb] in Hs.
      rewrite Ew in Hs. cbn [forallb good_start] in Hs. apply andb_true_iff in Hs as [Hg _].
      apply andb_true_iff in Hg as [G1 G2]. apply negb_true_iff in G1, G2. split; assumption. }
    unfold pgood in Hgood. cbn [n_slashes n_exclamations n_leading_spaces] in Hgood.
    assert (Hxsp : (x =? space) = false).
    { destruct (x =? space) eqn:E; [|reflexivity]. apply N.eqb_eq in E. subst x. discriminate Hst. }
    assert (Hnil : x :: tc <> []) by discriminate.
    destruct (N.eq_dec (ns + ne) 0) as [Hz|Hnz].
    + (* no comment prefix at all: the leading spaces are trimmed away *)
      assert (ns = 0) by lia. assert (ne = 0) by lia. subst ns ne. rewrite !rep_0. cbn [app].
      rewrite line_words_ws_l by apply all_ws_rep_space.
      destruct Hgood as [G1 G2]. { rewrite N.ltb_irrefl, andb_false_r. reflexivity. }
      unfold line_words.
      pose proof (from_string_parts 0 0 0 (x :: tc)) as F. cbn zeta in F. rewrite !rep_0 in F. cbn [app] in F.
      rewrite F; [reflexivity| | | |].
      * apply trim_fix; [exact Hst|exact Hte].
      * cbn. exact G1.
      * cbn. exact G2.
      * cbn. exact Hxsp.
    + unfold line_words.
      rewrite (from_string_parts ns ne nsp (x :: tc)); [reflexivity| | | |].
      * apply trim_fix.
        -- destruct (N.eq_dec ns 0) as [->|Hns].
           ++ rewrite rep_0. cbn [app]. destruct (rep_hd excl ne (rep space nsp ++ x :: tc)) as [t ->]; [lia|]. reflexivity.
           ++ destruct (rep_hd slash ns (rep excl ne ++ rep space nsp ++ x :: tc)) as [t ->]; [lia|]. reflexivity.
        -- rewrite !app_assoc. apply trim_end_app_fix; assumption.
      * destruct (N.eq_dec ne 0) as [->|Hne].
        -- rewrite rep_0. cbn [app]. destruct (N.eq_dec nsp 0) as [->|Hnsp].
           ++ rewrite rep_0. cbn. apply Hgood. cbn. reflexivity.
           ++ apply hd_is_rep_other; [reflexivity|lia].
        -- apply hd_is_rep_other; [reflexivity|lia].
      * destruct (N.eq_dec nsp 0) as [->|Hnsp].
        -- rewrite rep_0. cbn. apply Hgood. cbn. reflexivity.
        -- apply hd_is_rep_other; [reflexivity|lia].
      * cbn. exact Hxsp.
Qed.

(* ---------- every emitted line is prefix-safe and newline-free ---------- *)
Lemma nlfree_app a b : nlfree (a ++ b) = nlfree a && nlfree b.
Proof. apply forallb_app. Qed.

Lemma nlfree_trim_start s : nlfree s = true -> nlfree (trim_start s) = true.
Proof. induction s as [|c r IH]; cbn; [auto|]. intros H. destruct (is_ws c); [|exact H]. apply andb_true_iff in H as [_ H]. auto. Qed.

Lemma nlfree_trim_end s : nlfree s = true -> nlfree (trim_end s) = true.
Proof.
  induction s as [|c r IH]; cbn; [auto|]. intros H. apply andb_true_iff in H as [Hc Hr].
  specialize (IH Hr). destruct (trim_end r) as [|x t].
  - destruct (is_ws c); cbn; [reflexivity|]. rewrite Hc. reflexivity.
  - cbn [nlfree forallb] in *. rewrite Hc. exact IH.
Qed.

Lemma nlfree_trim s : nlfree s = true -> nlfree (trim s) = true.
Proof. intros H. apply nlfree_trim_end, nlfree_trim_start, H. Qed.

Lemma nlfree_skip n s : nlfree s = true -> nlfree (skip n s) = true.
Proof.
  unfold skip. generalize (N.to_nat n) as m. intros m. revert s. induction m as [|m IH]; intros s H; [exact H|].
  destruct s as [|c r]; [reflexivity|]. cbn in *. apply andb_true_iff in H as [_ H]. auto.
Qed.

Lemma nlfree_from_string l : nlfree l = true -> nlfree (content (from_string l)) = true.
Proof. intros H. unfold from_string. cbn [content]. repeat apply nlfree_skip. apply nlfree_trim, H. Qed.

Lemma nlfree_rep x n : (x =? nl) = false -> nlfree (rep x n) = true.
Proof. intros H. unfold rep. induction (N.to_nat n); cbn; [reflexivity|]. rewrite H. exact IHn0. Qed.

Lemma nlfree_to_string cl : nlfree (content cl) = true -> nlfree (to_string cl) = true.
Proof.
  intros H. unfold to_string. rewrite !nlfree_app. rewrite !nlfree_rep by reflexivity. cbn.
  apply nlfree_trim, H.
Qed.

Lemma nlfree_split_pieces d s : nlfree s = true -> Forall (fun p => nlfree p = true) (split_on d s).
Proof.
  induction s as [|c r IH]; cbn; [repeat constructor|]. intros H. apply andb_true_iff in H as [Hc Hr].
  specialize (IH Hr). destruct (c =? d).
  - constructor; [reflexivity|exact IH].
  - destruct (split_on d r) as [|h t]; [repeat constructor; cbn; rewrite Hc; reflexivity|].
    inversion IH; subst. constructor; [cbn; rewrite Hc; assumption|assumption].
Qed.

Lemma split_nl_pieces_nlfree s : Forall (fun p => nlfree p = true) (split_on nl s).
Proof.
  induction s as [|c r IH]; cbn [split_on]; [repeat constructor|].
  destruct (c =? nl) eqn:E.
  - constructor; [reflexivity|exact IH].
  - destruct (split_on nl r) as [|h t]; [repeat constructor; cbn; rewrite E; reflexivity|].
    inversion IH; subst. constructor; [cbn; rewrite E; assumption|assumption].
Qed.

Lemma nlfree_strip_cr s : nlfree s = true -> nlfree (strip_cr s) = true.
Proof.
  induction s as [|c r IH]; [auto|]. intros H. cbn in H. apply andb_true_iff in H as [Hc Hr].
  destruct r as [|c2 r2]. { cbn. destruct (c =? 13); cbn; [reflexivity|rewrite Hc; reflexivity]. }
  change (strip_cr (c :: c2 :: r2)) with (c :: strip_cr (c2 :: r2)). cbn [nlfree forallb]. rewrite Hc. exact (IH Hr).
Qed.

Lemma lines_nlfree c : Forall (fun l => nlfree l = true) (lines c).
Proof.
  unfold lines. cbv zeta. pose proof (split_nl_pieces_nlfree c) as H. change nl with 10 in H.
  set (ps := split_on 10 c) in *. assert (Hne : ps <> []) by apply split_on_nonempty.
  apply Forall_app. split.
  - apply Forall_forall. intros l Hl. apply in_map_iff in Hl as [l0 [<- Hl0]]. apply nlfree_strip_cr.
    rewrite Forall_forall in H. apply H. rewrite (app_removelast_last [] Hne). apply in_or_app. left. exact Hl0.
  - destruct (is_nil (last ps [])); constructor; [|constructor].
    rewrite Forall_forall in H. apply H. rewrite (app_removelast_last [] Hne) at 2. apply in_or_app. right. left. reflexivity.
Qed.

Definition okl (cl : CommentLine) : Prop := line_safe cl = true /\ nlfree (content cl) = true.

Lemma pgood_with_content cl s : pgood (with_content cl s) = pgood cl.
Proof. reflexivity. Qed.

Lemma same_prefix_pgood a b : is_same_prefix a b = true -> pgood a = pgood b.
Proof.
  unfold is_same_prefix, pgood. intros H. apply andb_true_iff in H as [H H3]. apply andb_true_iff in H as [H1 H2].
  apply N.eqb_eq in H1, H2, H3. rewrite H1, H2, H3. reflexivity.
Qed.

Definition gw (p : bool) (ws : list str) : bool := p || forallb good_start ws.

Lemma gw_app p a b : gw p (a ++ b) = gw p a && gw p b.
Proof. unfold gw. rewrite forallb_app. destruct p; reflexivity. Qed.

Lemma gw_flat_map p (f : str -> list str) l : gw p (flat_map f l) = true -> Forall (fun x => gw p (f x) = true) l.
Proof.
  induction l as [|x l IH]; cbn [flat_map]; [constructor|]. rewrite gw_app. intros H.
  apply andb_true_iff in H as [H1 H2]. constructor; auto.
Qed.

Section W2.
  Variable alnum : N -> bool.

  Lemma word_stepL_ok maxw nsp0 ls cur b word :
    Forall okl ls -> okl cur -> sp_end (content cur) ->
    gw (pgood cur) (ws_words word) = true -> nlfree word = true ->
    let '(ls', cur', _) := word_stepL maxw nsp0 (ls, cur, b) word in
    Forall okl ls' /\ okl cur' /\ sp_end (content cur') /\ pgood cur' = pgood cur.
  Proof.
    intros Hls [Hc1 Hc2] Hs Hw Hn. cbn [word_stepL].
    destruct (is_nil (content cur) || (blen (content cur) + blen word <=? maxw) || is_nil (trim word) || ((nsp0 =? 0) && starts_prefix_char word)).
    - split; [exact Hls|]. split; [|split; [|reflexivity]].
      + split.
        * rewrite line_safe_unfold, pgood_with_content. cbn [with_content content].
          rewrite ws_words_sp_end_app by assumption. fold (gw (pgood cur) (ws_words (content cur) ++ ws_words word)).
          rewrite gw_app. rewrite Hw, andb_true_r. exact Hc1.
        * cbn [with_content content]. rewrite !nlfree_app, Hc2, Hn. reflexivity.
      + right. exists (content cur ++ word). cbn. rewrite app_assoc. reflexivity.
    - split; [apply Forall_app; split; [exact Hls|constructor; [split; assumption|constructor]]|].
      split; [|split; [|reflexivity]].
      + split.
        * rewrite line_safe_unfold, pgood_with_content. cbn [with_content content].
          rewrite ws_words_snoc_ws by reflexivity. exact Hw.
        * cbn [with_content content]. rewrite nlfree_app, Hn. reflexivity.
      + right. exists word. reflexivity.
  Qed.

  Lemma words_fold_ok maxw nsp0 words : forall ls cur b,
    Forall okl ls -> okl cur -> sp_end (content cur) ->
    Forall (fun wd => gw (pgood cur) (ws_words wd) = true /\ nlfree wd = true) words ->
    let '(ls', cur', _) := fold_left (word_stepL maxw nsp0) words (ls, cur, b) in
    Forall okl ls' /\ okl cur' /\ pgood cur' = pgood cur.
  Proof.
    induction words as [|wd words IH]; intros ls cur b Hls Hc Hs Hw; cbn [fold_left].
    - auto.
    - inversion Hw as [|? ? [Hw1 Hw2] Hw']; subst.
      pose proof (word_stepL_ok maxw nsp0 ls cur b wd Hls Hc Hs Hw1 Hw2) as H1.
      destruct (word_stepL maxw nsp0 (ls, cur, b) wd) as [[ls1 cur1] b1]. destruct H1 as [A1 [A2 [A3 A4]]].
      specialize (IH ls1 cur1 b1 A1 A2 A3). rewrite A4 in IH. specialize (IH Hw').
      destruct (fold_left _ words _) as [[ls2 cur2] b2]. destruct IH as [B1 [B2 B3]]. split; [exact B1|]. split; [exact B2|]. congruence.
  Qed.

  Lemma line_stepL_ok i w ls prev b line :
    Forall okl ls -> okl prev -> line_safe (from_string line) = true -> nlfree line = true ->
    let '(ls', prev', _) := line_stepL alnum i w (ls, prev, b) line in
    Forall okl ls' /\ okl prev'.
  Proof.
    intros Hls Hp Hsafe Hn. cbn [line_stepL]. set (orig := from_string line) in *. set (maxw := w - i - _ - _ - _).
    assert (Hno : nlfree (content orig) = true) by (apply nlfree_from_string; exact Hn).
    assert (Hwords : forall p, p = pgood orig ->
              Forall (fun wd => gw p (ws_words wd) = true /\ nlfree wd = true) (split_on space (content orig))).
    { intros p ->. rewrite line_safe_unfold in Hsafe. fold (gw (pgood orig) (ws_words (content orig))) in Hsafe.
      rewrite <- ws_words_split_space in Hsafe. apply gw_flat_map in Hsafe.
      pose proof (nlfree_split_pieces space _ Hno) as Hp2.
      rewrite Forall_forall in *. intros x Hx. split; auto. }
    destruct (b && is_open_line alnum prev && is_same_prefix prev orig) eqn:Em.
    - apply andb_true_iff in Em as [_ Esp]. pose proof (same_prefix_pgood _ _ Esp) as Epg.
      set (cur0 := with_content prev (content prev ++ [space])).
      assert (Hc0 : okl cur0).
      { destruct Hp as [P1 P2]. split.
        - rewrite line_safe_unfold. unfold cur0. rewrite pgood_with_content. cbn [with_content content].
          rewrite ws_words_snoc_ws by reflexivity. exact P1.
        - unfold cur0. cbn [with_content content]. rewrite nlfree_app, P2. reflexivity. }
      pose proof (words_fold_ok maxw (n_leading_spaces orig) (split_on space (content orig)) ls cur0 false Hls Hc0) as H.
      destruct (fold_left _ _ _) as [[ls2 cur2] b2].
      destruct H as [A1 [[A2 A3] A4]]. { right. eexists. reflexivity. } { apply Hwords. unfold cur0. rewrite pgood_with_content. auto. }
      split; [exact A1|]. split.
      + rewrite line_safe_unfold, pgood_with_content. cbn [with_content content]. rewrite ws_words_trim.
        rewrite line_safe_unfold in A2. rewrite A4 in A2. unfold cur0 in A2. rewrite pgood_with_content, Epg in A2. exact A2.
      + cbn [with_content content]. apply nlfree_trim, A3.
    - set (cur0 := with_content orig []).
      assert (Hc0 : okl cur0).
      { split; [|reflexivity]. rewrite line_safe_unfold. unfold cur0. cbn [with_content content]. cbn. apply orb_true_r. }
      assert (Hls' : Forall okl (ls ++ [prev])) by (apply Forall_app; split; [exact Hls|constructor; [exact Hp|constructor]]).
      pose proof (words_fold_ok maxw (n_leading_spaces orig) (split_on space (content orig)) (ls ++ [prev]) cur0 false Hls' Hc0) as H.
      destruct (fold_left _ _ _) as [[ls2 cur2] b2].
      destruct H as [A1 [[A2 A3] A4]]. { left. reflexivity. } { apply Hwords. reflexivity. }
      split; [exact A1|]. split.
      + rewrite line_safe_unfold, pgood_with_content. cbn [with_content content]. rewrite ws_words_trim.
        rewrite line_safe_unfold in A2. rewrite A4 in A2. exact A2.
      + cbn [with_content content]. apply nlfree_trim, A3.
  Qed.

  Lemma lines_fold_ok i w ll : forall ls prev b,
    Forall okl ls -> okl prev ->
    Forall (fun l => line_safe (from_string l) = true /\ nlfree l = true) ll ->
    let '(ls', prev', _) := fold_left (line_stepL alnum i w) ll (ls, prev, b) in
    Forall okl ls' /\ okl prev'.
  Proof.
    induction ll as [|l ll IH]; intros ls prev b Hls Hp Hll; cbn [fold_left]; [auto|].
    inversion Hll as [|? ? [L1 L2] Hll']; subst.
    pose proof (line_stepL_ok i w ls prev b l Hls Hp L1 L2) as H1.
    destruct (line_stepL alnum i w (ls, prev, b) l) as [[ls1 prev1] b1]. destruct H1 as [A1 A2].
    apply IH; assumption.
  Qed.

  Lemma fmt_lines_ok c i w : comment_safe c = true -> Forall okl (fmt_lines alnum c i w).
  Proof.
    intros Hs. unfold fmt_lines.
    pose proof (lines_fold_ok i w (lines c) [] (from_string []) false) as H.
    destruct (fold_left _ _ _) as [[ls prev] b].
    destruct H as [A1 A2]; [constructor|split; reflexivity| |].
    - unfold comment_safe in Hs. rewrite forallb_forall in Hs. pose proof (lines_nlfree c) as Hn.
      rewrite Forall_forall in *. intros l Hl. split; auto.
    - apply Forall_app. split; [exact A1|constructor; [exact A2|constructor]].
  Qed.

  Lemma comment_words_render i ls : Forall okl ls -> comment_words (render i ls) = flat_map cl_words ls.
  Proof.
    induction ls as [|cl ls IH]; intros H; [reflexivity|]. inversion H as [|? ? [O1 O2] H']; subst.
    unfold render. cbn [flat_map]. fold (render i ls). rewrite <- !app_assoc. cbn [app].
    rewrite app_assoc. rewrite comment_words_app_nl. rewrite IH by assumption. f_equal.
    rewrite comment_words_nlfree.
    - apply line_words_render. exact O1.
    - rewrite nlfree_app. rewrite nlfree_rep by reflexivity. apply nlfree_to_string. exact O2.
  Qed.

  (* T2: at string level -- the comment the formatter returns has exactly the words (and comment
     kinds) of the comment it was given, for every indent and width, provided no word can be
     mistaken for a part of the prefix *)
  Theorem comment_words_preserved c i w :
    comment_safe c = true -> comment_words (format_leading_comment alnum c i w) = comment_words c.
  Proof.
    intros Hs. rewrite format_render, comment_words_trim.
    rewrite comment_words_render by (apply fmt_lines_ok; exact Hs). apply fmt_lines_words.
  Qed.
End W2.
