(* C11/CommentProofs.v -- proofs about the comment re-wrapping model. *)
From C11 Require Import CommentSpec.

(* ---------- strings ---------- *)
Lemma split_on_nonempty d s : split_on d s <> [].
Proof. destruct s as [|c r]; cbn; [discriminate|]. destruct (c =? d); [discriminate|]. destruct (split_on d r); discriminate. Qed.

Lemma wsplit_nonempty s : wsplit s <> [].
Proof. destruct s as [|c r]; cbn; [discriminate|]. destruct (is_ws c); [discriminate|]. destruct (wsplit r); discriminate. Qed.

Lemma wsplit_app_ws a c b : is_ws c = true -> wsplit (a ++ c :: b) = wsplit a ++ wsplit b.
Proof.
  intros Hc. induction a as [|x a IH]; cbn.
  - rewrite Hc. reflexivity.
  - destruct (is_ws x). { rewrite IH. reflexivity. }
    rewrite IH. destruct (wsplit a) as [|h t] eqn:E; [exfalso; eapply wsplit_nonempty; eauto|]. reflexivity.
Qed.

Lemma ws_words_nil : ws_words [] = [].
Proof. reflexivity. Qed.

Lemma ws_words_app_ws a c b : is_ws c = true -> ws_words (a ++ c :: b) = ws_words a ++ ws_words b.
Proof. intros Hc. unfold ws_words. rewrite wsplit_app_ws by assumption. apply filter_app. Qed.

Lemma ws_words_cons_ws c b : is_ws c = true -> ws_words (c :: b) = ws_words b.
Proof. intros Hc. apply (ws_words_app_ws [] c b Hc). Qed.

Lemma ws_words_snoc_ws a c : is_ws c = true -> ws_words (a ++ [c]) = ws_words a.
Proof. intros Hc. rewrite ws_words_app_ws by assumption. rewrite ws_words_nil. apply app_nil_r. Qed.

Definition all_ws (s : str) := forallb is_ws s = true.

Lemma ws_words_all_ws s : all_ws s -> ws_words s = [].
Proof.
  unfold all_ws. induction s as [|c r IH]; cbn [forallb]; intros H; [reflexivity|].
  apply andb_true_iff in H as [Hc Hr]. rewrite ws_words_cons_ws by assumption. auto.
Qed.

Lemma ws_words_app_all_ws_r a b : all_ws b -> ws_words (a ++ b) = ws_words a.
Proof.
  revert a. induction b as [|c b IH]; intros a H. { rewrite app_nil_r. reflexivity. }
  unfold all_ws in H. cbn [forallb] in H. apply andb_true_iff in H as [Hc Hb].
  rewrite ws_words_app_ws by assumption. rewrite (ws_words_all_ws b Hb). apply app_nil_r.
Qed.

Lemma ws_words_app_all_ws_l a b : all_ws a -> ws_words (a ++ b) = ws_words b.
Proof.
  unfold all_ws. induction a as [|c a IH]; cbn [forallb app]; intros H; [reflexivity|].
  apply andb_true_iff in H as [Hc Ha]. rewrite ws_words_cons_ws by assumption. auto.
Qed.

(* trim decomposition *)
Lemma trim_start_decomp s : exists a, all_ws a /\ s = a ++ trim_start s.
Proof.
  induction s as [|c r [a [Ha E]]]. { exists []. split; reflexivity. }
  cbn [trim_start]. destruct (is_ws c) eqn:Hc.
  - exists (c :: a). split. { unfold all_ws. cbn. rewrite Hc. exact Ha. } cbn. f_equal. exact E.
  - exists []. split; reflexivity.
Qed.

Lemma trim_end_nil_all_ws s : trim_end s = [] -> all_ws s.
Proof.
  unfold all_ws. induction s as [|c r IH]; cbn; [reflexivity|].
  destruct (trim_end r) eqn:E; [|discriminate]. destruct (is_ws c); [auto|discriminate].
Qed.

Lemma trim_end_decomp s : exists b, all_ws b /\ s = trim_end s ++ b.
Proof.
  induction s as [|c r [b [Hb E]]]. { exists []. split; reflexivity. }
  cbn [trim_end]. destruct (trim_end r) as [|x t] eqn:Er.
  - destruct (is_ws c) eqn:Hc.
    + exists (c :: r). split; [|reflexivity]. unfold all_ws. cbn. rewrite Hc.
      apply trim_end_nil_all_ws. exact Er.
    + exists b. split; [exact Hb|]. cbn. f_equal. exact E.
  - exists b. split; [exact Hb|]. cbn. f_equal. exact E.
Qed.

Lemma trim_decomp s : exists a b, all_ws a /\ all_ws b /\ s = a ++ trim s ++ b.
Proof.
  destruct (trim_start_decomp s) as [a [Ha Ea]].
  destruct (trim_end_decomp (trim_start s)) as [b [Hb Eb]].
  exists a, b. repeat split; try assumption. unfold trim. rewrite <- Eb. exact Ea.
Qed.

Lemma ws_words_trim s : ws_words (trim s) = ws_words s.
Proof.
  destruct (trim_decomp s) as [a [b [Ha [Hb E]]]]. rewrite E at 2.
  rewrite ws_words_app_all_ws_l by assumption. rewrite ws_words_app_all_ws_r by assumption. reflexivity.
Qed.

(* split(' ') and join *)
Fixpoint join (d : N) (ps : list str) : str :=
  match ps with
  | [] => []
  | [p] => p
  | p :: r => p ++ d :: join d r
  end.

Lemma join_cons d p r : r <> [] -> join d (p :: r) = p ++ d :: join d r.
Proof. destruct r; [congruence|reflexivity]. Qed.

Lemma join_split d s : join d (split_on d s) = s.
Proof.
  induction s as [|c r IH]; [reflexivity|]. cbn [split_on]. destruct (c =? d) eqn:E.
  - apply N.eqb_eq in E. subst c. rewrite join_cons by apply split_on_nonempty. cbn. f_equal. exact IH.
  - destruct (split_on d r) as [|h t] eqn:Es; [exfalso; eapply split_on_nonempty; eauto|].
    destruct t; cbn in *; f_equal; exact IH.
Qed.

Lemma ws_words_join d ps : is_ws d = true -> ws_words (join d ps) = flat_map ws_words ps.
Proof.
  intros Hd. induction ps as [|p r IH]; [reflexivity|].
  destruct r as [|q r]. { cbn. rewrite app_nil_r. reflexivity. }
  rewrite join_cons by discriminate. rewrite ws_words_app_ws by assumption. rewrite IH. reflexivity.
Qed.

Lemma ws_words_split_space s : flat_map ws_words (split_on space s) = ws_words s.
Proof. rewrite <- (ws_words_join space) by reflexivity. rewrite join_split. reflexivity. Qed.

(* trim ignores surrounding whitespace *)
Lemma trim_start_all_ws a : all_ws a -> trim_start a = [].
Proof.
  unfold all_ws. induction a as [|c a IH]; cbn; [reflexivity|]. intros H.
  apply andb_true_iff in H as [Hc Ha]. rewrite Hc. auto.
Qed.

Lemma trim_end_app_all_ws y b : all_ws b -> trim_end (y ++ b) = trim_end y.
Proof.
  intros Hb. induction y as [|c y IH]; cbn [app trim_end].
  - destruct (trim_end_decomp b) as [b' [_ E]].
    destruct (trim_end b) as [|x t] eqn:Eb; [reflexivity|]. exfalso.
    (* a non-empty trim_end ends with a non-ws char; simpler: show trim_end b = [] directly *)
    clear E b'. revert x t Eb. unfold all_ws in Hb. induction b as [|c b IHb]; cbn; [discriminate|].
    cbn in Hb. apply andb_true_iff in Hb as [Hc Hb']. intros x t.
    destruct (trim_end b) eqn:E2. { rewrite Hc. discriminate. } exfalso. eapply IHb; eauto.
  - rewrite IH. reflexivity.
Qed.

Lemma trim_app_all_ws_l a x : all_ws a -> trim (a ++ x) = trim x.
Proof.
  unfold trim, all_ws. induction a as [|c a IH]; cbn [app forallb]; intros H; [reflexivity|].
  apply andb_true_iff in H as [Hc Ha]. cbn [trim_start]. rewrite Hc. auto.
Qed.

Lemma trim_start_app_all_ws x b : all_ws b -> exists b', all_ws b' /\ trim_start (x ++ b) = trim_start x ++ b'.
Proof.
  intros Hb. induction x as [|c x IH]; cbn [app].
  - exists []. split; [reflexivity|]. rewrite trim_start_all_ws by assumption. reflexivity.
  - cbn [trim_start]. destruct (is_ws c); [exact IH|]. exists b. split; [assumption|reflexivity].
Qed.

Lemma trim_app_all_ws_r x b : all_ws b -> trim (x ++ b) = trim x.
Proof.
  intros Hb. unfold trim. destruct (trim_start_app_all_ws x b Hb) as [b' [Hb' E]]. rewrite E.
  apply trim_end_app_all_ws. exact Hb'.
Qed.

Lemma from_string_ws_l a x : all_ws a -> from_string (a ++ x) = from_string x.
Proof. intros H. unfold from_string. rewrite trim_app_all_ws_l by assumption. reflexivity. Qed.

Lemma from_string_ws_r x b : all_ws b -> from_string (x ++ b) = from_string x.
Proof. intros H. unfold from_string. rewrite trim_app_all_ws_r by assumption. reflexivity. Qed.

Lemma strip_cr_decomp l : exists b, all_ws b /\ l = strip_cr l ++ b.
Proof.
  induction l as [|c r [b [Hb E]]]. { exists []. split; reflexivity. }
  destruct r as [|c2 r2].
  - cbn. destruct (c =? 13) eqn:Ec.
    + apply N.eqb_eq in Ec. subst c. exists [13]. split; reflexivity.
    + exists []. split; reflexivity.
  - exists b. split; [exact Hb|]. change (strip_cr (c :: c2 :: r2)) with (c :: strip_cr (c2 :: r2)).
    cbn [app]. f_equal. exact E.
Qed.

Lemma line_words_strip_cr l : line_words (strip_cr l) = line_words l.
Proof.
  destruct (strip_cr_decomp l) as [b [Hb E]]. unfold line_words. rewrite E at 2.
  rewrite from_string_ws_r by assumption. reflexivity.
Qed.

Lemma line_words_nil : line_words [] = [].
Proof. reflexivity. Qed.

Lemma flat_map_map {A B C} (f : B -> list C) (g : A -> B) l : flat_map f (map g l) = flat_map (fun x => f (g x)) l.
Proof. induction l; cbn; congruence. Qed.

Lemma flat_map_ext' {A B} (f g : A -> list B) l : (forall x, f x = g x) -> flat_map f l = flat_map g l.
Proof. intros H. induction l; cbn; congruence. Qed.

(* the words of a comment do not depend on how lines() treats "\r\n" and a final newline *)
Lemma comment_words_lines c : flat_map line_words (lines c) = comment_words c.
Proof.
  unfold comment_words, lines. cbv zeta. change (split_on 10 c) with (split_on nl c). set (ps := split_on nl c).
  assert (Hne : ps <> []) by apply split_on_nonempty.
  rewrite flat_map_app, flat_map_map. rewrite (flat_map_ext' _ line_words) by apply line_words_strip_cr.
  transitivity (flat_map line_words (removelast ps ++ [last ps []])).
  2:{ f_equal. symmetry. apply app_removelast_last. exact Hne. }
  rewrite flat_map_app. f_equal. destruct (last ps []); reflexivity.
Qed.

(* ---------- the algorithm over a list of lines instead of an accumulated string ---------- *)
Definition render (indent : N) (ls : list CommentLine) : str :=
  flat_map (fun cl => rep space indent ++ to_string cl ++ [nl]) ls.

Lemma append_line_render i ls cl : append_line i (render i ls) cl = render i (ls ++ [cl]).
Proof. unfold append_line, render. rewrite flat_map_app. cbn. rewrite app_nil_r. reflexivity. Qed.

Section W.
  Variable alnum : N -> bool.

  Definition word_stepL (maxw nsp0 : N) (st : list CommentLine * CommentLine * bool) (word : str) :=
    let '(ls, cur, b) := st in
    if is_nil (content cur) || (blen (content cur) + blen word <=? maxw)
       || is_nil (trim word) || ((nsp0 =? 0) && starts_prefix_char word)
    then (ls, with_content cur (content cur ++ word ++ [space]), b)
    else (ls ++ [cur], with_content cur (word ++ [space]), true).

  Definition line_stepL (i w : N) (st : list CommentLine * CommentLine * bool) (line : str) :=
    let '(ls, prev, b) := st in
    let orig := from_string line in
    let maxw := w - i - n_slashes orig - n_exclamations orig - n_leading_spaces orig in
    let '(ls1, cur) :=
      if b && is_open_line alnum prev && is_same_prefix prev orig
      then (ls, with_content prev (content prev ++ [space]))
      else (ls ++ [prev], with_content orig []) in
    let '(ls2, cur2, b2) := fold_left (word_stepL maxw (n_leading_spaces orig)) (split_on space (content orig)) (ls1, cur, false) in
    (ls2, with_content orig (trim (content cur2)), b2).

  (* all the lines the formatter appends, in order (the first is the empty dummy line) *)
  Definition fmt_lines (c : str) (i w : N) : list CommentLine :=
    let '(ls, prev, _) := fold_left (line_stepL i w) (lines c) ([], from_string [], false) in
    ls ++ [prev].

  Definition rst (i : N) (st : list CommentLine * CommentLine * bool) : str * CommentLine * bool :=
    let '(ls, cur, b) := st in (render i ls, cur, b).

  Lemma fold_left_sim {A S T} (f : S -> A -> S) (f' : T -> A -> T) (g : T -> S) (l : list A) (x : T) :
    (forall x a, f (g x) a = g (f' x a)) -> fold_left f l (g x) = g (fold_left f' l x).
  Proof. intros H. revert x. induction l as [|a l IH]; intros x; cbn; [reflexivity|]. rewrite H. apply IH. Qed.

  Lemma word_step_sim i maxw nsp0 st word : word_step i maxw nsp0 (rst i st) word = rst i (word_stepL maxw nsp0 st word).
  Proof.
    destruct st as [[ls cur] b]. cbn [rst word_step word_stepL].
    destruct (is_nil (content cur) || (blen (content cur) + blen word <=? maxw) || is_nil (trim word) || ((nsp0 =? 0) && starts_prefix_char word)); cbn [rst]; [reflexivity|].
    rewrite append_line_render. reflexivity.
  Qed.

  Lemma line_step_sim i w st line : line_step alnum i w (rst i st) line = rst i (line_stepL i w st line).
  Proof.
    destruct st as [[ls prev] b]. cbn [rst line_step line_stepL].
    set (orig := from_string line). set (maxw := w - i - _ - _ - _).
    destruct (b && is_open_line alnum prev && is_same_prefix prev orig).
    - change (render i ls, with_content prev (content prev ++ [space]), false)
        with (rst i (ls, with_content prev (content prev ++ [space]), false)).
      rewrite (fold_left_sim (word_step i maxw (n_leading_spaces orig)) (word_stepL maxw (n_leading_spaces orig)) (rst i)) by (intros; apply word_step_sim).
      destruct (fold_left _ _ _) as [[ls2 cur2] b2]. reflexivity.
    - rewrite append_line_render.
      change (render i (ls ++ [prev]), with_content orig [], false)
        with (rst i (ls ++ [prev], with_content orig [], false)).
      rewrite (fold_left_sim (word_step i maxw (n_leading_spaces orig)) (word_stepL maxw (n_leading_spaces orig)) (rst i)) by (intros; apply word_step_sim).
      destruct (fold_left _ _ _) as [[ls2 cur2] b2]. reflexivity.
  Qed.

  Lemma format_render c i w : format_leading_comment alnum c i w = trim (render i (fmt_lines c i w)).
  Proof.
    unfold format_leading_comment, fmt_lines.
    change ([], from_string [], false) with (rst i ([], from_string [], false)) at 1.
    rewrite (fold_left_sim (line_step alnum i w) (line_stepL i w) (rst i)) by (intros; apply line_step_sim).
    destruct (fold_left _ _ _) as [[ls prev] b]. cbn [rst]. rewrite append_line_render. reflexivity.
  Qed.

  (* ---------- words are preserved ---------- *)
  Definition tagw (cl : CommentLine) (ws : list str) : list tword :=
    map (fun w => (n_slashes cl, n_exclamations cl, w)) ws.

  Definition sp_end (s : str) := s = [] \/ exists s', s = s' ++ [space].

  Lemma ws_words_sp_end_app c word : sp_end c -> ws_words (c ++ word ++ [space]) = ws_words c ++ ws_words word.
  Proof.
    intros [->|[c' ->]].
    - cbn [app]. apply ws_words_snoc_ws. reflexivity.
    - rewrite <- app_assoc. cbn [app]. rewrite ws_words_app_ws by reflexivity.
      rewrite !ws_words_snoc_ws by reflexivity. reflexivity.
  Qed.

  Lemma word_stepL_words maxw nsp0 ls cur b word :
    sp_end (content cur) ->
    let '(ls', cur', _) := word_stepL maxw nsp0 (ls, cur, b) word in
    flat_map cl_words ls' ++ cl_words cur' = flat_map cl_words ls ++ cl_words cur ++ tagw cur (ws_words word)
    /\ sp_end (content cur') /\ tagw cur' = tagw cur.
  Proof.
    intros Hs. cbn [word_stepL].
    destruct (is_nil (content cur) || (blen (content cur) + blen word <=? maxw) || is_nil (trim word) || ((nsp0 =? 0) && starts_prefix_char word)).
    - split; [|split].
      + f_equal. unfold cl_words, tagw. cbn [with_content content n_slashes n_exclamations].
        rewrite ws_words_sp_end_app by assumption. apply map_app.
      + right. exists (content cur ++ word). cbn. rewrite app_assoc. reflexivity.
      + reflexivity.
    - split; [|split].
      + rewrite flat_map_app. cbn [flat_map]. rewrite app_nil_r, <- app_assoc. do 2 f_equal.
        unfold cl_words, tagw. cbn [with_content content n_slashes n_exclamations].
        rewrite ws_words_snoc_ws by reflexivity. reflexivity.
      + right. exists word. reflexivity.
      + reflexivity.
  Qed.

  Lemma words_fold maxw nsp0 words : forall ls cur b,
    sp_end (content cur) ->
    let '(ls', cur', _) := fold_left (word_stepL maxw nsp0) words (ls, cur, b) in
    flat_map cl_words ls' ++ cl_words cur'
      = flat_map cl_words ls ++ cl_words cur ++ tagw cur (flat_map ws_words words)
    /\ tagw cur' = tagw cur.
  Proof.
    induction words as [|wd words IH]; intros ls cur b Hs; cbn [fold_left flat_map].
    - split; [|reflexivity]. unfold tagw at 1. cbn. rewrite app_nil_r. reflexivity.
    - pose proof (word_stepL_words maxw nsp0 ls cur b wd Hs) as H1.
      destruct (word_stepL maxw nsp0 (ls, cur, b) wd) as [[ls1 cur1] b1]. destruct H1 as [E1 [Hs1 T1]].
      specialize (IH ls1 cur1 b1 Hs1). destruct (fold_left _ words _) as [[ls2 cur2] b2].
      destruct IH as [E2 T2]. split; [|congruence].
      rewrite E2. rewrite T1. rewrite app_assoc, E1. unfold tagw. rewrite map_app, <- !app_assoc. reflexivity.
  Qed.

  Lemma same_prefix_tagw a b : is_same_prefix a b = true -> tagw a = tagw b.
  Proof.
    unfold is_same_prefix. intros H. apply andb_true_iff in H as [H H3]. apply andb_true_iff in H as [H1 H2].
    apply N.eqb_eq in H1, H2. unfold tagw. rewrite H1, H2. reflexivity.
  Qed.

  Lemma cl_words_tagw cl : cl_words cl = tagw cl (ws_words (content cl)).
  Proof. reflexivity. Qed.
  Lemma tagw_with_content cl s : tagw (with_content cl s) = tagw cl.
  Proof. reflexivity. Qed.

  Lemma line_stepL_words i w ls prev b line :
    let '(ls', prev', _) := line_stepL i w (ls, prev, b) line in
    flat_map cl_words ls' ++ cl_words prev' = (flat_map cl_words ls ++ cl_words prev) ++ line_words line.
  Proof.
    cbn [line_stepL]. set (orig := from_string line). set (maxw := w - i - _ - _ - _).
    assert (Hlw : line_words line = tagw orig (ws_words (content orig))) by reflexivity.
    destruct (b && is_open_line alnum prev && is_same_prefix prev orig) eqn:Em.
    - apply andb_true_iff in Em as [_ Esp]. apply same_prefix_tagw in Esp.
      set (cur0 := with_content prev (content prev ++ [space])).
      pose proof (words_fold maxw (n_leading_spaces orig) (split_on space (content orig)) ls cur0 false) as H.
      destruct (fold_left _ _ _) as [[ls2 cur2] b2].
      destruct H as [E T]. { right. eexists. reflexivity. }
      assert (H1 : cl_words (with_content orig (trim (content cur2))) = cl_words cur2).
      { rewrite !cl_words_tagw. cbn [with_content content]. rewrite ws_words_trim, tagw_with_content.
        rewrite T. unfold cur0. rewrite tagw_with_content, Esp. reflexivity. }
      assert (H2 : cl_words cur0 = cl_words prev).
      { rewrite !cl_words_tagw. unfold cur0. cbn [with_content content].
        rewrite ws_words_snoc_ws by reflexivity. reflexivity. }
      rewrite H1, E, H2, ws_words_split_space, Hlw. unfold cur0. rewrite tagw_with_content, Esp.
      rewrite <- app_assoc. reflexivity.
    - set (cur0 := with_content orig []).
      pose proof (words_fold maxw (n_leading_spaces orig) (split_on space (content orig)) (ls ++ [prev]) cur0 false) as H.
      destruct (fold_left _ _ _) as [[ls2 cur2] b2].
      destruct H as [E T]. { left. reflexivity. }
      assert (H1 : cl_words (with_content orig (trim (content cur2))) = cl_words cur2).
      { rewrite !cl_words_tagw. cbn [with_content content]. rewrite ws_words_trim, tagw_with_content.
        rewrite T. reflexivity. }
      rewrite H1, E, ws_words_split_space, Hlw. rewrite flat_map_app. cbn [flat_map]. rewrite app_nil_r.
      unfold cur0. rewrite tagw_with_content. rewrite <- app_assoc.
      change (cl_words (with_content orig [])) with (@nil tword). cbn [app].
      rewrite <- app_assoc. reflexivity.
  Qed.

  Lemma lines_fold_words i w ll : forall ls prev b,
    let '(ls', prev', _) := fold_left (line_stepL i w) ll (ls, prev, b) in
    flat_map cl_words ls' ++ cl_words prev' = (flat_map cl_words ls ++ cl_words prev) ++ flat_map line_words ll.
  Proof.
    induction ll as [|l ll IH]; intros ls prev b; cbn [fold_left flat_map].
    - rewrite app_nil_r. reflexivity.
    - pose proof (line_stepL_words i w ls prev b l) as H1.
      destruct (line_stepL i w (ls, prev, b) l) as [[ls1 prev1] b1].
      specialize (IH ls1 prev1 b1). destruct (fold_left _ ll _) as [[ls2 prev2] b2].
      rewrite IH, H1. rewrite <- !app_assoc. reflexivity.
  Qed.

  (* T1: the words (with their comment kind) of the lines the formatter emits are exactly the
     words of the input comment, in order -- for every indent and width *)
  Theorem fmt_lines_words c i w : flat_map cl_words (fmt_lines c i w) = comment_words c.
  Proof.
    unfold fmt_lines. pose proof (lines_fold_words i w (lines c) [] (from_string []) false) as H.
    destruct (fold_left _ _ _) as [[ls prev] b]. rewrite flat_map_app. cbn [flat_map]. rewrite app_nil_r.
    rewrite H. cbn [flat_map app]. rewrite comment_words_lines. reflexivity.
  Qed.
End W.
