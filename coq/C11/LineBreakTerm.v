(* C11/LineBreakTerm.v -- the line breaker terminates: the fuel [build] passes is never
   exhausted.  Measure: number of break points and protected zones anywhere below the children
   of the builder. *)
From C11 Require Import LineBreak.
From Coq Require Import Arith.

Local Open Scope nat_scope.

(* ---------- induction over the nested type ---------- *)
Section CompInd.
  Variable P : comp -> Prop.
  Hypothesis HT : forall s, P (Token s).
  Hypothesis HZ : forall ch o pd prec, Forall P ch -> Forall P pd -> P (Zone ch o pd prec).
  Hypothesis HS : P Space.
  Hypothesis HI : forall n, P (Indent n).
  Hypothesis HB : forall p, P (Break p).
  Hypothesis HC : forall s t, P (Comment s t).
  Fixpoint comp_ind' (c : comp) : P c :=
    match c with
    | Token s => HT s
    | Zone ch o pd prec =>
        HZ ch o pd prec
           ((fix go (l : list comp) : Forall P l :=
               match l with [] => Forall_nil P | x :: r => Forall_cons x (comp_ind' x) (go r) end) ch)
           ((fix go (l : list comp) : Forall P l :=
               match l with [] => Forall_nil P | x :: r => Forall_cons x (comp_ind' x) (go r) end) pd)
    | Space => HS
    | Indent n => HI n
    | Break p => HB p
    | Comment s t => HC s t
    end.
End CompInd.

(* ---------- the measure ---------- *)
Lemma mu_c_zone ch o pd prec : mu_c (Zone ch o pd prec) = S (mu_l ch + mu_l pd).
Proof.
  assert (G : forall l, (fix go (l : list comp) : nat := match l with [] => O | x :: r => (mu_c x + go r)%nat end) l = mu_l l).
  { induction l as [|x r IH]; cbn; congruence. }
  cbn [mu_c]. rewrite !G. reflexivity.
Qed.

Lemma mu_l_app a b : mu_l (a ++ b) = mu_l a + mu_l b.
Proof. induction a as [|x a IH]; cbn; [reflexivity|]. rewrite IH. lia. Qed.

Definition muc (b : builder) : nat := mu_l (children b).

(* ---------- pushing never adds break points or zones ---------- *)
Lemma upd_last_spec g l l' :
  upd_last g l = Some l' -> exists pre x x', l = pre ++ [x] /\ l' = pre ++ [x'] /\ g x = Some x'.
Proof.
  revert l'. induction l as [|a l IH]; intros l' H; [discriminate|].
  destruct l as [|b l].
  - cbn in H. destruct (g a) as [a'|] eqn:E; [|discriminate]. inversion H; subst.
    exists [], a, a'. repeat split; assumption.
  - change (upd_last g (a :: b :: l)) with (option_map (cons a) (upd_last g (b :: l))) in H.
    destruct (upd_last g (b :: l)) as [r'|] eqn:E; [|discriminate]. inversion H; subst.
    destruct (IH r' eq_refl) as [pre [x [x' [E1 [E2 E3]]]]].
    exists (a :: pre), x, x'. rewrite E1, E2. repeat split; assumption.
Qed.

Section ActiveMu.
  Variable f : builder -> builder.
  Variable k : nat.
  Hypothesis Hf : forall b, mu (f b) <= mu b + k.

  Lemma act_comp_mu c : forall c', act_comp f c = Some c' -> mu_c c' <= mu_c c + k.
  Proof.
    induction c as [s|ch o pd prec IHch IHpd| |n|p|s t] using comp_ind'; intros c' H; try discriminate.
    cbn [act_comp] in H. destruct o; [|discriminate].
    destruct (upd_last (act_comp f) ch) as [ch'|] eqn:E.
    - inversion H; subst. rewrite !mu_c_zone.
      apply upd_last_spec in E as [pre [x [x' [E1 [E2 E3]]]]]. subst ch ch'.
      rewrite !mu_l_app. cbn [mu_l]. rewrite Forall_app in IHch. destruct IHch as [_ Hx].
      inversion Hx as [|? ? Hx' _]; subst. specialize (Hx' x' E3). lia.
    - inversion H; subst. unfold zone_of. rewrite !mu_c_zone.
      specialize (Hf {| children := ch; is_open := true; pending := pd |}). unfold mu in Hf. cbn in Hf. lia.
  Qed.

  Lemma on_active_mu b : mu (on_active f b) <= mu b + k.
  Proof.
    unfold on_active. destruct (upd_last (act_comp f) (children b)) as [ch'|] eqn:E; [|apply Hf].
    apply upd_last_spec in E as [pre [x [x' [E1 [E2 E3]]]]]. unfold mu. cbn. rewrite E1, E2.
    rewrite !mu_l_app. cbn [mu_l]. pose proof (act_comp_mu x x' E3). lia.
  Qed.
End ActiveMu.

Lemma push_child_mu b c : mu (push_child b c) <= mu b + mu_c c.
Proof.
  assert (F : forall b0, mu (flush_push c b0) <= mu b0 + mu_c c).
  { intros b0. unfold mu, flush_push. cbn. rewrite !mu_l_app. cbn. lia. }
  assert (G : forall b0, mu (pend_push c b0) <= mu b0 + mu_c c).
  { intros b0. unfold mu, pend_push. cbn. rewrite !mu_l_app. cbn. lia. }
  unfold push_child. destruct c; try (apply on_active_mu; exact F).
  destruct (is_empty_line_breakpoint p); [apply on_active_mu; exact F|].
  destruct (only_indents (children b)); [lia|]. apply on_active_mu; exact G.
Qed.

Lemma fold_push_mu l : forall b, mu (fold_left push_child l b) <= mu b + mu_l l.
Proof.
  induction l as [|c l IH]; intros b; cbn [fold_left mu_l]; [lia|].
  specialize (IH (push_child b c)). pose proof (push_child_mu b c). lia.
Qed.

Lemma muc_le_mu b : muc b <= mu b.
Proof. unfold muc, mu. lia. Qed.

(* ---------- open_protected_zone strictly decreases ---------- *)
Definition has_zone_prec (l : list comp) (h : N) : bool :=
  existsb (fun c => match c with Zone _ _ _ p => N.eqb p h | _ => false end) l.

Lemma open_zone_go_mu l h : forall found acc,
  mu (open_zone_go l h found acc) + (if negb found && has_zone_prec l h then 1 else 0) <= mu acc + mu_l l.
Proof.
  induction l as [|c l IH]; intros found acc.
  - cbn. rewrite andb_false_r. lia.
  - destruct (is_zone c) eqn:Ez.
    + destruct c as [s|zch zo zpd prec| |n|p|s t]; try discriminate.
      cbn [open_zone_go mu_l]. unfold has_zone_prec. cbn [existsb]. fold (has_zone_prec l h).
      destruct (N.eqb prec h) eqn:Eh; cbn [andb orb].
      * destruct found; cbn [negb andb].
        -- specialize (IH true (push_child acc (Zone zch zo zpd prec))).
           pose proof (push_child_mu acc (Zone zch zo zpd prec)). cbn [negb andb] in IH. lia.
        -- specialize (IH true (fold_left push_child zch acc)). cbn [negb andb] in IH.
           pose proof (fold_push_mu zch acc). rewrite mu_c_zone. lia.
      * specialize (IH found (push_child acc (Zone zch zo zpd prec))).
        pose proof (push_child_mu acc (Zone zch zo zpd prec)). lia.
    + assert (E1 : open_zone_go (c :: l) h found acc = open_zone_go l h found (push_child acc c)).
      { destruct c; try reflexivity; discriminate. }
      assert (E2 : has_zone_prec (c :: l) h = has_zone_prec l h).
      { destruct c; try reflexivity; discriminate. }
      rewrite E1, E2. cbn [mu_l]. specialize (IH found (push_child acc c)).
      pose proof (push_child_mu acc c). lia.
Qed.

Lemma min_zone_prec_has l : forall acc h,
  min_zone_prec l acc = Some h -> acc = Some h \/ has_zone_prec l h = true.
Proof.
  induction l as [|c l IH]; intros acc h H; cbn [min_zone_prec] in H; [left; exact H|].
  unfold has_zone_prec. cbn [existsb]. fold (has_zone_prec l h).
  destruct c as [s|zch zo zpd prec| |n|p|s t]; try (destruct (IH _ _ H) as [E|E]; [left; exact E|right; exact E]).
  destruct (IH _ _ H) as [E|E]; [|right; rewrite E; apply orb_true_r].
  destruct acc as [x|].
  - destruct (N.ltb prec x); inversion E; subst; [right; rewrite N.eqb_refl; reflexivity|left; reflexivity].
  - inversion E; subst. right. rewrite N.eqb_refl. reflexivity.
Qed.

Lemma min_zone_prec_some l : forall acc, contains_zone l = true \/ acc <> None -> min_zone_prec l acc <> None.
Proof.
  induction l as [|c l IH]; intros acc H; cbn [min_zone_prec].
  - destruct H as [H|H]; [discriminate|exact H].
  - unfold contains_zone in H. cbn [existsb] in H. fold (contains_zone l) in H.
    destruct c as [s|zch zo zpd prec| |n|p|s t]; try (apply IH; cbn [is_zone orb] in H; exact H).
    apply IH. right. destruct acc as [x|]; [destruct (N.ltb prec x)|]; discriminate.
Qed.

Lemma open_protected_zone_mu ch : contains_zone ch = true -> mu (open_protected_zone ch) < mu_l ch.
Proof.
  intros Hz. unfold open_protected_zone.
  destruct (min_zone_prec ch None) as [h|] eqn:E.
  - destruct (min_zone_prec_has _ _ _ E) as [E'|E']; [discriminate|].
    pose proof (open_zone_go_mu ch h false builder_default) as H. rewrite E' in H. cbn in H. lia.
  - exfalso. eapply min_zone_prec_some; [left; exact Hz|exact E].
Qed.

(* ---------- remove_all_optional_break_line_points ---------- *)
Lemma remove_optional_mu_le ch : muc (remove_optional ch) <= mu_l ch.
Proof.
  unfold muc, remove_optional. cbn [children]. induction ch as [|c ch IH]; cbn [map mu_l]; [lia|].
  destruct c as [s|zch zo zpd prec| |n|p|s t]; try lia.
  destruct (is_optional p); [destruct (space_if_not_broken p)|]; cbn [mu_c]; lia.
Qed.

Lemma remove_optional_mu_lt ch p :
  In (Break p) ch -> is_optional p = true -> muc (remove_optional ch) < mu_l ch.
Proof.
  intros Hin Hopt. induction ch as [|c ch IH]; [contradiction|].
  destruct Hin as [->|Hin].
  - pose proof (remove_optional_mu_le ch) as H. unfold muc, remove_optional in *. cbn [children map mu_l] in *.
    rewrite Hopt. destruct (space_if_not_broken p); cbn [mu_c]; lia.
  - specialize (IH Hin). unfold muc, remove_optional in *. cbn [children map mu_l] in *.
    destruct c as [s|zch zo zpd prec| |n|q|s t]; try lia.
    destruct (is_optional q); [destruct (space_if_not_broken q)|]; cbn [mu_c]; lia.
Qed.

(* ---------- break points chosen by get_next_break_properties ---------- *)
Lemma min_props_in l : forall acc p, min_props l acc = Some p -> acc = Some p \/ In (Break p) l.
Proof.
  induction l as [|c l IH]; intros acc p H; cbn [min_props] in H; [left; exact H|].
  destruct c as [s|zch zo zpd prec| |n|q|s t]; try (destruct (IH _ _ H) as [E|E]; [left; exact E|right; right; exact E]).
  destruct (IH _ _ H) as [E|E]; [|right; right; exact E].
  destruct acc as [x|].
  - destruct (props_gt x q); inversion E; subst; [right; left; reflexivity|left; reflexivity].
  - inversion E; subst. right. left. reflexivity.
Qed.

Lemma min_props_none l : forall acc, min_props l acc = None -> contains_break l = false.
Proof.
  induction l as [|c l IH]; intros acc H; [reflexivity|]. cbn [min_props] in H.
  destruct c as [s|zch zo zpd prec| |n|q|s t]; try (exact (IH _ H)).
  exfalso. assert (G : forall l a, a <> None -> min_props l a <> None).
  { clear. induction l as [|c l IH]; intros a Ha; cbn [min_props]; [exact Ha|].
    destruct c; try (apply IH; exact Ha). apply IH. destruct a as [x|]; [destruct (props_gt x p)|]; discriminate. }
  eapply G; [|exact H]. destruct acc as [x|]; [destruct (props_gt x q)|]; discriminate.
Qed.

(* ---------- positions and segments ---------- *)
Local Open Scope N_scope.

(* a position is harmless when it lies before the current index, or points at a break point *)
Definition pos_ok (ch : list comp) (idx p : N) : Prop :=
  p < idx \/ exists q, nth_error ch (N.to_nat (p - idx)) = Some (Break q).

Lemma pos_ok_tail c r idx p : pos_ok (c :: r) idx p -> p <> idx -> pos_ok r (idx + 1) p.
Proof.
  intros [H|[q H]] Hne; [left; lia|].
  destruct (N.ltb p idx) eqn:E; [apply N.ltb_lt in E; left; lia|]. apply N.ltb_ge in E.
  right. exists q. replace (N.to_nat (p - idx)) with (S (N.to_nat (p - (idx + 1)))) in H by lia. exact H.
Qed.

Lemma pos_ok_tail_dead c r idx p : pos_ok (c :: r) idx p -> p = idx \/ True -> pos_ok r (idx + 1) p \/ p = idx.
Proof.
  intros H _. destruct (N.eq_dec p idx) as [E|E]; [right; exact E|left; apply (pos_ok_tail c); assumption].
Qed.

Definition removed (segs : list (list comp * option comp)) : list comp :=
  flat_map (fun s => match snd s with Some c => [c] | None => [] end) segs.

Definition reassemble (segs : list (list comp * option comp)) : list comp :=
  flat_map (fun s => fst s ++ match snd s with Some c => [c] | None => [] end) segs.

Lemma segments_reassemble ch : forall idx positions cur,
  reassemble (segments ch idx positions cur) = rev cur ++ ch.
Proof.
  induction ch as [|c r IH]; intros idx positions cur; cbn [segments].
  - cbn. rewrite !app_nil_r. reflexivity.
  - destruct positions as [|p ps].
    + rewrite IH. cbn [rev]. rewrite <- app_assoc. reflexivity.
    + destruct (idx =? p).
      * cbn [reassemble flat_map fst snd]. fold (reassemble (segments r (idx + 1) ps [])). rewrite IH.
        cbn [rev app]. rewrite <- app_assoc. reflexivity.
      * rewrite IH. cbn [rev]. rewrite <- app_assoc. reflexivity.
Qed.

Lemma segments_removed_breaks ch : forall idx positions cur,
  Forall (pos_ok ch idx) positions -> Forall (fun c => is_break c = true) (removed (segments ch idx positions cur)).
Proof.
  induction ch as [|c r IH]; intros idx positions cur Hok; cbn [segments].
  - cbn. constructor.
  - destruct positions as [|p ps].
    + apply IH. constructor.
    + destruct (idx =? p) eqn:E.
      * apply N.eqb_eq in E. subst p. cbn [removed flat_map snd]. fold (removed (segments r (idx + 1) ps [])).
        inversion Hok as [|? ? Hp Hps]; subst. apply Forall_app. split.
        -- destruct Hp as [Hp|[q Hp]]; [lia|]. rewrite N.sub_diag in Hp. cbn in Hp. inversion Hp; subst.
           constructor; [reflexivity|constructor].
        -- apply IH. rewrite Forall_forall in *. intros p' Hp'.
           destruct (N.eq_dec p' idx) as [->|Hne]; [left; lia|]. apply (pos_ok_tail c); auto.
      * apply N.eqb_neq in E. apply IH. rewrite Forall_forall in *. intros p' Hp'.
        destruct (N.eq_dec p' idx) as [->|Hne]; [left; lia|]. apply (pos_ok_tail c); auto.
Qed.

(* the first position is reached: at least one break point is taken out *)
Lemma segments_removed_nonempty ch : forall idx p ps cur,
  idx <= p -> (exists c, nth_error ch (N.to_nat (p - idx)) = Some c) ->
  removed (segments ch idx (p :: ps) cur) <> [].
Proof.
  induction ch as [|c r IH]; intros idx p ps cur Hle [c0 Hn].
  - destruct (N.to_nat (p - idx)); discriminate.
  - cbn [segments]. destruct (idx =? p) eqn:E.
    + cbn. discriminate.
    + apply N.eqb_neq in E. apply IH; [lia|]. exists c0.
      replace (N.to_nat (p - idx)) with (S (N.to_nat (p - (idx + 1)))) in Hn by lia. exact Hn.
Qed.

Lemma indices_by_prec_ok l : forall idx prec,
  Forall (fun p => idx <= p /\ exists q, nth_error l (N.to_nat (p - idx)) = Some (Break q)) (indices_by_prec l idx prec).
Proof.
  induction l as [|c l IH]; intros idx prec; cbn [indices_by_prec]; [constructor|].
  assert (Hshift : Forall (fun p => idx <= p /\ exists q, nth_error (c :: l) (N.to_nat (p - idx)) = Some (Break q))
                          (indices_by_prec l (idx + 1) prec)).
  { specialize (IH (idx + 1) prec). rewrite Forall_forall in *. intros p Hp. destruct (IH p Hp) as [Hle [q Hq]].
    split; [lia|]. exists q. replace (N.to_nat (p - idx)) with (S (N.to_nat (p - (idx + 1)))) by lia. exact Hq. }
  destruct c as [s|zch zo zpd zp| |n|q|s t]; try exact Hshift.
  destruct (precedence q =? prec); [|exact Hshift].
  constructor; [|exact Hshift]. split; [lia|]. exists q. rewrite N.sub_diag. reflexivity.
Qed.

Lemma indices_by_prec_nonempty l : forall idx q,
  In (Break q) l -> indices_by_prec l idx (precedence q) <> [].
Proof.
  induction l as [|c l IH]; intros idx q Hin; [contradiction|]. cbn [indices_by_prec].
  destruct Hin as [->|Hin].
  - rewrite N.eqb_refl. discriminate.
  - destruct c as [s|zch zo zpd zp| |n|q'|s t]; try (apply IH; exact Hin).
    destruct (precedence q' =? precedence q); [discriminate|apply IH; exact Hin].
Qed.

(* the binary search stays inside [first, last] *)
Lemma bsearch_range fuel ch positions w : forall first last,
  first <= last -> first <= bsearch fuel ch positions w first last <= last.
Proof.
  induction fuel as [|k IH]; intros first last Hle; cbn [bsearch]; [lia|].
  destruct (first <? last) eqn:E; [|lia]. apply N.ltb_lt in E.
  assert (Hm : first < (first + last + 1) / 2 <= last).
  { assert (H2 : 2 <> 0) by discriminate.
    pose proof (N.div_mod (first + last + 1) 2 H2) as Hd.
    pose proof (N.mod_lt (first + last + 1) 2 H2) as Hr.
    set (d := (first + last + 1) / 2) in *. set (m := (first + last + 1) mod 2) in *.
    clearbody d m. lia. }
  destruct (width_upto ch (nth (N.to_nat ((first + last + 1) / 2)) positions 0) <=? w).
  - specialize (IH ((first + last + 1) / 2) last). lia.
  - specialize (IH first ((first + last + 1) / 2 - 1)). lia.
Qed.
Local Close Scope N_scope.

(* ---------- pieces ---------- *)
Section Pieces.
  Variable alnum : N -> bool.
  Variables max_line_width tab_size : N.

  Lemma builder_new_mu n : mu (builder_new n) = 0.
  Proof. unfold builder_new. destruct (N.ltb 0 n); reflexivity. Qed.

  Lemma piece_step_mu ci st c :
    mu (fst (piece_step alnum max_line_width ci st c)) <= mu (fst st) + mu_c c.
  Proof.
    destruct st as [tree coai]. cbn [piece_step fst].
    destruct c as [s|zch zo zpd zp| |n|p|s t].
    - apply push_child_mu.
    - apply push_child_mu.
    - destruct (only_indents (children tree)); [lia|apply push_child_mu].
    - cbn. lia.
    - apply push_child_mu.
    - destruct t; [apply push_child_mu|].
      unfold push_str.
      pose proof (push_child_mu tree (Token (rep space coai))) as H1.
      pose proof (push_child_mu (push_child tree (Token (rep space coai)))
                                (Comment (format_leading_comment alnum s (ci + coai)%N max_line_width) false)) as H2.
      cbn [mu_c] in *. lia.
  Qed.

  Lemma piece_fold_mu ci seg : forall st,
    mu (fst (fold_left (piece_step alnum max_line_width ci) seg st)) <= mu (fst st) + mu_l seg.
  Proof.
    induction seg as [|c seg IH]; intros st; cbn [fold_left mu_l]; [lia|].
    specialize (IH (piece_step alnum max_line_width ci st c)). pose proof (piece_step_mu ci st c). lia.
  Qed.

  Lemma make_piece_mu bi base nbp i seg :
    mu (make_piece alnum max_line_width tab_size bi base nbp i seg) <= mu_l (fst seg).
  Proof.
    unfold make_piece.
    set (ci := (base + _)%N). set (coai := match bi with IndentedWithTail => _ | _ => _ end).
    pose proof (piece_fold_mu ci (fst seg) (builder_new ci, coai)) as H.
    destruct (fold_left _ (fst seg) _) as [tree c']. cbn [fst] in H. rewrite builder_new_mu in H.
    destruct (snd seg) as [[s|zch zo zpd zp| |n|p|s t]|]; try lia.
    destruct (is_comma_if_broken p); [|lia].
    unfold push_str. pose proof (push_child_mu tree (Token [comma])). cbn [mu_c] in *. lia.
  Qed.

  Lemma make_pieces_mu bi base nbp segs : forall i y,
    In y (make_pieces alnum max_line_width tab_size bi base nbp i segs) ->
    exists seg, In seg segs /\ mu y <= mu_l (fst seg).
  Proof.
    induction segs as [|s segs IH]; intros i y Hin; [contradiction|]. cbn [make_pieces] in Hin.
    destruct Hin as [<-|Hin].
    - exists s. split; [left; reflexivity|apply make_piece_mu].
    - destruct (IH _ _ Hin) as [seg [H1 H2]]. exists seg. split; [right; exact H1|exact H2].
  Qed.

  Lemma mu_l_reassemble segs : mu_l (reassemble segs) = mu_l (concat (map fst segs)) + mu_l (removed segs).
  Proof.
    induction segs as [|s segs IH]; [reflexivity|].
    cbn [reassemble removed flat_map map concat]. fold (reassemble segs). fold (removed segs).
    rewrite !mu_l_app, IH. lia.
  Qed.

  Lemma mu_l_concat_in (segs : list (list comp * option comp)) seg :
    In seg segs -> mu_l (fst seg) <= mu_l (concat (map fst segs)).
  Proof.
    induction segs as [|s segs IH]; intros Hin; [contradiction|]. cbn [map concat]. rewrite mu_l_app.
    destruct Hin as [->|Hin]; [lia|]. specialize (IH Hin). lia.
  Qed.

  Lemma mu_l_breaks l : Forall (fun c => is_break c = true) l -> mu_l l = length l.
  Proof.
    induction 1 as [|c l Hc _ IH]; [reflexivity|]. cbn [mu_l length]. rewrite IH.
    destruct c; try discriminate. reflexivity.
  Qed.

  (* ---------- break_line_tree_single_level ---------- *)
  Lemma single_level_spec x :
    let ys := single_level alnum max_line_width tab_size x in
    (forall y, In y ys -> muc y <= muc x) /\
    (contains_break (children x) = true -> forall y, In y ys -> muc y < muc x).
  Proof.
    cbv zeta. unfold single_level.
    destruct (next_break_props (children x)) as [bp|] eqn:Eb.
    2:{ split; [intros y [<-|[]]; lia|]. intros Hc. apply min_props_none in Eb. congruence. }
    assert (Hin : In (Break bp) (children x)).
    { destruct (min_props_in _ _ _ Eb) as [E|E]; [discriminate|exact E]. }
    set (positions0 := indices_by_prec (children x) 0 (precedence bp)).
    set (positions := if is_single_breakpoint bp then _ else positions0).
    destruct ((lwidth (children x) <=? max_line_width)%N && is_optional bp) eqn:Ew.
    - apply andb_true_iff in Ew as [_ Hopt].
      pose proof (remove_optional_mu_lt _ _ Hin Hopt) as Hlt.
      split; intros; match goal with H : In _ [_] |- _ => destruct H as [<-|[]] end; unfold muc in *; lia.
    - (* the breaking path: every piece lost at least one break point *)
      assert (Hne0 : positions0 <> []) by (apply indices_by_prec_nonempty; exact Hin).
      pose proof (indices_by_prec_ok (children x) 0%N (precedence bp)) as Hok0. fold positions0 in Hok0.
      assert (Hpos : exists p ps, positions = p :: ps /\ Forall (fun p => exists q, nth_error (children x) (N.to_nat p) = Some (Break q)) positions).
      { assert (Hok0' : Forall (fun p => exists q, nth_error (children x) (N.to_nat p) = Some (Break q)) positions0).
        { rewrite Forall_forall in *. intros p Hp. destruct (Hok0 p Hp) as [_ [q Hq]]. exists q. rewrite N.sub_0_r in Hq. exact Hq. }
        unfold positions. destruct (is_single_breakpoint bp).
        - eexists. eexists. split; [reflexivity|]. constructor; [|constructor].
          rewrite Forall_forall in Hok0'. apply Hok0'. apply nth_In.
          pose proof (bsearch_range (length positions0) (children x) positions0 max_line_width 0%N
                                    (N.of_nat (length positions0) - 1)%N ltac:(lia)) as Hr.
          destruct positions0; [congruence|]. cbn [length] in *. lia.
        - destruct positions0 as [|p ps]; [congruence|]. exists p, ps. split; [reflexivity|exact Hok0']. }
      destruct Hpos as [p [ps [Ep Hvalid]]].
      set (segs := segments (children x) 0 positions []).
      assert (Hre : reassemble segs = children x) by (unfold segs; rewrite segments_reassemble; reflexivity).
      assert (Hrb : Forall (fun c => is_break c = true) (removed segs)).
      { unfold segs. apply segments_removed_breaks. rewrite Forall_forall in *. intros p' Hp'.
        right. destruct (Hvalid p' Hp') as [q Hq]. exists q. rewrite N.sub_0_r. exact Hq. }
      assert (Hrn : removed segs <> []).
      { unfold segs. rewrite Ep. apply segments_removed_nonempty; [lia|].
        rewrite Ep in Hvalid. inversion Hvalid as [|? ? [q Hq] _]; subst. exists (Break q). rewrite N.sub_0_r. exact Hq. }
      assert (Hlt : forall y, In y (make_pieces alnum max_line_width tab_size (break_indentation bp)
                                   (leading_indent (children x)) (N.of_nat (length positions) + 1) 0 segs) ->
                              muc y < muc x).
      { intros y Hy. destruct (make_pieces_mu _ _ _ _ _ _ Hy) as [seg [Hs1 Hs2]].
        pose proof (mu_l_concat_in segs seg Hs1) as H1. pose proof (mu_l_reassemble segs) as H2.
        rewrite Hre in H2. rewrite (mu_l_breaks _ Hrb) in H2.
        assert (length (removed segs) > 0) by (destruct (removed segs); [congruence|cbn; lia]).
        pose proof (muc_le_mu y). unfold muc in *. lia. }
      split; intros; [apply Nat.lt_le_incl|]; apply Hlt; assumption.
  Qed.

  (* ---------- break_line_tree: the fuel is enough ---------- *)
  Lemma seq_opts_some {A} (l : list (option (list A))) : Forall (fun o => o <> None) l -> seq_opts l <> None.
  Proof.
    induction 1 as [|o l Ho _ IH]; [discriminate|]. cbn. destruct o as [x|]; [|congruence].
    destruct (seq_opts l); [discriminate|congruence].
  Qed.

  Lemma contains_break_mu ch : contains_break ch = true -> 0 < mu_l ch.
  Proof.
    induction ch as [|c ch IH]; [discriminate|]. unfold contains_break. cbn [existsb mu_l].
    fold (contains_break ch). destruct c; cbn [is_break orb mu_c]; try (intros H; specialize (IH H); lia). lia.
  Qed.
  Lemma contains_zone_mu ch : contains_zone ch = true -> 0 < mu_l ch.
  Proof.
    induction ch as [|c ch IH]; [discriminate|]. unfold contains_zone. cbn [existsb mu_l].
    fold (contains_zone ch). destruct c; cbn [is_zone orb]; try (intros H; specialize (IH H); lia).
    rewrite mu_c_zone. lia.
  Qed.

  (* the `while` loop of break_line_tree, with the recursive call abstracted *)
  Definition loopF (rec : builder -> option (list str)) (self : builder) :=
    fix loop (fl : nat) (subs : list builder) {struct fl} : option (list str) :=
      match fl with
      | O => None
      | S fl' =>
          match subs with
          | [s0] =>
              if contains_break (children s0) then loop fl' (single_level alnum max_line_width tab_size s0)
              else if contains_zone (children s0)
                   then loop fl' [open_protected_zone (children s0)]
                   else Some [bshow self]
          | _ => seq_opts (map rec subs)
          end
      end.

  Lemma break_line_tree_unfold k self :
    break_line_tree alnum max_line_width tab_size (S k) self
    = loopF (break_line_tree alnum max_line_width tab_size k) self (S k)
            (single_level alnum max_line_width tab_size self).
  Proof. reflexivity. Qed.

  Lemma loopF_some rec self k :
    (forall s, muc s < k -> rec s <> None) ->
    forall fl subs,
      ((exists s0, subs = [s0] /\ muc s0 < fl /\ muc s0 <= k)
       \/ (length subs <> 1 /\ 0 < fl /\ forall s, In s subs -> muc s < k)) ->
      loopF rec self fl subs <> None.
  Proof.
    intros Hrec. induction fl as [|fl' IHfl]; intros subs H.
    - destruct H as [[s0 [_ [H _]]]|[_ [H _]]]; lia.
    - destruct H as [[s0 [-> [H1 H2]]]|[Hlen [_ Hall]]].
      + cbn [loopF].
        destruct (contains_break (children s0)) eqn:Ecb.
        * destruct (single_level_spec s0) as [_ Hdec]. specialize (Hdec Ecb).
          pose proof (contains_break_mu _ Ecb) as Hpos.
          apply IHfl.
          destruct (single_level alnum max_line_width tab_size s0) as [|y [|y2 r]] eqn:Es.
          -- right. cbn. split; [lia|]. split; [unfold muc in *; lia|]. intros s [].
          -- left. exists y. split; [reflexivity|]. specialize (Hdec y (or_introl eq_refl)). lia.
          -- right. cbn [length]. split; [lia|]. split; [unfold muc in *; lia|].
             intros s Hs. specialize (Hdec s Hs). lia.
        * destruct (contains_zone (children s0)) eqn:Ecz; [|discriminate].
          pose proof (open_protected_zone_mu _ Ecz) as Hop.
          apply IHfl. left. eexists. split; [reflexivity|].
          pose proof (muc_le_mu (open_protected_zone (children s0))). unfold muc in *. lia.
      + assert (Hr : seq_opts (map rec subs) <> None).
        { apply seq_opts_some. rewrite Forall_forall. intros o Ho. apply in_map_iff in Ho as [s [<- Hs]].
          apply Hrec. apply Hall. exact Hs. }
        cbn [loopF]. destruct subs as [|s0 [|s1 r]]; [exact Hr|cbn in Hlen; congruence|exact Hr].
  Qed.

  Theorem break_line_tree_fuel : forall fuel self,
    muc self < fuel -> break_line_tree alnum max_line_width tab_size fuel self <> None.
  Proof.
    induction fuel as [|k IHk]; intros self Hlt; [lia|].
    rewrite break_line_tree_unfold. apply (loopF_some _ _ k IHk).
    destruct (single_level_spec self) as [Hle Hdec].
    destruct (single_level alnum max_line_width tab_size self) as [|y [|y2 r]] eqn:Es.
    - right. cbn. split; [lia|]. split; [lia|]. intros s [].
    - left. exists y. split; [reflexivity|]. specialize (Hle y (or_introl eq_refl)). lia.
    - (* several pieces: only the breaking path produces them, and it needs a break point *)
      right. cbn [length]. split; [lia|]. split; [lia|]. intros s Hs.
      destruct (contains_break (children self)) eqn:Ecb.
      + specialize (Hdec eq_refl s Hs). lia.
      + exfalso. unfold single_level in Es.
        destruct (next_break_props (children self)) as [bp|] eqn:Eb; [|discriminate].
        destruct (min_props_in _ _ _ Eb) as [E|E]; [discriminate|].
        assert (contains_break (children self) = true).
        { unfold contains_break. apply existsb_exists. exists (Break bp). split; [exact E|reflexivity]. }
        congruence.
  Qed.

  (* C09_linebreak_terminates: build always returns *)
  Theorem build_total self : build alnum max_line_width tab_size self <> None.
  Proof.
    unfold build. pose proof (break_line_tree_fuel (S (mu self)) self) as H.
    destruct (break_line_tree alnum max_line_width tab_size (S (mu self)) self); [discriminate|].
    exfalso. apply H; [|reflexivity]. pose proof (muc_le_mu self). lia.
  Qed.
End Pieces.
