(* C11/LineBreakTokens.v -- the line breaker keeps every code token and every comment, in order,
   for every tree, width and tab size, whatever breaking choice the search makes: the only changes
   are a "," at break points marked is_comma_if_broken, and leading comments passed through
   format_leading_comment. *)
From C11 Require Import LineBreak LineBreakTerm.
From Coq Require Import Relations.

(* ---------- what a tree carries ---------- *)
Inductive item :=
| ITok (s : str)                       (* a code token *)
| IComma                               (* a break point that adds a comma when broken *)
| ICmt (s : str) (trailing : bool).    (* a comment *)

Definition blank (s : str) : bool := forallb (fun c => N.eqb c space) s.

Fixpoint items_c (c : comp) : list item :=
  match c with
  | Token s => if blank s then [] else [ITok s]
  | Zone ch _ _ _ =>
      (fix go (l : list comp) : list item := match l with [] => [] | x :: r => items_c x ++ go r end) ch
  | Break p => if is_comma_if_broken p then [IComma] else []
  | Comment s t => [ICmt s t]
  | Space | Indent _ => []
  end.
Fixpoint items_l (l : list comp) : list item := match l with [] => [] | x :: r => items_c x ++ items_l r end.
Definition items_b (b : builder) : list item := items_l (children b) ++ items_l (pending b).

Lemma items_c_zone ch o pd prec : items_c (Zone ch o pd prec) = items_l ch.
Proof.
  assert (G : forall l, (fix go (l : list comp) : list item := match l with [] => [] | x :: r => items_c x ++ go r end) l = items_l l).
  { induction l as [|x r IH]; cbn; congruence. }
  cbn [items_c]. apply G.
Qed.

Lemma items_l_app a b : items_l (a ++ b) = items_l a ++ items_l b.
Proof. induction a as [|x a IH]; cbn; [reflexivity|]. rewrite IH, app_assoc. reflexivity. Qed.

Section Evolves.
  Variable alnum : N -> bool.
  Variable max_line_width : N.

  (* a leading comment may be re-wrapped any number of times *)
  Definition rewrap1 (a b : str) : Prop := exists i, b = format_leading_comment alnum a i max_line_width.
  Definition rewrapped : str -> str -> Prop := clos_refl_trans str rewrap1.
  Definition cmt_rel (t : bool) (c c' : str) : Prop := if t then c' = c else rewrapped c c'.

  Inductive evolves : list item -> list item -> Prop :=
  | ev_nil : evolves [] []
  | ev_tok s a b : evolves a b -> evolves (ITok s :: a) (ITok s :: b)
  | ev_drop a b : evolves a b -> evolves (IComma :: a) b
  | ev_keep a b : evolves a b -> evolves (IComma :: a) (IComma :: b)
  | ev_ins a b : evolves a b -> evolves (IComma :: a) (ITok [comma] :: b)
  | ev_cmt c c' t a b : cmt_rel t c c' -> evolves a b -> evolves (ICmt c t :: a) (ICmt c' t :: b).

  Lemma cmt_rel_refl t c : cmt_rel t c c.
  Proof. destruct t; cbn; [reflexivity|apply rt_refl]. Qed.
  Lemma cmt_rel_trans t a b c : cmt_rel t a b -> cmt_rel t b c -> cmt_rel t a c.
  Proof. destruct t; cbn; [congruence|apply rt_trans]. Qed.

  Lemma evolves_refl a : evolves a a.
  Proof.
    induction a as [|[s| |s t] a IH]; [apply ev_nil|apply ev_tok|apply ev_keep|apply ev_cmt]; auto using cmt_rel_refl.
  Qed.

  Lemma evolves_app a b a' b' : evolves a b -> evolves a' b' -> evolves (a ++ a') (b ++ b').
  Proof.
    induction 1; intros H'; cbn [app]; [exact H'|apply ev_tok|apply ev_drop|apply ev_keep|apply ev_ins|apply ev_cmt]; auto.
  Qed.

  Lemma evolves_trans a b : evolves a b -> forall c, evolves b c -> evolves a c.
  Proof.
    induction 1 as [|s a b H IH|a b H IH|a b H IH|a b H IH|c c' t a b Hc H IH]; intros z Hz.
    - exact Hz.
    - inversion Hz; subst. constructor. auto.
    - apply ev_drop. auto.
    - inversion Hz; subst; [apply ev_drop|apply ev_keep|apply ev_ins]; auto.
    - inversion Hz; subst. apply ev_ins. auto.
    - inversion Hz; subst. apply ev_cmt; [eapply cmt_rel_trans; eauto|auto].
  Qed.

  Lemma evolves_drop_commas a : Forall (fun i => i = IComma) a -> forall x, evolves (x ++ a) x.
  Proof.
    intros Ha x. assert (H : evolves a []).
    { induction Ha as [|i a Hi _ IH]; [apply ev_nil|]. subst i. apply ev_drop. exact IH. }
    pose proof (evolves_app x x a [] (evolves_refl x) H) as H2. rewrite app_nil_r in H2. exact H2.
  Qed.
End Evolves.

(* ---------- all zones closed (closed_c, closed_l: LineBreak.v) ---------- *)
Lemma closed_c_zone ch o pd prec : closed_c (Zone ch o pd prec) = negb o && closed_l ch.
Proof.
  assert (G : forall l, (fix go (l : list comp) : bool := match l with [] => true | x :: r => closed_c x && go r end) l = closed_l l).
  { induction l as [|x r IH]; cbn; congruence. }
  cbn [closed_c]. rewrite G. reflexivity.
Qed.

Lemma closed_l_app a b : closed_l (a ++ b) = closed_l a && closed_l b.
Proof. induction a as [|x a IH]; cbn; [reflexivity|]. rewrite IH, andb_assoc. reflexivity. Qed.

Definition breaks_only (l : list comp) : Prop := Forall (fun c => is_break c = true) l.

Lemma breaks_only_closed l : breaks_only l -> closed_l l = true.
Proof. induction 1 as [|c l Hc _ IH]; [reflexivity|]. cbn. rewrite IH. destruct c; try discriminate. reflexivity. Qed.

Lemma breaks_only_items l : breaks_only l -> Forall (fun i => i = IComma) (items_l l).
Proof.
  induction 1 as [|c l Hc _ IH]; [constructor|]. cbn [items_l]. apply Forall_app. split; [|exact IH].
  destruct c; try discriminate. cbn. destruct (is_comma_if_broken p); repeat constructor.
Qed.

(* with every zone closed the active builder is the builder itself *)
Lemma act_comp_closed f c : closed_c c = true -> act_comp f c = None.
Proof. destruct c as [s|ch o pd prec| |n|p|s t]; try reflexivity. rewrite closed_c_zone. destruct o; [discriminate|reflexivity]. Qed.

Lemma upd_last_closed f l : closed_l l = true -> upd_last (act_comp f) l = None.
Proof.
  induction l as [|a l IH]; [reflexivity|]. cbn [closed_l]. intros H. apply andb_true_iff in H as [Ha Hl].
  destruct l as [|b l]. { cbn. rewrite act_comp_closed by assumption. reflexivity. }
  change (upd_last (act_comp f) (a :: b :: l)) with (option_map (cons a) (upd_last (act_comp f) (b :: l))).
  rewrite IH by assumption. reflexivity.
Qed.

Lemma on_active_closed f b : closed_l (children b) = true -> on_active f b = f b.
Proof. intros H. unfold on_active. rewrite upd_last_closed by assumption. reflexivity. Qed.

(* a builder under construction: zones closed, only break points pending *)
Definition okb (b : builder) : Prop := closed_l (children b) = true /\ breaks_only (pending b).

Section Pushes.
  Variable alnum : N -> bool.
  Variable max_line_width : N.
  Notation evolves := (evolves alnum max_line_width).

  Lemma push_child_ok b c :
    okb b -> closed_c c = true ->
    okb (push_child b c) /\ evolves (items_b b ++ items_c c) (items_b (push_child b c)).
  Proof.
    intros [Hc Hp] Hcc.
    assert (F : okb (flush_push c b) /\ evolves (items_b b ++ items_c c) (items_b (flush_push c b))).
    { split.
      - split; [|constructor]. cbn [flush_push children]. rewrite !closed_l_app, Hc, (breaks_only_closed _ Hp). cbn. rewrite Hcc. reflexivity.
      - unfold items_b, flush_push. cbn [children pending]. rewrite !items_l_app. cbn [items_l]. rewrite !app_nil_r, <- !app_assoc.
        apply evolves_refl. }
    unfold push_child. destruct c as [s|zch zo zpd zp| |n|p|s t]; try (rewrite on_active_closed by exact Hc; exact F).
    destruct (is_empty_line_breakpoint p); [rewrite on_active_closed by exact Hc; exact F|].
    destruct (only_indents (children b)).
    - split; [split; assumption|]. apply evolves_drop_commas. cbn. destruct (is_comma_if_broken p); repeat constructor.
    - rewrite on_active_closed by exact Hc. split.
      + split; [exact Hc|]. cbn [pend_push pending]. apply Forall_app. split; [exact Hp|repeat constructor].
      + unfold items_b, pend_push. cbn [children pending]. rewrite items_l_app. cbn [items_l]. rewrite app_nil_r, <- app_assoc.
        apply evolves_refl.
  Qed.

  Lemma fold_push_ok l : forall b,
    okb b -> closed_l l = true ->
    okb (fold_left push_child l b) /\ evolves (items_b b ++ items_l l) (items_b (fold_left push_child l b)).
  Proof.
    induction l as [|c l IH]; intros b Hb Hl; cbn [fold_left items_l].
    - split; [exact Hb|]. rewrite app_nil_r. apply evolves_refl.
    - cbn [closed_l] in Hl. apply andb_true_iff in Hl as [Hc Hl].
      destruct (push_child_ok b c Hb Hc) as [Hb1 E1]. destruct (IH _ Hb1 Hl) as [Hb2 E2].
      split; [exact Hb2|]. rewrite app_assoc. eapply evolves_trans; [|exact E2].
      apply evolves_app; [exact E1|apply evolves_refl].
  Qed.
End Pushes.

Section Steps.
  Variable alnum : N -> bool.
  Variables max_line_width tab_size : N.
  Notation evolves := (evolves alnum max_line_width).

  (* what the next level reads of a builder: its children; pending break points are dropped *)
  Lemma okb_children b : okb b -> evolves (items_b b) (items_l (children b)).
  Proof. intros [_ Hp]. unfold items_b. apply evolves_drop_commas. apply breaks_only_items. exact Hp. Qed.

  Lemma okb_default : okb builder_default.
  Proof. split; [reflexivity|constructor]. Qed.
  Lemma okb_new n : okb (builder_new n) /\ items_b (builder_new n) = [].
  Proof. unfold builder_new. destruct (N.ltb 0 n); split; try reflexivity; split; try reflexivity; constructor. Qed.

  (* remove_all_optional_break_line_points *)
  Lemma remove_optional_ok ch :
    closed_l ch = true ->
    closed_l (children (remove_optional ch)) = true
    /\ evolves (items_l ch) (items_l (children (remove_optional ch))).
  Proof.
    unfold remove_optional. cbn [children]. induction ch as [|c ch IH]; intros H; [split; [reflexivity|apply ev_nil]|].
    cbn [closed_l] in H. apply andb_true_iff in H as [Hc Hl]. destruct (IH Hl) as [I1 I2].
    cbn [map closed_l items_l]. split.
    - rewrite I1, andb_true_r. destruct c as [s|zch zo zpd zp| |n|p|s t]; try exact Hc.
      destruct (is_optional p); [destruct (space_if_not_broken p)|]; reflexivity.
    - apply evolves_app; [|exact I2]. destruct c as [s|zch zo zpd zp| |n|p|s t]; try apply evolves_refl.
      destruct (is_optional p); [|apply evolves_refl].
      assert (E : evolves (items_c (Break p)) []).
      { cbn. destruct (is_comma_if_broken p); [apply ev_drop|]; apply ev_nil. }
      destruct (space_if_not_broken p); exact E.
  Qed.

  (* open_protected_zone *)
  Lemma open_zone_go_ok l h : forall found acc,
    okb acc -> closed_l l = true ->
    okb (open_zone_go l h found acc)
    /\ evolves (items_b acc ++ items_l l) (items_b (open_zone_go l h found acc)).
  Proof.
    induction l as [|c l IH]; intros found acc Hacc Hl.
    - cbn. split; [exact Hacc|]. rewrite app_nil_r. apply evolves_refl.
    - cbn [closed_l] in Hl. apply andb_true_iff in Hl as [Hc Hl].
      assert (Hgen : forall found', okb (open_zone_go l h found' (push_child acc c))
                       /\ evolves (items_b acc ++ items_l (c :: l)) (items_b (open_zone_go l h found' (push_child acc c)))).
      { intros found'. destruct (push_child_ok alnum max_line_width acc c Hacc Hc) as [Hb1 E1].
        destruct (IH found' _ Hb1 Hl) as [Hb2 E2]. split; [exact Hb2|].
        cbn [items_l]. rewrite app_assoc. eapply evolves_trans; [|exact E2].
        apply evolves_app; [exact E1|apply evolves_refl]. }
      destruct c as [s|zch zo zpd zp| |n|p|s t]; try (cbn [open_zone_go]; apply Hgen).
      cbn [open_zone_go]. destruct ((zp =? h)%N && negb found); [|apply Hgen].
      rewrite closed_c_zone in Hc. apply andb_true_iff in Hc as [_ Hz].
      destruct (fold_push_ok alnum max_line_width zch acc Hacc Hz) as [Hb1 E1].
      destruct (IH true _ Hb1 Hl) as [Hb2 E2]. split; [exact Hb2|].
      cbn [items_l]. rewrite items_c_zone, app_assoc. eapply evolves_trans; [|exact E2].
      apply evolves_app; [exact E1|apply evolves_refl].
  Qed.

  Lemma open_protected_zone_ok ch :
    closed_l ch = true -> contains_zone ch = true ->
    closed_l (children (open_protected_zone ch)) = true
    /\ evolves (items_l ch) (items_l (children (open_protected_zone ch))).
  Proof.
    intros H Hz. unfold open_protected_zone. destruct (min_zone_prec ch None) as [h|] eqn:Em.
    - destruct (open_zone_go_ok ch h false builder_default okb_default H) as [Hb E].
      split; [apply Hb|]. eapply evolves_trans; [exact E|]. apply okb_children. exact Hb.
    - exfalso. eapply min_zone_prec_some; [left; exact Hz|exact Em].
  Qed.

  (* one piece between two breaking positions *)
  Lemma piece_step_ok ci st c :
    okb (fst st) -> closed_c c = true ->
    okb (fst (piece_step alnum max_line_width ci st c))
    /\ evolves (items_b (fst st) ++ items_c c) (items_b (fst (piece_step alnum max_line_width ci st c))).
  Proof.
    destruct st as [tree coai]. cbn [fst piece_step]. intros Ht Hc.
    destruct c as [s|zch zo zpd zp| |n|p|s t].
    - apply push_child_ok; assumption.
    - apply push_child_ok; assumption.
    - destruct (only_indents (children tree)); [|apply push_child_ok; assumption].
      split; [exact Ht|]. cbn. rewrite app_nil_r. apply evolves_refl.
    - split; [exact Ht|]. cbn. rewrite app_nil_r. apply evolves_refl.
    - apply push_child_ok; assumption.
    - destruct t; [apply push_child_ok; assumption|].
      unfold push_str.
      destruct (push_child_ok alnum max_line_width tree (Token (rep space coai)) Ht eq_refl) as [H1 E1].
      destruct (push_child_ok alnum max_line_width _ (Comment (format_leading_comment alnum s (ci + coai)%N max_line_width) false) H1 eq_refl)
        as [H2 E2].
      split; [exact H2|]. eapply evolves_trans; [|exact E2].
      assert (Eb : items_c (Token (rep space coai)) = []).
      { cbn [items_c]. assert (B : blank (rep space coai) = true).
        { unfold blank, rep. induction (N.to_nat coai); cbn; auto. }
        rewrite B. reflexivity. }
      rewrite Eb, app_nil_r in E1.
      apply evolves_app; [exact E1|]. cbn [items_c]. apply ev_cmt; [|apply ev_nil].
      cbn. apply rt_step. eexists. reflexivity.
  Qed.

  Lemma piece_fold_ok ci seg : forall st,
    okb (fst st) -> closed_l seg = true ->
    okb (fst (fold_left (piece_step alnum max_line_width ci) seg st))
    /\ evolves (items_b (fst st) ++ items_l seg) (items_b (fst (fold_left (piece_step alnum max_line_width ci) seg st))).
  Proof.
    induction seg as [|c seg IH]; intros st Hst Hs; cbn [fold_left items_l].
    - split; [exact Hst|]. rewrite app_nil_r. apply evolves_refl.
    - cbn [closed_l] in Hs. apply andb_true_iff in Hs as [Hc Hs].
      destruct (piece_step_ok ci st c Hst Hc) as [H1 E1]. destruct (IH _ H1 Hs) as [H2 E2].
      split; [exact H2|]. rewrite app_assoc. eapply evolves_trans; [|exact E2].
      apply evolves_app; [exact E1|apply evolves_refl].
  Qed.

  Definition seg_items (seg : list comp * option comp) : list item :=
    items_l (fst seg) ++ match snd seg with Some c => items_c c | None => [] end.

  Lemma make_piece_ok bi base nbp i seg :
    closed_l (fst seg) = true ->
    (forall c, snd seg = Some c -> is_break c = true) ->
    let y := make_piece alnum max_line_width tab_size bi base nbp i seg in
    closed_l (children y) = true /\ evolves (seg_items seg) (items_l (children y)).
  Proof.
    intros Hs Hb. cbv zeta. unfold make_piece.
    set (ci := (base + _)%N). set (coai := match bi with IndentedWithTail => _ | _ => _ end).
    destruct (okb_new ci) as [Hn En].
    pose proof (piece_fold_ok ci (fst seg) (builder_new ci, coai) Hn Hs) as H.
    destruct (fold_left _ (fst seg) _) as [tree c']. cbn [fst] in H. rewrite En in H. cbn [app] in H.
    destruct H as [Ht Et]. unfold seg_items.
    assert (Hplain : closed_l (children tree) = true /\ evolves (items_l (fst seg)) (items_l (children tree))).
    { split; [apply Ht|]. eapply evolves_trans; [exact Et|]. apply okb_children. exact Ht. }
    destruct (snd seg) as [c|] eqn:Esnd.
    2:{ rewrite app_nil_r. exact Hplain. }
    specialize (Hb c eq_refl). destruct c as [s|zch zo zpd zp| |n|p|s t]; try discriminate.
    cbn [items_c]. destruct (is_comma_if_broken p).
    - unfold push_str. destruct (push_child_ok alnum max_line_width tree (Token [comma]) Ht eq_refl) as [H1 E1].
      split; [apply H1|]. eapply evolves_trans; [|apply okb_children; exact H1].
      eapply evolves_trans; [|exact E1]. cbn [items_c blank forallb]. cbn.
      apply evolves_app; [exact Et|]. apply ev_ins. apply ev_nil.
    - rewrite app_nil_r. exact Hplain.
  Qed.

  Lemma make_pieces_ok bi base nbp segs : forall i,
    Forall (fun seg => closed_l (fst seg) = true /\ (forall c, snd seg = Some c -> is_break c = true)) segs ->
    let ys := make_pieces alnum max_line_width tab_size bi base nbp i segs in
    Forall (fun y => closed_l (children y) = true) ys
    /\ evolves (flat_map seg_items segs) (flat_map (fun y => items_l (children y)) ys).
  Proof.
    induction segs as [|s segs IH]; intros i H; cbn [make_pieces flat_map]; [split; [constructor|apply ev_nil]|].
    inversion H as [|? ? [H1 H2] H']; subst. destruct (make_piece_ok bi base nbp i s H1 H2) as [A1 A2].
    destruct (IH (i + 1)%N H') as [B1 B2]. split; [constructor; assumption|]. apply evolves_app; assumption.
  Qed.

  Lemma reassemble_items segs : items_l (reassemble segs) = flat_map seg_items segs.
  Proof.
    induction segs as [|s segs IH]; [reflexivity|]. cbn [reassemble flat_map]. fold (reassemble segs).
    rewrite items_l_app, IH. f_equal. unfold seg_items. rewrite items_l_app. f_equal.
    destruct (snd s); cbn; [rewrite app_nil_r|]; reflexivity.
  Qed.

  Lemma closed_reassemble segs :
    closed_l (reassemble segs) = true -> Forall (fun seg => closed_l (fst seg) = true) segs.
  Proof.
    induction segs as [|s segs IH]; intros H; [constructor|]. cbn [reassemble flat_map] in H. fold (reassemble segs) in H.
    rewrite !closed_l_app in H. apply andb_true_iff in H as [H1 H2]. apply andb_true_iff in H1 as [H1 _].
    constructor; auto.
  Qed.

  Lemma removed_breaks_segs segs :
    Forall (fun c => is_break c = true) (removed segs) ->
    Forall (fun seg => forall c, snd seg = Some c -> is_break c = true) segs.
  Proof.
    induction segs as [|s segs IH]; intros H; [constructor|]. cbn [removed flat_map] in H. fold (removed segs) in H.
    apply Forall_app in H as [H1 H2]. constructor; [|auto]. intros c Hc. rewrite Hc in H1. inversion H1; assumption.
  Qed.

  (* break_line_tree_single_level *)
  Lemma single_level_ok x :
    closed_l (children x) = true ->
    let ys := single_level alnum max_line_width tab_size x in
    Forall (fun y => closed_l (children y) = true) ys
    /\ evolves (items_l (children x)) (flat_map (fun y => items_l (children y)) ys).
  Proof.
    intros Hc. cbv zeta. unfold single_level.
    destruct (next_break_props (children x)) as [bp|] eqn:Eb.
    2:{ split; [constructor; [exact Hc|constructor]|]. cbn. rewrite app_nil_r. apply evolves_refl. }
    set (positions0 := indices_by_prec (children x) 0 (precedence bp)).
    set (positions := if is_single_breakpoint bp then _ else positions0).
    destruct ((lwidth (children x) <=? max_line_width)%N && is_optional bp).
    - destruct (remove_optional_ok (children x) Hc) as [A1 A2].
      split; [constructor; [exact A1|constructor]|]. cbn [flat_map]. rewrite app_nil_r. exact A2.
    - assert (Hin : In (Break bp) (children x)).
      { destruct (min_props_in _ _ _ Eb) as [E|E]; [discriminate|exact E]. }
      assert (Hne0 : positions0 <> []) by (apply indices_by_prec_nonempty; exact Hin).
      pose proof (indices_by_prec_ok (children x) 0%N (precedence bp)) as Hok0. fold positions0 in Hok0.
      assert (Hvalid : Forall (pos_ok (children x) 0) positions).
      { assert (Hok0' : Forall (pos_ok (children x) 0) positions0).
        { rewrite Forall_forall in *. intros p Hp. destruct (Hok0 p Hp) as [_ [q Hq]]. right. exists q. exact Hq. }
        unfold positions. destruct (is_single_breakpoint bp); [|exact Hok0'].
        constructor; [|constructor]. rewrite Forall_forall in Hok0'. apply Hok0'. apply nth_In.
        pose proof (bsearch_range (length positions0) (children x) positions0 max_line_width 0%N
                                  (N.of_nat (length positions0) - 1)%N ltac:(lia)) as Hr.
        destruct positions0; [congruence|]. cbn [length] in *. lia. }
      set (segs := segments (children x) 0 positions []).
      assert (Hre : reassemble segs = children x) by (unfold segs; rewrite segments_reassemble; reflexivity).
      pose proof (segments_removed_breaks (children x) 0%N positions [] Hvalid) as Hrb. fold segs in Hrb.
      assert (Hsegs : Forall (fun seg => closed_l (fst seg) = true /\ (forall c, snd seg = Some c -> is_break c = true)) segs).
      { pose proof (closed_reassemble segs ltac:(rewrite Hre; exact Hc)) as C1.
        pose proof (removed_breaks_segs segs Hrb) as C2.
        rewrite Forall_forall in C1, C2. rewrite Forall_forall. intros s Hs. split; [apply C1|apply C2]; exact Hs. }
      destruct (make_pieces_ok (break_indentation bp) (leading_indent (children x))
                               (N.of_nat (length positions) + 1)%N segs 0%N Hsegs) as [A1 A2].
      split; [exact A1|]. rewrite <- Hre at 1. rewrite reassemble_items. exact A2.
  Qed.
End Steps.

(* ---------- break_line_tree, keeping the final lines as builders ---------- *)
Section Main.
  Variable alnum : N -> bool.
  Variables max_line_width tab_size : N.
  Notation evolves := (evolves alnum max_line_width).
  Notation single_level := (single_level alnum max_line_width tab_size).

  Definition loopL (rec : builder -> option (list builder)) (self : builder) :=
    fix loop (fl : nat) (subs : list builder) {struct fl} : option (list builder) :=
      match fl with
      | O => None
      | S fl' =>
          match subs with
          | [s0] =>
              if contains_break (children s0) then loop fl' (single_level s0)
              else if contains_zone (children s0)
                   then loop fl' [open_protected_zone (children s0)]
                   else Some [self]
          | _ => seq_opts (map rec subs)
          end
      end.

  (* break_line_tree with `self.to_string()` left unevaluated: the final lines as builders *)
  Fixpoint blt_leaves (fuel : nat) (self : builder) : option (list builder) :=
    match fuel with
    | O => None
    | S k => loopL (blt_leaves k) self (S k) (single_level self)
    end.

  Lemma seq_opts_map {A B} (f : A -> B) (l : list (option (list A))) :
    seq_opts (map (option_map (map f)) l) = option_map (map f) (seq_opts l).
  Proof.
    induction l as [|o l IH]; [reflexivity|]. cbn [map seq_opts]. destruct o as [x|]; [|reflexivity].
    cbn [option_map]. rewrite IH. destruct (seq_opts l); cbn; [rewrite map_app|]; reflexivity.
  Qed.

  Lemma loop_show recs recb self :
    (forall s, recs s = option_map (map bshow) (recb s)) ->
    forall fl subs, loopF alnum max_line_width tab_size recs self fl subs
                    = option_map (map bshow) (loopL recb self fl subs).
  Proof.
    intros Hrec. induction fl as [|fl' IH]; intros subs; [reflexivity|]. cbn [loopF loopL].
    assert (Hs : seq_opts (map recs subs) = option_map (map bshow) (seq_opts (map recb subs))).
    { rewrite <- seq_opts_map, map_map. f_equal. apply map_ext. exact Hrec. }
    destruct subs as [|s0 [|s1 r]]; [exact Hs| |exact Hs].
    destruct (contains_break (children s0)); [apply IH|].
    destruct (contains_zone (children s0)); [apply IH|reflexivity].
  Qed.

  Lemma blt_leaves_show : forall fuel self,
    break_line_tree alnum max_line_width tab_size fuel self = option_map (map bshow) (blt_leaves fuel self).
  Proof.
    induction fuel as [|k IH]; intros self; [reflexivity|].
    rewrite break_line_tree_unfold. cbn [blt_leaves]. apply loop_show. exact IH.
  Qed.

  Definition carried (ys : list builder) : list item := flat_map (fun y => items_l (children y)) ys.
  Definition all_closed (ys : list builder) : Prop := Forall (fun y => closed_l (children y) = true) ys.

  Lemma carried_app a b : carried (a ++ b) = carried a ++ carried b.
  Proof. apply flat_map_app. Qed.

  Lemma seq_opts_carried (rec : builder -> option (list builder)) subs leaves :
    (forall s ls, In s subs -> rec s = Some ls -> evolves (items_l (children s)) (carried ls)) ->
    seq_opts (map rec subs) = Some leaves -> evolves (carried subs) (carried leaves).
  Proof.
    revert leaves. induction subs as [|s subs IH]; intros leaves Hrec H; cbn [map seq_opts] in H.
    - inversion H; subst. apply ev_nil.
    - destruct (rec s) as [ls|] eqn:Es; [|discriminate].
      destruct (seq_opts (map rec subs)) as [rest|] eqn:Er; [|discriminate]. inversion H; subst.
      unfold carried at 1. cbn [flat_map]. fold (carried subs). rewrite carried_app. apply evolves_app.
      + apply (Hrec s ls); [left; reflexivity|exact Es].
      + apply IH; [|reflexivity]. intros s' ls' Hin. apply Hrec. right. exact Hin.
  Qed.

  Lemma loopL_carried rec self :
    (forall s ls, closed_l (children s) = true -> rec s = Some ls -> evolves (items_l (children s)) (carried ls)) ->
    forall fl subs leaves,
      all_closed subs -> evolves (items_l (children self)) (carried subs) ->
      loopL rec self fl subs = Some leaves ->
      evolves (items_l (children self)) (carried leaves).
  Proof.
    intros Hrec. induction fl as [|fl' IH]; intros subs leaves Hcl Hev H; [discriminate|]. cbn [loopL] in H.
    assert (Hsplit : seq_opts (map rec subs) = Some leaves -> evolves (items_l (children self)) (carried leaves)).
    { intros Hs. eapply evolves_trans; [exact Hev|]. apply (seq_opts_carried rec); [|exact Hs].
      intros s ls Hin. apply Hrec. unfold all_closed in Hcl. rewrite Forall_forall in Hcl. apply Hcl. exact Hin. }
    destruct subs as [|s0 [|s1 r]]; [exact (Hsplit H)| |exact (Hsplit H)].
    inversion Hcl as [|? ? Hc0 _]; subst.
    unfold carried in Hev. cbn [flat_map] in Hev. rewrite app_nil_r in Hev.
    destruct (contains_break (children s0)).
    - destruct (single_level_ok alnum max_line_width tab_size s0 Hc0) as [A1 A2].
      apply (IH _ _ A1); [|exact H]. eapply evolves_trans; [exact Hev|exact A2].
    - destruct (contains_zone (children s0)) eqn:Ez.
      + destruct (open_protected_zone_ok alnum max_line_width (children s0) Hc0 Ez) as [A1 A2].
        apply (IH [open_protected_zone (children s0)]); [constructor; [exact A1|constructor]| |exact H].
        unfold carried. cbn [flat_map]. rewrite app_nil_r. eapply evolves_trans; [exact Hev|exact A2].
      + inversion H; subst. unfold carried. cbn [flat_map]. rewrite app_nil_r. apply evolves_refl.
  Qed.

  (* every token, comma point and comment of the tree reaches the final lines, in order *)
  Theorem blt_leaves_carried : forall fuel self leaves,
    closed_l (children self) = true -> blt_leaves fuel self = Some leaves ->
    evolves (items_l (children self)) (carried leaves).
  Proof.
    induction fuel as [|k IH]; intros self leaves Hc H; [discriminate|]. cbn [blt_leaves] in H.
    destruct (single_level_ok alnum max_line_width tab_size self Hc) as [A1 A2].
    eapply (loopL_carried (blt_leaves k) self); [|exact A1|exact A2|exact H].
    intros s ls Hs Hr. apply (IH s ls Hs Hr).
  Qed.

  (* ---------- down to the characters of the output ---------- *)
  Definition strip_ws (s : str) : str := filter (fun c => negb (is_ws c)) s.
  Definition item_text (i : item) : str := match i with ITok s => s | IComma => [] | ICmt s _ => s end.
  Definition texts (l : list item) : str := concat (map item_text l).

  Lemma strip_ws_app a b : strip_ws (a ++ b) = strip_ws a ++ strip_ws b.
  Proof. apply filter_app. Qed.
  Lemma texts_app a b : texts (a ++ b) = texts a ++ texts b.
  Proof. unfold texts. rewrite map_app, concat_app. reflexivity. Qed.

  Lemma strip_ws_spaces n : strip_ws (rep space n) = [].
  Proof. unfold rep. induction (N.to_nat n); cbn; auto. Qed.

  Lemma strip_ws_blank s : blank s = true -> strip_ws s = [].
  Proof.
    induction s as [|c s IH]; [reflexivity|]. cbn. intros H. apply andb_true_iff in H as [Hc Hs].
    apply N.eqb_eq in Hc. subst c. cbn. auto.
  Qed.

  Lemma strip_cshow c : strip_ws (cshow c) = strip_ws (texts (items_c c)).
  Proof.
    induction c as [s|ch o pd prec IHch _| |n|p|s t] using comp_ind'.
    - cbn [cshow items_c]. destruct (blank s) eqn:B; [rewrite strip_ws_blank by exact B; reflexivity|].
      cbn. rewrite app_nil_r. reflexivity.
    - rewrite items_c_zone.
      assert (G : forall l, (fix go (l : list comp) : str := match l with [] => [] | x :: r => cshow x ++ go r end) l = lshow l).
      { induction l as [|x r IH]; cbn; congruence. }
      assert (L : strip_ws (lshow ch) = strip_ws (texts (items_l ch))).
      { induction IHch as [|x r Hx _ IH]; [reflexivity|]. cbn [lshow items_l].
        rewrite texts_app, !strip_ws_app, Hx, IH. reflexivity. }
      cbn [cshow]. rewrite G. destruct (only_indents ch) eqn:Eo; [|exact L].
      rewrite <- L. clear -Eo. induction ch as [|x r IH]; [reflexivity|]. cbn in Eo. apply andb_true_iff in Eo as [Hx Hr].
      cbn [lshow]. rewrite strip_ws_app, <- IH by exact Hr. destruct x; try discriminate. cbn [cshow]. rewrite strip_ws_spaces. reflexivity.
    - reflexivity.
    - cbn [cshow items_c]. apply strip_ws_spaces.
    - cbn [cshow items_c]. destruct (space_if_not_broken p), (is_comma_if_broken p); reflexivity.
    - cbn. rewrite app_nil_r. reflexivity.
  Qed.

  Lemma strip_lshow l : strip_ws (lshow l) = strip_ws (texts (items_l l)).
  Proof.
    induction l as [|x r IH]; [reflexivity|]. cbn [lshow items_l].
    rewrite texts_app, !strip_ws_app, strip_cshow, IH. reflexivity.
  Qed.

  Lemma strip_bshow b : strip_ws (bshow b) = strip_ws (texts (items_l (children b))).
  Proof.
    unfold bshow. destruct (only_indents (children b)) eqn:Eo; [|apply strip_lshow].
    rewrite <- strip_lshow. clear -Eo. induction (children b) as [|x r IH]; [reflexivity|].
    cbn in Eo. apply andb_true_iff in Eo as [Hx Hr]. cbn [lshow]. rewrite strip_ws_app, <- IH by exact Hr.
    destruct x; try discriminate. cbn [cshow]. rewrite strip_ws_spaces. reflexivity.
  Qed.

  Lemma strip_join_nl ls : strip_ws (join_nl ls) = concat (map strip_ws ls).
  Proof.
    induction ls as [|l ls IH]; [reflexivity|]. destruct ls as [|l2 ls].
    - cbn. rewrite app_nil_r. reflexivity.
    - change (join_nl (l :: l2 :: ls)) with (l ++ 10%N :: join_nl (l2 :: ls)).
      rewrite strip_ws_app. cbn [strip_ws filter is_ws]. cbn [map concat]. f_equal. exact IH.
  Qed.

  Lemma strip_drop_trailing ls : concat (map strip_ws (drop_trailing_empty ls)) = concat (map strip_ws ls).
  Proof.
    induction ls as [|l ls IH]; [reflexivity|]. cbn [drop_trailing_empty].
    destruct (drop_trailing_empty ls) as [|x r] eqn:E.
    - cbn [map concat] in *. rewrite <- IH. destruct l; reflexivity.
    - cbn [map concat] in *. rewrite IH. reflexivity.
  Qed.

  Lemma strip_carried leaves :
    concat (map strip_ws (map bshow leaves)) = strip_ws (texts (carried leaves)).
  Proof.
    induction leaves as [|y ys IH]; [reflexivity|]. cbn [map concat]. unfold carried. cbn [flat_map]. fold (carried ys).
    rewrite texts_app, strip_ws_app, IH, strip_bshow. reflexivity.
  Qed.

  (* LineBuilder::build: the output, whitespace removed, spells exactly the tokens and comments
     of the tree after [evolves] *)
  Theorem build_preserves self out :
    closed_l (children self) = true ->
    build alnum max_line_width tab_size self = Some out ->
    exists its, evolves (items_l (children self)) its /\ strip_ws out = strip_ws (texts its).
  Proof.
    intros Hc H. unfold build in H. rewrite blt_leaves_show in H.
    destruct (blt_leaves (S (mu self)) self) as [leaves|] eqn:El; [|discriminate]. cbn [option_map] in H.
    inversion H; subst. exists (carried leaves). split; [apply (blt_leaves_carried _ _ _ Hc El)|].
    rewrite strip_ws_app. cbn [strip_ws filter is_ws]. rewrite app_nil_r.
    rewrite strip_join_nl, strip_drop_trailing. apply strip_carried.
  Qed.

  (* comments only: same comments in the same order, trailing ones untouched, leading ones
     re-wrapped by format_leading_comment *)
  Definition cmts (l : list item) : list (str * bool) :=
    flat_map (fun i => match i with ICmt s t => [(s, t)] | _ => [] end) l.

  Lemma evolves_cmts a b : evolves a b ->
    Forall2 (fun x y => snd x = snd y /\ cmt_rel alnum max_line_width (snd x) (fst x) (fst y)) (cmts a) (cmts b).
  Proof. induction 1; cbn; try assumption; [constructor|]. constructor; [split; [reflexivity|assumption]|assumption]. Qed.

  (* code tokens only: the tokens of the output are those of the input with a "," at some comma points *)
  Inductive comma_ins : list item -> list str -> Prop :=
  | ci_nil : comma_ins [] []
  | ci_tok s a b : comma_ins a b -> comma_ins (ITok s :: a) (s :: b)
  | ci_skip a b : comma_ins a b -> comma_ins (IComma :: a) b
  | ci_ins a b : comma_ins a b -> comma_ins (IComma :: a) ([comma] :: b)
  | ci_cmt s t a b : comma_ins a b -> comma_ins (ICmt s t :: a) b.

  Definition toks (l : list item) : list str := flat_map (fun i => match i with ITok s => [s] | _ => [] end) l.

  Lemma evolves_toks a b : evolves a b -> comma_ins a (toks b).
  Proof.
    induction 1 as [|s a b H IH|a b H IH|a b H IH|a b H IH|c c' t a b Hc H IH].
    - apply ci_nil.
    - apply (ci_tok s a (toks b)). exact IH.
    - apply ci_skip. exact IH.
    - apply (ci_skip a (toks b)). exact IH.
    - apply (ci_ins a (toks b)). exact IH.
    - apply (ci_cmt c t a (toks b)). exact IH.
  Qed.
End Main.
