(* C11/LineBreak.v -- model of the line breaker of
   crates/cairo-lang-formatter/src/formatter_impl.rs: BreakLinePointProperties (and its Ord),
   LineComponent, LineBuilder (push_child with pending break points and open sub-builders, width,
   get_next_break_properties, get_break_point_indices_by_precedence, break_line_tree_single_level
   with the binary search for single break points, remove_all_optional_break_line_points,
   open_protected_zone, break_line_tree, build, Display).
   usize is N (no overflow modelled); slicing/indexing panics are not modelled (the indices are
   in range by construction); the two loops of break_line_tree run on explicit fuel and return
   None when it is exhausted (C09_linebreak_terminates: it never is).
   Model file: no proofs. *)
From C11 Require Export CommentWrap.

Inductive indentation := Indented | IndentedWithTail | NotIndented.

Record props := {
  is_empty_line_breakpoint : bool;
  precedence : N;
  break_indentation : indentation;
  is_optional : bool;
  space_if_not_broken : bool;
  is_single_breakpoint : bool;
  is_comma_if_broken : bool;
}.

(* LineComponent; ProtectedZone { builder, precedence } carries the three fields of its builder *)
Inductive comp :=
| Token (s : str)
| Zone (zchildren : list comp) (zopen : bool) (zpending : list comp) (zprec : N)
| Space
| Indent (n : N)
| Break (p : props)
| Comment (ccontent : str) (is_trailing : bool).

(* LineBuilder *)
Record builder := { children : list comp; is_open : bool; pending : list comp }.

Definition zone_of (b : builder) (prec : N) : comp := Zone (children b) (is_open b) (pending b) prec.

(* LineBuilder::default / new *)
Definition builder_default : builder := {| children := []; is_open := true; pending := [] |}.
Definition builder_new (indent_size : N) : builder :=
  if 0 <? indent_size then {| children := [Indent indent_size]; is_open := true; pending := [] |}
  else builder_default.

Definition is_indent (c : comp) : bool := match c with Indent _ => true | _ => false end.
Definition is_break (c : comp) : bool := match c with Break _ => true | _ => false end.
Definition is_zone (c : comp) : bool := match c with Zone _ _ _ _ => true | _ => false end.
(* LineComponent::is_trivia *)
Definition is_trivia (c : comp) : bool :=
  match c with Comment _ _ | Space | Indent _ | Break _ => true | _ => false end.

(* is_only_indents, contains_break_line_points, contains_protected_zone *)
Definition only_indents (ch : list comp) : bool := forallb is_indent ch.
Definition contains_break (ch : list comp) : bool := existsb is_break ch.
Definition contains_zone (ch : list comp) : bool := existsb is_zone ch.

(* LineComponent::width / LineBuilder::width *)
Fixpoint cwidth (c : comp) : N :=
  match c with
  | Token s => blen s
  | Zone ch _ _ _ => (fix go (l : list comp) : N := match l with [] => 0 | x :: r => cwidth x + go r end) ch
  | Space => 1
  | Indent n => n
  | Break p => if space_if_not_broken p then 1 else 0
  | Comment s t => if t then blen s else 0
  end.
Fixpoint lwidth (l : list comp) : N := match l with [] => 0 | x :: r => cwidth x + lwidth r end.
(* width_between(0, end) *)
Definition width_upto (ch : list comp) (e : N) : N := lwidth (firstn (N.to_nat e) ch).

(* Display *)
Fixpoint cshow (c : comp) : str :=
  match c with
  | Token s => s
  | Zone ch _ _ _ =>
      if only_indents ch then []
      else (fix go (l : list comp) : str := match l with [] => [] | x :: r => cshow x ++ go r end) ch
  | Space => [space]
  | Indent n => rep space n
  | Break p => if space_if_not_broken p then [space] else []
  | Comment s _ => s
  end.
Fixpoint lshow (l : list comp) : str := match l with [] => [] | x :: r => cshow x ++ lshow r end.
Definition bshow (b : builder) : str := if only_indents (children b) then [] else lshow (children b).

(* ---- get_active_builder_mut: the innermost open sub-builder at the end of the line ---- *)
Section Active.
  Variable f : builder -> builder.
  Section Last.
    Variable g : comp -> option comp.
    (* apply g to the last element; None when the list is empty or g declines *)
    Fixpoint upd_last (l : list comp) : option (list comp) :=
      match l with
      | [] => None
      | [x] => option_map (fun x' => [x']) (g x)
      | x :: r => option_map (cons x) (upd_last r)
      end.
  End Last.
  (* if c is an open protected zone: f applied to its active builder *)
  Fixpoint act_comp (c : comp) : option comp :=
    match c with
    | Zone zch true zpend prec =>
        match upd_last act_comp zch with
        | Some zch' => Some (Zone zch' true zpend prec)
        | None => Some (zone_of (f {| children := zch; is_open := true; pending := zpend |}) prec)
        end
    | _ => None
    end.
  Definition on_active (b : builder) : builder :=
    match upd_last act_comp (children b) with
    | Some ch' => {| children := ch'; is_open := is_open b; pending := pending b |}
    | None => f b
    end.
End Active.

(* flush_pending_break_line_points; children.push(component) *)
Definition flush_push (c : comp) (b : builder) : builder :=
  {| children := children b ++ pending b ++ [c]; is_open := is_open b; pending := [] |}.
Definition pend_push (c : comp) (b : builder) : builder :=
  {| children := children b; is_open := is_open b; pending := pending b ++ [c] |}.

(* push_child *)
Definition push_child (b : builder) (c : comp) : builder :=
  match c with
  | Break p =>
      if is_empty_line_breakpoint p then on_active (flush_push c) b
      else if only_indents (children b) then b
      else on_active (pend_push c) b
  | _ => on_active (flush_push c) b
  end.
Definition push_str (b : builder) (s : str) : builder := push_child b (Token s).

(* impl Ord for BreakLinePointProperties: x > y *)
Definition props_gt (x y : props) : bool :=
  if Bool.eqb (is_empty_line_breakpoint x) (is_empty_line_breakpoint y)
  then precedence y <? precedence x
  else is_empty_line_breakpoint x.

(* get_next_break_properties: Iterator::min keeps the first of equal minima *)
Fixpoint min_props (l : list comp) (acc : option props) : option props :=
  match l with
  | [] => acc
  | Break p :: r =>
      min_props r (match acc with None => Some p | Some x => if props_gt x p then Some p else Some x end)
  | _ :: r => min_props r acc
  end.
Definition next_break_props (ch : list comp) : option props := min_props ch None.

(* get_break_point_indices_by_precedence *)
Fixpoint indices_by_prec (l : list comp) (idx : N) (prec : N) : list N :=
  match l with
  | [] => []
  | Break p :: r => if precedence p =? prec then idx :: indices_by_prec r (idx + 1) prec
                    else indices_by_prec r (idx + 1) prec
  | _ :: r => indices_by_prec r (idx + 1) prec
  end.

(* the binary search for the last single break point that fits *)
Fixpoint bsearch (fuel : nat) (ch : list comp) (positions : list N) (max_w first last : N) : N :=
  match fuel with
  | O => first
  | S k =>
      if first <? last then
        let middle := (first + last + 1) / 2 in
        let middle_break_point := nth (N.to_nat middle) positions 0 in
        if width_upto ch middle_break_point <=? max_w
        then bsearch k ch positions max_w middle last
        else bsearch k ch positions max_w first (middle - 1)
      else first
  end.

(* get_leading_indent *)
Fixpoint leading_indent (l : list comp) : N :=
  match l with Indent n :: r => n + leading_indent r | _ => 0 end.

(* get_highest_protected_zone_precedence *)
Fixpoint min_zone_prec (l : list comp) (acc : option N) : option N :=
  match l with
  | [] => acc
  | Zone _ _ _ prec :: r =>
      min_zone_prec r (match acc with None => Some prec | Some x => if prec <? x then Some prec else Some x end)
  | _ :: r => min_zone_prec r acc
  end.

(* remove_all_optional_break_line_points *)
Definition remove_optional (ch : list comp) : builder :=
  {| children := map (fun c => match c with
                               | Break p => if is_optional p
                                            then (if space_if_not_broken p then Space else Token [])
                                            else c
                               | _ => c
                               end) ch;
     is_open := true; pending := [] |}.

(* open_protected_zone *)
Fixpoint open_zone_go (l : list comp) (highest : N) (found : bool) (acc : builder) : builder :=
  match l with
  | [] => acc
  | c :: r =>
      match c with
      | Zone zch _ _ prec =>
          if (prec =? highest) && negb found
          then open_zone_go r highest true (fold_left push_child zch acc)
          else open_zone_go r highest found (push_child acc c)
      | _ => open_zone_go r highest found (push_child acc c)
      end
  end.
Definition open_protected_zone (ch : list comp) : builder :=
  match min_zone_prec ch None with
  | Some highest => open_zone_go ch highest false builder_default
  | None => builder_default (* .expect(..) panics; only called when a zone exists *)
  end.

(* the termination measure: break points and protected zones anywhere in the tree *)
Fixpoint mu_c (c : comp) : nat :=
  match c with
  | Break _ => 1%nat
  | Zone zch _ zpend _ =>
      S ((fix go (l : list comp) : nat := match l with [] => O | x :: r => (mu_c x + go r)%nat end) zch
         + (fix go (l : list comp) : nat := match l with [] => O | x :: r => (mu_c x + go r)%nat end) zpend)%nat
  | _ => O
  end.
Fixpoint mu_l (l : list comp) : nat := match l with [] => O | x :: r => (mu_c x + mu_l r)%nat end.
Definition mu (b : builder) : nat := (mu_l (children b) + mu_l (pending b))%nat.

Section Break.
  Variable alnum : N -> bool.
  Variables max_line_width tab_size : N.

  (* the children between two breaking positions, with the child at the breaking position
     (children.get(current_line_end)); positions are increasing indices into the children *)
  Fixpoint segments (ch : list comp) (idx : N) (positions : list N) (cur : list comp)
    : list (list comp * option comp) :=
    match ch with
    | [] => [(rev cur, None)]
    | c :: r =>
        match positions with
        | p :: ps => if idx =? p then (rev cur, Some c) :: segments r (idx + 1) ps []
                     else segments r (idx + 1) positions (c :: cur)
        | [] => segments r (idx + 1) [] (c :: cur)
        end
    end.

  (* body of `for j in current_line_start..current_line_end`;
     state = (tree, comment_only_added_indent) *)
  Definition piece_step (cur_indent : N) (st : builder * N) (c : comp) : builder * N :=
    let '(tree, coai) := st in
    let tree' :=
      match c with
      | Indent _ => tree
      | Space => if only_indents (children tree) then tree else push_child tree Space
      | Comment content false =>
          let tree1 := push_str tree (rep space coai) in
          push_child tree1
            (Comment (format_leading_comment alnum content (cur_indent + coai) max_line_width) false)
      | _ => push_child tree c
      end in
    (tree', if is_trivia c then coai else 0).

  Definition make_piece (bi : indentation) (base_indent n_break_points : N) (i : N)
             (seg : list comp * option comp) : builder :=
    let added_indent :=
      match bi with
      | Indented => if negb (i =? 0) then tab_size else 0
      | IndentedWithTail => if negb (i =? 0) && negb (i =? n_break_points - 1) then tab_size else 0
      | NotIndented => 0
      end in
    let coai :=
      match bi with
      | IndentedWithTail => if i =? n_break_points - 1 then tab_size else 0
      | _ => 0
      end in
    let cur_indent := base_indent + added_indent in
    let '(tree, _) := fold_left (piece_step cur_indent) (fst seg) (builder_new cur_indent, coai) in
    match snd seg with
    | Some (Break p) => if is_comma_if_broken p then push_str tree [comma] else tree
    | _ => tree
    end.

  Fixpoint make_pieces (bi : indentation) (base_indent n_break_points : N) (i : N)
           (segs : list (list comp * option comp)) : list builder :=
    match segs with
    | [] => []
    | s :: r => make_piece bi base_indent n_break_points i s
                :: make_pieces bi base_indent n_break_points (i + 1) r
    end.

  (* break_line_tree_single_level *)
  Definition single_level (self : builder) : list builder :=
    let ch := children self in
    match next_break_props ch with
    | None => [self]
    | Some bp =>
        let positions0 := indices_by_prec ch 0 (precedence bp) in
        let positions :=
          if is_single_breakpoint bp
          then [nth (N.to_nat (bsearch (length positions0) ch positions0 max_line_width 0
                                       (N.of_nat (length positions0) - 1))) positions0 0]
          else positions0 in
        if (lwidth ch <=? max_line_width) && is_optional bp
        then [remove_optional ch]
        else
          make_pieces (break_indentation bp) (leading_indent ch)
                      (N.of_nat (length positions) + 1) 0 (segments ch 0 positions [])
    end.

  Fixpoint seq_opts {A} (l : list (option (list A))) : option (list A) :=
    match l with
    | [] => Some []
    | None :: _ => None
    | Some x :: r => match seq_opts r with Some y => Some (x ++ y) | None => None end
    end.

  (* break_line_tree: the `while sub_builders.len() == 1` loop and the recursion *)
  Fixpoint break_line_tree (fuel : nat) (self : builder) : option (list str) :=
    match fuel with
    | O => None
    | S k =>
        (fix loop (fl : nat) (subs : list builder) : option (list str) :=
           match fl with
           | O => None
           | S fl' =>
               match subs with
               | [s0] =>
                   if contains_break (children s0) then loop fl' (single_level s0)
                   else if contains_zone (children s0)
                        then loop fl' [open_protected_zone (children s0)]
                        else Some [bshow self]
               | _ => seq_opts (map (break_line_tree k) subs)
               end
           end) (S k) (single_level self)
    end.

  (* trailing empty lines are removed; lines.join("\n") + "\n" *)
  Fixpoint drop_trailing_empty (ls : list str) : list str :=
    match ls with
    | [] => []
    | l :: r => match drop_trailing_empty r with
                | [] => if is_nil l then [] else [l]
                | r' => l :: r'
                end
    end.

  (* LineBuilder::build *)
  Definition build (self : builder) : option str :=
    match break_line_tree (S (mu self)) self with
    | Some lines => Some (join_nl (drop_trailing_empty lines) ++ [nl])
    | None => None
    end.
End Break.

(* every protected zone of the tree is closed (is_open = false), at every depth: what
   close_sub_builder leaves behind when format_node has returned; hypothesis of the token
   theorems, checked on every dumped tree by the correspondence run *)
Fixpoint closed_c (c : comp) : bool :=
  match c with
  | Zone ch o _ _ =>
      negb o && (fix go (l : list comp) : bool := match l with [] => true | x :: r => closed_c x && go r end) ch
  | _ => true
  end.
Fixpoint closed_l (l : list comp) : bool := match l with [] => true | x :: r => closed_c x && closed_l r end.
