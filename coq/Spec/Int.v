(* Spec/Int.v -- the mathematical meaning of the primitive integer operations, once, for all users.
   Unsigned values of width w are the integers 0 <= x < 2^w; signed values are -2^(w-1) <= x < 2^(w-1)
   and are stored in memory as the felt x mod P.  Model file: no proofs. *)
From Base Require Export Felt.

(* Result<T,T> of the overflowing operations: [UOk v] = Ok(v) (enum tag 0), [UErr v] = Err(v) (tag 1),
   where in the Err case v is the wrapped result. *)
Inductive ures := UOk (v : Z) | UErr (v : Z).

Definition uadd (w a b : Z) : ures :=
  if a + b <? 2 ^ w then UOk (a + b) else UErr (a + b - 2 ^ w).
Definition usub (w a b : Z) : ures :=
  if b <=? a then UOk (a - b) else UErr (a - b + 2 ^ w).

Definition in_u (w x : Z) : Prop := 0 <= x < 2 ^ w.
