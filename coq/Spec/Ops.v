(* Spec/Ops.v -- the mathematical meaning of every user-visible primitive operation of the integer
   types and felt252, as one evaluator [eval : op -> ity -> list Z -> option outcome].
   Arguments are mathematical integers (signed values are negative integers); results are the felts
   that the operation returns in memory (a signed value v is the felt v mod P; u256 is two 128-bit
   limbs, low first; bool is 0/1; Option is [0; payload] for Some and [1; 0...] for None;
   (T, bool) is payload then flag), or the panic data (one short-string felt).
   "Reports overflow / underflow / division by zero / out-of-range conversion exactly when the
   mathematical result does not fit" is built in: the panic / None / flag branch is taken iff
   [fits] is false.  Model file: no proofs. *)
From Base Require Export Felt.
From Coq Require Import String Ascii.

Inductive ity := U (w : Z) | I (w : Z) | Felt | U256T | U512T | BoolT.

Inductive op :=
  | OAdd | OSub | OMul | ODiv | ORem | ODivRem | ONeg | ONot
  | OEq | ONe | OLt | OLe | OGt | OGe | OAnd | OOr | OXor
  | OCheckedAdd | OCheckedSub | OCheckedMul
  | OWrappingAdd | OWrappingSub | OWrappingMul
  | OSaturatingAdd | OSaturatingSub | OSaturatingMul
  | OOverflowingAdd | OOverflowingSub | OOverflowingMul
  | OWideMul | OWideSquare | OSqrt | OFeltDiv
  | OMulModN | OInvMod | ODivModN | OU512DivRem
  | OInto (t : ity) | OTryInto (t : ity).

Inductive outcome := Success (l : list Z) | Panic (l : list Z) | Failed.

Definition lo (t : ity) : Z :=
  match t with I w => - 2 ^ (w - 1) | _ => 0 end.
Definition hi (t : ity) : Z :=
  match t with
  | U w => 2 ^ w - 1 | I w => 2 ^ (w - 1) - 1 | Felt => P - 1
  | U256T => 2 ^ 256 - 1 | U512T => 2 ^ 512 - 1 | BoolT => 1
  end.
Definition fits (t : ity) (v : Z) : bool := (lo t <=? v) && (v <=? hi t).
Definition size (t : ity) : nat := match t with U256T => 2 | U512T => 4 | _ => 1 end.
Definition limbs (n : nat) (v : Z) : list Z :=
  map (fun k => (v / 2 ^ (128 * Z.of_nat k)) mod 2 ^ 128) (seq 0 n).
(* memory representation *)
Definition enc (t : ity) (v : Z) : list Z :=
  match t with U256T => limbs 2 v | U512T => limbs 4 v | _ => [v mod P] end.
(* two's-complement style wrap-around into the range of t *)
Definition wrap (t : ity) (v : Z) : Z :=
  match t with
  | U w => v mod 2 ^ w
  | I w => (v + 2 ^ (w - 1)) mod 2 ^ w - 2 ^ (w - 1)
  | Felt => v mod P
  | U256T => v mod 2 ^ 256
  | U512T => v mod 2 ^ 512
  | BoolT => v mod 2
  end.
Definition clamp (t : ity) (v : Z) : Z := Z.max (lo t) (Z.min (hi t) v).
Definition is_signed (t : ity) : bool := match t with I _ => true | _ => false end.

(* short strings: big-endian bytes *)
Fixpoint short_acc (s : string) (acc : Z) : Z :=
  match s with
  | EmptyString => acc
  | String c r => short_acc r (acc * 256 + Z.of_nat (nat_of_ascii c))
  end.
Definition short (s : string) : Z := short_acc s 0.

Definition dec_string (n : Z) : string :=
  if n =? 8 then "8" else if n =? 16 then "16" else if n =? 32 then "32" else if n =? 64 then "64"
  else if n =? 128 then "128" else "?".
Definition tyname (t : ity) : string :=
  match t with
  | U w => "u" ++ dec_string w | I w => "i" ++ dec_string w | Felt => "felt252"
  | U256T => "u256" | U512T => "u512" | BoolT => "bool"
  end.
Definition panic_msg (s : string) : outcome := Panic [short s].

Definition bool_out (b : bool) : outcome := Success [if b then 1 else 0].
Definition zeros (n : nat) : list Z := repeat 0 n.

(* result of an arithmetic operator that panics when the result does not fit *)
Definition arith (t : ity) (what : string) (r : Z) : outcome :=
  match t with
  | Felt => Success [r mod P]
  | _ =>
      if fits t r then Success (enc t r)
      else if is_signed t && negb (String.eqb what "mul") && (r <? lo t)
      then panic_msg (tyname t ++ "_" ++ what ++ " Underflow")
      else panic_msg (tyname t ++ "_" ++ what ++ " Overflow")
  end.
Definition checked (t : ity) (r : Z) : outcome :=
  if fits t r then Success (0 :: enc t r) else Success (1 :: zeros (size t)).
Definition overflowing (t : ity) (r : Z) : outcome :=
  Success (enc t (wrap t r) ++ [if fits t r then 0 else 1]).

Definition wide (t : ity) : option ity :=
  match t with
  | U w => Some (if w =? 128 then U256T else U (2 * w))
  | I w => if w =? 128 then None else Some (I (2 * w))
  | U256T => Some U512T
  | _ => None
  end.

(* the value denoted by a felt when it is converted to a signed integer type *)
Definition centered (v : Z) : Z := if v <=? (P - 1) / 2 then v else v - P.
Definition conv_src (t t2 : ity) (v : Z) : Z :=
  match t, t2 with Felt, I _ => centered v | _, _ => v end.

Definition eval (o : op) (t : ity) (args : list Z) : option outcome :=
  match o, args with
  | OAdd, [a; b] => Some (arith t "add" (a + b))
  | OSub, [a; b] => Some (arith t "sub" (a - b))
  | OMul, [a; b] => Some (arith t "mul" (a * b))
  | ODiv, [a; b] =>
      match t with Felt => None | _ =>
      Some (if b =? 0 then panic_msg "Division by 0"
            else if fits t (Z.quot a b) then Success (enc t (Z.quot a b))
            else panic_msg "attempt to divide with overflow")
      end
  | ORem, [a; b] =>
      match t with Felt => None | _ =>
      Some (if b =? 0 then panic_msg "Division by 0" else Success (enc t (Z.rem a b)))
      end
  | ODivRem, [a; b] =>
      match t with Felt => None | _ =>
      Some (if b =? 0 then Failed
            else if fits t (Z.quot a b) then Success (enc t (Z.quot a b) ++ enc t (Z.rem a b))
            else panic_msg "attempt to divide with overflow")
      end
  | ONeg, [a] =>
      Some (match t with
            | Felt => Success [(- a) mod P]
            | _ => if fits t (- a) then Success (enc t (- a))
                   else panic_msg (tyname t ++ "_neg Underflow")
            end)
  | ONot, [a] => Some (Success (enc t (hi t - a)))
  | OEq, [a; b] => Some (bool_out (a =? b))
  | ONe, [a; b] => Some (bool_out (negb (a =? b)))
  | OLt, [a; b] => Some (bool_out (a <? b))
  | OLe, [a; b] => Some (bool_out (a <=? b))
  | OGt, [a; b] => Some (bool_out (b <? a))
  | OGe, [a; b] => Some (bool_out (b <=? a))
  | OAnd, [a; b] => Some (Success (enc t (Z.land a b)))
  | OOr, [a; b] => Some (Success (enc t (Z.lor a b)))
  | OXor, [a; b] => Some (Success (enc t (Z.lxor a b)))
  | OCheckedAdd, [a; b] => Some (checked t (a + b))
  | OCheckedSub, [a; b] => Some (checked t (a - b))
  | OCheckedMul, [a; b] => Some (checked t (a * b))
  | OWrappingAdd, [a; b] => Some (Success (enc t (wrap t (a + b))))
  | OWrappingSub, [a; b] => Some (Success (enc t (wrap t (a - b))))
  | OWrappingMul, [a; b] => Some (Success (enc t (wrap t (a * b))))
  | OSaturatingAdd, [a; b] => Some (Success (enc t (clamp t (a + b))))
  | OSaturatingSub, [a; b] => Some (Success (enc t (clamp t (a - b))))
  | OSaturatingMul, [a; b] => Some (Success (enc t (clamp t (a * b))))
  | OOverflowingAdd, [a; b] => Some (overflowing t (a + b))
  | OOverflowingSub, [a; b] => Some (overflowing t (a - b))
  | OOverflowingMul, [a; b] => Some (overflowing t (a * b))
  | OWideMul, [a; b] =>
      match wide t with Some wt => Some (Success (enc wt (a * b))) | None => None end
  | OWideSquare, [a] =>
      match wide t with Some wt => Some (Success (enc wt (a * a))) | None => None end
  | OSqrt, [a] => Some (Success [Z.sqrt a])
  | OMulModN, [a; b; n] =>
      Some (if n =? 0 then Failed else Success (enc U256T ((a * b) mod n)))
  | OU512DivRem, [a; b] =>
      Some (if b =? 0 then Failed else Success (enc U512T (a / b) ++ enc U256T (a mod b)))
  | OInto t2, [a] => Some (Success (enc t2 a))
  | OTryInto t2, [a] => Some (checked t2 (conv_src t t2 a))
  | OFeltDiv, [a; b] => None      (* specified by its defining relation in Corr.v *)
  | OInvMod, _ => None            (* idem *)
  | ODivModN, _ => None           (* idem *)
  | _, _ => None
  end.
