(* Spec/Corr.v -- boolean comparison functions used by the case files of the C06 pipeline leg:
   the implementation's RunResultValue (printed by harness/h03) against [Ops.eval]. *)
From Spec Require Export Ops.

Definition case := (op * ity * list Z * outcome)%type.
Definition row := (op * ity * Z * list outcome)%type.

Fixpoint list_eqb (a b : list Z) : bool :=
  match a, b with
  | [], [] => true
  | x :: r, y :: s => (x =? y) && list_eqb r s
  | _, _ => false
  end.
Definition outcome_eqb (a b : outcome) : bool :=
  match a, b with
  | Success x, Success y => list_eqb x y
  | Panic x, Panic y => list_eqb x y
  | _, _ => false
  end.

(* felt252_div is specified by its defining relation (no field inverse is computed here):
   the result q is a canonical felt with q * b = a (mod P) *)
Definition felt_div_ok (args : list Z) (got : outcome) : bool :=
  match args, got with
  | [a; b], Success [q] => (0 <=? q) && (q <? P) && ((q * b) mod P =? a mod P)
  | _, _ => false
  end.

(* u256_inv_mod(a, n): Some(x) with 0 < x < n and a*x = 1 (mod n) exactly when n > 1 and
   gcd(a, n) = 1; u256_div_mod_n(a, b, n) = Some(a * b^-1 mod n) under the same condition on b.
   Specified by the defining relation (the inverse is unique). *)
Definition u256_of (lo hi : Z) : Z := lo + hi * 2 ^ 128.
Definition inv_mod_ok (args : list Z) (got : outcome) : bool :=
  match args, got with
  | [a; n], Success [tag; lo; hi] =>
      let x := u256_of lo hi in
      if (1 <? n) && (Z.gcd a n =? 1)
      then (tag =? 0) && (0 <? x) && (x <? n) && ((a * x) mod n =? 1) && (0 <=? lo) && (lo <? 2 ^ 128)
      else (tag =? 1) && (lo =? 0) && (hi =? 0)
  | _, _ => false
  end.
Definition div_mod_n_ok (args : list Z) (got : outcome) : bool :=
  match args, got with
  | [a; b; n], Success [tag; lo; hi] =>
      let x := u256_of lo hi in
      if (1 <? n) && (Z.gcd b n =? 1)
      then (tag =? 0) && (0 <=? x) && (x <? n) && ((x * b) mod n =? a mod n) && (0 <=? lo) && (lo <? 2 ^ 128)
      else (tag =? 1) && (lo =? 0) && (hi =? 0)
  | _, _ => false
  end.

Definition check_case (c : case) : bool :=
  let '(o, t, args, got) := c in
  match o with
  | OFeltDiv => felt_div_ok args got
  | OInvMod => inv_mod_ok args got
  | ODivModN => div_mod_n_ok args got
  | _ =>
    match eval o t args with
    | Some want => outcome_eqb want got
    | None => false
    end
  end.
(* the cases on which model and implementation disagree, with the model's answer *)
Definition check_cases (cs : list case) : list (case * option outcome) :=
  flat_map (fun c => if check_case c then [] else
                     [(c, let '(o, t, args, _) := c in eval o t args)]) cs.

(* exhaustive sweep over the second operand of an 8-bit type, in ascending order
   ([nz]: zero is skipped, the operand type is NonZero) *)
Definition range_of (t : ity) (nz : bool) : list Z :=
  filter (fun v => negb (nz && (v =? 0)))
         (map (fun k => lo t + Z.of_nat k) (seq 0 (Z.to_nat (hi t - lo t + 1)))).
Fixpoint check_row_aux (o : op) (t : ity) (a : Z) (bs : list Z) (got : list outcome)
  : list (Z * Z * outcome) :=
  match bs, got with
  | [], [] => []
  | b :: bs', g :: got' =>
      (if check_case (o, t, [a; b], g) then [] else [(a, b, g)]) ++ check_row_aux o t a bs' got'
  | _, _ => [(a, -1, Failed)]                 (* length mismatch *)
  end.
Definition check_rows (nz : bool) (rs : list row) : list (Z * Z * outcome) :=
  flat_map (fun r => let '(o, t, a, got) := r in check_row_aux o t a (range_of t nz) got) rs.
