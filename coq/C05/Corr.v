(* C05/Corr.v -- comparison of the modelled pass with the real one.  The harness (h01, mode c05)
   prints, for real functions, the lowering right before `branch_inversion` in the baseline
   strategy and the lowering the REAL pass produces from it; here the MODEL pass is applied to
   the first and must give the second, and the first must satisfy the well-formedness that
   C05_pass_preserves assumes. *)
From C05 Require Export IR.

Definition nat_list_eqb (a b : list nat) : bool := var_list_eqb a b.

Definition stmt_eqb (a b : stmt) : bool :=
  match a, b with
  | SConst c o, SConst c' o' => Nat.eqb c c' && Nat.eqb o o'
  | SCall f i o k, SCall f' i' o' k' =>
      Nat.eqb f f' && nat_list_eqb i i' && nat_list_eqb o o' && Bool.eqb k k'
  | SStructConstruct i o, SStructConstruct i' o' => nat_list_eqb i i' && Nat.eqb o o'
  | SStructDestructure i o, SStructDestructure i' o' => Nat.eqb i i' && nat_list_eqb o o'
  | SEnumConstruct x i o, SEnumConstruct x' i' o' => Nat.eqb x x' && Nat.eqb i i' && Nat.eqb o o'
  | SSnapshot i a1 a2, SSnapshot i' b1 b2 => Nat.eqb i i' && Nat.eqb a1 b1 && Nat.eqb a2 b2
  | SDesnap i o, SDesnap i' o' | SIntoBox i o, SIntoBox i' o' | SUnbox i o, SUnbox i' o' =>
      Nat.eqb i i' && Nat.eqb o o'
  | _, _ => false
  end.

Fixpoint list_eqb {A} (eqb : A -> A -> bool) (a b : list A) : bool :=
  match a, b with
  | [], [] => true
  | x :: a', y :: b' => eqb x y && list_eqb eqb a' b'
  | _, _ => false
  end.

Definition arm_eqb (a b : arm) : bool :=
  Nat.eqb (a_sel a) (a_sel b) && Nat.eqb (a_block a) (a_block b) && nat_list_eqb (a_vars a) (a_vars b).

Definition minfo_eqb (a b : minfo) : bool :=
  match a, b with
  | MEnum i arms, MEnum i' arms' => Nat.eqb i i' && list_eqb arm_eqb arms arms'
  | MExtern f i arms, MExtern f' i' arms' =>
      Nat.eqb f f' && nat_list_eqb i i' && list_eqb arm_eqb arms arms'
  | MValue n i arms, MValue n' i' arms' => Nat.eqb n n' && Nat.eqb i i' && list_eqb arm_eqb arms arms'
  | _, _ => false
  end.

Definition bend_eqb (a b : bend) : bool :=
  match a, b with
  | ENotSet, ENotSet => true
  | EReturn v, EReturn v' => nat_list_eqb v v'
  | EPanic v, EPanic v' => Nat.eqb v v'
  | EGoto t r, EGoto t' r' =>
      Nat.eqb t t' && list_eqb (fun x y => Nat.eqb (fst x) (fst y) && Nat.eqb (snd x) (snd y)) r r'
  | EMatch m, EMatch m' => minfo_eqb m m'
  | _, _ => false
  end.

Definition block_eqb (a b : block) : bool :=
  list_eqb stmt_eqb (b_stmts a) (b_stmts b) && bend_eqb (b_end a) (b_end b).
Definition lowered_eqb (a b : lowered) : bool := list_eqb block_eqb a b.

Record pcase := { pc_id : Z; pc_before : lowered; pc_after : lowered }.

(* 1 = the modelled pass does not reproduce the real output; 2 = the real lowering does not
   satisfy the well-formedness the theorem assumes *)
Definition check_pass (cs : list pcase) : list (Z * Z) :=
  flat_map (fun c =>
    (if lowered_eqb (branch_inversion (pc_before c)) (pc_after c) then [] else [(pc_id c, 1)])
    ++ (if lowered_okb (pc_before c) then [] else [(pc_id c, 2)])) cs.

(* how many cases the pass changes (non-vacuity of the comparison) *)
Definition count_fired (cs : list pcase) : nat :=
  length (filter (fun c => negb (lowered_eqb (pc_before c) (pc_after c))) cs).
