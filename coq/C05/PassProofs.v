(* C05/PassProofs.v -- the modelled branch_inversion pass preserves the modelled semantics. *)
From C05 Require Import IR.
Open Scope Z_scope.

Lemma memb_true x l : memb x l = true <-> In x l.
Proof.
  unfold memb. rewrite existsb_exists. split.
  - intros [y [Hy E]]. apply Nat.eqb_eq in E. subst. exact Hy.
  - intros H. exists x. split; [exact H|apply Nat.eqb_refl].
Qed.

Lemma disjointb_spec a b : disjointb a b = true -> forall x, In x a -> ~ In x b.
Proof.
  unfold disjointb. rewrite forallb_forall. intros H x Ha Hb.
  specialize (H x Ha). apply negb_true_iff in H.
  apply memb_true in Hb. congruence.
Qed.

(* ---------- variables a statement does not define keep their value ---------- *)
Lemma get_set_other s x y v : x <> y -> get (set s y v) x = get s x.
Proof. intros H. cbn. destruct (Nat.eqb_spec x y); [contradiction|reflexivity]. Qed.

Lemma get_set_same s x v : get (set s x v) x = Some v.
Proof. cbn. rewrite Nat.eqb_refl. reflexivity. Qed.

Lemma sets_other : forall xs vs s s' x,
  sets s xs vs = Some s' -> ~ In x xs -> get s' x = get s x.
Proof.
  induction xs as [|y xs IH]; intros vs s s' x H Hx; destruct vs as [|v vs]; cbn in H; try discriminate.
  - inversion H; subst. reflexivity.
  - rewrite (IH _ _ _ _ H) by (intros C; apply Hx; right; exact C).
    apply get_set_other. intros ->. apply Hx. left. reflexivity.
Qed.

Lemma exec_stmt_other I s st s' x :
  exec_stmt I s st = Some s' -> ~ In x (stmt_outs st) -> get s' x = get s x.
Proof.
  intros H Hx. destruct st; cbn in H, Hx.
  - inversion H; subst. apply get_set_other. intros ->. apply Hx. left. reflexivity.
  - destruct (gets s ins); [|discriminate]. destruct (fsem I f l); [|discriminate].
    eapply sets_other; eauto.
  - destruct (gets s ins); [|discriminate]. inversion H; subst.
    apply get_set_other. intros ->. apply Hx. left. reflexivity.
  - destruct (get s input) as [[]|]; try discriminate. eapply sets_other; eauto.
  - destruct (get s input); [|discriminate]. inversion H; subst.
    apply get_set_other. intros ->. apply Hx. left. reflexivity.
  - destruct (get s input); [|discriminate]. inversion H; subst.
    rewrite get_set_other by (intros ->; apply Hx; right; left; reflexivity).
    apply get_set_other. intros ->. apply Hx. left. reflexivity.
  - destruct (get s input); [|discriminate]. inversion H; subst.
    apply get_set_other. intros ->. apply Hx. left. reflexivity.
  - destruct (get s input); [|discriminate]. inversion H; subst.
    apply get_set_other. intros ->. apply Hx. left. reflexivity.
  - destruct (get s input); [|discriminate]. inversion H; subst.
    apply get_set_other. intros ->. apply Hx. left. reflexivity.
Qed.

Lemma exec_stmts_other I : forall ss seen s s' x,
  exec_stmts I s ss = Some s' -> stmts_okb seen ss = true -> In x seen -> get s' x = get s x.
Proof.
  induction ss as [|st ss IH]; intros seen s s' x H Hok Hx; cbn in H.
  - inversion H; subst. reflexivity.
  - destruct (exec_stmt I s st) as [s1|] eqn:E; [|discriminate].
    cbn in Hok. apply andb_true_iff in Hok. destruct Hok as [Hd Hok].
    rewrite (IH _ _ _ x H Hok) by (apply in_or_app; right; apply in_or_app; right; exact Hx).
    eapply exec_stmt_other; eauto.
    intros C. eapply disjointb_spec; eauto. apply in_or_app. right. exact Hx.
Qed.

Lemma exec_stmts_app I : forall a b s,
  exec_stmts I s (a ++ b) =
  match exec_stmts I s a with Some s1 => exec_stmts I s1 b | None => None end.
Proof.
  induction a as [|st a IH]; intros b s; cbn; [reflexivity|].
  destruct (exec_stmt I s st); [apply IH|reflexivity].
Qed.

Lemma stmts_okb_split : forall pre seen st post,
  stmts_okb seen (pre ++ st :: post) = true ->
  exists seen', stmts_okb seen' (st :: post) = true.
Proof.
  induction pre as [|p pre IH]; intros seen st post H; cbn [app] in H.
  - exists seen. exact H.
  - cbn in H. apply andb_true_iff in H. destruct H as [_ H]. eapply IH; eauto.
Qed.

(* ---------- the statement the pass looks for ---------- *)
Lemma find_negated_split : forall l y x,
  find_negated l y = Some x ->
  exists l1 xs l2, l = l1 ++ SCall BOOL_NOT (x :: xs) [y] false :: l2.
Proof.
  induction l as [|st l IH]; intros y x H; cbn in H; [discriminate|].
  assert (Hrec : find_negated l y = Some x -> exists l1 xs l2,
            st :: l = l1 ++ SCall BOOL_NOT (x :: xs) [y] false :: l2).
  { intros H'. destruct (IH _ _ H') as [l1 [xs [l2 E]]]. exists (st :: l1), xs, l2. rewrite E. reflexivity. }
  destruct st; try (apply Hrec; exact H).
  destruct ins as [|x0 xs]; [apply Hrec; exact H|].
  destruct coupon; [apply Hrec; exact H|].
  destruct (Nat.eqb f BOOL_NOT && var_list_eqb outs [y]) eqn:E; [|apply Hrec; exact H].
  inversion H; subst. apply andb_true_iff in E. destruct E as [E1 E2].
  apply Nat.eqb_eq in E1. unfold var_list_eqb in E2.
  destruct (list_eq_dec Nat.eq_dec outs [y]); [|discriminate]. subst.
  exists [], xs, l. reflexivity.
Qed.

Lemma gets_cons s x xs : gets s (x :: xs) =
  match get s x, gets s xs with Some v, Some vs => Some (v :: vs) | _, _ => None end.
Proof. reflexivity. Qed.

(* after the statements of a block in which the pass fires, x holds a bool and y its negation *)
Lemma negated_values I ss y x s s1 :
  interp_ok I -> stmts_okb [] ss = true ->
  find_negated (rev ss) y = Some x -> exec_stmts I s ss = Some s1 ->
  (get s1 x = Some (VEnum 0 VUnit) /\ get s1 y = Some (VEnum 1 VUnit))
  \/ (get s1 x = Some (VEnum 1 VUnit) /\ get s1 y = Some (VEnum 0 VUnit)).
Proof.
  intros HI Hok Hf Hex.
  destruct (find_negated_split _ _ _ Hf) as [l1 [xs [l2 E]]].
  assert (Ess : ss = rev l2 ++ SCall BOOL_NOT (x :: xs) [y] false :: rev l1).
  { rewrite <- (rev_involutive ss), E, rev_app_distr. cbn [rev]. rewrite <- app_assoc. reflexivity. }
  rewrite Ess in Hok, Hex.
  destruct (stmts_okb_split _ _ _ _ Hok) as [seen Hok2].
  rewrite exec_stmts_app in Hex.
  destruct (exec_stmts I s (rev l2)) as [sa|]; [|discriminate].
  cbn [exec_stmts exec_stmt] in Hex.
  rewrite gets_cons in Hex.
  destruct (get sa x) as [vx|] eqn:Gx; [|discriminate].
  destruct (gets sa xs) as [vxs|]; [|discriminate].
  rewrite HI in Hex.
  cbn [stmts_okb stmt_outs stmt_ins] in Hok2. apply andb_true_iff in Hok2. destruct Hok2 as [Hd Hpost].
  assert (Hxy : x <> y).
  { intros ->. eapply (disjointb_spec _ _ Hd y); left; reflexivity. }
  assert (Hkeep : forall sb, exec_stmts I sb (rev l1) = Some s1 ->
                  get s1 x = get sb x /\ get s1 y = get sb y).
  { intros sb Hb. split; eapply exec_stmts_other; eauto.
    - right. left. reflexivity.
    - left. reflexivity. }
  unfold bool_not_sem in Hex.
  destruct vx as [| |idx pv|]; try discriminate.
  destruct idx as [|[|idx]]; try discriminate;
    destruct pv as [|pvs| |]; try discriminate; destruct pvs; try discriminate;
    destruct vxs; try discriminate; cbn [sets] in Hex.
  - left. destruct (Hkeep _ Hex) as [Kx Ky]. rewrite Kx, Ky.
    rewrite get_set_same, get_set_other by exact Hxy. auto.
  - right. destruct (Hkeep _ Hex) as [Kx Ky]. rewrite Kx, Ky.
    rewrite get_set_same, get_set_other by exact Hxy. auto.
Qed.

(* ---------- one block ---------- *)
Lemma invert_block_stmts b : b_stmts (invert_block b) = b_stmts b.
Proof.
  unfold invert_block. destruct (b_end b) as [| | | |m]; try reflexivity.
  destruct m; try reflexivity.
  destruct (find_negated (rev (b_stmts b)) input); try reflexivity.
  destruct arms as [|fa [|ta [|]]]; reflexivity.
Qed.

Lemma invert_block_end I b s s1 :
  interp_ok I -> block_okb b = true -> exec_stmts I s (b_stmts b) = Some s1 ->
  exec_end I s1 (b_end (invert_block b)) = exec_end I s1 (b_end b).
Proof.
  intros HI Hok Hex. unfold block_okb in Hok. apply andb_true_iff in Hok. destruct Hok as [Hss Harms].
  unfold invert_block, bool_arms_okb in *.
  destruct (b_end b) as [| | | |m] eqn:Eb; try (rewrite Eb; reflexivity).
  destruct m as [y arms| |]; try (rewrite Eb; reflexivity).
  destruct (find_negated (rev (b_stmts b)) y) as [x|] eqn:Hf; [|rewrite Eb; reflexivity].
  destruct arms as [|fa [|ta [|]]]; try (rewrite Eb; reflexivity).
  apply andb_true_iff in Harms. destruct Harms as [Harms L2].
  apply andb_true_iff in Harms. destruct Harms as [Harms L1].
  apply andb_true_iff in Harms. destruct Harms as [S0 S1].
  apply Nat.eqb_eq in S0, S1.
  destruct (negated_values I _ _ _ _ _ HI Hss Hf Hex) as [[Gx Gy]|[Gx Gy]];
    cbn [b_end exec_end]; rewrite Gx, Gy; cbn [find_arm a_sel]; rewrite S0, S1; cbn; reflexivity.
Qed.

(* ---------- the whole function ---------- *)
Lemma forallb_nth {A} (f : A -> bool) l n x : forallb f l = true -> nth_error l n = Some x -> f x = true.
Proof.
  intros H E. rewrite forallb_forall in H. apply H. eapply nth_error_In; eauto.
Qed.

Lemma run_preserved I l : interp_ok I -> lowered_okb l = true ->
  forall fuel b s, run I (branch_inversion l) fuel b s = run I l fuel b s.
Proof.
  intros HI Hok. induction fuel as [|fuel IH]; intros b s; [reflexivity|].
  cbn [run]. unfold branch_inversion. rewrite nth_error_map.
  destruct (nth_error l b) as [blk|] eqn:E; cbn [option_map]; [|reflexivity].
  rewrite invert_block_stmts.
  destruct (exec_stmts I s (b_stmts blk)) as [s1|] eqn:Ex; [|reflexivity].
  rewrite (invert_block_end I blk s s1 HI (forallb_nth _ _ _ _ Hok E) Ex).
  destruct (exec_end I s1 (b_end blk)); [reflexivity|apply IH].
Qed.

Theorem pass_preserves I l params args fuel :
  interp_ok I -> lowered_okb l = true ->
  sem I (branch_inversion l) params args fuel = sem I l params args fuel.
Proof.
  intros HI Hok. unfold sem. destruct (sets [] params args); [|reflexivity].
  apply run_preserved; assumption.
Qed.
