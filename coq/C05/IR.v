(* C05/IR.v -- a model of the lowered IR fragment that one lowering pass touches, the pass, and a
   small semantics.  Model file: definitions only.

   Modelled code: crates/cairo-lang-lowering/src/optimizations/branch_inversion.rs
   (`branch_inversion`, whole file) over crates/cairo-lang-lowering/src/objects.rs
   (`Lowered.blocks`, `Block { statements, end }`, `Statement`, `BlockEnd`, `MatchInfo`,
   `MatchArm { arm_selector, block_id, var_ids }`).

   What is kept of a statement: its kind, input and output variables, and for calls the callee
   and the `with_coupon` flag (the pass tests exactly these).  Constants, callees and extern
   functions are names (numbers) whose meaning is a parameter of the semantics; only
   `bool_not_impl` (callee number [BOOL_NOT]) has a fixed meaning.  The semantics below is written
   for this proof: the compiler has no executable semantics of its lowered IR. *)
From Coq Require Export ZArith List Lia Bool.
From Base Require Export Felt.
Export ListNotations.
Open Scope Z_scope.

Definition var := nat.
Definition bid := nat.
Definition fid := nat.

(* the harness gives `bool_not_impl` this number *)
Definition BOOL_NOT : fid := 0%nat.

Inductive stmt :=
| SConst (c : nat) (out : var)                                 (* Statement::Const *)
| SCall (f : fid) (ins : list var) (outs : list var) (coupon : bool)   (* Statement::Call *)
| SStructConstruct (ins : list var) (out : var)
| SStructDestructure (input : var) (outs : list var)
| SEnumConstruct (idx : nat) (input : var) (out : var)
| SSnapshot (input : var) (out_orig out_snap : var)
| SDesnap (input : var) (out : var)
| SIntoBox (input : var) (out : var)
| SUnbox (input : var) (out : var).

(* MatchArm: the selector (variant index / value), the target block, the variables it binds *)
Record arm := { a_sel : nat; a_block : bid; a_vars : list var }.

Inductive minfo :=
| MEnum (input : var) (arms : list arm)                       (* MatchInfo::Enum *)
| MExtern (f : fid) (ins : list var) (arms : list arm)        (* MatchInfo::Extern *)
| MValue (n : nat) (input : var) (arms : list arm).           (* MatchInfo::Value *)

Inductive bend :=
| ENotSet
| EReturn (vs : list var)
| EPanic (v : var)
| EGoto (b : bid) (remap : list (var * var))                  (* (dst, src) *)
| EMatch (m : minfo).

Record block := { b_stmts : list stmt; b_end : bend }.
Definition lowered := list block.                             (* Lowered.blocks, index = BlockId *)

(* ---------------------------------------------------------------------------------------- *)
(* the pass                                                                                  *)

Definition var_list_eqb (a b : list var) : bool :=
  if list_eq_dec Nat.eq_dec a b then true else false.

(* `.iter().rev().filter_map(..).next()`: the LAST statement of the block that is a call of
   bool_not_impl without coupon whose outputs are exactly [y]; its first input *)
Fixpoint find_negated (ss_rev : list stmt) (y : var) : option var :=
  match ss_rev with
  | [] => None
  | SCall f (x :: _) outs false :: r =>
      if Nat.eqb f BOOL_NOT && var_list_eqb outs [y] then Some x else find_negated r y
  | _ :: r => find_negated r y
  end.

Definition invert_block (b : block) : block :=
  match b_end b with
  | EMatch (MEnum y arms) =>
      match find_negated (rev (b_stmts b)) y with
      | Some x =>
          match arms with
          | [fa; ta] =>
              (* swap the arms, then swap the selectors back *)
              {| b_stmts := b_stmts b;
                 b_end := EMatch (MEnum x
                            [ {| a_sel := a_sel fa; a_block := a_block ta; a_vars := a_vars ta |};
                              {| a_sel := a_sel ta; a_block := a_block fa; a_vars := a_vars fa |} ]) |}
          | _ => b        (* the Rust code panics: "Match on bool should have 2 arms." *)
          end
      | None => b
      end
  | _ => b
  end.

Definition branch_inversion (l : lowered) : lowered := map invert_block l.

(* ---------------------------------------------------------------------------------------- *)
(* a small semantics                                                                         *)
Inductive value :=
| VInt (z : Z)
| VTup (vs : list value)
| VEnum (idx : nat) (v : value)
| VOpaque (n : nat) (vs : list value).         (* results of uninterpreted constants / callees *)

Definition VUnit : value := VTup [].

(* meaning of the names: constants, callees (total results or "does not return": None models a
   callee that diverges / is stuck), extern branching functions *)
Record interp := {
  csem : nat -> value;
  fsem : fid -> list value -> option (list value);
  xsem : fid -> list value -> option (nat * list value)
}.

Definition bool_not_sem (vs : list value) : option (list value) :=
  match vs with
  | [VEnum O (VTup [])] => Some [VEnum 1 (VTup [])]
  | [VEnum (S O) (VTup [])] => Some [VEnum 0 (VTup [])]
  | _ => None
  end.

(* interpretations that give bool_not_impl its meaning *)
Definition interp_ok (I : interp) : Prop := forall vs, fsem I BOOL_NOT vs = bool_not_sem vs.

Definition env := list (var * value).
Fixpoint get (s : env) (x : var) : option value :=
  match s with
  | [] => None
  | (y, v) :: r => if Nat.eqb x y then Some v else get r x
  end.
Definition set (s : env) (x : var) (v : value) : env := (x, v) :: s.

Fixpoint gets (s : env) (xs : list var) : option (list value) :=
  match xs with
  | [] => Some []
  | x :: r => match get s x, gets s r with Some v, Some vs => Some (v :: vs) | _, _ => None end
  end.
Fixpoint sets (s : env) (xs : list var) (vs : list value) : option env :=
  match xs, vs with
  | [], [] => Some s
  | x :: xr, v :: vr => sets (set s x v) xr vr
  | _, _ => None
  end.

Definition exec_stmt (I : interp) (s : env) (st : stmt) : option env :=
  match st with
  | SConst c out => Some (set s out (csem I c))
  | SCall f ins outs _ =>
      match gets s ins with
      | Some vs => match fsem I f vs with Some rs => sets s outs rs | None => None end
      | None => None
      end
  | SStructConstruct ins out =>
      match gets s ins with Some vs => Some (set s out (VTup vs)) | None => None end
  | SStructDestructure input outs =>
      match get s input with Some (VTup vs) => sets s outs vs | _ => None end
  | SEnumConstruct idx input out =>
      match get s input with Some v => Some (set s out (VEnum idx v)) | None => None end
  | SSnapshot input o1 o2 =>
      match get s input with Some v => Some (set (set s o1 v) o2 v) | None => None end
  | SDesnap input out | SIntoBox input out | SUnbox input out =>
      match get s input with Some v => Some (set s out v) | None => None end
  end.

Fixpoint exec_stmts (I : interp) (s : env) (ss : list stmt) : option env :=
  match ss with
  | [] => Some s
  | st :: r => match exec_stmt I s st with Some s1 => exec_stmts I s1 r | None => None end
  end.

Fixpoint find_arm (arms : list arm) (sel : nat) : option arm :=
  match arms with
  | [] => None
  | a :: r => if Nat.eqb (a_sel a) sel then Some a else find_arm r sel
  end.

(* an enum payload binds the arm's variables: one variable for the payload (unit included) *)
Definition bind_arm (s : env) (a : arm) (payload : list value) : option env :=
  sets s (a_vars a) payload.

Inductive result :=
| Returned (vs : list value)
| Panicked (v : value)
| Stuck                      (* undefined variable, ill-formed end, callee without result *)
| NoFuel.

Inductive next := Done (r : result) | Jump (b : bid) (s : env).

Definition exec_end (I : interp) (s : env) (e : bend) : next :=
  match e with
  | ENotSet => Done Stuck
  | EReturn vs => match gets s vs with Some r => Done (Returned r) | None => Done Stuck end
  | EPanic v => match get s v with Some r => Done (Panicked r) | None => Done Stuck end
  | EGoto b remap =>
      match gets s (map snd remap) with
      | Some vs => match sets s (map fst remap) vs with Some s1 => Jump b s1 | None => Done Stuck end
      | None => Done Stuck
      end
  | EMatch (MEnum y arms) =>
      match get s y with
      | Some (VEnum idx payload) =>
          match find_arm arms idx with
          | Some a => match bind_arm s a [payload] with Some s1 => Jump (a_block a) s1 | None => Done Stuck end
          | None => Done Stuck
          end
      | _ => Done Stuck
      end
  | EMatch (MExtern f ins arms) =>
      match gets s ins with
      | Some vs =>
          match xsem I f vs with
          | Some (br, rs) =>
              match find_arm arms br with
              | Some a => match bind_arm s a rs with Some s1 => Jump (a_block a) s1 | None => Done Stuck end
              | None => Done Stuck
              end
          | None => Done Stuck
          end
      | None => Done Stuck
      end
  | EMatch (MValue _ y arms) =>
      match get s y with
      | Some (VInt z) =>
          if z <? 0 then Done Stuck else
          match find_arm arms (Z.to_nat z) with
          | Some a => match bind_arm s a [] with Some s1 => Jump (a_block a) s1 | None => Done Stuck end
          | None => Done Stuck
          end
      | _ => Done Stuck
      end
  end.

Fixpoint run (I : interp) (l : lowered) (fuel : nat) (b : bid) (s : env) : result :=
  match fuel with
  | O => NoFuel
  | S fuel =>
      match nth_error l b with
      | None => Stuck
      | Some blk =>
          match exec_stmts I s (b_stmts blk) with
          | None => Stuck
          | Some s1 =>
              match exec_end I s1 (b_end blk) with
              | Done r => r
              | Jump b' s2 => run I l fuel b' s2
              end
          end
      end
  end.

(* a function starts in block 0 with its parameters bound *)
Definition sem (I : interp) (l : lowered) (params : list var) (args : list value) (fuel : nat) : result :=
  match sets [] params args with
  | Some s => run I l fuel 0%nat s
  | None => Stuck
  end.

(* ---------------------------------------------------------------------------------------- *)
(* the well-formedness the pass relies on (the lowered IR is in single-assignment form; a match
   on bool has its two arms in variant order).  Checked on every real lowering by Corr.v. *)
Definition stmt_ins (st : stmt) : list var :=
  match st with
  | SConst _ _ => []
  | SCall _ ins _ _ | SStructConstruct ins _ => ins
  | SStructDestructure i _ | SEnumConstruct _ i _ | SSnapshot i _ _ | SDesnap i _ | SIntoBox i _ | SUnbox i _ => [i]
  end.
Definition stmt_outs (st : stmt) : list var :=
  match st with
  | SConst _ o | SStructConstruct _ o | SEnumConstruct _ _ o | SDesnap _ o | SIntoBox _ o | SUnbox _ o => [o]
  | SCall _ _ outs _ | SStructDestructure _ outs => outs
  | SSnapshot _ o1 o2 => [o1; o2]
  end.

Definition memb (x : var) (l : list var) : bool := existsb (Nat.eqb x) l.
Definition disjointb (a b : list var) : bool := forallb (fun x => negb (memb x b)) a.

(* no statement redefines a variable that it reads itself or that an earlier statement of the
   block read or defined *)
Fixpoint stmts_okb (seen : list var) (ss : list stmt) : bool :=
  match ss with
  | [] => true
  | st :: r =>
      disjointb (stmt_outs st) (stmt_ins st ++ seen) && stmts_okb (stmt_outs st ++ stmt_ins st ++ seen) r
  end.

Definition bool_arms_okb (b : block) : bool :=
  match b_end b with
  | EMatch (MEnum y arms) =>
      match find_negated (rev (b_stmts b)) y with
      | Some _ =>
          match arms with
          | [fa; ta] => Nat.eqb (a_sel fa) 0 && Nat.eqb (a_sel ta) 1
                        && Nat.eqb (length (a_vars fa)) 1 && Nat.eqb (length (a_vars ta)) 1
          | _ => false
          end
      | None => true
      end
  | _ => true
  end.

Definition block_okb (b : block) : bool := stmts_okb [] (b_stmts b) && bool_arms_okb b.
Definition lowered_okb (l : lowered) : bool := forallb block_okb l.
