(* C16/Step.v -- proof that one step of the (modelled) VM on the assembled flags does what the
   CASM instruction denotes: soundness of [vm_exec (strip r)] w.r.t. [denotes]. *)
From C16 Require Import Casm Vm Denote Roundtrip.

Definition extends (m m' : memory) : Prop := forall a v, m a = Some v -> m' a = Some v.
Definition has_writes (m' : memory) (ws : list (addr * value)) : Prop :=
  forall a v, In (a, v) ws -> m' a = Some v.

Definition stone (i : instr) : Prop :=
  match ibody i with QM31AssertEq _ _ | Blake _ _ _ _ => False | _ => True end.

Lemma value_eqb_eq a b : value_eqb a b = true -> a = b.
Proof.
  destruct a, b; cbn; try discriminate.
  - intros H. apply Z.eqb_eq in H. congruence.
  - intros H. apply andb_prop in H. destruct H as [H1 H2].
    apply Z.eqb_eq in H1, H2. congruence.
Qed.

Lemma rel_add_felt_seg s o z sg n : rel_add_felt s o z = Some (VRel sg n) -> sg = s.
Proof. unfold rel_add_felt. destruct (_ <? _); [|discriminate]. intros H; inversion H; reflexivity. Qed.
Lemma rel_add_felt_int s o z x : rel_add_felt s o z = Some (VInt x) -> False.
Proof. unfold rel_add_felt. destruct (_ <? _); discriminate. Qed.

Ltac step :=
  match goal with
  | H : Some _ = Some _ |- _ => inversion H; subst; clear H
  | H : None = Some _ |- _ => discriminate H
  | H : Some _ = None |- _ => discriminate H
  | H : _ = _ |- _ => discriminate H
  | H : (_, _) = (_, _) |- _ => inversion H; subst; clear H
  | H : negb _ = false |- _ => apply negb_false_iff in H
  | H : _ && _ = true |- _ => apply andb_prop in H; destruct H
  | H : value_eqb _ _ = true |- _ => apply value_eqb_eq in H; subst
  | H : rel_add_felt ?s _ _ = Some (VRel ?sg _) |- _ =>
      lazymatch sg with s => fail | _ => pose proof (rel_add_felt_seg _ _ _ _ _ H); subst sg end
  | H : rel_add_felt _ _ _ = Some (VInt _) |- _ => exfalso; exact (rel_add_felt_int _ _ _ _ H)
  | H : context [match ?x with _ => _ end] |- _ =>
      first [ is_var x; destruct x | let E := fresh "E" in destruct x eqn:E ]
  | H : context [if ?x then _ else _] |- _ =>
      first [ is_var x; destruct x | let E := fresh "E" in destruct x eqn:E ]
  end.

Ltac use_mem Hext Hw :=
  repeat match goal with
  | H : ?m ?a = Some ?v |- _ =>
      match type of Hext with extends m ?m' =>
        lazymatch goal with
        | _ : m' a = Some v |- _ => fail
        | _ => pose proof (Hext _ _ H)
        end
      end
  end;
  repeat match type of Hw with
  | has_writes ?m' ?ws =>
      match ws with
      | context [(?a, ?v)] =>
          lazymatch goal with
          | _ : m' a = Some v |- _ => fail
          | _ => assert (m' a = Some v) by (apply Hw; cbn; tauto)
          end
      end
  end.

Definition canon_v (v : value) : Prop :=
  match v with VInt z => 0 <= z < P | VRel _ o => 0 <= o < USZ end.
Definition canonical (m : memory) : Prop := forall a v, m a = Some v -> canon_v v.

Lemma USZ_lt_P : USZ < P.
Proof. unfold USZ, P. lia. Qed.
Local Opaque P USZ.

Lemma sub_add v1 v0 v :
  canon_v v1 -> canon_v v0 -> v_sub v1 v0 = Some v ->
  v_add v v0 = Some v1 /\ v_add v0 v = Some v1.
Proof.
  pose proof USZ_lt_P as HU. pose proof P_pos as HP.
  destruct v1 as [x|s o], v0 as [y|s' o']; cbn; intros H1 H0 H.
  - inversion H; subst. cbn. unfold fadd, fsub.
    assert (E : ((x - y) mod P + y) mod P = x).
    { rewrite Zplus_mod_idemp_l. replace (x - y + y) with x by lia. apply Z.mod_small. lia. }
    rewrite E. replace (y + (x - y) mod P) with ((x - y) mod P + y) by lia. rewrite E. auto.
  - discriminate.
  - destruct (((o - y) mod P) <? USZ) eqn:E; [|discriminate]. inversion H; subst. cbn.
    unfold rel_add_felt.
    assert (E2 : ((o - y) mod P + y) mod P = o).
    { rewrite Zplus_mod_idemp_l. replace (o - y + y) with o by lia. apply Z.mod_small. lia. }
    rewrite E2. replace (o <? USZ) with true by (symmetry; apply Z.ltb_lt; lia). auto.
  - destruct (s =? s') eqn:Es; [|discriminate]. apply Z.eqb_eq in Es. subst s'.
    inversion H; subst. cbn. unfold rel_add_felt.
    assert (E2 : (o' + (o - o') mod P) mod P = o).
    { rewrite Zplus_mod_idemp_r. replace (o' + (o - o')) with o by lia. apply Z.mod_small. lia. }
    rewrite E2. replace (o <? USZ) with true by (symmetry; apply Z.ltb_lt; lia). auto.
Qed.

Section Sound.
Variable finv : Z -> Z.
(* the field inverse the VM uses when it deduces an operand of a multiplication *)
Hypothesis finv_ok : forall z z0, 0 <= z < P -> 0 <= z0 < P -> z0 <> 0 ->
  fmul (fmul z (finv z0)) z0 = z /\ fmul z0 (fmul z (finv z0)) = z.

Ltac crush Ha Hx Hext Hw :=
  cbn in Ha; inversion Ha; subst; clear Ha;
  unfold vm_exec in Hx; cbn in Hx;
  repeat step; cbn in *;
  use_mem Hext Hw;
  unfold denotes, rd, res_val, doi_val, rd, cell_addr, next_pc, next_ap, pc_plus, as_addr; cbn;
  repeat match goal with H : addr_off _ _ = Some _ |- _ => rewrite H end;
  repeat match goal with H : ?m _ = Some _ |- context [?m _] => rewrite H end;
  try solve [repeat split; eauto; congruence].

Lemma addr_off_inv a o b : addr_off a o = Some b -> b = (fst a, snd a + o).
Proof. unfold addr_off. destruct (_ || _); [discriminate|]. intros H; inversion H; reflexivity. Qed.

Ltac fin :=
  repeat match goal with
  | H : addr_off ?a ?o = Some ?b |- _ =>
      is_var b; let E := fresh in pose proof (addr_off_inv _ _ _ H) as E; clear H; subst b
  end;
  cbn [fst snd reg_base] in *; rewrite ?Z.add_0_r in *;
  repeat match goal with |- _ /\ _ => split | |- exists _, _ => eexists end;
  try reflexivity; try eassumption;
  try (cbn; repeat match goal with
            | H : rel_add_felt _ _ _ = _ |- context [rel_add_felt _ _ _] => rewrite H
            | H : is_zero_v _ = _ |- context [is_zero_v _] => rewrite H
            end; cbn; try reflexivity; try eassumption);
  try congruence.

Ltac canon_facts Hcan :=
  repeat match goal with
  | H : ?m ?a = Some ?v |- _ =>
      match type of Hcan with canonical m =>
        lazymatch goal with
        | _ : canon_v v |- _ => fail
        | _ => pose proof (Hcan _ _ H)
        end
      end
  end.

Ltac arith :=
  repeat match goal with
  | H : v_sub ?a ?b = Some ?v, Ha : canon_v ?a, Hb : canon_v ?b |- _ =>
      let H1 := fresh in let H2 := fresh in
      destruct (sub_add _ _ _ Ha Hb H) as [H1 H2]; clear H; try rewrite H1; try rewrite H2
  end;
  repeat match goal with
  | Hz : canon_v (VInt ?z), Hz0 : canon_v (VInt ?z0), E : (?z0 =? 0) = false |- _ =>
      let H1 := fresh in let H2 := fresh in
      destruct (finv_ok z z0 Hz Hz0 ltac:(apply Z.eqb_neq; exact E)) as [H1 H2];
      cbn [v_mul]; try rewrite H1; try rewrite H2; clear E
  end.

Theorem step_sound i r m s sr m' :
  wf_instr i -> stone i -> assemble i = Some r ->
  canonical m -> code_at m s i r ->
  vm_exec finv (strip r) m s = Some sr ->
  extends m m' -> has_writes m' (s_writes sr) ->
  denotes i m' s (s_next sr).
Proof.
  intros Hwf Hst Ha Hcan [_ Himm] Hx Hext Hw.
  destruct i as [b ia]. destruct b as [ r0 | a r0 | a r0 | t rel | t c | t rel | | st bc msg fin ];
    cbn in Hst; try contradiction.
  - (* AddAp *)
    destruct ia; [cbn in Ha; discriminate|].
    destruct r0 as [ [[|] ?] | [[|] ?] ? | ? | [|] [[|] ?] [[[|] ?]|?] ].
    all: cbn in Himm; try destruct Himm as (ai & Hai & Hmi).
    all: crush Ha Hx Hext Hw.
    all: canon_facts Hcan; arith.
    all: try solve [repeat split; eauto; congruence | do 2 eexists; repeat split; eauto; congruence].
  - (* AssertEq *)
    destruct a as [ra oa]. destruct ia.
    all: destruct r0 as [ [[|] ?] | [[|] ?] ? | ? | [|] [[|] ?] [[[|] ?]|?] ].
    all: cbn in Himm; try destruct Himm as (ai & Hai & Hmi).
    all: crush Ha Hx Hext Hw.
    all: canon_facts Hcan; arith.
    all: try solve [repeat split; eauto; congruence | do 2 eexists; repeat split; eauto; congruence].
  - (* Call *)
    destruct ia; [cbn in Ha; discriminate|].
    destruct rel; destruct t as [[[|] ?]|?].
    all: cbn in Himm; try destruct Himm as (ai & Hai & Hmi).
    all: crush Ha Hx Hext Hw.
    all: canon_facts Hcan; arith.
    all: try solve [repeat split; eauto; congruence | do 2 eexists; repeat split; eauto; congruence].
    all: fin.
  - (* Jnz *)
    destruct c as [rc oc]. destruct ia; destruct t as [[[|] ?]|?].
    all: cbn in Himm; try destruct Himm as (ai & Hai & Hmi).
    all: crush Ha Hx Hext Hw.
    all: canon_facts Hcan; arith.
    all: try solve [repeat split; eauto; congruence | do 2 eexists; repeat split; eauto; congruence].
    all: fin.
    all: fin.
  - (* Jump *)
    destruct ia; destruct rel; destruct t as [[[|] ?]|?].
    all: cbn in Himm; try destruct Himm as (ai & Hai & Hmi).
    all: crush Ha Hx Hext Hw.
    all: canon_facts Hcan; arith.
    all: try solve [repeat split; eauto; congruence | do 2 eexists; repeat split; eauto; congruence].
    all: fin.
  - (* Ret *)
    destruct ia; [cbn in Ha; discriminate|].
    all: cbn in Himm; try destruct Himm as (ai & Hai & Hmi).
    all: crush Ha Hx Hext Hw.
    all: canon_facts Hcan; arith.
    all: try solve [repeat split; eauto; congruence | do 2 eexists; repeat split; eauto; congruence].
    all: fin.
    all: fin.
Qed.
End Sound.
