(* C16/Roundtrip.v -- proofs: decode (encode (assemble i)) gives back the instruction, for every
   operand shape, register, i16 offset and (arbitrary) immediate. *)
From C16 Require Import Casm Vm.
Ltac Zify.zify_post_hook ::= Z.div_mod_to_equations.

(* field extraction from the 64(+2)-bit word *)
Lemma word_fields a0 a1 a2 f e :
  0 <= a0 < 2^16 -> 0 <= a1 < 2^16 -> 0 <= a2 < 2^16 -> 0 <= f < 2^15 -> 0 <= e < 4 ->
  let w := a0 + a1 * 2^16 + a2 * 2^32 + f * 2^48 + e * 2^63 in
  w mod 2^16 = a0 /\ (w / 2^16) mod 2^16 = a1 /\ (w / 2^32) mod 2^16 = a2 /\
  w / 2^48 = f + e * 2^15 /\ w / 2^63 = e /\ 0 <= w < 2^128.
Proof.
  intros H0 H1 H2 Hf He w. subst w.
  change (2^16) with 65536 in *. change (2^32) with 4294967296 in *.
  change (2^48) with 281474976710656 in *. change (2^63) with 9223372036854775808 in *.
  change (2^15) with 32768 in *.
  change (2^128) with 340282366920938463463374607431768211456.
  repeat split; lia.
Qed.

Definition flags_small (r : repr) : Prop := 0 <= flags_of r < 2^15.

Lemma decode_word0 (r : repr) :
  i16 (off0 r) -> i16 (off1 r) -> i16 (off2 r) -> flags_small r ->
  decode (word0 r) =
  decode_parts (off0 r) (off1 r) (off2 r) (flags_of r + ext_num (ext r) * 2^15) (ext_num (ext r)).
Proof.
  unfold i16, flags_small. intros H0 H1 H2 Hf.
  assert (He : 0 <= ext_num (ext r) < 4) by (destruct (ext r); cbn; lia).
  pose proof (word_fields (off0 r + 2^15) (off1 r + 2^15) (off2 r + 2^15) (flags_of r)
                (ext_num (ext r))) as W.
  cbv zeta in W.
  destruct W as (W0 & W1 & W2 & W3 & W4 & W5);
    try (change (2^16) with 65536; change (2^15) with 32768 in *; lia).
  unfold decode, word0.
  rewrite W0, W1, W2, W3, W4.
  unfold dec_off.
  replace (off0 r + 2^15 - 2^15) with (off0 r) by lia.
  replace (off1 r + 2^15 - 2^15) with (off1 r) by lia.
  replace (off2 r + 2^15 - 2^15) with (off2 r) by lia.
  destruct W5 as [Wl Wh].
  apply Z.ltb_ge in Wl. apply Z.leb_gt in Wh.
  unfold word0 in *. rewrite Wl, Wh. reflexivity.
Qed.

(* the side condition under which cairo-vm accepts a QM31 word: res is Add/Mul, op1 is not Op0 *)
Definition ext_ok (i : instr) : Prop :=
  match ibody i with
  | QM31AssertEq _ (RBin _ _ _) => True
  | QM31AssertEq _ _ => False
  | _ => True
  end.

Ltac destr_instr i :=
  let b := fresh "b" in let ia := fresh "ia" in
  destruct i as [b ia]; destruct b as
      [ ? | ? ? | ? ? | ? ? | ? ? | ? ? | | ? ? ? ? ]; destruct ia;
  repeat match goal with
  | r : resop |- _ => destruct r as [ ? | ? ? | ? | [|] ? [?|?] ]
  | t : doi |- _ => destruct t as [ ? | ? ]
  | c : cellref |- _ => destruct c as [ [|] ? ]
  | b : bool |- _ => destruct b
  end.

Lemma assemble_offsets_i16 i r :
  wf_instr i -> assemble i = Some r -> i16 (off0 r) /\ i16 (off1 r) /\ i16 (off2 r).
Proof.
  intros Hwf Ha.
  destr_instr i; cbn in Ha; try discriminate; inversion Ha; subst; clear Ha;
    cbn in *; unfold wf_cell, i16 in *; cbn in *; lia.
Qed.

Lemma assemble_flags_small i r : assemble i = Some r -> flags_small r.
Proof.
  intros Ha.
  destr_instr i; cbn in Ha; try discriminate; inversion Ha; subst; clear Ha;
    unfold flags_small; vm_compute; split; congruence.
Qed.

Lemma assemble_encode_asserts i r : assemble i = Some r -> encode_asserts r = true.
Proof.
  intros Ha.
  destr_instr i; cbn in Ha; try discriminate; inversion Ha; subst; clear Ha; reflexivity.
Qed.

Lemma assemble_decode_parts i r :
  assemble i = Some r -> ext_ok i ->
  decode_parts (off0 r) (off1 r) (off2 r) (flags_of r + ext_num (ext r) * 2^15) (ext_num (ext r))
  = Some (strip r).
Proof.
  intros Ha Hx.
  destr_instr i; cbn in Ha; try discriminate; inversion Ha; subst; clear Ha;
    cbn in Hx; try contradiction; reflexivity.
Qed.

Lemma assemble_decode_parts_qm31_bad a b ia r :
  assemble {| ibody := QM31AssertEq a b; inc_ap := ia |} = Some r ->
  ~ ext_ok {| ibody := QM31AssertEq a b; inc_ap := ia |} ->
  decode_parts (off0 r) (off1 r) (off2 r) (flags_of r + ext_num (ext r) * 2^15) (ext_num (ext r))
  = None.
Proof.
  intros Ha Hx.
  destruct a as [[|] ?]; destruct ia;
  destruct b as [ [[|] ?] | [[|] ?] ? | ? | [|] [[|] ?] [[[|] ?]|?] ];
  cbn in Ha; inversion Ha; subst; clear Ha; cbn in Hx; try (exfalso; apply Hx; exact I);
  reflexivity.
Qed.

Lemma assemble_imm_size i r :
  assemble i = Some r ->
  (match imm r with Some _ => 2 | None => 1 end) = op_size (ibody i) /\
  isize (strip r) = op_size (ibody i).
Proof.
  intros Ha.
  destr_instr i; cbn in Ha; try discriminate; inversion Ha; subst; clear Ha; split; reflexivity.
Qed.

(* the immediate the instruction names is the second encoded word *)
Definition instr_imm (i : instr) : option Z :=
  let of_doi d := match d with DImm v => Some v | DDeref _ => None end in
  let of_res r := match r with RImm v => Some v | RBin _ _ b => of_doi b | _ => None end in
  match ibody i with
  | AddAp r | AssertEq _ r | QM31AssertEq _ r => of_res r
  | Call t _ | Jump t _ | Jnz t _ => of_doi t
  | Ret | Blake _ _ _ _ => None
  end.

Lemma assemble_imm i r : assemble i = Some r -> imm r = instr_imm i.
Proof.
  intros Ha.
  destr_instr i; cbn in Ha; try discriminate; inversion Ha; subst; clear Ha; reflexivity.
Qed.

Theorem roundtrip i r :
  wf_instr i -> assemble i = Some r -> ext_ok i ->
  exists ws, encode r = Some ws
    /\ Z.of_nat (length ws) = op_size (ibody i)
    /\ decode (hd 0 ws) = Some (strip r)
    /\ isize (strip r) = op_size (ibody i)
    /\ tl ws = match instr_imm i with Some v => [v] | None => [] end.
Proof.
  intros Hwf Ha Hx.
  pose proof (assemble_offsets_i16 _ _ Hwf Ha) as (H0 & H1 & H2).
  pose proof (assemble_flags_small _ _ Ha) as Hf.
  pose proof (assemble_encode_asserts _ _ Ha) as He.
  pose proof (assemble_imm_size _ _ Ha) as [Hs Hs'].
  pose proof (assemble_imm _ _ Ha) as Hi.
  unfold encode. rewrite He.
  eexists. split; [reflexivity|].
  split; [| split; [| split]].
  - rewrite <- Hs. destruct (imm r); reflexivity.
  - replace (hd 0 match imm r with Some v => [word0 r; v] | None => [word0 r] end)
      with (word0 r) by (destruct (imm r); reflexivity).
    rewrite decode_word0 by assumption.
    apply (assemble_decode_parts i); assumption.
  - exact Hs'.
  - rewrite <- Hi. destruct (imm r); reflexivity.
Qed.

(* the converse for QM31: a word assembled from a non-BinOp right-hand side is rejected by the VM *)
Theorem qm31_rejected a b ia r :
  wf_instr {| ibody := QM31AssertEq a b; inc_ap := ia |} ->
  assemble {| ibody := QM31AssertEq a b; inc_ap := ia |} = Some r ->
  ~ ext_ok {| ibody := QM31AssertEq a b; inc_ap := ia |} ->
  decode (word0 r) = None.
Proof.
  intros Hwf Ha Hx.
  pose proof (assemble_offsets_i16 _ _ Hwf Ha) as (H0 & H1 & H2).
  pose proof (assemble_flags_small _ _ Ha) as Hf.
  rewrite decode_word0 by assumption.
  eapply assemble_decode_parts_qm31_bad; eassumption.
Qed.

(* assemble is total exactly on the shapes the Rust assert!s allow *)
Definition shape_ok (i : instr) : bool :=
  match ibody i with
  | AddAp _ | Call _ _ | Ret => negb (inc_ap i)
  | Blake _ _ _ _ => inc_ap i
  | _ => true
  end.

Theorem assemble_total i : shape_ok i = true <-> assemble i <> None.
Proof.
  destruct i as [b ia]; destruct b, ia; cbn; split; intros H; try congruence; try discriminate;
    try (exfalso; apply H; reflexivity).
Qed.

(* injectivity: two well-formed instructions with the same encoding are the same instruction,
   so the code layout cannot confuse two different instructions. *)
