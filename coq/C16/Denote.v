(* C16/Denote.v -- what a CASM instruction denotes, read directly off its syntax (no flags, no
   offsets biasing, no op0/op1/dst): a relation between the machine state before, the memory
   after the step (the VM only ever adds cells), and the state after.  Model file: no proofs. *)
From C16 Require Export Casm Vm.

Definition cell_addr (s : state) (c : cellref) : option addr :=
  addr_off (reg_base s (c_reg c)) (c_off c).

Definition rd (m : memory) (s : state) (c : cellref) : option value :=
  match cell_addr s c with Some a => m a | None => None end.

Definition doi_val (m : memory) (s : state) (d : doi) : option value :=
  match d with DDeref c => rd m s c | DImm v => Some (VInt (fnorm v)) end.

Definition res_val (m : memory) (s : state) (r : resop) : option value :=
  match r with
  | RDeref c => rd m s c
  | RDouble c o =>
      match rd m s c with
      | Some (VRel sg of) => match addr_off (sg, of) o with Some a => m a | None => None end
      | _ => None
      end
  | RImm v => Some (VInt (fnorm v))
  | RBin op a b =>
      match rd m s a, doi_val m s b with
      | Some x, Some y => match op with OAdd => v_add x y | OMul => v_mul x y end
      | _, _ => None
      end
  end.

Definition next_pc (s : state) (i : instr) : option addr := addr_off (pc s) (op_size (ibody i)).
Definition next_ap (s : state) (i : instr) : Z := if inc_ap i then ap s + 1 else ap s.

Definition as_addr (v : value) : option addr :=
  match v with VRel sg o => Some (sg, o) | VInt _ => None end.
Definition pc_plus (s : state) (v : value) : option addr :=
  match v with
  | VInt z => match rel_add_felt (fst (pc s)) (snd (pc s)) z with
              | Some (VRel sg o) => Some (sg, o) | _ => None end
  | VRel _ _ => None
  end.

(* [denotes i m' s s']: in the memory after the step, the instruction's meaning holds *)
Definition denotes (i : instr) (m' : memory) (s s' : state) : Prop :=
  match ibody i with
  | AssertEq a b =>
      (exists v, rd m' s a = Some v /\ res_val m' s b = Some v)
      /\ Some (pc s') = next_pc s i /\ ap s' = next_ap s i /\ fp s' = fp s
  | AddAp r =>
      (exists z o, res_val m' s r = Some (VInt z) /\ rel_add_felt 1 (ap s) z = Some (VRel 1 o)
                   /\ ap s' = o)
      /\ Some (pc s') = next_pc s i /\ fp s' = fp s
  | Jump t rel =>
      (exists v, doi_val m' s t = Some v
                 /\ Some (pc s') = if rel then pc_plus s v else as_addr v)
      /\ ap s' = next_ap s i /\ fp s' = fp s
  | Jnz t c =>
      (exists v, rd m' s c = Some v /\
         if is_zero_v v then Some (pc s') = next_pc s i
         else exists w, doi_val m' s t = Some w /\ Some (pc s') = pc_plus s w)
      /\ ap s' = next_ap s i /\ fp s' = fp s
  | Call t rel =>
      m' (1, ap s) = Some (VRel 1 (fp s))
      /\ (exists a, next_pc s i = Some a /\ m' (1, ap s + 1) = Some (VRel (fst a) (snd a)))
      /\ (exists v, doi_val m' s t = Some v
                    /\ Some (pc s') = if rel then pc_plus s v else as_addr v)
      /\ ap s' = ap s + 2 /\ fp s' = ap s + 2
  | Ret =>
      (exists sg o, m' (1, fp s - 1) = Some (VRel sg o) /\ pc s' = (sg, o))
      /\ (exists v, m' (1, fp s - 2) = Some v /\
            fp s' = match v with VRel _ o => o | VInt z => z end)
      /\ ap s' = ap s
  | QM31AssertEq _ _ | Blake _ _ _ _ => True      (* step not modelled for these extensions *)
  end.

(* memory after a step: the old cells plus the cells the VM deduced and wrote *)
Fixpoint apply_writes (m : memory) (ws : list (addr * value)) : memory :=
  match ws with
  | [] => m
  | (a, v) :: r =>
      fun x => if (fst x =? fst a) && (snd x =? snd a) then Some v else apply_writes m r x
  end.

Definition imm_of_instr (i : instr) : option Z :=
  let of_doi d := match d with DImm v => Some v | DDeref _ => None end in
  let of_res r := match r with RImm v => Some v | RBin _ _ b => of_doi b | _ => None end in
  match ibody i with
  | AddAp r | AssertEq _ r | QM31AssertEq _ r => of_res r
  | Call t _ | Jump t _ | Jnz t _ => of_doi t
  | Ret | Blake _ _ _ _ => None
  end.

(* the encoded instruction sits at pc (the loader stores the immediate as a field element) *)
Definition code_at (m : memory) (s : state) (i : instr) (r : repr) : Prop :=
  m (pc s) = Some (VInt (word0 r))
  /\ match imm_of_instr i with
     | Some v => exists a, addr_off (pc s) 1 = Some a /\ m a = Some (VInt (fnorm v))
     | None => True
     end.
