(* C16/Fresh.v -- the cells a VM step writes were unknown before the step (for EVERY flag
   combination, not only assembled ones): the VM never relies on overwriting, so the only way
   [commit] can report InconsistentMemory is two deductions of the same step hitting one cell. *)
From C16 Require Import Casm Vm Denote Roundtrip Step Run.
Ltac innermost t :=
  match t with
  | context [match ?y with _ => _ end] => innermost y
  | context [if ?y then _ else _] => innermost y
  | _ => destruct t eqn:?
  end.
Section F.
Variable finv : Z -> Z.
Lemma exec_writes_fresh r m s sr :
  vm_exec finv r m s = Some sr -> forall x w, In (x, w) (s_writes sr) -> m x = None.
Proof.
  unfold vm_exec, deduce_op0, deduce_op1. intros H.
  destruct (ext r); try discriminate.
  destruct (addr_off (reg_base s (dst_register r)) (off0 r)) as [dst_a|]; [|discriminate].
  destruct (addr_off (reg_base s (op0_register r)) (off1 r)) as [op0_a|]; [|discriminate].
  destruct (match op1_addr r with O1FP => _ | _ => _ end) as [base1|]; [|discriminate].
  destruct (addr_off base1 (off2 r)) as [op1_a|]; [|discriminate].
  cbv zeta in H.
  destruct (m op0_a) as [v0|] eqn:E0.
  all: destruct (m op1_a) as [v1|] eqn:E1.
  all: destruct (m dst_a) as [vd|] eqn:Ed.
  all: repeat (match type of H with
               | context [match ?y with _ => _ end] => innermost y
               | context [if ?y then _ else _] => innermost y
               end; try discriminate).
  all: inversion H; subst; clear H; cbn; intros xx ww Hin;
       repeat match goal with Hin : _ \/ _ |- _ => destruct Hin as [Hin|Hin] | Hin : False |- _ => contradiction end;
       try (inversion Hin; subst; assumption).
Qed.
End F.
