(* C16/Commit.v -- after a successful step the deduced cells can always be inserted: they were
   unknown (Fresh.v), they are pairwise distinct (only `call` deduces two cells, [ap] and [ap+1];
   the decoder accepts call words of that shape only), so [commit] can fail only when a deduced value
   leaves the range of the Rust types.  The VM's InconsistentMemory error is therefore unreachable
   from a successful [vm_exec] of a decoded word. *)
From C16 Require Import Casm Vm Denote Roundtrip Step Run Fresh.
Section F.
Variable finv : Z -> Z.
Lemma exec_writes_nodup r m s sr :
  (opc r = OpCall -> off0 r = 0 /\ off1 r = 1 /\ dst_register r = op0_register r) ->
  vm_exec finv r m s = Some sr -> NoDup (map fst (s_writes sr)).
Proof.
  unfold vm_exec, deduce_op0, deduce_op1. intros Hcall H.
  destruct (ext r); try discriminate.
  destruct (addr_off (reg_base s (dst_register r)) (off0 r)) as [dst_a|] eqn:Ada; [|discriminate].
  destruct (addr_off (reg_base s (op0_register r)) (off1 r)) as [op0_a|] eqn:Aoa; [|discriminate].
  destruct (match op1_addr r with O1FP => _ | _ => _ end) as [base1|]; [|discriminate].
  destruct (addr_off base1 (off2 r)) as [op1_a|]; [|discriminate].
  cbv zeta in H.
  destruct (m op0_a) as [v0|] eqn:E0.
  all: destruct (m op1_a) as [v1|] eqn:E1.
  all: destruct (m dst_a) as [vd|] eqn:Ed.
  all: repeat (match type of H with
               | context [match ?y with _ => _ end] => innermost y
               | context [if ?y then _ else _] => innermost y
               end; try discriminate).
  all: inversion H; subst; clear H; cbn.
  all: try solve [constructor | constructor; [intros []|constructor]].
  all: try solve [
    destruct (Hcall eq_refl) as (H0 & H1 & Hr);
    rewrite H0 in Ada; rewrite H1 in Aoa; rewrite Hr in Ada;
    apply addr_off_inv in Ada; apply addr_off_inv in Aoa; subst;
    constructor; [intros [E|[]]; inversion E; lia | constructor; [intros []|constructor]] ].
Qed.

Lemma commit_total ws : forall m,
  (forall x w, In (x, w) ws -> m x = None) -> NoDup (map fst ws) ->
  (forall x w, In (x, w) ws -> canon_b w = true) ->
  exists m', commit m ws = Some m'.
Proof.
  induction ws as [|[a v] rest IH]; intros m Hf Hn Hc.
  - exists m. reflexivity.
  - cbn [commit]. rewrite (Hc a v (or_introl eq_refl)). rewrite (Hf a v (or_introl eq_refl)).
    cbn [map fst] in Hn. inversion Hn as [|? ? Hnotin Hn']; subst.
    apply IH; [|exact Hn'|intros x w Hin; apply (Hc x w); right; exact Hin].
    intros x w Hin. unfold upd. destruct (aeqb x a) eqn:E.
    + apply aeqb_true in E. subst x. exfalso. apply Hnotin.
      change a with (fst (a, w)). apply in_map. exact Hin.
    + apply (Hf x w). right. exact Hin.
Qed.

(* a successful step of a call-shaped-or-not-a-call instruction can always be committed, unless a
   deduced value leaves the range of the Rust types *)
Theorem step_commit_total r m s sr :
  (opc r = OpCall -> off0 r = 0 /\ off1 r = 1 /\ dst_register r = op0_register r) ->
  vm_exec finv r m s = Some sr ->
  (forall x w, In (x, w) (s_writes sr) -> canon_b w = true) ->
  exists m', commit m (s_writes sr) = Some m'.
Proof.
  intros Hcall Hx Hc. apply commit_total; [|eapply exec_writes_nodup; eassumption|exact Hc].
  eapply exec_writes_fresh. exact Hx.
Qed.
End F.

(* the decoder only accepts call words of that shape *)
Lemma decode_call_shape w r : decode w = Some r ->
  opc r = OpCall -> off0 r = 0 /\ off1 r = 1 /\ dst_register r = op0_register r.
Proof.
  unfold decode, decode_parts. intros H.
  repeat (match type of H with
          | context [match ?y with _ => _ end] => innermost y
          | context [if ?y then _ else _] => innermost y
          end; try discriminate).
  all: inversion H; subst; clear H; cbn; try discriminate.
  all: intros _.
  all: repeat match goal with
       | E : _ || _ = false |- _ => apply orb_false_elim in E; destruct E
       | E : negb _ = false |- _ => apply negb_false_iff in E
       | E : (_ =? _) = true |- _ => apply Z.eqb_eq in E
       end.
  all: repeat split; try assumption.
  all: repeat match goal with x : reg |- _ => destruct x end; try reflexivity; try discriminate.
Qed.


Theorem decoded_step_commit_total finv w r m s sr :
  decode w = Some r -> vm_exec finv r m s = Some sr ->
  (forall x v, In (x, v) (s_writes sr) -> canon_b v = true) ->
  exists m', commit m (s_writes sr) = Some m'.
Proof.
  intros Hd Hx Hc. eapply step_commit_total; [|exact Hx|exact Hc].
  apply (decode_call_shape w r Hd).
Qed.
