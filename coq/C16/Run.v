(* C16/Run.v -- from one step to whole executions.  The VM's memory is write-once: a step's
   deduced cells are inserted ([commit]: inserting a different value into a known cell is the VM's
   InconsistentMemory error, modelled as [None]); [vm_trace] iterates fetch / decode / execute /
   commit.  Theorem [run_sound]: in ANY execution of ANY length over a memory into which assembled
   instructions were loaded, every step that starts at the address of a loaded instruction does
   what that instruction denotes -- read in the FINAL memory of the execution (cells are never
   overwritten, so what a step asserted stays true).  Nothing is assumed about where the pc goes:
   steps that start elsewhere (data, the middle of an instruction) are simply not constrained. *)
From C16 Require Import Casm Vm Denote Roundtrip Step.

Definition canon_b (v : value) : bool :=
  match v with
  | VInt z => (0 <=? z) && (z <? P)
  | VRel _ o => (0 <=? o) && (o <? USZ)
  end.

Lemma canon_b_ok v : canon_b v = true -> canon_v v.
Proof.
  destruct v as [z|sg o]; cbn; intros H; apply andb_prop in H; destruct H as [H1 H2];
    apply Z.leb_le in H1; apply Z.ltb_lt in H2; lia.
Qed.

Definition aeqb (a b : addr) : bool := (fst a =? fst b) && (snd a =? snd b).

Lemma aeqb_true a b : aeqb a b = true -> a = b.
Proof.
  destruct a as [a1 a2], b as [b1 b2]. unfold aeqb. cbn. intros H.
  apply andb_prop in H. destruct H as [H1 H2]. apply Z.eqb_eq in H1, H2. congruence.
Qed.
Lemma aeqb_refl a : aeqb a a = true.
Proof. unfold aeqb. rewrite !Z.eqb_refl. reflexivity. Qed.

Definition upd (m : memory) (a : addr) (v : value) : memory :=
  fun x => if aeqb x a then Some v else m x.

(* Memory::insert for each deduced cell.  Values are Felt252 / Relocatable{usize} in the VM, i.e.
   canonical by their type; the model's registers are unbounded [Z], so a write that leaves the
   range of the Rust type (only possible through [VRel 1 (fp s)] or [ap + 2] at 2^64) ends the
   modelled run. *)
Fixpoint commit (m : memory) (ws : list (addr * value)) : option memory :=
  match ws with
  | [] => Some m
  | (a, v) :: r =>
      if canon_b v then
        match m a with
        | Some v' => if value_eqb v' v then commit m r else None
        | None => commit (upd m a v) r
        end
      else None
  end.

Lemma extends_refl m : extends m m.
Proof. intros a v H. exact H. Qed.
Lemma extends_trans m1 m2 m3 : extends m1 m2 -> extends m2 m3 -> extends m1 m3.
Proof. intros H1 H2 a v H. apply H2, H1, H. Qed.

Lemma upd_extends m a v : m a = None -> extends m (upd m a v).
Proof.
  intros Hn x w Hx. unfold upd. destruct (aeqb x a) eqn:E; [|exact Hx].
  apply aeqb_true in E. subst x. congruence.
Qed.

Lemma commit_ok ws : forall m m',
  commit m ws = Some m' ->
  extends m m' /\ has_writes m' ws /\ (canonical m -> canonical m').
Proof.
  induction ws as [|[a v] r IH]; intros m m' H.
  - cbn in H. inversion H; subst. split; [apply extends_refl|]. split; [|tauto].
    intros a v [].
  - cbn [commit] in H. destruct (canon_b v) eqn:Ec; [|discriminate].
    apply canon_b_ok in Ec.
    destruct (m a) as [v'|] eqn:Ea.
    + destruct (value_eqb v' v) eqn:Ev; [|discriminate].
      apply value_eqb_eq in Ev. subst v'.
      destruct (IH _ _ H) as (He & Hw & Hc).
      split; [exact He|]. split; [|exact Hc].
      intros a0 v0 [Hin|Hin]; [inversion Hin; subst; apply He, Ea | apply Hw, Hin].
    + destruct (IH _ _ H) as (He & Hw & Hc).
      pose proof (upd_extends m a v Ea) as Hu.
      split; [eapply extends_trans; eassumption|]. split.
      * intros a0 v0 [Hin|Hin]; [|apply Hw, Hin]. inversion Hin; subst.
        apply He. unfold upd. rewrite aeqb_refl. reflexivity.
      * intros Hcan. apply Hc. intros x w Hx. unfold upd in Hx.
        destruct (aeqb x a); [inversion Hx; subst; exact Ec | eapply Hcan; exact Hx].
Qed.

(* ---------- what a step asserted stays true in every later memory ---------- *)
Lemma rd_mono m m' s c v : extends m m' -> rd m s c = Some v -> rd m' s c = Some v.
Proof. unfold rd. intros He. destruct (cell_addr s c); [apply He|discriminate]. Qed.

Lemma doi_val_mono m m' s d v : extends m m' -> doi_val m s d = Some v -> doi_val m' s d = Some v.
Proof. intros He. destruct d; cbn; [apply rd_mono, He|tauto]. Qed.

Lemma res_val_mono m m' s r v : extends m m' -> res_val m s r = Some v -> res_val m' s r = Some v.
Proof.
  intros He. destruct r as [c|c o|z|op a b]; cbn.
  - apply rd_mono, He.
  - destruct (rd m s c) as [w|] eqn:E; [|discriminate].
    rewrite (rd_mono _ _ _ _ _ He E). destruct w as [z|sg of]; [discriminate|].
    destruct (addr_off (sg, of) o); [apply He|discriminate].
  - tauto.
  - destruct (rd m s a) as [x|] eqn:E1; [|discriminate].
    destruct (doi_val m s b) as [y|] eqn:E2; [|discriminate].
    rewrite (rd_mono _ _ _ _ _ He E1), (doi_val_mono _ _ _ _ _ He E2). tauto.
Qed.

Lemma denotes_mono i m m' s s' : extends m m' -> denotes i m s s' -> denotes i m' s s'.
Proof.
  intros He. unfold denotes. destruct (ibody i) as [r|a r|a r|t rel|t c|t rel| |st bc msg fin].
  - intros ((z & o & H1 & H2 & H3) & H4). split; [|exact H4].
    exists z, o. split; [eapply res_val_mono; eassumption|]. tauto.
  - intros ((v & H1 & H2) & H3). split; [|exact H3].
    exists v. split; [eapply rd_mono | eapply res_val_mono]; eassumption.
  - tauto.
  - intros (H1 & (a & H2 & H3) & (v & H4 & H5) & H6).
    split; [apply He, H1|]. split; [exists a; split; [exact H2|apply He, H3]|].
    split; [|exact H6]. exists v. split; [eapply doi_val_mono; eassumption|exact H5].
  - intros ((v & H1 & H2) & H3). split; [|exact H3].
    exists v. split; [eapply rd_mono; eassumption|].
    destruct (is_zero_v v); [exact H2|].
    destruct H2 as (w & H4 & H5). exists w. split; [eapply doi_val_mono; eassumption|exact H5].
  - intros ((v & H1 & H2) & H3). split; [|exact H3].
    exists v. split; [eapply doi_val_mono; eassumption|exact H2].
  - intros ((sg & o & H1 & H2) & (v & H3 & H4) & H5).
    split; [exists sg, o; split; [apply He, H1|exact H2]|].
    split; [exists v; split; [apply He, H3|exact H4]|exact H5].
  - tauto.
Qed.

(* ---------- loaded code ---------- *)
(* instruction [i], assembled and encoded, sits at address [a] *)
Definition loaded (m : memory) (a : addr) (i : instr) : Prop :=
  wf_instr i /\ stone i /\
  exists r, assemble i = Some r /\ code_at m {| pc := a; ap := 0; fp := 0 |} i r.

Lemma code_at_pc m s s' i r : pc s = pc s' -> code_at m s i r -> code_at m s' i r.
Proof. unfold code_at. intros E. rewrite E. tauto. Qed.

Lemma code_at_mono m m' s i r : extends m m' -> code_at m s i r -> code_at m' s i r.
Proof.
  unfold code_at. intros He [H1 H2]. split; [apply He, H1|].
  destruct (imm_of_instr i); [|exact I].
  destruct H2 as (a & Ha & Hm). exists a. split; [exact Ha|apply He, Hm].
Qed.

Lemma loaded_mono m m' a i : extends m m' -> loaded m a i -> loaded m' a i.
Proof.
  intros He (Hwf & Hst & r & Ha & Hc). split; [exact Hwf|]. split; [exact Hst|].
  exists r. split; [exact Ha|eapply code_at_mono; eassumption].
Qed.

Lemma stone_ext_ok i : stone i -> ext_ok i.
Proof. unfold stone, ext_ok. destruct (ibody i); tauto. Qed.

Lemma decode_assembled i r : wf_instr i -> stone i -> assemble i = Some r ->
  decode (word0 r) = Some (strip r).
Proof.
  intros Hwf Hst Ha.
  destruct (roundtrip i r Hwf Ha (stone_ext_ok i Hst)) as (ws & He & _ & Hd & _).
  unfold encode in He. destruct (encode_asserts r); [|discriminate].
  inversion He; subst ws. destruct (imm r); exact Hd.
Qed.

Lemma last_irrel {A} (l : list A) : forall x d d', last (x :: l) d = last (x :: l) d'.
Proof.
  induction l as [|y r IH]; intros x d d'; [reflexivity|].
  change (last (x :: y :: r) d) with (last (y :: r) d).
  change (last (x :: y :: r) d') with (last (y :: r) d'). apply IH.
Qed.
Lemma last_cons_default {A} (l : list A) a d : last (a :: l) d = last l a.
Proof.
  destruct l as [|y r]; [reflexivity|].
  change (last (a :: y :: r) d) with (last (y :: r) d). apply last_irrel.
Qed.

Section Run.
Variable finv : Z -> Z.
Hypothesis finv_ok : forall z z0, 0 <= z < P -> 0 <= z0 < P -> z0 <> 0 ->
  fmul (fmul z (finv z0)) z0 = z /\ fmul z0 (fmul z (finv z0)) = z.

(* [n] steps: the memory at the end and the states after each step *)
Fixpoint vm_trace (n : nat) (m : memory) (s : state) : option (memory * list state) :=
  match n with
  | O => Some (m, [])
  | S k =>
      match vm_step finv m s with
      | None => None
      | Some sr =>
          match commit m (s_writes sr) with
          | None => None
          | Some m1 =>
              match vm_trace k m1 (s_next sr) with
              | None => None
              | Some (mf, tr) => Some (mf, s_next sr :: tr)
              end
          end
      end
  end.

Lemma one_step m s i sr m1 :
  canonical m -> loaded m (pc s) i ->
  vm_step finv m s = Some sr -> commit m (s_writes sr) = Some m1 ->
  denotes i m1 s (s_next sr) /\ canonical m1 /\ extends m m1.
Proof.
  intros Hcan (Hwf & Hst & r & Ha & Hc) Hs Hm.
  destruct (commit_ok _ _ _ Hm) as (He & Hw & Hcc).
  split; [|split; [apply Hcc, Hcan|exact He]].
  assert (Hc' : code_at m s i r) by (eapply code_at_pc; [|exact Hc]; reflexivity).
  unfold vm_step in Hs. destruct Hc' as [Hw0 Himm]. rewrite Hw0 in Hs.
  rewrite (decode_assembled i r Hwf Hst Ha) in Hs.
  eapply (step_sound finv finv_ok i r m s sr m1); try eassumption.
  all: try (split; assumption).
Qed.

Lemma trace_extends n : forall m s mf tr,
  vm_trace n m s = Some (mf, tr) -> extends m mf.
Proof.
  induction n as [|k IH]; intros m s mf tr H; cbn [vm_trace] in H.
  - inversion H; subst. apply extends_refl.
  - destruct (vm_step finv m s) as [sr|]; [|discriminate].
    destruct (commit m (s_writes sr)) as [m1|] eqn:Ec; [|discriminate].
    destruct (vm_trace k m1 (s_next sr)) as [[mf' tr']|] eqn:Et; [|discriminate].
    inversion H; subst. destruct (commit_ok _ _ _ Ec) as (He & _).
    eapply extends_trans; [exact He|eapply IH; exact Et].
Qed.

Theorem run_sound n : forall m s mf tr k sk sk' i,
  canonical m ->
  vm_trace n m s = Some (mf, tr) ->
  nth_error (s :: tr) k = Some sk -> nth_error tr k = Some sk' ->
  loaded m (pc sk) i ->
  denotes i mf sk sk'.
Proof.
  induction n as [|n IH]; intros m s mf tr k sk sk' i Hcan H Hk Hk' Hl; cbn [vm_trace] in H.
  - inversion H; subst. destruct k; discriminate.
  - destruct (vm_step finv m s) as [sr|] eqn:Es; [|discriminate].
    destruct (commit m (s_writes sr)) as [m1|] eqn:Ec; [|discriminate].
    destruct (vm_trace n m1 (s_next sr)) as [[mf' tr']|] eqn:Et; [|discriminate].
    inversion H; subst mf' tr. clear H.
    destruct k as [|k].
    + cbn in Hk, Hk'. inversion Hk; subst sk. inversion Hk'; subst sk'.
      destruct (one_step m s i sr m1 Hcan Hl Es Ec) as (Hd & _ & _).
      eapply denotes_mono; [eapply trace_extends; exact Et|exact Hd].
    + cbn [nth_error] in Hk, Hk'.
      destruct (commit_ok _ _ _ Ec) as (He & _ & Hcc).
      eapply (IH m1 (s_next sr) mf tr' k sk sk' i); try eassumption.
      * apply Hcc, Hcan.
      * eapply loaded_mono; eassumption.
Qed.

(* the trace has one state per step, and the run is a prefix-closed notion: the first [j] steps
   of an [n]-step run are the [j]-step run *)
Lemma trace_length n : forall m s mf tr, vm_trace n m s = Some (mf, tr) -> length tr = n.
Proof.
  induction n as [|n IH]; intros m s mf tr H; cbn [vm_trace] in H.
  - inversion H; reflexivity.
  - destruct (vm_step finv m s) as [sr|]; [|discriminate].
    destruct (commit m (s_writes sr)) as [m1|]; [|discriminate].
    destruct (vm_trace n m1 (s_next sr)) as [[mf' tr']|] eqn:Et; [|discriminate].
    inversion H; subst. cbn. f_equal. eapply IH; exact Et.
Qed.

(* executions compose: an (n + k)-step run is an n-step run followed by a k-step run from the
   memory and state it reached (so every statement about runs also holds for their prefixes) *)
Lemma trace_app n : forall k m s mf tr,
  vm_trace (n + k) m s = Some (mf, tr) ->
  exists m1 tr1 tr2, vm_trace n m s = Some (m1, tr1)
    /\ vm_trace k m1 (last tr1 s) = Some (mf, tr2) /\ tr = tr1 ++ tr2.
Proof.
  induction n as [|n IH]; intros k m s mf tr H.
  - exists m, [], tr. split; [reflexivity|]. split; [exact H|reflexivity].
  - cbn [Nat.add vm_trace] in H. cbn [vm_trace].
    destruct (vm_step finv m s) as [sr|]; [|discriminate].
    destruct (commit m (s_writes sr)) as [m0|]; [|discriminate].
    destruct (vm_trace (n + k) m0 (s_next sr)) as [[mf' tr']|] eqn:Et; [|discriminate].
    inversion H; subst mf' tr. clear H.
    destruct (IH _ _ _ _ _ Et) as (m1 & tr1 & tr2 & H1 & H2 & H3).
    rewrite H1. exists m1, (s_next sr :: tr1), tr2.
    split; [reflexivity|]. split; [|subst tr'; reflexivity].
    rewrite last_cons_default. exact H2.
Qed.
End Run.
