(* C16/Casm.v -- model of cairo-lang-casm: instruction AST (instructions.rs, operand.rs),
   Instruction::assemble (assembler.rs), InstructionRepr::encode (encoder.rs), op_size.
   Rust assert!s become [None].  Offsets are [Z] with the i16 range as a predicate ([wf_*]).
   Model file: no proofs. *)
From Base Require Export Felt.

Inductive reg := AP | FP.
Record cellref := { c_reg : reg; c_off : Z }.
Inductive doi := DDeref (c : cellref) | DImm (v : Z).
Inductive opn := OAdd | OMul.
Inductive resop :=
  | RDeref (c : cellref)
  | RDouble (c : cellref) (o : Z)
  | RImm (v : Z)
  | RBin (op : opn) (a : cellref) (b : doi).

Inductive body :=
  | AddAp (r : resop)
  | AssertEq (a : cellref) (b : resop)
  | QM31AssertEq (a : cellref) (b : resop)
  | Call (t : doi) (rel : bool)
  | Jnz (t : doi) (c : cellref)
  | Jump (t : doi) (rel : bool)
  | Ret
  | Blake (state byte_count message : cellref) (finalize : bool).

Record instr := { ibody : body; inc_ap : bool }.

(* ---- assembler.rs: flag enums and InstructionRepr ---- *)
Inductive op1addr := O1Imm | O1AP | O1FP | O1Op0.
Inductive reslogic := ROp1 | RAdd | RMul | RUnconstrained.
Inductive pcupd := PcRegular | PcJump | PcJumpRel | PcJnz.
Inductive apupd := ApRegular | ApAdd | ApAdd1 | ApAdd2.
Inductive fpupd := FpRegular | FpApPlus2 | FpDst.
Inductive opcode := OpNop | OpAssertEq | OpCall | OpRet.
Inductive opext := ExtStone | ExtBlake | ExtBlakeFinalize | ExtQM31.

Record repr := {
  off0 : Z; off1 : Z; off2 : Z; imm : option Z;
  dst_register : reg; op0_register : reg; op1_addr : op1addr; res : reslogic;
  pc_update : pcupd; ap_update : apupd; fp_update : fpupd; opc : opcode; ext : opext }.

Record resdesc := {
  d_off1 : Z; d_off2 : Z; d_imm : option Z; d_op0 : reg; d_op1 : op1addr; d_res : reslogic }.

Definition reg_to_op1 (r : reg) : op1addr := match r with AP => O1AP | FP => O1FP end.
Definition op_to_res (o : opn) : reslogic := match o with OAdd => RAdd | OMul => RMul end.

Definition deref_desc (c : cellref) : resdesc :=
  {| d_off1 := -1; d_off2 := c_off c; d_imm := None; d_op0 := FP;
     d_op1 := reg_to_op1 (c_reg c); d_res := ROp1 |}.
Definition imm_desc (v : Z) : resdesc :=
  {| d_off1 := -1; d_off2 := 1; d_imm := Some v; d_op0 := FP; d_op1 := O1Imm; d_res := ROp1 |}.
Definition doi_desc (d : doi) : resdesc :=
  match d with DDeref c => deref_desc c | DImm v => imm_desc v end.

Definition res_desc (r : resop) : resdesc :=
  match r with
  | RDeref c => deref_desc c
  | RDouble c o =>
      {| d_off1 := c_off c; d_off2 := o; d_imm := None; d_op0 := c_reg c;
         d_op1 := O1Op0; d_res := ROp1 |}
  | RImm v => imm_desc v
  | RBin op a b =>
      let ar := deref_desc a in
      let br := doi_desc b in
      {| d_off1 := d_off2 ar; d_off2 := d_off2 br; d_imm := d_imm br; d_op0 := c_reg a;
         d_op1 := match b with DImm _ => O1Imm | DDeref c => reg_to_op1 (c_reg c) end;
         d_res := op_to_res op |}
  end.

Definition assemble (i : instr) : option repr :=
  match ibody i with
  | AddAp r =>
      if inc_ap i then None else
      let d := res_desc r in
      Some {| off0 := -1; off1 := d_off1 d; off2 := d_off2 d; imm := d_imm d;
              dst_register := FP; op0_register := d_op0 d; op1_addr := d_op1 d; res := d_res d;
              pc_update := PcRegular; ap_update := ApAdd; fp_update := FpRegular;
              opc := OpNop; ext := ExtStone |}
  | AssertEq a b =>
      let d := res_desc b in
      Some {| off0 := c_off a; off1 := d_off1 d; off2 := d_off2 d; imm := d_imm d;
              dst_register := c_reg a; op0_register := d_op0 d; op1_addr := d_op1 d;
              res := d_res d; pc_update := PcRegular;
              ap_update := if inc_ap i then ApAdd1 else ApRegular; fp_update := FpRegular;
              opc := OpAssertEq; ext := ExtStone |}
  | QM31AssertEq a b =>
      let d := res_desc b in
      Some {| off0 := c_off a; off1 := d_off1 d; off2 := d_off2 d; imm := d_imm d;
              dst_register := c_reg a; op0_register := d_op0 d; op1_addr := d_op1 d;
              res := d_res d; pc_update := PcRegular;
              ap_update := if inc_ap i then ApAdd1 else ApRegular; fp_update := FpRegular;
              opc := OpAssertEq; ext := ExtQM31 |}
  | Call t rel =>
      if inc_ap i then None else
      let d := doi_desc t in
      Some {| off0 := 0; off1 := 1; off2 := d_off2 d; imm := d_imm d;
              dst_register := AP; op0_register := AP; op1_addr := d_op1 d; res := ROp1;
              pc_update := if rel then PcJumpRel else PcJump; ap_update := ApAdd2;
              fp_update := FpApPlus2; opc := OpCall; ext := ExtStone |}
  | Jump t rel =>
      let d := doi_desc t in
      Some {| off0 := -1; off1 := d_off1 d; off2 := d_off2 d; imm := d_imm d;
              dst_register := FP; op0_register := FP; op1_addr := d_op1 d; res := ROp1;
              pc_update := if rel then PcJumpRel else PcJump;
              ap_update := if inc_ap i then ApAdd1 else ApRegular; fp_update := FpRegular;
              opc := OpNop; ext := ExtStone |}
  | Jnz t c =>
      let d := doi_desc t in
      Some {| off0 := c_off c; off1 := -1; off2 := d_off2 d; imm := d_imm d;
              dst_register := c_reg c; op0_register := FP; op1_addr := d_op1 d;
              res := RUnconstrained; pc_update := PcJnz;
              ap_update := if inc_ap i then ApAdd1 else ApRegular; fp_update := FpRegular;
              opc := OpNop; ext := ExtStone |}
  | Ret =>
      if inc_ap i then None else
      Some {| off0 := -2; off1 := -1; off2 := -1; imm := None;
              dst_register := FP; op0_register := FP; op1_addr := O1FP; res := ROp1;
              pc_update := PcJump; ap_update := ApRegular; fp_update := FpDst;
              opc := OpRet; ext := ExtStone |}
  | Blake st bc msg fin =>
      if inc_ap i then
      Some {| off0 := c_off bc; off1 := c_off st; off2 := c_off msg; imm := None;
              dst_register := c_reg bc; op0_register := c_reg st;
              op1_addr := reg_to_op1 (c_reg msg); res := ROp1;
              pc_update := PcRegular; ap_update := ApAdd1; fp_update := FpRegular;
              opc := OpNop; ext := if fin then ExtBlakeFinalize else ExtBlake |}
      else None
  end.

(* ---- encoder.rs ---- *)
Definition bit (b : bool) (k : Z) : Z := if b then 2 ^ k else 0.
Definition is_fp (r : reg) : bool := match r with FP => true | AP => false end.

Definition op1_flags (a : op1addr) : Z :=
  match a with O1Imm => 2^2 | O1FP => 2^3 | O1AP => 2^4 | O1Op0 => 0 end.
Definition res_flags (r : reslogic) : Z :=
  match r with RAdd => 2^5 | RMul => 2^6 | ROp1 => 0 | RUnconstrained => 0 end.
Definition pc_flags (p : pcupd) : Z :=
  match p with PcJump => 2^7 | PcJumpRel => 2^8 | PcJnz => 2^9 | PcRegular => 0 end.
Definition ap_flags (a : apupd) : Z :=
  match a with ApAdd => 2^10 | ApAdd1 => 2^11 | ApAdd2 => 0 | ApRegular => 0 end.
Definition opc_flags (o : opcode) : Z :=
  match o with OpCall => 2^12 | OpRet => 2^13 | OpAssertEq => 2^14 | OpNop => 0 end.
Definition ext_num (e : opext) : Z :=
  match e with ExtStone => 0 | ExtBlake => 1 | ExtBlakeFinalize => 2 | ExtQM31 => 3 end.

Definition flags_of (r : repr) : Z :=
  bit (is_fp (dst_register r)) 0 + bit (is_fp (op0_register r)) 1 + op1_flags (op1_addr r)
  + res_flags (res r) + pc_flags (pc_update r) + ap_flags (ap_update r) + opc_flags (opc r).

Definition op1addr_eqb (a b : op1addr) : bool :=
  match a, b with O1Imm, O1Imm | O1AP, O1AP | O1FP, O1FP | O1Op0, O1Op0 => true | _, _ => false end.
Definition fpupd_eqb (a b : fpupd) : bool :=
  match a, b with FpRegular, FpRegular | FpApPlus2, FpApPlus2 | FpDst, FpDst => true | _, _ => false end.
Definition is_some {A} (o : option A) : bool := match o with Some _ => true | None => false end.

(* the four assert_eq!s of [encode] *)
Definition encode_asserts (r : repr) : bool :=
  Bool.eqb (is_some (imm r)) (op1addr_eqb (op1_addr r) O1Imm)
  && Bool.eqb (match res r with RUnconstrained => true | _ => false end)
              (match pc_update r with PcJnz => true | _ => false end)
  && Bool.eqb (match ap_update r with ApAdd2 => true | _ => false end)
              (match opc r with OpCall => true | _ => false end)
  && fpupd_eqb (fp_update r)
       (match opc r with OpNop => FpRegular | OpCall => FpApPlus2 | OpRet => FpDst
                       | OpAssertEq => FpRegular end).

Definition word0 (r : repr) : Z :=
  (off0 r + 2^15) + (off1 r + 2^15) * 2^16 + (off2 r + 2^15) * 2^32
  + flags_of r * 2^48 + ext_num (ext r) * 2^63.

Definition encode (r : repr) : option (list Z) :=
  if encode_asserts r then
    Some (match imm r with Some v => [word0 r; v] | None => [word0 r] end)
  else None.

(* ---- instructions.rs: op_size ---- *)
Definition doi_size (d : doi) : Z := match d with DDeref _ => 1 | DImm _ => 2 end.
Definition res_size (r : resop) : Z :=
  match r with RDeref _ => 1 | RDouble _ _ => 1 | RImm _ => 2 | RBin _ _ b => doi_size b end.
Definition op_size (b : body) : Z :=
  match b with
  | AddAp r => res_size r
  | AssertEq _ r | QM31AssertEq _ r => res_size r
  | Call t _ | Jump t _ | Jnz t _ => doi_size t
  | Ret => 1
  | Blake _ _ _ _ => 1
  end.

(* i16 range predicates *)
Definition i16 (z : Z) : Prop := - 2^15 <= z < 2^15.
Definition wf_cell (c : cellref) : Prop := i16 (c_off c).
Definition wf_doi (d : doi) : Prop := match d with DDeref c => wf_cell c | DImm _ => True end.
Definition wf_res (r : resop) : Prop :=
  match r with
  | RDeref c => wf_cell c
  | RDouble c o => wf_cell c /\ i16 o
  | RImm _ => True
  | RBin _ a b => wf_cell a /\ wf_doi b
  end.
Definition wf_instr (i : instr) : Prop :=
  match ibody i with
  | AddAp r => wf_res r
  | AssertEq a b | QM31AssertEq a b => wf_cell a /\ wf_res b
  | Call t _ | Jump t _ => wf_doi t
  | Jnz t c => wf_doi t /\ wf_cell c
  | Ret => True
  | Blake s b m _ => wf_cell s /\ wf_cell b /\ wf_cell m
  end.

(* boolean versions, for the correspondence runs *)
Definition i16b (z : Z) : bool := (- 2^15 <=? z) && (z <? 2^15).
