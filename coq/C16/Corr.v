(* C16/Corr.v -- executable comparison of the model with the implementation's answers, as emitted
   by harness/h16.  Each [check_*] returns the indices (and the model's answer) of the cases on
   which model and implementation disagree; the driver expects []. *)
From C16 Require Import Casm Vm Run Layout.

Fixpoint list_eqb {A} (eqb : A -> A -> bool) (a b : list A) : bool :=
  match a, b with
  | [], [] => true
  | x :: a', y :: b' => eqb x y && list_eqb eqb a' b'
  | _, _ => false
  end.
Definition opt_eqb {A} (eqb : A -> A -> bool) (a b : option A) : bool :=
  match a, b with Some x, Some y => eqb x y | None, None => true | _, _ => false end.

Definition reg_eqb (a b : reg) := match a, b with AP, AP | FP, FP => true | _, _ => false end.
Definition res_eqb (a b : reslogic) :=
  match a, b with ROp1, ROp1 | RAdd, RAdd | RMul, RMul | RUnconstrained, RUnconstrained => true
  | _, _ => false end.
Definition pc_eqb (a b : pcupd) :=
  match a, b with PcRegular, PcRegular | PcJump, PcJump | PcJumpRel, PcJumpRel | PcJnz, PcJnz => true
  | _, _ => false end.
Definition ap_eqb (a b : apupd) :=
  match a, b with ApRegular, ApRegular | ApAdd, ApAdd | ApAdd1, ApAdd1 | ApAdd2, ApAdd2 => true
  | _, _ => false end.
Definition opc_eqb (a b : opcode) :=
  match a, b with OpNop, OpNop | OpAssertEq, OpAssertEq | OpCall, OpCall | OpRet, OpRet => true
  | _, _ => false end.
Definition ext_eqb (a b : opext) :=
  match a, b with ExtStone, ExtStone | ExtBlake, ExtBlake | ExtBlakeFinalize, ExtBlakeFinalize
  | ExtQM31, ExtQM31 => true | _, _ => false end.

Definition repr_eqb (a b : repr) : bool :=
  (off0 a =? off0 b) && (off1 a =? off1 b) && (off2 a =? off2 b)
  && opt_eqb Z.eqb (imm a) (imm b)
  && reg_eqb (dst_register a) (dst_register b) && reg_eqb (op0_register a) (op0_register b)
  && op1addr_eqb (op1_addr a) (op1_addr b) && res_eqb (res a) (res b)
  && pc_eqb (pc_update a) (pc_update b) && ap_eqb (ap_update a) (ap_update b)
  && fpupd_eqb (fp_update a) (fp_update b) && opc_eqb (opc a) (opc b) && ext_eqb (ext a) (ext b).

Fixpoint indexed {A} (n : Z) (l : list A) : list (Z * A) :=
  match l with [] => [] | x :: r => (n, x) :: indexed (n + 1) r end.

(* ---- leg 1: assemble . encode, op_size ---- *)
Definition enc_case := (instr * option (list Z) * Z)%type.
Definition model_encode (i : instr) : option (list Z) :=
  match assemble i with Some r => encode r | None => None end.
Definition check_enc (cs : list enc_case) : list (Z * option (list Z) * Z) :=
  flat_map (fun '(k, (i, e, sz)) =>
    let me := model_encode i in
    if opt_eqb (list_eqb Z.eqb) me e && (op_size (ibody i) =? sz)
       && (match e with Some ws => Z.of_nat (length ws) =? sz | None => true end)
    then [] else [(k, me, op_size (ibody i))]) (indexed 0 cs).

(* ---- leg 2: decode_instruction ---- *)
Definition dec_case := (Z * option repr)%type.
Definition check_dec (cs : list dec_case) : list (Z * option repr) :=
  flat_map (fun '(k, (w, e)) =>
    let md := decode w in
    if opt_eqb repr_eqb md e then [] else [(k, md)]) (indexed 0 cs).

(* ---- leg 3: one VM step ---- *)
Definition cellv := (addr * value)%type.
Definition step_case :=
  (instr * list cellv * (addr * Z * Z) * option (addr * Z * Z * list cellv))%type.

Definition addr_eqb (a b : addr) := (fst a =? fst b) && (snd a =? snd b).
Fixpoint lookup (l : list cellv) (a : addr) : option value :=
  match l with [] => None | (b, v) :: r => if addr_eqb a b then Some v else lookup r a end.

(* modular inverse by Fermat: x^(P-2) mod P, square-and-multiply over the bits of P-2 *)
Fixpoint pow_pos (x : Z) (e : positive) : Z :=
  match e with
  | xH => x
  | xO e' => let y := pow_pos x e' in (y * y) mod P
  | xI e' => let y := pow_pos x e' in (((y * y) mod P) * x) mod P
  end.
Definition finv (x : Z) : Z := match P - 2 with Zpos e => pow_pos (x mod P) e | _ => 0 end.

Definition model_step (i : instr) (m : list cellv) (st : addr * Z * Z)
  : option (addr * Z * Z * list cellv) :=
  let '(pc0, ap0, fp0) := st in
  let s := {| pc := pc0; ap := ap0; fp := fp0 |} in
  match vm_step finv (lookup m) s with
  | Some r =>
      (* the deduced cells go through the write-once insertion of C16/Run.v ([commit]), the
         memory update [C16_run_sound] iterates: a conflicting or out-of-type insert is an error *)
      match commit (lookup m) (s_writes r) with
      | Some _ => Some (pc (s_next r), ap (s_next r), fp (s_next r), s_writes r ++ m)
      | None => None
      end
  | None => None
  end.

(* the implementation's memory afterwards must be exactly the old memory plus the model's writes *)
Definition mem_agree (model_after impl_after : list cellv) (n_before : nat) : bool :=
  forallb (fun '(a, v) => opt_eqb value_eqb (lookup model_after a) (Some v)) impl_after
  && forallb (fun '(a, v) => opt_eqb value_eqb (lookup impl_after a) (Some v)) model_after.

Definition check_step (cs : list step_case) : list (Z * option (addr * Z * Z * list cellv)) :=
  flat_map (fun '(k, (i, m, st, e)) =>
    let ms := model_step i m st in
    let ok := match ms, e with
              | None, None => true
              | Some (p, a, f, ma), Some (p', a', f', ia) =>
                  addr_eqb p p' && (a =? a') && (f =? f') && mem_agree ma ia (length m)
              | _, _ => false end in
    if ok then [] else [(k, match ms with
                            | Some (p, a, f, ma) => Some (p, a, f, firstn 3 ma)
                            | None => None end)]) (indexed 0 cs).

(* ---- leg 4: whole runs.  The implementation stepped cairo-vm from the given memory / registers
   until the first error or [nmax] steps and reports the registers after every successful step
   and the memory after the last successful one.  The model is [vm_trace] itself (the object of
   [C16_run_sound]): it must accept exactly as many steps, visit the same states, end with the
   same memory on the probed window, and -- when the implementation stopped early -- reject the
   next step. ---- *)
Definition run_case :=
  (list instr * list cellv * (addr * Z * Z) * nat * list (addr * Z * Z) * list cellv)%type.

(* the program the harness loaded at (0, 0) -- the bytecode returned by the toolchain's own
   CairoProgram::assemble for the instruction list -- is the bytecode [prog_words] of C16/Layout.v,
   stored as field elements ([mem_has], executable), and nothing follows it *)
Definition prog_loaded_b (is : list instr) (m : list cellv) : bool :=
  match prog_words is with
  | Some ws => forallb (fun '(k, w) => opt_eqb value_eqb (lookup m (0, k)) (Some (VInt (fnorm w))))
                       (indexed 0 ws)
               && match lookup m (0, Z.of_nat (length ws)) with None => true | Some _ => false end
  | None => false
  end.

Definition st_eqb (x t : addr * Z * Z) : bool :=
  let '(p, a, f) := t in let '(p', a', f') := x in addr_eqb p' p && (a' =? a) && (f' =? f).

Definition window (segs len : nat) : list addr :=
  flat_map (fun sg => map (fun o => (Z.of_nat sg, Z.of_nat o)) (seq 0 len)) (seq 0 segs).

Definition check_run (cs : list run_case) : list (Z * Z * option (list (addr * Z * Z))) :=
  flat_map (fun '(k, (is, m, st, nmax, states, after)) =>
    let '(pc0, ap0, fp0) := st in
    let s := {| pc := pc0; ap := ap0; fp := fp0 |} in
    let n := length states in
    let tr_of r := match r with
                   | Some (_, tr) => Some (map (fun x => (pc x, ap x, fp x)) tr) | None => None end in
    let r := vm_trace finv n (lookup m) s in
    let ok1 := match r with
               | Some (mf, tr) =>
                   list_eqb st_eqb (map (fun x => (pc x, ap x, fp x)) tr) states
                   && forallb (fun a => opt_eqb value_eqb (mf a) (lookup after a)) (window 3 72)
               | None => false end in
    let ok2 := if (n <? nmax)%nat
               then match vm_trace finv (S n) (lookup m) s with None => true | Some _ => false end
               else true in
    if ok1 && ok2 && prog_loaded_b is m then []
    else [(k, if ok1 then (if ok2 then 2 else 1) else 0,
           tr_of (if ok1 then vm_trace finv (S n) (lookup m) s else r))]) (indexed 0 cs).
