(* C16/Layout.v -- from "an instruction is loaded at an address" to "a PROGRAM is loaded": the
   bytecode of a list of instructions is the concatenation of their encodings (what
   CairoProgram::assemble does), the loader stores word k as a field element at (seg, off + k);
   then instruction k sits, in the sense of [loaded], at off + the sum of the op_size of the
   instructions before it -- the offsets the compiler's relocations are computed from. *)
From C16 Require Import Casm Vm Denote Roundtrip Step Run.

Definition enc_words (i : instr) : option (list Z) :=
  match assemble i with Some r => encode r | None => None end.

Fixpoint prog_words (is : list instr) : option (list Z) :=
  match is with
  | [] => Some []
  | i :: rest =>
      match enc_words i, prog_words rest with
      | Some a, Some b => Some (a ++ b)
      | _, _ => None
      end
  end.

Fixpoint prog_offset (is : list instr) (k : nat) : Z :=
  match k, is with
  | S k', i :: rest => op_size (ibody i) + prog_offset rest k'
  | _, _ => 0
  end.

Definition mem_has (m : memory) (seg off : Z) (ws : list Z) : Prop :=
  forall k w, nth_error ws k = Some w -> m (seg, off + Z.of_nat k) = Some (VInt (fnorm w)).

Lemma word0_small i r : wf_instr i -> assemble i = Some r -> fnorm (word0 r) = word0 r.
Proof.
  intros Hwf Ha.
  destruct (assemble_offsets_i16 i r Hwf Ha) as (H0 & H1 & H2).
  pose proof (assemble_flags_small i r Ha) as Hf.
  assert (He : 0 <= ext_num (ext r) < 4) by (destruct (ext r); cbn; lia).
  unfold fnorm, word0. apply Z.mod_small.
  unfold i16, flags_small in *.
  change (2^15) with 32768 in *. change (2^16) with 65536.
  change (2^32) with 4294967296. change (2^48) with 281474976710656.
  change (2^63) with 9223372036854775808.
  unfold P. lia.
Qed.

Lemma imm_names_agree i : imm_of_instr i = instr_imm i.
Proof. reflexivity. Qed.

Lemma enc_words_inv i a : enc_words i = Some a ->
  exists r, assemble i = Some r /\
    a = word0 r :: match instr_imm i with Some v => [v] | None => [] end /\
    Z.of_nat (length a) = op_size (ibody i).
Proof.
  unfold enc_words. destruct (assemble i) as [r|] eqn:Ha; [|discriminate].
  unfold encode. destruct (encode_asserts r); [|discriminate]. intros H. inversion H; subst a.
  exists r. split; [reflexivity|].
  rewrite <- (assemble_imm i r Ha).
  destruct (assemble_imm_size i r Ha) as [Hs _].
  split; [destruct (imm r); reflexivity|].
  rewrite <- Hs. destruct (imm r); reflexivity.
Qed.

Theorem prog_loaded : forall is ws m seg off,
  Forall (fun i => wf_instr i /\ stone i) is ->
  prog_words is = Some ws -> mem_has m seg off ws ->
  0 <= off -> off + Z.of_nat (length ws) <= USZ ->
  forall k i, nth_error is k = Some i -> loaded m (seg, off + prog_offset is k) i.
Proof.
  induction is as [|i0 rest IH]; intros ws m seg off Hall Hw Hm Hoff Hlen k i Hk.
  - destruct k; discriminate.
  - cbn [prog_words] in Hw.
    destruct (enc_words i0) as [a|] eqn:Ea; [|discriminate].
    destruct (prog_words rest) as [b|] eqn:Eb; [|discriminate].
    inversion Hw; subst ws. clear Hw.
    inversion Hall as [|? ? [Hwf Hst] Hall']; subst.
    destruct (enc_words_inv i0 a Ea) as (r & Ha & Hwords & Hsz).
    rewrite app_length, Nat2Z.inj_add in Hlen.
    destruct k as [|k].
    + cbn in Hk. inversion Hk; subst i. cbn [prog_offset].
      split; [exact Hwf|]. split; [exact Hst|]. exists r. split; [exact Ha|].
      unfold code_at. cbn [pc]. split.
      * pose proof (Hm 0%nat (word0 r)) as H0. rewrite Hwords in H0. cbn in H0.
        rewrite (word0_small i0 r Hwf Ha) in H0. apply H0. reflexivity.
      * rewrite imm_names_agree. destruct (instr_imm i0) as [v|] eqn:Ei; [|exact I].
        exists (seg, off + 0 + 1). split.
        -- unfold addr_off. cbn [fst snd].
           rewrite Hwords in Hlen. cbn [length] in Hlen.
           replace ((off + 0 + 1 <? 0) || (USZ <=? off + 0 + 1)) with false; [reflexivity|].
           symmetry. apply orb_false_intro; [apply Z.ltb_ge|apply Z.leb_gt]; lia.
        -- pose proof (Hm 1%nat v) as H1. rewrite Hwords in H1. cbn in H1.
           replace (off + 0 + 1) with (off + 1) by lia. apply H1. reflexivity.
    + cbn [nth_error] in Hk. cbn [prog_offset].
      replace (off + (op_size (ibody i0) + prog_offset rest k))
        with ((off + op_size (ibody i0)) + prog_offset rest k) by lia.
      assert (Hpos : 0 <= op_size (ibody i0)) by (rewrite <- Hsz; lia).
      apply (IH b m seg (off + op_size (ibody i0)) Hall' eq_refl); [|lia|lia|exact Hk].
      intros j w Hj.
      replace (off + op_size (ibody i0) + Z.of_nat j) with (off + Z.of_nat (length a + j))
        by (rewrite Nat2Z.inj_add; lia).
      apply Hm. rewrite nth_error_app2 by lia.
      replace (length a + j - length a)%nat with j by lia. exact Hj.
Qed.

(* whole programs, whole executions: every step of any execution that starts at the offset of the
   j-th instruction of a loaded program does what that instruction denotes (final memory) *)
Theorem program_run_sound finv :
  (forall z z0, 0 <= z < P -> 0 <= z0 < P -> z0 <> 0 ->
     fmul (fmul z (finv z0)) z0 = z /\ fmul z0 (fmul z (finv z0)) = z) ->
  forall is ws m seg off n s mf tr k sk sk' j i,
  Forall (fun i => wf_instr i /\ stone i) is ->
  prog_words is = Some ws -> mem_has m seg off ws ->
  0 <= off -> off + Z.of_nat (length ws) <= USZ ->
  canonical m ->
  vm_trace finv n m s = Some (mf, tr) ->
  nth_error (s :: tr) k = Some sk -> nth_error tr k = Some sk' ->
  nth_error is j = Some i -> pc sk = (seg, off + prog_offset is j) ->
  denotes i mf sk sk'.
Proof.
  intros Hfinv is ws m seg off n s mf tr k sk sk' j i Hall Hw Hm Hoff Hlen Hcan Ht Hk Hk' Hj Hpc.
  eapply (run_sound finv Hfinv n m s mf tr k sk sk' i); try eassumption.
  rewrite Hpc. eapply prog_loaded; eassumption.
Qed.
