(* C16/Vm.v -- model of cairo-vm 3.2.0: vm/decoding/decoder.rs::decode_instruction,
   vm/context/run_context.rs (operand addresses), vm/vm_core.rs (compute_operands with the
   deduction rules, opcode_assertions, update_registers), types/relocatable.rs arithmetic.
   Scope: Stone opcode extension for the step; Blake2s / QM31 words are decoded (flag validity
   included) but their step is not modelled (uninterpreted compression / QM31 arithmetic).
   Every VM error is collapsed to [None].  Model file: no proofs. *)
From C16 Require Export Casm.

(* ---------- decoder.rs ---------- *)
Definition dec_off (x : Z) : Z := x - 2^15.      (* decode_offset: u16 wrapping_sub 0x8000 as i16 *)

Definition decode_parts (o0 o1 o2 flags ext_n : Z) : option repr :=
  let dst_n := flags mod 2 in
  let op0_n := (flags / 2) mod 2 in
  let op1_n := (flags / 4) mod 8 in
  let res_n := (flags / 32) mod 4 in
  let pc_n := (flags / 128) mod 8 in
  let ap_n := (flags / 1024) mod 4 in
  let opc_n := (flags / 4096) mod 8 in
  let dstr := if dst_n =? 1 then FP else AP in
  let op0r := if op0_n =? 1 then FP else AP in
  match (if op1_n =? 0 then Some O1Op0 else if op1_n =? 1 then Some O1Imm
         else if op1_n =? 2 then Some O1FP else if op1_n =? 4 then Some O1AP else None) with
  | None => None | Some op1 =>
  match (if pc_n =? 0 then Some PcRegular else if pc_n =? 1 then Some PcJump
         else if pc_n =? 2 then Some PcJumpRel else if pc_n =? 4 then Some PcJnz else None) with
  | None => None | Some pcu =>
  let is_jnz := match pcu with PcJnz => true | _ => false end in
  match (if res_n =? 0 then Some (if is_jnz then RUnconstrained else ROp1)
         else if is_jnz then None
         else if res_n =? 1 then Some RAdd else if res_n =? 2 then Some RMul else None) with
  | None => None | Some rs =>
  match (if opc_n =? 0 then Some OpNop else if opc_n =? 1 then Some OpCall
         else if opc_n =? 2 then Some OpRet else if opc_n =? 4 then Some OpAssertEq else None) with
  | None => None | Some oc =>
  match (if ext_n =? 0 then Some ExtStone else if ext_n =? 1 then Some ExtBlake
         else if ext_n =? 2 then Some ExtBlakeFinalize else if ext_n =? 3 then Some ExtQM31
         else None) with
  | None => None | Some ex =>
  let is_nop := match oc with OpNop => true | _ => false end in
  let is_call := match oc with OpCall => true | _ => false end in
  let is_aeq := match oc with OpAssertEq => true | _ => false end in
  let ap02 := (ap_n =? 0) || (ap_n =? 2) in
  let blake_ok := is_nop && (match op1 with O1FP | O1AP => true | _ => false end)
                  && (match rs with ROp1 => true | _ => false end)
                  && (match pcu with PcRegular => true | _ => false end) && ap02 in
  let qm31_ok := (match rs with RAdd | RMul => true | _ => false end)
                 && (match op1 with O1Op0 => false | _ => true end)
                 && (match pcu with PcRegular => true | _ => false end) && is_aeq && ap02 in
  if (match ex with ExtBlake | ExtBlakeFinalize => negb blake_ok | _ => false end) then None else
  if (match ex with ExtQM31 => negb qm31_ok | _ => false end) then None else
  match (if ap_n =? 0 then Some (if is_call then ApAdd2 else ApRegular)
         else if is_call then None
         else if ap_n =? 1 then Some ApAdd else if ap_n =? 2 then Some ApAdd1 else None) with
  | None => None | Some apu =>
  match (match oc with
         | OpCall =>
             if negb (o0 =? 0) || negb (o1 =? 1)
                || negb (match apu with ApAdd2 => true | _ => false end)
                || is_fp dstr || is_fp op0r then None else Some FpApPlus2
         | OpRet =>
             if negb (o0 =? -2) || negb (o2 =? -1) || negb (is_fp dstr)
                || negb (match op1 with O1FP => true | _ => false end)
                || negb (match rs with ROp1 => true | _ => false end)
                || negb (match pcu with PcJump => true | _ => false end) then None else Some FpDst
         | _ => Some FpRegular end) with
  | None => None | Some fpu =>
  Some {| off0 := o0; off1 := o1; off2 := o2; imm := None;
          dst_register := dstr; op0_register := op0r; op1_addr := op1; res := rs;
          pc_update := pcu; ap_update := apu; fp_update := fpu; opc := oc; ext := ex |}
  end end end end end end end.

(* [w] is the u128 the VM obtained from the felt at pc ([to_u128], else InvalidInstructionEncoding) *)
Definition decode (w : Z) : option repr :=
  if (w <? 0) || (2^128 <=? w) then None else
  decode_parts (dec_off (w mod 2^16)) (dec_off ((w / 2^16) mod 2^16))
               (dec_off ((w / 2^32) mod 2^16)) (w / 2^48) (w / 2^63).

(* the instruction the VM sees: no immediate field *)
Definition strip (r : repr) : repr :=
  {| off0 := off0 r; off1 := off1 r; off2 := off2 r; imm := None;
     dst_register := dst_register r; op0_register := op0_register r; op1_addr := op1_addr r;
     res := res r; pc_update := pc_update r; ap_update := ap_update r; fp_update := fp_update r;
     opc := opc r; ext := ext r |}.

(* ---------- values, memory, state ---------- *)
Inductive value := VInt (z : Z) | VRel (seg off : Z).
Definition addr := (Z * Z)%type.
Definition memory := addr -> option value.
Record state := { pc : addr; ap : Z; fp : Z }.       (* ap, fp: offsets in segment 1 *)

Definition USZ : Z := 2^64.

Definition value_eqb (a b : value) : bool :=
  match a, b with
  | VInt x, VInt y => x =? y
  | VRel s o, VRel s' o' => (s =? s') && (o =? o')
  | _, _ => false
  end.

(* Relocatable +/- isize offset of an instruction *)
Definition addr_off (a : addr) (o : Z) : option addr :=
  let n := snd a + o in if (n <? 0) || (USZ <=? n) then None else Some (fst a, n).

(* Relocatable + &Felt252 *)
Definition rel_add_felt (s o z : Z) : option value :=
  let n := (o + z) mod P in if n <? USZ then Some (VRel s n) else None.

Definition v_add (a b : value) : option value :=
  match a, b with
  | VInt x, VInt y => Some (VInt (fadd x y))
  | VRel s o, VInt z | VInt z, VRel s o => rel_add_felt s o z
  | VRel _ _, VRel _ _ => None
  end.
Definition v_sub (a b : value) : option value :=
  match a, b with
  | VInt x, VInt y => Some (VInt (fsub x y))
  | VRel s o, VRel s' o' => if s =? s' then Some (VInt ((o - o') mod P)) else None
  | VRel s o, VInt z => let n := (o - z) mod P in if n <? USZ then Some (VRel s n) else None
  | VInt _, VRel _ _ => None
  end.
Definition v_mul (a b : value) : option value :=
  match a, b with VInt x, VInt y => Some (VInt (fmul x y)) | _, _ => None end.

Definition isize (r : repr) : Z := match op1_addr r with O1Imm => 2 | _ => 1 end.
Definition reg_base (s : state) (r : reg) : addr := (1, match r with AP => ap s | FP => fp s end).

(* field division is needed only to deduce an operand of a Mul assert; the deduction is then
   checked by the multiplication, so the model takes the inverse as a parameter of the step. *)
Section Step.
Variable finv : Z -> Z.     (* any function; correctness never depends on it (see Vm proofs) *)

Definition deduce_op0 (s : state) (r : repr) (dst op1 : option value)
  : option (option value * option value) :=
  match opc r with
  | OpCall => match addr_off (pc s) (isize r) with
              | Some a => Some (Some (VRel (fst a) (snd a)), None) | None => None end
  | OpAssertEq =>
      match res r, dst, op1 with
      | RAdd, Some d, Some o1 =>
          match v_sub d o1 with Some v => Some (Some v, dst) | None => None end
      | RMul, Some (VInt d), Some (VInt o1) =>
          if o1 =? 0 then Some (None, None) else Some (Some (VInt (fmul d (finv o1))), dst)
      | _, _, _ => Some (None, None)
      end
  | _ => Some (None, None)
  end.

Definition deduce_op1 (r : repr) (dst : option value) (op0 : value)
  : option (option value * option value) :=
  match opc r with
  | OpAssertEq =>
      match res r with
      | ROp1 => Some (dst, dst)
      | RAdd => Some (match dst with Some d => v_sub d op0 | None => None end, dst)
      | RMul => match dst, op0 with
                | Some (VInt d), VInt o0 =>
                    if o0 =? 0 then Some (None, None) else Some (Some (VInt (fmul d (finv o0))), dst)
                | _, _ => Some (None, None) end
      | RUnconstrained => Some (None, None)
      end
  | _ => Some (None, None)
  end.

Definition compute_res (r : repr) (op0 op1 : value) : option (option value) :=
  match res r with
  | ROp1 => Some (Some op1)
  | RAdd => match v_add op0 op1 with Some v => Some (Some v) | None => None end
  | RMul => match v_mul op0 op1 with Some v => Some (Some v) | None => None end
  | RUnconstrained => Some None
  end.

Record stepres := { s_next : state; s_writes : list (addr * value) }.

Definition is_zero_v (v : value) : bool := match v with VInt z => z =? 0 | _ => false end.

Definition vm_exec (r : repr) (m : memory) (s : state) : option stepres :=
  match ext r with ExtStone =>
  match addr_off (reg_base s (dst_register r)) (off0 r) with None => None | Some dst_a =>
  let dst_op := m dst_a in
  match addr_off (reg_base s (op0_register r)) (off1 r) with None => None | Some op0_a =>
  let op0_op := m op0_a in
  match (match op1_addr r with
         | O1FP => Some (reg_base s FP) | O1AP => Some (reg_base s AP)
         | O1Imm => if off2 r =? 1 then Some (pc s) else None
         | O1Op0 => match op0_op with Some (VRel sg o) => Some (sg, o) | _ => None end
         end) with None => None | Some base1 =>
  match addr_off base1 (off2 r) with None => None | Some op1_a =>
  let op1_op := m op1_a in
  (* op0 *)
  match (match op0_op with
         | Some v => Some (v, None, false)
         | None => match deduce_op0 s r dst_op op1_op with
                   | Some (Some v, rs) => Some (v, rs, true) | _ => None end
         end) with None => None | Some (op0, res0, ded0) =>
  match (match op1_op with
         | Some v => Some (v, res0, false)
         | None => match deduce_op1 r dst_op op0 with
                   | Some (Some v, rs) =>
                       Some (v, match res0 with Some _ => res0 | None => rs end, true)
                   | _ => None end
         end) with None => None | Some (op1, res1, ded1) =>
  match (match res1 with Some v => Some (Some v) | None => compute_res r op0 op1 end) with
  | None => None | Some resv =>
  match (match dst_op with
         | Some v => Some (v, false)
         | None => match opc r, resv with
                   | OpAssertEq, Some v => Some (v, true)
                   | OpCall, _ => Some (VRel 1 (fp s), true)
                   | _, _ => None end
         end) with None => None | Some (dst, dedd) =>
  (* opcode_assertions *)
  if negb (match opc r with
           | OpAssertEq => match resv with Some v => value_eqb v dst | None => false end
           | OpCall => match addr_off (pc s) (isize r) with
                       | Some a => value_eqb op0 (VRel (fst a) (snd a))
                                   && value_eqb dst (VRel 1 (fp s))
                       | None => false end
           | _ => true end) then None else
  (* update_registers: fp, ap, pc *)
  match (match fp_update r with
         | FpApPlus2 => Some (ap s + 2)
         | FpDst => match dst with VRel _ o => Some o
                                 | VInt z => if z <? USZ then Some z else None end
         | FpRegular => Some (fp s) end) with None => None | Some nfp =>
  match (match ap_update r with
         | ApAdd => match resv with
                    | Some (VInt z) => match rel_add_felt 1 (ap s) z with
                                       | Some (VRel _ o) => Some o | _ => None end
                    | _ => None end
         | ApAdd1 => Some (ap s + 1)
         | ApAdd2 => Some (ap s + 2)
         | ApRegular => Some (ap s) end) with None => None | Some nap =>
  match (match pc_update r with
         | PcRegular => addr_off (pc s) (isize r)
         | PcJump => match resv with Some (VRel sg o) => Some (sg, o) | _ => None end
         | PcJumpRel => match resv with
                        | Some (VInt z) => match rel_add_felt (fst (pc s)) (snd (pc s)) z with
                                           | Some (VRel sg o) => Some (sg, o) | _ => None end
                        | _ => None end
         | PcJnz => if is_zero_v dst then addr_off (pc s) (isize r)
                    else match op1 with
                         | VInt z => match rel_add_felt (fst (pc s)) (snd (pc s)) z with
                                     | Some (VRel sg o) => Some (sg, o) | _ => None end
                         | VRel _ _ => None end
         end) with None => None | Some npc =>
  Some {| s_next := {| pc := npc; ap := nap; fp := nfp |};
          s_writes := (if ded0 then [(op0_a, op0)] else [])
                      ++ (if ded1 then [(op1_a, op1)] else [])
                      ++ (if dedd then [(dst_a, dst)] else []) |}
  end end end end end end end end end end end
  | _ => None end.

(* one VM step: fetch the word at pc, decode, execute *)
Definition vm_step (m : memory) (s : state) : option stepres :=
  match m (pc s) with
  | Some (VInt w) => match decode w with Some r => vm_exec r m s | None => None end
  | _ => None
  end.
End Step.
