(* Props/C10.v -- the property theorems of C10 (the syntax tree is lossless), and nothing else.
   Each is closed by [exact] of a lemma proved in Syntax/; [Print Assumptions] follows.
   What is theorem: the lexer hands out every character exactly once and in order (no bound on
   the input), byte widths add up; green widths / red offsets (Syntax/Green.v) index the text.
   What is not: that the grammar code of parser.rs places every green it is handed into the tree
   (checked per input on the real tree by harness/h10's oracle). *)
From Syntax Require Import Lexer LexerProofs Green GreenProofs TokenStream TokenStreamProofs.

(* The concatenation, in order, of leading trivia ++ token text ++ trailing trivia of every
   terminal the lexer produces up to and including EndOfFile is the input, for every input. *)
Theorem C10_lexer_lossless : forall s : str,
  concat (map terminal_full_text (lex_all s)) = s.
Proof. exact lexer_lossless. Qed.

(* LexerTerminal::width (the only source of parser offsets) adds up to the byte length of the file *)
Theorem C10_lexer_widths : forall s : str,
  fold_right (fun t a => terminal_width t + a)%N 0%N (lex_all s) = str_width s.
Proof. exact lexer_widths. Qed.

(* In every green tree the parser can build (tokens, new_green, missing()), the width stored at a
   node - the only source of offsets - is the byte length of the text below it. *)
Theorem C10_widths : forall g : green, built g -> green_width g = str_width (green_text g).
Proof. exact widths_built. Qed.

(* The red tree (SyntaxNode offsets) over such a green: the root spans the file; at every node the
   offset is the byte length of everything before it, the width is the byte length of its text,
   get_text (the slice of the file at the node's span) is the node's text, and the children's
   spans are consecutive and tile the node's span. *)
Theorem C10_spans : forall g : green, built g ->
  let file := green_text g in
  let root := red_of 0%N g in
  red_text root = file /\ red_offset root = 0%N /\ red_width root = str_width file
  /\ red_all (fun n =>
        (exists before after, file = before ++ red_text n ++ after
                              /\ red_offset n = str_width before)
        /\ red_width n = str_width (red_text n)
        /\ red_text n = slice_bytes file (red_offset n) (red_width n)
        /\ children_tile n) root.
Proof. exact spans_built. Qed.

(* The parser's token plumbing (TokenStream.v), for EVERY sequence of operations the grammar can ask
   for - i.e. every grammar and every error-recovery decision - as long as the sequence respects
   the side conditions [ops_ok] (take is not asked for EndOfFile; skip_until's predicate holds at
   EndOfFile; unglue's two texts spell the token; a skipped taken node is made of the last greens
   handed out with nothing skipped since): what was handed out ++ pending trivia ++ look-ahead ++
   unread text is the source; offset + current_width is exactly the byte length of what was
   handed out and is pending (so every span the trivia cache is keyed with indexes the right
   text, and the cache can only return a trivia list with the text of that span); the
   subtraction current_width - last_trivia_length cannot underflow; no unwrap / index of the
   plumbing panics.  The side conditions are facts about parser.rs call sites: they are checked
   per input through the hook's op log (Corr.v check_oplog), not proved. *)
Theorem C10_plumbing_invariant : forall (src : str) (ops : list op), ops_ok src ops = true ->
  let s := run_ops src ops in
  etext (p_emitted s) ++ ptext (p_pending s) ++ ltext (p_look s) ++ rest (p_lex s) = src
  /\ (p_offset s + p_cur_w s)%N = str_width (etext (p_emitted s) ++ ptext (p_pending s))
  /\ (p_last_tw s <= p_cur_w s)%N
  /\ Forall (fun kv => ptext (snd kv) = fst kv) (p_cache s)
  /\ p_panicked s = false.
Proof. exact plumbing_invariant_explicit. Qed.

(* ... and when such a run has reached EndOfFile, parse_syntax_file's last step hands out the
   rest: the terminals handed to the grammar spell the file. *)
Theorem C10_file_lossless : forall (src : str) (ops : list op),
  ops_ok src ops = true -> peek_kind (run_ops src ops) = TEndOfFile ->
  etext (p_emitted (finish_file src (run_ops src ops))) = src.
Proof. exact file_lossless. Qed.

(* Without the side conditions the statement is false in the faithful model - this is known
   finding F1 of the implementation ("#fn" comes out as "fn#"): skip_taken_node_with_offset is
   called while a token skipped after the node sits in pending_trivia. *)
Theorem C10_plumbing_unconditional_refuted :
  exists (src : str) (ops : list op),
    peek_kind (run_ops src ops) = TEndOfFile
    /\ p_panicked (finish_file src (run_ops src ops)) = false
    /\ etext (p_emitted (finish_file src (run_ops src ops))) <> src.
Proof. exact plumbing_unconditional_refuted. Qed.

(* non-vacuity of [ops_ok]: header comment split off by take_doc, a skipped token, a skipped
   taken node, unglue of && *)
Example C10_plumbing_example :
  let src := str_of_string "// h
+ x && y" in
  let ops := [OTakeDoc; OSkipToken 1; OTake; OSkipTakenNodes [(4, 1, 9, 2)]%N;
              OUnglue TAndAnd TAnd TAnd [38%N] [38%N]; OTake; OTake; OSkipUntil 5 is_eof 3] in
  ops_ok src ops = true /\ peek_kind (run_ops src ops) = TEndOfFile
  /\ map (fun e => (e_kind e, e_text e)) (p_emitted (finish_file src (run_ops src ops)))
     = [(TEmpty, []); (TAnd, [38%N]); (TAnd, [38%N]); (TEndOfFile, [])].
Proof. vm_compute. repeat split. Qed.

(* non-vacuity: a text with comments of the three kinds, a multi-character operator, an
   unterminated string and a non-ASCII character *)
Example C10_example :
  let s := str_of_string "//! i
/// d
fn f() { a ..= 0x1f_u8 } // c
'ab" ++ [233%N] in
  map t_kind (lex_all s) =
    [TFunction; TIdentifier; TLParen; TRParen; TLBrace; TIdentifier; TDotDotEq; TLiteralNumber;
     TRBrace; TShortString; TEndOfFile]
  /\ map tv_kind (t_leading (hd (Build_terminal TEmpty [] [] []) (lex_all s))) =
    [TvSingleLineInnerComment; TvNewline; TvSingleLineDocComment; TvNewline]
  /\ concat (map terminal_full_text (lex_all s)) = s
  /\ str_width s = 47%N.
Proof. vm_compute. repeat split. Qed.

(* non-vacuity of [built]: a terminal with trivia next to a missing terminal, non-ASCII text *)
Example C10_green_example :
  let t := gnode "TerminalIdentifier"
             [gnode "Trivia" [GToken "TokenWhitespace" [32%N]]; GToken "TokenIdentifier" [233%N; 97%N];
              gnode "Trivia" []] in
  let m := gmissing "TerminalSemicolon" [gnode "Trivia" []; GToken "TokenMissing" []; gnode "Trivia" []] in
  let g := gnode "StatementExpr" [t; m] in
  built g /\ green_width g = 4%N
  /\ red_of 0%N g =
     RN "StatementExpr"
       [RN "TerminalIdentifier"
          [RN "Trivia" [RT "TokenWhitespace" [32%N] 0%N 1%N] 0%N 1%N;
           RT "TokenIdentifier" [233%N; 97%N] 1%N 3%N; RN "Trivia" [] 4%N 0%N] 0%N 4%N;
        RN "TerminalSemicolon"
          [RN "Trivia" [] 4%N 0%N; RT "TokenMissing" [] 4%N 0%N; RN "Trivia" [] 4%N 0%N] 4%N 0%N]
       0%N 4%N.
Proof.
  cbv zeta. split; [|split; reflexivity].
  repeat (first [apply built_token | apply built_node | apply built_missing; [|reflexivity]
                | apply Forall_cons | apply Forall_nil]).
Qed.

Print Assumptions C10_lexer_lossless.
Print Assumptions C10_lexer_widths.
Print Assumptions C10_widths.
Print Assumptions C10_spans.
Print Assumptions C10_plumbing_invariant.
Print Assumptions C10_file_lossless.
Print Assumptions C10_plumbing_unconditional_refuted.
