(* Props/C10.v -- the property theorems of C10 (the syntax tree is lossless), and nothing else.
   Each is closed by [exact] of a lemma proved in Syntax/; [Print Assumptions] follows.
   What is theorem: the lexer hands out every character exactly once and in order (no bound on
   the input), byte widths add up; green widths / red offsets (Syntax/Green.v) index the text.
   What is not: that the grammar code of parser.rs places every green it is handed into the tree
   (checked per input on the real tree by harness/h10's oracle). *)
From Syntax Require Import Lexer LexerProofs Green GreenProofs.

(* The concatenation, in order, of leading trivia ++ token text ++ trailing trivia of every
   terminal the lexer produces up to and including EndOfFile is the input, for every input. *)
Theorem C10_lexer_lossless : forall s : str,
  concat (map terminal_full_text (lex_all s)) = s.
Proof. exact lexer_lossless. Qed.

(* LexerTerminal::width (the only source of parser offsets) adds up to the byte length of the file *)
Theorem C10_lexer_widths : forall s : str,
  fold_right (fun t a => terminal_width t + a)%N 0%N (lex_all s) = str_width s.
Proof. exact lexer_widths. Qed.

(* In every green tree the parser can build (tokens, new_green, missing()), the width stored at a
   node - the only source of offsets - is the byte length of the text below it. *)
Theorem C10_widths : forall g : green, built g -> green_width g = str_width (green_text g).
Proof. exact widths_built. Qed.

(* The red tree (SyntaxNode offsets) over such a green: the root spans the file; at every node the
   offset is the byte length of everything before it, the width is the byte length of its text,
   get_text (the slice of the file at the node's span) is the node's text, and the children's
   spans are consecutive and tile the node's span. *)
Theorem C10_spans : forall g : green, built g ->
  let file := green_text g in
  let root := red_of 0%N g in
  red_text root = file /\ red_offset root = 0%N /\ red_width root = str_width file
  /\ red_all (fun n =>
        (exists before after, file = before ++ red_text n ++ after
                              /\ red_offset n = str_width before)
        /\ red_width n = str_width (red_text n)
        /\ red_text n = slice_bytes file (red_offset n) (red_width n)
        /\ children_tile n) root.
Proof. exact spans_built. Qed.

(* non-vacuity: a text with comments of the three kinds, a multi-character operator, an
   unterminated string and a non-ASCII character *)
Example C10_example :
  let s := str_of_string "//! i
/// d
fn f() { a ..= 0x1f_u8 } // c
'ab" ++ [233%N] in
  map t_kind (lex_all s) =
    [TFunction; TIdentifier; TLParen; TRParen; TLBrace; TIdentifier; TDotDotEq; TLiteralNumber;
     TRBrace; TShortString; TEndOfFile]
  /\ map tv_kind (t_leading (hd (Build_terminal TEmpty [] [] []) (lex_all s))) =
    [TvSingleLineInnerComment; TvNewline; TvSingleLineDocComment; TvNewline]
  /\ concat (map terminal_full_text (lex_all s)) = s
  /\ str_width s = 47%N.
Proof. vm_compute. repeat split. Qed.

(* non-vacuity of [built]: a terminal with trivia next to a missing terminal, non-ASCII text *)
Example C10_green_example :
  let t := gnode "TerminalIdentifier"
             [gnode "Trivia" [GToken "TokenWhitespace" [32%N]]; GToken "TokenIdentifier" [233%N; 97%N];
              gnode "Trivia" []] in
  let m := gmissing "TerminalSemicolon" [gnode "Trivia" []; GToken "TokenMissing" []; gnode "Trivia" []] in
  let g := gnode "StatementExpr" [t; m] in
  built g /\ green_width g = 4%N
  /\ red_of 0%N g =
     RN "StatementExpr"
       [RN "TerminalIdentifier"
          [RN "Trivia" [RT "TokenWhitespace" [32%N] 0%N 1%N] 0%N 1%N;
           RT "TokenIdentifier" [233%N; 97%N] 1%N 3%N; RN "Trivia" [] 4%N 0%N] 0%N 4%N;
        RN "TerminalSemicolon"
          [RN "Trivia" [] 4%N 0%N; RT "TokenMissing" [] 4%N 0%N; RN "Trivia" [] 4%N 0%N] 4%N 0%N]
       0%N 4%N.
Proof.
  cbv zeta. split; [|split; reflexivity].
  repeat (first [apply built_token | apply built_node | apply built_missing; [|reflexivity]
                | apply Forall_cons | apply Forall_nil]).
Qed.

Print Assumptions C10_lexer_lossless.
Print Assumptions C10_lexer_widths.
Print Assumptions C10_widths.
Print Assumptions C10_spans.
