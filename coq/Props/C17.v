(* Props/C17.v -- static ap-change metadata equals the run-time movement of the allocation pointer.
   [c_ap c] is ap minus ap at the entry of the current activation of function [k]; nested calls are
   complete executions of the callee (not assumed: derived), libfunc branches move ap by exactly
   their declared amount when it is Known and arbitrarily otherwise ([branch_dyn]). *)
From Coq Require Import ZArith List Bool Lia.
From Sierra Require Import Annot Closure Vmap Sem Corr Examples.
Import ListNotations.
Open Scope Z_scope.

(* Whenever the metadata declares that function k changes ap by a known amount a, every execution
   of k - every path, every recursion depth, every input - that reaches one of its return
   statements has moved ap by exactly a. *)
Theorem C17_ap_exact : forall p prices,
  annot_accepts p = true -> gas_uniformb p = true -> Forall (fun x => 0 <= x) prices ->
  forall k c f vs a, reach p prices k c -> stmt_at p (c_pc c) = Some (SReturn vs) ->
  nth_error (funcs p) k = Some f -> f_ap f = Some a -> c_ap c = a.
Proof. exact accepted_ap_exact. Qed.

(* non-vacuity: f1 of the example program declares ap change 3 and a complete execution exists *)
Example C17_example :
  annot_accepts ex_prog = true /\ reach ex_prog [1] 1 ex_cfg_f1_ret
  /\ stmt_at ex_prog (c_pc ex_cfg_f1_ret) = Some (SReturn [1%positive]) /\ c_ap ex_cfg_f1_ret = 3.
Proof.
  split; [vm_compute; reflexivity|]. split; [exact ex_reach_f1_ret|]. split; reflexivity.
Qed.

Print Assumptions C17_ap_exact.
