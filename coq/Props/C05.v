(* Props/C05.v -- the proved kernel of C05: ONE lowering pass (branch_inversion), modelled over a
   model of the lowered-IR fragment it touches, preserves the modelled semantics.  The property
   C05 itself (results invariant under every configuration) is explored on the real pipeline by
   the configuration matrix of harness/h01; nothing here covers the other passes, inlining,
   const folding, match lowering or the gas solvers. *)
From C05 Require Import IR PassProofs.

(* For every interpretation of constants / callees / extern functions that gives bool_not_impl
   the meaning "negation of a bool", every lowered function whose blocks are in single-assignment
   form (and whose matches on a negated bool have their two arms in variant order), every
   parameter list, arguments and fuel: running the function after the pass gives the same result
   (returned values, panic value, stuck, out of fuel) as before. *)
Theorem C05_pass_preserves : forall I l params args fuel,
  interp_ok I -> lowered_okb l = true ->
  sem I (branch_inversion l) params args fuel = sem I l params args fuel.
Proof. exact pass_preserves. Qed.

(* non-vacuity: `if !c { 1 } else { 2 }` - the pass fires, swaps the arms and reads c directly;
   both versions return the same constant *)
Local Open Scope nat_scope.
Example C05_example :
  let l := [ {| b_stmts := [SCall BOOL_NOT [0%nat] [1%nat] false];
                b_end := EMatch (MEnum 1%nat [ {| a_sel := 0; a_block := 1; a_vars := [2%nat] |};
                                               {| a_sel := 1; a_block := 2; a_vars := [3%nat] |} ]) |};
             {| b_stmts := [SConst 7 4%nat]; b_end := EReturn [4%nat] |};
             {| b_stmts := [SConst 8 5%nat]; b_end := EReturn [5%nat] |} ] in
  let I := {| csem := fun c => VInt (Z.of_nat c); fsem := fun _ vs => bool_not_sem vs;
              xsem := fun _ _ => None |} in
  lowered_okb l = true /\ interp_ok I
  /\ branch_inversion l <> l
  /\ sem I l [0%nat] [VEnum 1 VUnit] 5 = Returned [VInt 7%Z]
  /\ sem I (branch_inversion l) [0%nat] [VEnum 1 VUnit] 5 = Returned [VInt 7%Z].
Proof.
  cbv zeta. split; [reflexivity|]. split; [intros vs; reflexivity|].
  split; [discriminate|]. split; reflexivity.
Qed.

Print Assumptions C05_pass_preserves.
