(* Props/C07.v -- the property theorems of C07 (compile-time evaluation agrees with run-time
   evaluation), and nothing else.  Each is closed by [exact] of a lemma proved in C07/. *)
From C07 Require Import Rt ConstEval Fold ConstEvalProofs CastProofs FoldProofs.

(* For every const-evaluable operator of the corelib (neg add sub mul div rem and or xor == != < <= > >=
   div_rem) on every numeric type (u8..u128, u256, i8..i128, felt252) and ALL operands the type's
   literals can denote, the value / diagnostic the compile-time evaluator produces for
   `const C: T = x op y;` is the image of what `fn f(x: T, y: T) { x op y }` does at run time:
   the same value (felt252: the same field element), and a compile-time error exactly when the run
   panics: DivisionByZero <-> 'Division by 0', FailedConstantCalculation <-> 'Option::unwrap failed.',
   LiteralError(OutOfRange) <-> every overflow panic.
   Not covered: operators on compound values; the interpreter for const fn bodies (blocks, if,
   match) -- explored by the harness only. *)
Theorem C07_const_eval : forall o T x y,
  supported o T = true -> lit_range T x -> lit_range T y ->
  cnorm T (const_eval_full o T x y) = of_rt T (eval o T (enc T x) (enc T y)).
Proof. exact const_eval_agrees. Qed.

Theorem C07_error_iff_panic : forall o T x y,
  supported o T = true -> lit_range T x -> lit_range T y ->
  ((exists d, const_eval_full o T x y = CErr d) <->
   (exists p, eval o T (enc T x) (enc T y) = Panic p)).
Proof. exact error_iff_panic. Qed.

(* regression for the finding of this check (iN::MIN % -1 was 0 at compile time, a panic at run
   time; repaired in /repo): both sides fail now, for every signed type *)
Example C07_min_rem_minus_one : forall T, signed T = true ->
  const_eval_full ORem T (tmin T) (-1) = CErr LiteralOutOfRange /\
  eval ORem T (tmin T) (-1) = Panic divov.
Proof. exact min_rem_minus_one. Qed.

Theorem C07_const_bool : forall o a b,
  const_beval o (cbool a) (cbool b) = CVal (cbool (beval o a b)).
Proof. exact const_beval_agrees. Qed.

(* conversions: Into (upcast, T_to_felt252, uN -> u256, felt252 -> u256 through u128s_from_felt252),
   TryInto (downcast, T_try_from_felt252 incl. felt252_for_downcast, u128_try_from_felt252),
   TryInto<T, NonZero<T>> (T_is_zero) and the generic bounded_int::downcast: for every value of the
   source type's literal range the const value is the image of the run-time result
   (never a diagnostic: conversions do not panic).
   Not covered: u256 -> uN / felt252 (corelib code run by the interpreter; explored by h07). *)
Theorem C07_const_cast : forall k From To x,
  cast_supported k From To = true -> lit_range From x ->
  cnorm To (const_cast k From To x) = repr_cast k From To (rt_cast k From To (enc From x)).
Proof. exact const_cast_agrees. Qed.

(* const folding of calls: whatever the folder substitutes for a felt252 add/sub/mul (a constant, or
   one of the inputs for x+0, 0+x, x-0, x*1, 1*x, and 0 for x*0) is the value of the libfunc, for every
   run-time value of the operands it does not know; exact integer libfuncs likewise. *)
Theorem C07_fold_call : forall f ka kb o a b,
  (f = FeltAdd \/ f = FeltSub \/ f = FeltMul) ->
  fold_call f [ka; kb] = Some o -> agrees_felt ka a -> agrees_felt kb b ->
  (denote_f o a b) mod P = rt_felt f a b.
Proof. exact fold_felt_sound. Qed.

Theorem C07_fold_call_int : forall f ka kb o a b,
  fold_call f [ka; kb] = Some o -> agrees ka a -> agrees kb b ->
  match f with
  | WideMul => denote_f o a b = a * b
  | BIAdd => denote_f o a b = a + b
  | BISub => denote_f o a b = a - b
  | DivRem => 0 <= a -> 0 < b ->
              match o with FConst2 q r => q = a / b /\ r = a mod b | _ => False end
  | _ => True
  end.
Proof. exact fold_int_sound. Qed.

(* felt252_div: x/1 and 0/x unconditionally; literal/literal under the hypothesis that the model's
   finv r is an inverse of r (Fermat for the prime P is not proved here -- the hypothesis is checked
   by computation on every case of the correspondence run) *)
Theorem C07_fold_call_div_partial : forall ka kb o a b,
  fold_call FeltDiv [ka; kb] = Some o -> agrees_felt ka a -> agrees_felt kb b ->
  (forall l r, ka = Some l -> kb = Some r -> (finv r * (r mod P)) mod P = 1) ->
  is_quotient a b ((denote_f o a b) mod P).
Proof. exact fold_felt_div_sound_partial. Qed.

(* const folding of matches: the arm the folder jumps to and the value it binds there are the arm the
   libfunc takes and the value it yields at run time: is_zero, eq (incl. the rewrite of x == 0 to
   is_zero), uN overflowing add/sub, iN overflowing add/sub (three arms), iN_diff, with
   TypeRange::normalized; x+0 / 0+x / x-0 with an unknown x; downcast of a known value (incl. from
   felt252) and the range-subsumption rewrite for an unknown value; bounded_int_constrain, trim_min/max;
   the rewrite of x + 1 / x - 1 (unknown x) to the corelib helpers core::internal::num::T_inc / T_dec
   (MIncDec, modelled by Rt.num_inc / num_dec). *)
Theorem C07_fold_match : forall f args vals m,
  fold_match f args = Some m -> wf_match f args vals ->
  denote_m m vals = rt_match f vals.
Proof. exact fold_match_sound. Qed.

(* partial-constant rewrite x +- 1: the helper the folder swaps in has exactly the meaning of the
   overflowing add / sub of 1 (arm and wrapped value), for every x of the type.  The helper model is
   tied to corelib/src/internal/num.cairo by the `part` leg of h07 (overflowing/wrapping/checked/
   saturating add/sub of a literal 1 with a run-time x over MIN..MAX, folding on and off). *)
Theorem C07_partial_fold_incdec : forall T x, T <> Felt -> in_range T x ->
  (signed T = false ->
     num_inc false T x = rt_uoverflowing T (x + 1) /\ num_dec T x = rt_uoverflowing T (x - 1)) /\
  (signed T = true ->
     num_inc true T x = rt_ioverflowing T (x + 1) /\ num_dec T x = rt_ioverflowing T (x - 1)).
Proof. exact incdec_sound. Qed.

Theorem C07_identity_rewrites : forall x, 0 <= x < P ->
  fold_call FeltAdd [None; Some 0] = Some (FVar 0) /\ fold_call FeltAdd [Some 0; None] = Some (FVar 1) /\
  fold_call FeltSub [None; Some 0] = Some (FVar 0) /\
  fold_call FeltMul [None; Some 1] = Some (FVar 0) /\ fold_call FeltMul [Some 1; None] = Some (FVar 1) /\
  fold_call FeltMul [None; Some 0] = Some (FConst 0) /\ fold_call FeltMul [Some 0; None] = Some (FConst 0) /\
  fold_call FeltDiv [None; Some 1] = Some (FVar 0) /\ fold_call FeltDiv [Some 0; None] = Some (FConst 0) /\
  fadd x 0 = x /\ fadd 0 x = x /\ fsub x 0 = x /\ fmul x 1 = x /\ fmul 1 x = x /\
  fmul x 0 = 0 /\ fmul 0 x = 0 /\ is_quotient x 1 x /\ (forall y, is_quotient 0 y 0).
Proof. exact identity_rewrites. Qed.

(* boundary operands *)
Example C07_ex_min_div_m1 :
  const_eval_full ODiv I8 (-128) (-1) = CErr LiteralOutOfRange /\
  eval ODiv I8 (-128) (-1) = Panic [str "attempt to divide with overflow"].
Proof. split; reflexivity. Qed.
Example C07_ex_rem_sign :
  const_eval_full ORem I8 (-128) 3 = CVal (CInt (-2)) /\ eval ORem I8 (-128) 3 = Ok (RInt (-2)).
Proof. split; reflexivity. Qed.
Example C07_ex_u8_overflow :
  const_eval_full OAdd U8 255 1 = CErr LiteralOutOfRange /\
  eval OAdd U8 255 1 = Panic [str "u8_add Overflow"].
Proof. split; reflexivity. Qed.
(* felt252 wrap-around in a downcast: P - 1 is -1 *)
Example C07_ex_felt_downcast :
  const_cast KTryInto Felt I8 (P - 1) = CVal (CEnum 0 (CInt (-1))) /\
  rt_cast KTryInto Felt I8 (P - 1) = Ok (ROpt (Some (-1))) /\
  const_cast KTryInto Felt U8 (-1) = CVal (CEnum 1 cunit) /\
  fold_match (Downcast true None (rng I8) false) [Some (P - 128)] = Some (MArm 0 (Some (-128))) /\
  fold_match (Downcast true None (rng I8) false) [Some (P - 129)] = Some (MArm 1 None).
Proof. repeat split; vm_compute; reflexivity. Qed.
(* the Over arm of signed addition is arm 2, Under is arm 1; normalized wraps by 2^n *)
Example C07_ex_iadd_arms :
  fold_match (IAdd I8) [Some 127; Some 1] = Some (MArm 2 (Some (-128))) /\
  fold_match (IAdd I8) [Some (-128); Some (-1)] = Some (MArm 1 (Some 127)) /\
  fold_match (UAdd U8) [Some 255; Some 1] = Some (MArm 1 (Some 0)) /\
  fold_match (ISub I32) [None; Some 1] = Some (MIncDec false true I32) /\
  num_dec I32 (tmin I32) = (1%nat, tmax I32) /\
  wf_match (IAdd I8) [Some 127; Some 1] [127; 1].
Proof.
  split; [reflexivity|]. split; [reflexivity|]. split; [reflexivity|].
  split; [reflexivity|]. split; [reflexivity|].
  cbn [wf_match]. split; [reflexivity|]. split.
  - repeat constructor.
  - repeat constructor; cbv; congruence.
Qed.
Example C07_ex_hyps : supported ODivRem I128 = true /\ lit_range I128 (tmin I128) /\
  lit_range I128 (-1) /\ lit_range Felt (1 - P).
Proof. repeat split; cbv; congruence. Qed.

Print Assumptions C07_const_eval.
Print Assumptions C07_error_iff_panic.
Print Assumptions C07_const_bool.
Print Assumptions C07_const_cast.
Print Assumptions C07_fold_call.
Print Assumptions C07_fold_call_int.
Print Assumptions C07_fold_call_div_partial.
Print Assumptions C07_fold_match.
Print Assumptions C07_identity_rewrites.
Print Assumptions C07_partial_fold_incdec.
