(* Props/C07.v -- the property theorems of C07 (compile-time evaluation agrees with run-time
   evaluation), and nothing else.  Each is closed by [exact] of a lemma proved in C07/. *)
From C07 Require Import Rt ConstEval Fold ConstEvalProofs.

(* For every const-evaluable operator of the corelib (neg add sub mul div rem and or xor == != < <= > >=
   div_rem) on every numeric type (u8..u128, u256, i8..i128, felt252) and ALL operands the type's
   literals can denote, the value / diagnostic the compile-time evaluator produces for
   `const C: T = x op y;` is the image of what `fn f(x: T, y: T) { x op y }` does at run time:
   the same value (felt252: the same field element), and a compile-time error exactly when the run
   panics: DivisionByZero <-> 'Division by 0', FailedConstantCalculation <-> 'Option::unwrap failed.',
   LiteralError(OutOfRange) <-> every overflow panic.
   Not covered: operators on compound values; the interpreter for const fn bodies (blocks, if,
   match) -- explored by the harness only. *)
Theorem C07_const_eval : forall o T x y,
  supported o T = true -> lit_range T x -> lit_range T y ->
  cnorm T (const_eval_full o T x y) = of_rt T (eval o T (enc T x) (enc T y)).
Proof. exact const_eval_agrees. Qed.

Theorem C07_error_iff_panic : forall o T x y,
  supported o T = true -> lit_range T x -> lit_range T y ->
  ((exists d, const_eval_full o T x y = CErr d) <->
   (exists p, eval o T (enc T x) (enc T y) = Panic p)).
Proof. exact error_iff_panic. Qed.

(* regression for the finding of this check (iN::MIN % -1 was 0 at compile time, a panic at run
   time; repaired in /repo): both sides fail now, for every signed type *)
Example C07_min_rem_minus_one : forall T, signed T = true ->
  const_eval_full ORem T (tmin T) (-1) = CErr LiteralOutOfRange /\
  eval ORem T (tmin T) (-1) = Panic divov.
Proof. exact min_rem_minus_one. Qed.

Theorem C07_const_bool : forall o a b,
  const_beval o (cbool a) (cbool b) = CVal (cbool (beval o a b)).
Proof. exact const_beval_agrees. Qed.

(* boundary operands *)
Example C07_ex_min_div_m1 :
  const_eval_full ODiv I8 (-128) (-1) = CErr LiteralOutOfRange /\
  eval ODiv I8 (-128) (-1) = Panic [str "attempt to divide with overflow"].
Proof. split; reflexivity. Qed.
Example C07_ex_rem_sign :
  const_eval_full ORem I8 (-128) 3 = CVal (CInt (-2)) /\ eval ORem I8 (-128) 3 = Ok (RInt (-2)).
Proof. split; reflexivity. Qed.
Example C07_ex_u8_overflow :
  const_eval_full OAdd U8 255 1 = CErr LiteralOutOfRange /\
  eval OAdd U8 255 1 = Panic [str "u8_add Overflow"].
Proof. split; reflexivity. Qed.
Example C07_ex_hyps : supported ODivRem I128 = true /\ lit_range I128 (tmin I128) /\
  lit_range I128 (-1) /\ lit_range Felt (1 - P).
Proof. repeat split; cbv; congruence. Qed.

Print Assumptions C07_const_eval.
Print Assumptions C07_error_iff_panic.
Print Assumptions C07_const_bool.
