(* Props/C01.v -- the property theorems of C01, and nothing else.
   They are facts about the REFERENCE SEMANTICS (C01/Ref.v).  No theorem here (or anywhere in
   /verif) relates [eval] to the compiler: that relation is the correspondence run of
   harness/h01 (generated programs through the real pipeline vs [eval], compared inside Coq). *)
From C01 Require Import Ref RefProofs Typing TypeSound.
Open Scope Z_scope.

(* checked addition panics iff the mathematical sum leaves the range of the type, with exactly
   the corelib's short string; otherwise it is the mathematical sum *)
Theorem C01_panic_data_exact_add : forall i a b,
  (in_range i (a + b) = true -> int_arith Add i a b = OVal (VInt (a + b)))
  /\ (imax i < a + b -> int_arith Add i a b = OPanic [short (iname i ++ "_add Overflow")])
  /\ (a + b < imin i -> int_arith Add i a b = OPanic [short (iname i ++ "_add Underflow")]).
Proof. exact add_exact. Qed.

Theorem C01_panic_data_exact_sub : forall i a b,
  (in_range i (a - b) = true -> int_arith Sub i a b = OVal (VInt (a - b)))
  /\ (isigned i = true -> imax i < a - b ->
        int_arith Sub i a b = OPanic [short (iname i ++ "_sub Overflow")])
  /\ (isigned i = true -> a - b < imin i ->
        int_arith Sub i a b = OPanic [short (iname i ++ "_sub Underflow")])
  /\ (isigned i = false -> a - b < 0 ->
        int_arith Sub i a b = OPanic [short (iname i ++ "_sub Overflow")]).
Proof. exact sub_exact. Qed.

Theorem C01_panic_data_exact_mul : forall i a b,
  (in_range i (a * b) = true -> int_arith Mul i a b = OVal (VInt (a * b)))
  /\ (in_range i (a * b) = false -> int_arith Mul i a b = OPanic [short (iname i ++ "_mul Overflow")]).
Proof. exact mul_exact. Qed.

Theorem C01_panic_data_exact_div : forall i a,
  int_arith Div i a 0 = OPanic [short "Division by 0"]
  /\ int_arith Rem i a 0 = OPanic [short "Division by 0"].
Proof. exact div_by_zero. Qed.

Theorem C01_div_rem_exact : forall i a b q r,
  b <> 0 -> ~ (isigned i = true /\ a = imin i /\ b = -1) ->
  int_arith Div i a b = OVal (VInt q) -> int_arith Rem i a b = OVal (VInt r) ->
  a = b * q + r /\ Z.abs r < Z.abs b /\ (0 <= a -> 0 <= r) /\ (a <= 0 -> r <= 0).
Proof. exact div_rem_exact. Qed.

(* a checked +, -, * on operands in the range of the type that does not panic returns a result in
   the range (so integers stay in range along a run: range preservation is proved for these three,
   for negation and for try_into; for / % and the bitwise operators it is only explored) *)
Theorem C01_checked_ops_in_range : forall i o a b v,
  (o = Add \/ o = Sub \/ o = Mul) ->
  in_range i a = true -> in_range i b = true ->
  int_arith o i a b = OVal (VInt v) -> in_range i v = true.
Proof. exact arith_in_range. Qed.

(* fuel is only a device: a result other than "out of fuel" does not depend on the amount of
   fuel.  (Stated for every outcome: Value, Panic and Stuck.) *)
Theorem C01_fuel_monotone : forall p f args n o,
  eval_fn p f args n = o -> o <> OutOfFuel ->
  forall m, (n <= m)%nat -> eval_fn p f args m = o.
Proof. exact eval_fn_mono. Qed.

(* the reference semantics is deterministic: two runs with enough fuel agree *)
Theorem C01_ref_deterministic : forall p f args n m o1 o2,
  eval_fn p f args n = o1 -> eval_fn p f args m = o2 ->
  o1 <> OutOfFuel -> o2 <> OutOfFuel -> o1 = o2.
Proof. exact eval_fn_deterministic. Qed.

(* type soundness of the reference evaluator, for the WHOLE modelled language (every construct of
   Ref.expr): a program accepted by the type checker Typing.wt_prog, called on arguments that have
   the shape of the declared parameter types, is never stuck - it returns a value of the shape of
   the declared return type, panics, or runs out of fuel.  ("Shape": an integer is a VInt, a tuple
   has the declared arity, an enum value names an existing variant, ...; that integers stay in the
   range of their type follows from the checked operators, see C01_panic_data_exact_*.)
   The correspondence run checks [wt_prog p = true] for every generated program. *)
Theorem C01_ref_type_sound : forall p f fd args n,
  wt_prog p = true -> nth_error p f = Some fd ->
  Forall2 (fun p0 v => vtb (pty p0) v = true) (fparams fd) args ->
  eval_fn p f args n <> Stuck
  /\ forall v, eval_fn p f args n = Value v -> vtb (fret fd) v = true.
Proof. exact ref_type_sound. Qed.

(* non-vacuity: a program with a ref parameter, a loop with break, a match and checked arithmetic
   is accepted by the checker, and evaluates as the source says (3 + 4 iterations ...). *)
Example C01_example_typed :
  let u8 := TInt U8 in
  let bump := {| fparams := [ {| pname := 0; pty := u8; pref := true |} ]; fret := TOption u8;
                 fbody := ESeq (EAssign 0 (EBin Add u8 (EVar 0) (ELit u8 100)))
                               (EEnum (TOption u8) 0 (EVar 0)) |} in
  let main := {| fparams := [ {| pname := 0; pty := u8; pref := false |} ]; fret := u8;
                 fbody := ELet 1 (ELit (TInt U32) 0)
                   (ELet 2 (ELoop u8 (ESeq (EIf (EBin Ge (TInt U32) (EVar 1) (ELit (TInt U32) 2))
                                              (EBreak TUnit (EVar 0)) (ETup []))
                                    (ESeq (EAssign 1 (EBin Add (TInt U32) (EVar 1) (ELit (TInt U32) 1)))
                                          (EMatch (ECall 0 [ARef 0])
                                             [(3%nat, ETup []); (4%nat, ETup [])]))))
                      (EVar 2)) |} in
  let p := [bump; main] in
  wt_prog p = true
  /\ eval_fn p 1 [VInt 5] 100 = Value (VInt 205)
  /\ eval_fn p 1 [VInt 60] 100 = Panic [short "u8_add Overflow"].
Proof. vm_compute. repeat split. Qed.

(* the strings are the corelib's: the felts as they appear in RunResultValue::Panic *)
Example C01_example_felts :
  short "u8_add Overflow" = 0x75385f616464204f766572666c6f77
  /\ short "Option::unwrap failed." = 0x4f7074696f6e3a3a756e77726170206661696c65642e
  /\ short "Index out of bounds" = 0x496e646578206f7574206f6620626f756e6473
  /\ int_arith Add U8 200 100 = OPanic [0x75385f616464204f766572666c6f77]
  /\ int_arith Sub I8 (-128) 1 = OPanic [short "i8_sub Underflow"]
  /\ int_arith Div I8 (-7) 2 = OVal (VInt (-3)) /\ int_arith Rem I8 (-7) 2 = OVal (VInt (-1)).
Proof. vm_compute. repeat split. Qed.

Print Assumptions C01_panic_data_exact_add.
Print Assumptions C01_panic_data_exact_sub.
Print Assumptions C01_panic_data_exact_mul.
Print Assumptions C01_panic_data_exact_div.
Print Assumptions C01_div_rem_exact.
Print Assumptions C01_checked_ops_in_range.
Print Assumptions C01_fuel_monotone.
Print Assumptions C01_ref_deterministic.
Print Assumptions C01_ref_type_sound.
