(* Props/C04.v -- gas charged always covers the actual execution cost.
   [c_cost c] is (actual cost of the trace of the current activation, nested calls included) minus
   (gas withdrawn from the gas counter so far, redeposits counted negatively), in gas units priced by
   [prices]; a libfunc branch may cost, net of what it withdraws, at most its declared branch cost
   ([branch_dyn]); a call costs the callee's own complete execution plus call+ret. *)
From Coq Require Import ZArith List Bool Lia.
From Sierra Require Import Annot Closure Vmap Sem Corr Examples.
Import ListNotations.
Open Scope Z_scope.

(* For every execution of every function of an accepted program, at every point:
   actual cost - gas withdrawn <= declared entry cost of the function,
   i.e. cost(trace) <= (g - gas_left) + cost(f); the return step of the outermost function is
   paid by its caller (the "+100" of the property).  The statement does not mention which solver
   produced the metadata: any metadata the acceptance pass validates is covered. *)
Theorem C04_cost_bound : forall p prices,
  annot_accepts p = true -> gas_uniformb p = true -> Forall (fun x => 0 <= x) prices ->
  forall k c f cf, reach p prices k c -> nth_error (funcs p) k = Some f -> f_cost f = Some cf ->
  c_cost c <= price prices cf.
Proof. exact accepted_cost_bound. Qed.

Example C04_example :
  annot_accepts ex_prog = true /\ reach ex_prog [1] 1 ex_cfg_f1_ret
  /\ c_cost ex_cfg_f1_ret = 250 /\ price [1] [300] = 300.
Proof.
  split; [vm_compute; reflexivity|]. split; [exact ex_reach_f1_ret|]. split; reflexivity.
Qed.

Print Assumptions C04_cost_bound.
