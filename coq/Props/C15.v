(* Props/C15.v -- Sierra acceptance implies well-typedness and exact-once use of every value.
   [annot_accepts] (Sierra/Annot.v) is the model of the acceptance pass of the Sierra-to-CASM
   compiler; [reach]/[safe] (Sierra/Sem.v) is an abstract Sierra machine over functions
   [var -> option type], independent of the checker's data structures. *)
From Coq Require Import ZArith List Bool Lia.
From Sierra Require Import Annot Closure Vmap Sem Corr Examples.
Import ListNotations.
Open Scope Z_scope.

(* On every path of every function of an accepted program: each statement finds all its arguments
   present with exactly the declared types and consumes them (a variable used twice in one
   statement, or used after it was consumed, is "absent"); results are fresh (no override); every
   branch target lies in the program and, for multi-branch libfuncs, is a branch_align; a return
   finds exactly the declared return types and leaves no variable behind. *)
Theorem C15_sound : forall p prices,
  annot_accepts p = true -> gas_uniformb p = true -> Forall (fun x => 0 <= x) prices ->
  forall k c, reach p prices k c -> safe p k c.
Proof. exact accepted_safe. Qed.

(* paths that merge agree on the set and the types of live variables *)
Theorem C15_merge : forall p prices,
  annot_accepts p = true -> gas_uniformb p = true -> Forall (fun x => 0 <= x) prices ->
  forall k c1 c2, reach p prices k c1 -> reach p prices k c2 -> c_pc c1 = c_pc c2 ->
  fequiv (c_vars c1) (c_vars c2).
Proof. exact accepted_merge. Qed.

(* the table the pass computes is closed under every control-flow edge (the core lemma) *)
Theorem C15_closed : forall p, annot_accepts p = true -> exists T, Closed p T.
Proof. exact accepts_closed. Qed.

(* Non-vacuity: a two-function program with a backward jump (loop), a two-way branch that merges,
   a duplication and a function call is accepted, and its loop head is reachable twice.
     f0(x:t1, n:t1):  0: dup(x) -> (x, y)          1: match(n) { fallthrough(n') 6() }
                      2: branch_align               3: call f1(y) -> (z)   4: drop(z)   5: jump -> 0 ... *)
Example C15_example : annot_accepts ex_prog = true /\ gas_uniformb ex_prog = true.
Proof. vm_compute. split; reflexivity. Qed.

Example C15_example_reachable :
  exists c, reach ex_prog [1] 0 c /\ c_pc c = 1%nat /\ c_vars c 3%positive = Some 1%positive.
Proof.
  eexists. split.
  - eapply (reach_step ex_prog [1] 0 _ _ _ _ _ _ 1 0).
    + eapply (reach_init ex_prog [1] 0); [reflexivity|]. cbn. reflexivity.
    + reflexivity.
    + left. reflexivity.
    + intros g H. discriminate.
    + cbn. reflexivity.
    + cbn. reflexivity.
    + split; [intros k H; inversion H; reflexivity | cbn; lia].
  - cbn. split; reflexivity.
Qed.

(* and the checker does reject: using a variable twice, leaving one behind, a type mismatch *)
Example C15_rejects_double_use :
  annot_accepts (P [I KOther [1; 1] [1; 1] [B 1 [2] [1] (Some 0) TNone [0]] (Some 0); R [2]]
                   [F 0 [(1, 1)] [1] None None]) = false.
Proof. vm_compute. reflexivity. Qed.
Example C15_rejects_dangling :
  annot_accepts (P [R [1]] [F 0 [(1, 1); (2, 1)] [1] None (Some 0)]) = false.
Proof. vm_compute. reflexivity. Qed.

Print Assumptions C15_sound.
Print Assumptions C15_merge.
Print Assumptions C15_closed.
