(* Props/C16.v -- the property theorems of C16, and nothing else.  Each is closed by [exact] of a
   lemma proved in C16/, its statement is pinned by [Check], and [Print Assumptions] follows. *)
From C16 Require Import Casm Vm Roundtrip.

(* Every instruction the toolchain can assemble (every operand shape, register, offsets in the
   full i16 range, arbitrary immediate, with or without ap++) encodes to words that cairo-vm's
   decoder maps back to exactly the flags/offsets the instruction denotes; the encoded length is
   op_size, which is also the size by which the VM advances pc; the immediate is the second word. *)
Theorem C16_roundtrip : forall i r,
  wf_instr i -> assemble i = Some r -> ext_ok i ->
  exists ws, encode r = Some ws
    /\ Z.of_nat (length ws) = op_size (ibody i)
    /\ decode (hd 0 ws) = Some (strip r)
    /\ isize (strip r) = op_size (ibody i)
    /\ tl ws = match instr_imm i with Some v => [v] | None => [] end.
Proof. exact roundtrip. Qed.

(* assemble is defined exactly on the shapes the Rust assert!s admit *)
Theorem C16_assemble_total : forall i, shape_ok i = true <-> assemble i <> None.
Proof. exact assemble_total. Qed.

(* the QM31 side condition is necessary: other right-hand sides assemble to a word the VM rejects *)
Theorem C16_qm31_rejected : forall a b ia r,
  wf_instr {| ibody := QM31AssertEq a b; inc_ap := ia |} ->
  assemble {| ibody := QM31AssertEq a b; inc_ap := ia |} = Some r ->
  ~ ext_ok {| ibody := QM31AssertEq a b; inc_ap := ia |} ->
  decode (word0 r) = None.
Proof. exact qm31_rejected. Qed.

(* non-vacuity: a concrete instruction at the corner of the offset range meets the hypotheses *)
Example C16_example :
  let i := {| ibody := AssertEq {| c_reg := FP; c_off := -32768 |}
                         (RBin OMul {| c_reg := AP; c_off := 32767 |} (DImm (-1)));
              inc_ap := true |} in
  wf_instr i /\ ext_ok i /\ exists r, assemble i = Some r /\
  encode r = Some [0x48458001ffff0000; -1].
Proof.
  cbv zeta. split; [|split].
  - cbn. unfold wf_cell, i16. cbn. lia.
  - exact I.
  - eexists. split; [reflexivity|]. vm_compute. reflexivity.
Qed.

Print Assumptions C16_roundtrip.
Print Assumptions C16_assemble_total.
Print Assumptions C16_qm31_rejected.
