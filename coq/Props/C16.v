(* Props/C16.v -- the property theorems of C16, and nothing else.  Each is closed by [exact] of a
   lemma proved in C16/, its statement is pinned by [Check], and [Print Assumptions] follows. *)
From C16 Require Import Casm Vm Roundtrip Denote Step Run Fresh Commit Layout.

(* Every instruction the toolchain can assemble (every operand shape, register, offsets in the
   full i16 range, arbitrary immediate, with or without ap++) encodes to words that cairo-vm's
   decoder maps back to exactly the flags/offsets the instruction denotes; the encoded length is
   op_size, which is also the size by which the VM advances pc; the immediate is the second word. *)
Theorem C16_roundtrip : forall i r,
  wf_instr i -> assemble i = Some r -> ext_ok i ->
  exists ws, encode r = Some ws
    /\ Z.of_nat (length ws) = op_size (ibody i)
    /\ decode (hd 0 ws) = Some (strip r)
    /\ isize (strip r) = op_size (ibody i)
    /\ tl ws = match instr_imm i with Some v => [v] | None => [] end.
Proof. exact roundtrip. Qed.

(* assemble is defined exactly on the shapes the Rust assert!s admit *)
Theorem C16_assemble_total : forall i, shape_ok i = true <-> assemble i <> None.
Proof. exact assemble_total. Qed.

(* the QM31 side condition is necessary: other right-hand sides assemble to a word the VM rejects *)
Theorem C16_qm31_rejected : forall a b ia r,
  wf_instr {| ibody := QM31AssertEq a b; inc_ap := ia |} ->
  assemble {| ibody := QM31AssertEq a b; inc_ap := ia |} = Some r ->
  ~ ext_ok {| ibody := QM31AssertEq a b; inc_ap := ia |} ->
  decode (word0 r) = None.
Proof. exact qm31_rejected. Qed.

(* One step of the (modelled) VM on the decoded flags does exactly what the CASM instruction denotes
   when read directly off its syntax ([denotes]: the assertion holds in the memory after the step,
   the jump / call / ret / ap update is the one written), from ANY machine state: unknown cells
   (deduction), relocatable operands, every operand shape.  [m'] is any write-once extension of
   [m] containing the cells the VM deduced.  Stone opcode extension only (Blake2s / QM31 steps are
   not modelled).  [finv] is the field inverse the VM uses to deduce an operand of a product; its
   defining equation is a visible premise (it needs the primality of P, which is not proved here). *)
Theorem C16_step_sound : forall finv,
  (forall z z0, 0 <= z < P -> 0 <= z0 < P -> z0 <> 0 ->
     fmul (fmul z (finv z0)) z0 = z /\ fmul z0 (fmul z (finv z0)) = z) ->
  forall i r m s sr m',
  wf_instr i -> stone i -> assemble i = Some r ->
  canonical m -> code_at m s i r ->
  vm_exec finv (strip r) m s = Some sr ->
  extends m m' -> has_writes m' (s_writes sr) ->
  denotes i m' s (s_next sr).
Proof. exact step_sound. Qed.

(* From one step to whole executions.  [vm_trace finv n m s] iterates fetch / decode / execute and
   inserts the deduced cells into the write-once memory ([commit]: a conflicting insert is the VM's
   InconsistentMemory error).  In ANY execution of ANY length [n], from ANY canonical memory and
   register state, every step that starts at the address of an instruction that was assembled,
   encoded and loaded into the initial memory does what that instruction denotes, read in the FINAL
   memory [mf] of the execution: the assertion a step made is never invalidated by a later step.
   Steps that start anywhere else (data, the immediate of an instruction) are not constrained. *)
Theorem C16_run_sound : forall finv,
  (forall z z0, 0 <= z < P -> 0 <= z0 < P -> z0 <> 0 ->
     fmul (fmul z (finv z0)) z0 = z /\ fmul z0 (fmul z (finv z0)) = z) ->
  forall n m s mf tr k sk sk' i,
  canonical m ->
  vm_trace finv n m s = Some (mf, tr) ->
  nth_error (s :: tr) k = Some sk -> nth_error tr k = Some sk' ->
  loaded m (pc sk) i ->
  denotes i mf sk sk'.
Proof. exact run_sound. Qed.

(* executions compose: an (n + k)-step run is an n-step run followed by a k-step run from the memory
   and state it reached, so C16_run_sound also speaks about every prefix of a run *)
Theorem C16_trace_compose : forall finv n k m s mf tr,
  vm_trace finv (n + k) m s = Some (mf, tr) ->
  exists m1 tr1 tr2, vm_trace finv n m s = Some (m1, tr1)
    /\ vm_trace finv k m1 (last tr1 s) = Some (mf, tr2) /\ tr = tr1 ++ tr2.
Proof. exact trace_app. Qed.

(* Whole programs.  [prog_words is] is the bytecode of an instruction list (concatenated encodings,
   as CairoProgram::assemble builds it), [mem_has m seg off ws] says the loader stored word k as a
   field element at (seg, off + k), [prog_offset is j] is the sum of op_size of the first j
   instructions -- the offsets relocations are computed from.  Every step of any execution that
   starts at the offset of the j-th instruction does what that instruction denotes. *)
Theorem C16_program_run_sound : forall finv,
  (forall z z0, 0 <= z < P -> 0 <= z0 < P -> z0 <> 0 ->
     fmul (fmul z (finv z0)) z0 = z /\ fmul z0 (fmul z (finv z0)) = z) ->
  forall is ws m seg off n s mf tr k sk sk' j i,
  Forall (fun i => wf_instr i /\ stone i) is ->
  prog_words is = Some ws -> mem_has m seg off ws ->
  0 <= off -> off + Z.of_nat (length ws) <= USZ ->
  canonical m ->
  vm_trace finv n m s = Some (mf, tr) ->
  nth_error (s :: tr) k = Some sk -> nth_error tr k = Some sk' ->
  nth_error is j = Some i -> pc sk = (seg, off + prog_offset is j) ->
  denotes i mf sk sk'.
Proof. exact program_run_sound. Qed.

(* every cell a step writes was unknown before the step, for every flag combination [r] (assembled
   or not) and every machine state: the modelled VM never overwrites *)
Theorem C16_step_writes_fresh : forall finv r m s sr,
  vm_exec finv r m s = Some sr -> forall x w, In (x, w) (s_writes sr) -> m x = None.
Proof. exact exec_writes_fresh. Qed.

(* ... and the cells one step deduces are pairwise distinct (only `call` deduces two, [ap] and
   [ap + 1], and the decoder accepts call words of that shape only): after a successful step of ANY
   decoded word the insertion of the deduced cells cannot conflict -- [commit] fails only if a
   deduced value leaves the range of the Rust types (Felt252 / usize offsets) *)
Theorem C16_step_commit_total : forall finv w r m s sr,
  decode w = Some r -> vm_exec finv r m s = Some sr ->
  (forall x v, In (x, v) (s_writes sr) -> canon_b v = true) ->
  exists m', commit m (s_writes sr) = Some m'.
Proof. exact decoded_step_commit_total. Qed.

(* non-vacuity: a three-instruction loaded program
     (0,0): [ap + 0] = 7, ap++        (0,2): [ap + 0] = [ap + -1] * [ap + -1], ap++
     (0,3): jmp rel -1
   runs for 5 steps (the loop re-executes the square at a new ap each time); every visited pc holds
   a loaded instruction, the final memory holds 7, 49, 2401 and the run is accepted. *)
Definition rp_i0 : instr :=
  {| ibody := AssertEq {| c_reg := AP; c_off := 0 |} (RImm 7); inc_ap := true |}.
Definition rp_i1 : instr :=
  {| ibody := AssertEq {| c_reg := AP; c_off := 0 |}
                (RBin OMul {| c_reg := AP; c_off := -1 |} (DDeref {| c_reg := AP; c_off := -1 |}));
     inc_ap := true |}.
Definition rp_i2 : instr := {| ibody := Jump (DImm (-1)) true; inc_ap := false |}.
Definition w0_of (i : instr) : Z := match assemble i with Some r => word0 r | None => 0 end.
Definition rp_m : memory := fun a =>
  if (fst a =? 0) && (snd a =? 0) then Some (VInt (w0_of rp_i0))
  else if (fst a =? 0) && (snd a =? 1) then Some (VInt 7)
  else if (fst a =? 0) && (snd a =? 2) then Some (VInt (w0_of rp_i1))
  else if (fst a =? 0) && (snd a =? 3) then Some (VInt (w0_of rp_i2))
  else if (fst a =? 0) && (snd a =? 4) then Some (VInt (P - 1))
  else if (fst a =? 1) && (snd a =? 8) then Some (VRel 1 2)     (* caller's fp *)
  else if (fst a =? 1) && (snd a =? 9) then Some (VRel 0 100)   (* return pc: the VM reads [fp - 1] as op0 *)
  else None.
Definition rp_s : state := {| pc := (0, 0); ap := 10; fp := 10 |}.
Example C16_run_example :
  loaded rp_m (0, 0) rp_i0 /\ loaded rp_m (0, 2) rp_i1 /\ loaded rp_m (0, 3) rp_i2 /\
  exists mf tr, vm_trace (fun _ => 0) 5 rp_m rp_s = Some (mf, tr)
    /\ map pc (rp_s :: tr) = [(0, 0); (0, 2); (0, 3); (0, 2); (0, 3); (0, 2)]
    /\ map ap tr = [11; 12; 12; 13; 13]
    /\ (mf (1, 10), mf (1, 11), mf (1, 12)) = (Some (VInt 7), Some (VInt 49), Some (VInt 2401)).
Proof.
  split; [|split; [|split]].
  - split; [cbn; unfold wf_cell, i16; cbn; lia|]. split; [exact I|].
    eexists. split; [reflexivity|]. split; [reflexivity|]. cbn. eexists. split; reflexivity.
  - split; [cbn; unfold wf_cell, i16; cbn; lia|]. split; [exact I|].
    eexists. split; [reflexivity|]. split; [reflexivity|exact I].
  - split; [exact I|]. split; [exact I|].
    eexists. split; [reflexivity|]. split; [reflexivity|]. cbn. eexists. split; reflexivity.
  - eexists. eexists. split; [vm_compute; reflexivity|].
    split; [reflexivity|]. split; [reflexivity|]. vm_compute. reflexivity.
Qed.

(* non-vacuity: the example program above is such a bytecode, loaded at (0, 0) *)
Example C16_program_example :
  exists ws, prog_words [rp_i0; rp_i1; rp_i2] = Some ws /\ length ws = 5%nat /\ mem_has rp_m 0 0 ws
  /\ map (prog_offset [rp_i0; rp_i1; rp_i2]) [0; 1; 2]%nat = [0; 2; 3].
Proof.
  eexists. split; [vm_compute; reflexivity|]. split; [reflexivity|]. split; [|reflexivity].
  intros k w Hk. do 5 (destruct k as [|k]; [cbn in Hk; inversion Hk; subst w; vm_compute; reflexivity|]).
  destruct k; discriminate.
Qed.

(* non-vacuity of the step theorem: `[ap + 0] = [fp + -3] + 5, ap++` from a state where the
   destination cell is unknown: the hypotheses are met, the VM deduces the cell and writes 42 *)
Definition ex_i : instr :=
  {| ibody := AssertEq {| c_reg := AP; c_off := 0 |}
                (RBin OAdd {| c_reg := FP; c_off := -3 |} (DImm 5)); inc_ap := true |}.
Definition ex_s : state := {| pc := (0, 0); ap := 10; fp := 10 |}.
Definition ex_m (r : repr) : memory := fun a =>
  if (fst a =? 0) && (snd a =? 0) then Some (VInt (word0 r))
  else if (fst a =? 0) && (snd a =? 1) then Some (VInt 5)
  else if (fst a =? 1) && (snd a =? 7) then Some (VInt 37)
  else None.
Example C16_step_example :
  wf_instr ex_i /\ stone ex_i /\ exists r, assemble ex_i = Some r /\ code_at (ex_m r) ex_s ex_i r
  /\ vm_exec (fun _ => 0) (strip r) (ex_m r) ex_s
     = Some {| s_next := {| pc := (0, 2); ap := 11; fp := 10 |};
               s_writes := [((1, 10), VInt 42)] |}.
Proof.
  split; [cbn; unfold wf_cell, i16; cbn; lia|]. split; [exact I|].
  eexists. split; [reflexivity|]. split.
  - split; [reflexivity|]. cbn. eexists. split; reflexivity.
  - vm_compute. reflexivity.
Qed.

(* non-vacuity: a concrete instruction at the corner of the offset range meets the hypotheses *)
Example C16_example :
  let i := {| ibody := AssertEq {| c_reg := FP; c_off := -32768 |}
                         (RBin OMul {| c_reg := AP; c_off := 32767 |} (DImm (-1)));
              inc_ap := true |} in
  wf_instr i /\ ext_ok i /\ exists r, assemble i = Some r /\
  encode r = Some [0x48458001ffff0000; -1].
Proof.
  cbv zeta. split; [|split].
  - cbn. unfold wf_cell, i16. cbn. lia.
  - exact I.
  - eexists. split; [reflexivity|]. vm_compute. reflexivity.
Qed.

Print Assumptions C16_roundtrip.
Print Assumptions C16_assemble_total.
Print Assumptions C16_qm31_rejected.
Print Assumptions C16_step_sound.
Print Assumptions C16_run_sound.
Print Assumptions C16_step_writes_fresh.
Print Assumptions C16_step_commit_total.
Print Assumptions C16_program_run_sound.
Print Assumptions C16_trace_compose.
