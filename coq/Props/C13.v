(* Props/C13.v -- the property theorems of C13, and nothing else.
   C13 (incremental recompilation = from scratch) is NOT proved end to end: the compiler's queries
   are not modelled.  What is proved is the kernel the incremental machinery rests on:
   (1) syntax-node identities (RedIds.v, model of cairo-lang-syntax node/mod.rs) are injective,
       stable under edits that preserve key fields, and offsets are a function of the current tree;
   (2) a verifying-trace memo engine with back-dating (Memo.v, the algorithm salsa documents) returns
       from-scratch answers after every history of input changes and queries.
   The end-to-end sentence is explored differentially by harness/h13 (one live database against a
   fresh one per step). *)
From Coq Require Import List NArith Bool Arith.
From C13 Require Import RedIds IdsProofs Memo MemoProofs.
Import ListNotations.

(* distinct nodes of one tree have distinct ids (for every per-kind key-field table kr) *)
Theorem C13_ids_injective : forall (kr : krange) (g : green) (p q : pos) (i : nid),
  id_at kr g p = Some i -> id_at kr g q = Some i -> p = q.
Proof. exact ids_injective. Qed.

(* replacing the subtree at position p by one with the same kind and the same key fields, where p
   does not run through a key field of an ancestor, leaves the id of every node that is not strictly
   inside p unchanged (ancestors, siblings, all other subtrees, and the replaced root itself) *)
Theorem C13_ids_edit_stable : forall (kr : krange) (g : green) (p : pos) (g' old g2 : green),
  subtree g p = Some old ->
  kind g' = kind old -> RedIds.key kr g' = RedIds.key kr old ->
  avoids_keys kr g p = true ->
  replace_at g p g' = Some g2 ->
  forall q, ~ strictly_inside p q -> id_at kr g2 q = id_at kr g q.
Proof. exact ids_edit_stable. Qed.

(* the absolute offset of a node (sum of offset_in_parent along its path) is the total width of the
   tokens that precede it in the current tree, and its width is the width of its own tokens: nothing
   of an earlier tree enters *)
Theorem C13_offsets_current : forall (kr : krange) (g : green) (p : pos) (i : nid) (o : N) (s : green),
  wf_green g = true -> node_at kr g p = Some (i, o, s) ->
  o = sumN (tokens_before g p) /\ width s = sumN (tokens s) /\ subtree g p = Some s.
Proof. exact offsets_current. Qed.

(* non-vacuity: a function body `{ let a = 1; 2; let a = 3; 4; }`-like tree: kinds 1 = block (no key),
   2 = let statement (key = child 0), 3 = expression statement (no key), 9 = token.  The two
   expression statements get indices 0 and 1, the two `let a` statements (equal key) 0 and 1;
   replacing the first expression statement by a wider one keeps every id outside it and shifts the
   offsets of what follows. *)
Definition ex_kr : krange := fun k => if N.eqb k 2 then (0, 1)%nat else (0, 0)%nat.
Definition ex_let (name w : N) := GNode 2 (1 + w) [GTok 9 name 1; GTok 9 50 w].
Definition ex_expr (txt w : N) := GNode 3 w [GTok 9 txt w].
Definition ex_tree := GNode 1 14 [ex_let 7 3; ex_expr 20 2; ex_let 7 5; ex_expr 21 2].
Definition ex_tree' := GNode 1 19 [ex_let 7 3; ex_expr 22 7; ex_let 7 5; ex_expr 21 2].

Example C13_example :
  wf_green ex_tree = true
  /\ map (fun i => option_map (fun x => fst (fst x)) (node_at ex_kr ex_tree [i])) [0; 1; 2; 3]%nat
     = [Some (Child Root 2 0 [GTok 9 7 1]); Some (Child Root 3 0 []);
        Some (Child Root 2 1 [GTok 9 7 1]); Some (Child Root 3 1 [])]
  /\ replace_at ex_tree [1%nat] (ex_expr 22 7) = Some ex_tree'
  /\ avoids_keys ex_kr ex_tree [1%nat] = true
  /\ id_at ex_kr ex_tree' [2; 1]%nat = id_at ex_kr ex_tree [2; 1]%nat
  /\ offset_at ex_kr ex_tree [2; 1]%nat = Some 7%N
  /\ offset_at ex_kr ex_tree' [2; 1]%nat = Some 12%N.
Proof. vm_compute. repeat split; reflexivity. Qed.

(* the verifying-trace memo engine (Memo.v: revisions, verified_at / changed_at, deep verification of
   the recorded dependencies in order, back-dating when the recomputed value is equal): for every
   value type, every family of query bodies (pure programs reading inputs and other queries through
   the tracked get), every history of input sets and queries, every answer the engine gives is the
   from-scratch value of the query under the inputs current at that moment.  (An answer exists
   whenever the fuel suffices; a cyclic query runs out of fuel for every fuel.) *)
Theorem C13_memo_correct :
  forall (V : Type) (veq : V -> V -> bool) (body : nat -> prog V),
    (forall a b, veq a b = true -> a = b) ->
    forall (d : V) (fuel : nat) (ops : list (op V)) (outs : list ((nat -> V) * Memo.key * V)),
      run_ops V veq body fuel (init V d) ops = Some outs ->
      Forall (fun o => Eval V body (fst (fst o)) (snd (fst o)) (snd o)) outs.
Proof. exact memo_correct. Qed.

(* non-vacuity of the memo theorem.  Queries over nat: q0 = parity of input 0; q1 = q0 + input 1;
   q(n+2) = "absolute offset" of node n in a chain: q2 = input 2, q(n+3) = q(n+2) + input (n+3).
   The history sets inputs, asks, changes input 0 without changing its parity (q0 is re-executed
   and back-dated, q1 is only re-verified), changes it again, shifts an offset_in_parent. *)
Definition ex_body (q : nat) : prog nat :=
  match q with
  | 0 => Get (KIn 0) (fun x => Ret (Nat.modulo x 2))
  | 1 => Get (KQ 0) (fun p => Get (KIn 1) (fun y => Ret (p + y)))
  | 2 => Get (KIn 2) (fun x => Ret x)
  | S (S (S n)) => Get (KQ (S (S n))) (fun a => Get (KIn (S (S (S n)))) (fun o => Ret (a + o)))
  end.
Definition ex_ops : list (op nat) :=
  [OSet 0 2; OSet 1 5; OGet (KQ 1); OSet 0 4; OGet (KQ 1); OSet 0 3; OGet (KQ 1);
   OSet 2 10; OSet 3 1; OSet 4 2; OSet 5 3; OGet (KQ 5); OSet 3 7; OGet (KQ 5); OGet (KQ 4); OGet (KQ 1)].

Example C13_memo_example :
  option_map (map (fun o => (snd (fst o), snd o))) (run_ops nat Nat.eqb ex_body 40 (init nat 0) ex_ops)
  = Some [(KQ 1, 5); (KQ 1, 5); (KQ 1, 6); (KQ 5, 16); (KQ 5, 22); (KQ 4, 19); (KQ 1, 6)]
  /\ (* after the parity-preserving change q0 was re-executed and back-dated to revision 1, and q1
        was re-verified (verified_at = 3) without being re-executed (changed_at = 2) *)
     (match run_ops nat Nat.eqb ex_body 40 (init nat 0) [OSet 0 2; OSet 1 5; OGet (KQ 1); OSet 0 4] with
      | Some _ =>
          match fetch nat Nat.eqb ex_body 40
                  (set_input nat
                     (match fetch nat Nat.eqb ex_body 40 (set_input nat (set_input nat (init nat 0) 0 2) 1 5) (KQ 1)
                      with Some (_, _, st) => st | None => init nat 0 end) 0 4) (KQ 1) with
          | Some (v, _, st) =>
              (v, option_map (fun m => (m_verified m, m_changed m)) (memos st 0),
                  option_map (fun m => (m_verified m, m_changed m)) (memos st 1))
          | None => (0, None, None)
          end
      | None => (0, None, None)
      end) = (5, Some (3, 1), Some (3, 2)).
Proof. vm_compute. split; reflexivity. Qed.

Print Assumptions C13_ids_injective.
Print Assumptions C13_ids_edit_stable.
Print Assumptions C13_offsets_current.
Print Assumptions C13_memo_correct.
