(* Props/C13.v -- the property theorems of C13, and nothing else.
   C13 (incremental recompilation = from scratch) is NOT proved end to end: the compiler's queries
   are not modelled.  What is proved is the kernel the incremental machinery rests on:
   (1) syntax-node identities (RedIds.v, model of cairo-lang-syntax node/mod.rs) are injective,
       stable under edits that preserve key fields, and offsets are a function of the current tree;
   (2) a verifying-trace memo engine with back-dating (Memo.v, the algorithm salsa documents) returns
       from-scratch answers after every history of input changes and queries.
   The end-to-end sentence is explored differentially by harness/h13 (one live database against a
   fresh one per step). *)
From Coq Require Import List NArith Bool Arith.
From C13 Require Import RedIds IdsProofs.
Import ListNotations.

(* distinct nodes of one tree have distinct ids (for every per-kind key-field table kr) *)
Theorem C13_ids_injective : forall (kr : krange) (g : green) (p q : pos) (i : nid),
  id_at kr g p = Some i -> id_at kr g q = Some i -> p = q.
Proof. exact ids_injective. Qed.

(* replacing the subtree at position p by one with the same kind and the same key fields, where p
   does not run through a key field of an ancestor, leaves the id of every node that is not strictly
   inside p unchanged (ancestors, siblings, all other subtrees, and the replaced root itself) *)
Theorem C13_ids_edit_stable : forall (kr : krange) (g : green) (p : pos) (g' old g2 : green),
  subtree g p = Some old ->
  kind g' = kind old -> key kr g' = key kr old ->
  avoids_keys kr g p = true ->
  replace_at g p g' = Some g2 ->
  forall q, ~ strictly_inside p q -> id_at kr g2 q = id_at kr g q.
Proof. exact ids_edit_stable. Qed.

(* the absolute offset of a node (sum of offset_in_parent along its path) is the total width of the
   tokens that precede it in the current tree, and its width is the width of its own tokens: nothing
   of an earlier tree enters *)
Theorem C13_offsets_current : forall (kr : krange) (g : green) (p : pos) (i : nid) (o : N) (s : green),
  wf_green g = true -> node_at kr g p = Some (i, o, s) ->
  o = sumN (tokens_before g p) /\ width s = sumN (tokens s) /\ subtree g p = Some s.
Proof. exact offsets_current. Qed.

(* non-vacuity: a function body `{ let a = 1; 2; let a = 3; 4; }`-like tree: kinds 1 = block (no key),
   2 = let statement (key = child 0), 3 = expression statement (no key), 9 = token.  The two
   expression statements get indices 0 and 1, the two `let a` statements (equal key) 0 and 1;
   replacing the first expression statement by a wider one keeps every id outside it and shifts the
   offsets of what follows. *)
Definition ex_kr : krange := fun k => if N.eqb k 2 then (0, 1)%nat else (0, 0)%nat.
Definition ex_let (name w : N) := GNode 2 (1 + w) [GTok 9 name 1; GTok 9 50 w].
Definition ex_expr (txt w : N) := GNode 3 w [GTok 9 txt w].
Definition ex_tree := GNode 1 14 [ex_let 7 3; ex_expr 20 2; ex_let 7 5; ex_expr 21 2].
Definition ex_tree' := GNode 1 19 [ex_let 7 3; ex_expr 22 7; ex_let 7 5; ex_expr 21 2].

Example C13_example :
  wf_green ex_tree = true
  /\ map (fun i => option_map (fun x => fst (fst x)) (node_at ex_kr ex_tree [i])) [0; 1; 2; 3]%nat
     = [Some (Child Root 2 0 [GTok 9 7 1]); Some (Child Root 3 0 []);
        Some (Child Root 2 1 [GTok 9 7 1]); Some (Child Root 3 1 [])]
  /\ replace_at ex_tree [1%nat] (ex_expr 22 7) = Some ex_tree'
  /\ avoids_keys ex_kr ex_tree [1%nat] = true
  /\ id_at ex_kr ex_tree' [2; 1]%nat = id_at ex_kr ex_tree [2; 1]%nat
  /\ offset_at ex_kr ex_tree [2; 1]%nat = Some 7%N
  /\ offset_at ex_kr ex_tree' [2; 1]%nat = Some 12%N.
Proof. vm_compute. repeat split; reflexivity. Qed.

Print Assumptions C13_ids_injective.
Print Assumptions C13_ids_edit_stable.
Print Assumptions C13_offsets_current.
