(* Props/C18.v -- the property theorems of C18 (felt252 codec of Sierra programs: compression and
   serde) and the C14 kernel that lives on the same model (the deserializer is total and allocates
   within the input).  Each is closed by [exact] of a lemma proved in C18/.
   NOT covered here (explored on the implementation only, see props/c18.py): the text round trip
   parse . display, the JSON round trip of VersionedProgram, CASM equality of round-tripped
   programs and of id-replaced programs. *)
From C18 Require Import Compress Serde CompressProofs SerdeProofs SizeProofs DebugInfo DebugInfoProofs Corr.
Local Open Scope N_scope.

(* decompress inverts compress on every vector of big unsigned integers (felts or not).  The only
   side condition is the one every Rust slice of 24-byte elements meets: fewer than 2^63 elements
   (needed for usize::next_power_of_two and checked_add not to overflow). *)
Theorem C18_decompress_compress : forall vs : list N,
  lenN vs < 2 ^ 63 -> decompress (compress vs) = Some vs.
Proof. exact decompress_compress. Qed.

(* compress maps vectors of field elements to vectors of field elements (words_per_felt is small
   enough): needed because extract_sierra_program rejects felts >= P *)
Theorem C18_compress_felts : forall vs : list N,
  lenN vs < 2 ^ 63 -> Forall (fun v => v < PN) vs -> Forall (fun v => v < PN) (compress vs).
Proof. exact compress_felts. Qed.

(* Program::deserialize inverts Program::serialize, up to the debug names that Program's equality
   ignores, and consumes exactly the serialization, on every program the format can represent
   (ser_ok, Serde.v: ids/lengths in their Rust types' ranges, declaration ids sequential, params
   matching the signature, branch targets other than usize::MAX, generic ids of at most 31 bytes
   that are non-empty valid UTF-8 without leading NUL and do not collide with the hash of a
   supported long id, or members of SERDE_SUPPORTED_LONG_IDS).  [keccak]/[long_ids] are
   starknet_keccak and that list; the hypothesis is the injectivity the code relies on and is
   evaluated on the current list by every run (hyp_000.v, Corr.check_hyp). *)
Theorem C18_de_ser : forall (keccak : bytes -> N) (long_ids : list bytes),
  NoDup (map keccak long_ids) ->
  forall p, ser_ok keccak long_ids p = true ->
  exists l, ser_program keccak long_ids p = Some l
            /\ de_program keccak long_ids l = Some (strip_debug p, []).
Proof. exact de_ser. Qed.

(* sierra_from_felt252s (sierra_to_felt252s sv cv p) = (sv, cv, p): versions, compression and serde
   composed *)
Theorem C18_sierra_from_to : forall (keccak : bytes -> N) (long_ids : list bytes),
  NoDup (map keccak long_ids) ->
  forall sv cv p l,
  version_ok sv = true -> version_ok cv = true -> ser_ok keccak long_ids p = true ->
  ser_program keccak long_ids p = Some l -> lenN l < 2 ^ 63 ->
  exists fs, sierra_to keccak long_ids sv cv p = Some fs
             /\ sierra_from keccak long_ids fs = Some (sv, cv, strip_debug p).
Proof. exact sierra_from_to. Qed.

(* ... and the felts of the class are field elements when the uncompressed ones are (user type
   ids and |Value|s below P), so ContractClass::extract_sierra_program's range check passes *)
Theorem C18_sierra_to_felts : forall (keccak : bytes -> N) (long_ids : list bytes) sv cv p l fs,
  version_ok sv = true -> version_ok cv = true ->
  ser_program keccak long_ids p = Some l -> lenN l < 2 ^ 63 -> Forall (fun v => v < PN) l ->
  sierra_to keccak long_ids sv cv p = Some fs -> Forall (fun v => v < PN) fs.
Proof. exact sierra_to_felts. Qed.

(* C14 kernel: the deserializer is a total function (de_program is a Gallina term: it terminates
   on every felt vector, by structural recursion on element counts it has already checked against
   the unread input); every allocation it makes through vec_with_bounded_capacity is at most the
   number of felts still unread, which is at most the length of the input; and whatever it
   accepts, it has read exactly one felt per scalar of the program it built (sz_program,
   C18/SizeProofs.v), so the result is never larger than the input *)
Theorem C14_de_total_bounded : forall (keccak : bytes -> N) (long_ids : list bytes) (l : list N),
  Forall (fun '(size, remaining) => size <= remaining /\ remaining <= lenN l)
         (alloc_requests keccak long_ids l)
  /\ match de_program keccak long_ids l with
     | Some (p, rest) => lenN l = sz_program p + lenN rest
     | None => True
     end.
Proof. exact de_total_bounded_size. Qed.

(* the one allocation of decompress is at most 31 slots per input felt *)
Theorem C14_decompress_alloc_bounded : forall pv size bound,
  decompress_alloc pv = Some (size, bound) -> size <= bound /\ bound <= 31 * lenN pv.
Proof. exact decompress_alloc_bounded. Qed.

(* the debug-info path of ContractClass::extract_sierra_program(true): DebugInfo::extract records
   the names of the declared ids, DebugInfo::populate puts them back at every occurrence - in the
   declarations, inside the generic arguments of type and libfunc declarations (types, libfuncs,
   user functions), in statements and function signatures.  names_consistent (DebugInfo.v): every
   occurrence of an id carries the name of its declaration; variables and user types carry none. *)
Theorem C18_debug_info_roundtrip : forall p,
  names_consistent p = true -> populate (extract p) (strip_debug p) = p.
Proof. exact populate_extract_strip. Qed.

(* ---- non-vacuity ---- *)
(* "storage_address_from_base_and_offset" (36 bytes) with its real starknet_keccak *)
Definition ex_long : bytes :=
  [115; 116; 111; 114; 97; 103; 101; 95; 97; 100; 100; 114; 101; 115; 115; 95; 102; 114; 111;
   109; 95; 98; 97; 115; 101; 95; 97; 110; 100; 95; 111; 102; 102; 115; 101; 116].
Definition ex_tab : long_tab_t :=
  [(ex_long, 0x2679d68052ccd03a53755ca9169677965fbd93e489df62f5f40d4f03c24f7a4)].
(* a program with every GenericArg kind, a negative value, a value >= 2^128, a long id, a declared
   type info word, a three-branch invocation with a fallthrough, debug names *)
Definition ex_program : program :=
  {| type_decls :=
       [ {| td_id := id_ 0 [102; 101; 108; 116; 50; 53; 50]; td_generic := [102; 101; 108; 116; 50; 53; 50];
            td_args := []; td_info := None |};
         {| td_id := i_ 1; td_generic := [67; 111; 110; 115; 116];
            td_args := [GType (i_ 0); GValue (-5); GValue (2 ^ 200); GValue 0;
                        GUserType (utd_ 0x1baeba72e79e9db2587cf44fedb2f3700b2075a5e8e39a562584862c4b71f62 [83]);
                        GUserFunc (i_ 0); GLibfunc (i_ 1)];
            td_info := ti_ true false true false |} ];
     libfunc_decls :=
       [ {| ld_id := i_ 0; ld_generic := ex_long; ld_args := [] |};
         {| ld_id := id_ 1 [100; 117; 112]; ld_generic := [100; 117; 112]; ld_args := [GType (i_ 0)] |} ];
     statements :=
       [ Invocation (i_ 1) [i_ 0] [ {| br_target := Fallthrough; br_results := [i_ 0; i_ 1] |} ];
         Invocation (i_ 0) [i_ 0; i_ 1]
           [ {| br_target := Fallthrough; br_results := [i_ 2] |};
             {| br_target := Target 0; br_results := [] |};
             {| br_target := Target (2 ^ 64 - 2); br_results := [id_ 3 [120]] |} ];
         Return [i_ 2] ];
     funcs :=
       [ {| f_id := id_ 0 [109; 97; 105; 110]; f_param_types := [i_ 0]; f_ret_types := [i_ 0; i_ 1];
            f_params := [ {| p_id := i_ 0; p_ty := id_ 0 [102] |} ]; f_entry := 0 |} ] |}.

Example C18_example :
  let kc := tab_keccak ex_tab in let ids := tab_ids ex_tab in
  NoDup (map kc ids)
  /\ ser_ok kc ids ex_program = true
  /\ (exists l fs, ser_program kc ids ex_program = Some l /\ lenN l = 61
        /\ sierra_to kc ids (1, 9, 3) (2, 12, 0) ex_program = Some fs
        /\ sierra_from kc ids fs = Some ((1, 9, 3), (2, 12, 0), strip_debug ex_program)
        /\ negb (program_eqb (strip_debug ex_program) ex_program) = true).
Proof.
  cbv zeta. split; [|split].
  - repeat constructor. intros [].
  - vm_compute. reflexivity.
  - eexists. eexists. split; [vm_compute; reflexivity|].
    split; [vm_compute; reflexivity|]. split; [vm_compute; reflexivity|].
    split; vm_compute; reflexivity.
Qed.

(* a program with a coupon type (user function inside a TYPE declaration), function_call, a
   libfunc argument and a nested named type, all named consistently *)
Definition ex_named : program :=
  let u8 := id_ 0 [117; 56] in
  let cp := id_ 1 [67; 111; 117; 112; 111; 110; 60; 117; 115; 101; 114; 64; 102; 62] in
  let f := id_ 0 [102] in
  let call := id_ 0 [99; 97; 108; 108] in
  {| type_decls :=
       [ {| td_id := u8; td_generic := [117; 56]; td_args := []; td_info := None |};
         {| td_id := cp; td_generic := [67; 111; 117; 112; 111; 110];
            td_args := [GUserFunc f; GType u8; GLibfunc call; GValue (-1); GUserType (ut_ 5)];
            td_info := None |} ];
     libfunc_decls :=
       [ {| ld_id := call; ld_generic := [99; 97; 108; 108]; ld_args := [GUserFunc f; GType cp] |} ];
     statements := [ Invocation call [i_ 0] [ {| br_target := Fallthrough; br_results := [i_ 1] |} ];
                     Return [i_ 1] ];
     funcs := [ {| f_id := f; f_param_types := [cp]; f_ret_types := [u8];
                   f_params := [ {| p_id := i_ 0; p_ty := cp |} ]; f_entry := 0 |} ] |}.
Example C18_example_debug_info :
  names_consistent ex_named = true
  /\ negb (program_eqb (strip_debug ex_named) ex_named) = true
  /\ program_eqb (populate (extract ex_named) (strip_debug ex_named)) ex_named = true.
Proof. repeat split; vm_compute; reflexivity. Qed.

(* compression: 300 distinct values, 43 of them above 2^251 (code size padded to 512, 27 words
   per felt, 12 packed felts) *)
Example C18_example_compress :
  let vs := map N.of_nat (seq 0 257) ++ map (fun k => 2 ^ 251 + N.of_nat k) (seq 0 43) in
  lenN vs < 2 ^ 63 /\ nthN (compress vs) 1 = Some 212 /\ lenN (compress vs) = 2 + 300 + 1 + 12
  /\ decompress (compress vs) = Some vs.
Proof. cbv zeta. repeat split; vm_compute; reflexivity. Qed.

Print Assumptions C18_decompress_compress.
Print Assumptions C18_compress_felts.
Print Assumptions C18_de_ser.
Print Assumptions C18_sierra_from_to.
Print Assumptions C18_sierra_to_felts.
Print Assumptions C18_debug_info_roundtrip.
Print Assumptions C14_de_total_bounded.
Print Assumptions C14_decompress_alloc_bounded.
