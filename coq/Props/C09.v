(* Props/C09.v -- the property theorems of C09 (the front end is total), and nothing else.
   What is theorem: the *model* of the lexer terminates with exactly one EndOfFile, every other
   terminal consumes at least one character, and neither fuel (lex_all, match_trivia) can run out.
   What is not: absence of panics / hangs in the Rust code (explored by harness/h10 on the real
   lexer, parser and formatter; never proved). *)
From Syntax Require Import Lexer LexerProofs TokenStream TokenStreamProofs.

(* lex_all never runs out of fuel; its result is ts ++ [EndOfFile]; no terminal of ts is
   EndOfFile and each has a non-empty token text; every trivium anywhere is non-empty. *)
Theorem C09_lexer_total_progress : forall s : str,
  lex_fuel (0%N :: s) (lexer_new s) <> None
  /\ exists ts t, lex_all s = ts ++ [t]
       /\ t_kind t = TEndOfFile
       /\ Forall (fun t => t_kind t <> TEndOfFile /\ t_text t <> []) ts
       /\ Forall terminal_ok (ts ++ [t]).
Proof. exact lexer_total_progress. Qed.

(* the trivia loop's fuel is never exhausted: any fuel longer than the remaining input gives the
   answer of match_trivia (whose fuel is the remaining input plus one) *)
Theorem C09_trivia_fuel_sufficient : forall fuel leading l,
  span_rev l = [] -> (length (rest l) < length fuel)%nat ->
  match_trivia_go fuel leading l = match_trivia leading l.
Proof. exact match_trivia_fuel_sufficient. Qed.

(* Every diagnostic the token-plumbing model reports (skip_token at EndOfFile, missing nodes, the
   merged skipped-token diagnostics, skip_until's span), over every operation sequence that
   respects the side conditions [ops_ok] (see Props/C10.v), has start <= end <= |source| - also
   after the final step of parse_syntax_file. *)
Theorem C09_diag_in_file : forall (src : str) (ops : list op), ops_ok src ops = true ->
  Forall (fun d => let '(_, a, b) := d in (a <= b)%N /\ (b <= str_width src)%N)
         (p_diags (run_ops src ops))
  /\ (peek_kind (run_ops src ops) = TEndOfFile ->
      Forall (fun d => let '(_, a, b) := d in (a <= b)%N /\ (b <= str_width src)%N)
             (p_diags (finish_file src (run_ops src ops)))).
Proof. exact diag_in_file. Qed.

(* non-vacuity: garbage (NUL, form feed, lone CR, unterminated string) still ends in EndOfFile *)
Example C09_example :
  let s := [0; 12; 13; 39; 97]%N in
  map t_kind (lex_all s) = [TBadCharacters; TBadCharacters; TShortString; TEndOfFile].
Proof. vm_compute. reflexivity. Qed.

Print Assumptions C09_lexer_total_progress.
Print Assumptions C09_trivia_fuel_sufficient.
Print Assumptions C09_diag_in_file.
