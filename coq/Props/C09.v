(* Props/C09.v -- the property theorems of C09 (the front end is total), and nothing else.
   What is theorem: the *model* of the lexer terminates with exactly one EndOfFile, every other
   terminal consumes at least one character, and neither fuel (lex_all, match_trivia) can run out.
   What is not: absence of panics / hangs in the Rust code (explored by harness/h10 on the real
   lexer, parser and formatter; never proved). *)
From Syntax Require Import Lexer LexerProofs Green TokenStream TokenStreamProofs Recovery RecoveryProofs.

(* lex_all never runs out of fuel; its result is ts ++ [EndOfFile]; no terminal of ts is
   EndOfFile and each has a non-empty token text; every trivium anywhere is non-empty. *)
Theorem C09_lexer_total_progress : forall s : str,
  lex_fuel (0%N :: s) (lexer_new s) <> None
  /\ exists ts t, lex_all s = ts ++ [t]
       /\ t_kind t = TEndOfFile
       /\ Forall (fun t => t_kind t <> TEndOfFile /\ t_text t <> []) ts
       /\ Forall terminal_ok (ts ++ [t]).
Proof. exact lexer_total_progress. Qed.

(* the trivia loop's fuel is never exhausted: any fuel longer than the remaining input gives the
   answer of match_trivia (whose fuel is the remaining input plus one) *)
Theorem C09_trivia_fuel_sufficient : forall fuel leading l,
  span_rev l = [] -> (length (rest l) < length fuel)%nat ->
  match_trivia_go fuel leading l = match_trivia leading l.
Proof. exact match_trivia_fuel_sufficient. Qed.

(* Every diagnostic the token-plumbing model reports (skip_token at EndOfFile, missing nodes, the
   merged skipped-token diagnostics, skip_until's span), over every operation sequence that
   respects the side conditions [ops_ok] (see Props/C10.v), has start <= end <= |source| - also
   after the final step of parse_syntax_file. *)
Theorem C09_diag_in_file : forall (src : str) (ops : list op), ops_ok src ops = true ->
  Forall (fun d => let '(_, a, b) := d in (a <= b)%N /\ (b <= str_width src)%N)
         (p_diags (run_ops src ops))
  /\ (peek_kind (run_ops src ops) = TEndOfFile ->
      Forall (fun d => let '(_, a, b) := d in (a <= b)%N /\ (b <= str_width src)%N)
             (p_diags (finish_file src (run_ops src ops)))).
Proof. exact diag_in_file. Qed.

(* The recovery loops of parser.rs - parse_list (item / statement / attribute / macro-rule lists),
   parse_separated_list_inner (every separated list, with its missing-separator and
   forbid_trailing_separator paths) and skip_until - over the token-plumbing model, for ANY
   element parser [try_parse] that meets the contract the real ones are written to: it keeps the
   plumbing invariant [RInv] and never un-reads; Ok means it consumed; DoNothing means it consumed
   (needed only when the loop goes on); and should_stop holds at EndOfFile.  Measure: [unread] =
   characters in the look-ahead or not yet lexed.  Every iteration either ends the loop or strictly
   decreases the measure, so fuel = unread + 1 is never exhausted: the loops terminate within
   |unread text| + 1 iterations for every token sequence.
   Which hypothesis is proved and which is checked per input: should_stop at EndOfFile is proved
   for all 39 stop predicates of parser.rs (C09_recovery_stop_sites); "keeps RInv, never
   un-reads" is proved for every element parser that acts through the plumbing operations
   (C09_recovery_element_ops; their side conditions are checked through the op log); "Ok / DoNothing
   consumed" are facts about ~60 grammar functions: checked on every iteration of the real loops
   through the hook's loop events (Corr.v check_loops), not proved. *)
Theorem C09_recovery_progress :
  forall (src : str) (try_parse : pstate -> tpr * pstate) (should_stop : tkind -> bool)
         (skipped_tag missing_tag : N) (separator : tkind) (forbid_trailing : option N),
  should_stop TEndOfFile = true -> separator <> TEndOfFile ->
  (forall s, RInv src s -> RInv src (snd (try_parse s))) ->
  (forall s, RInv src s -> (unread (snd (try_parse s)) <= unread s)%nat) ->
  (forall s, RInv src s -> fst (try_parse s) = POk -> (unread (snd (try_parse s)) < unread s)%nat) ->
  (forall s, RInv src s -> fst (try_parse s) = PDoNothing ->
     should_stop (peek_kind (snd (try_parse s))) = false ->
     (unread (snd (try_parse s)) < unread s)%nat) ->
  forall s, RInv src s ->
  (let r := parse_list_iter try_parse should_stop skipped_tag s in
   RInv src (snd r) /\ (fst r = true -> (unread (snd r) < unread s)%nat))
  /\ fst (parse_list try_parse should_stop skipped_tag s) = true
  /\ (forall nonempty,
      let r := sep_list_iter src try_parse should_stop skipped_tag separator missing_tag
                 forbid_trailing nonempty s in
      RInv src (snd r) /\ (fst (fst r) = true -> (unread (snd r) < unread s)%nat))
  /\ fst (parse_separated_list src try_parse should_stop skipped_tag separator missing_tag
            forbid_trailing s) = true
  /\ (should_stop (peek_kind s) = false -> (unread (snd (take_raw s)) < unread s)%nat)
  /\ should_stop (peek_kind (snd (skip_until_go (S (unread s)) should_stop None s))) = true.
Proof. exact recovery_progress. Qed.

(* every stop predicate the three loops are called with in parser.rs holds at EndOfFile, and no
   separator is EndOfFile *)
Theorem C09_recovery_stop_sites :
  Forall (fun site => snd site TEndOfFile = true) stop_sites
  /\ Forall (fun k => k <> TEndOfFile) separator_kinds.
Proof. exact (conj stop_sites_eof separators_not_eof). Qed.

(* element parsers made of plumbing operations keep RInv and never un-read; the loops are entered
   in RInv states (the initial state, and whatever admissible operations lead to) *)
Theorem C09_recovery_element_ops : forall (src : str) res_of ops_of,
  (forall s, RInv src s -> ops_ok2_from src s (ops_of s) = true) ->
  (forall s, RInv src s -> RInv src (snd (ops_element src res_of ops_of s)))
  /\ (forall s, RInv src s -> (unread (snd (ops_element src res_of ops_of s)) <= unread s)%nat).
Proof. exact ops_element_inv_mono. Qed.
Theorem C09_recovery_entry : forall (src : str) (ops : list op),
  ops_ok2_from src (parser_new src) ops = true -> RInv src (run_ops src ops).
Proof. exact rinv_reachable. Qed.

(* non-vacuity on a garbled input: the element parser "an item is the keyword fn" meets the
   contract, and the item list over `+ ] fn ) fn ; }  x` skips four tokens, takes two and stops
   at the `}` having consumed 14 of the 18 characters *)
Example C09_recovery_example :
  let src := str_of_string "+ ] fn ) fn ; }  x" in
  let stop := is_of_kind [k_rbrace] in
  ((forall s, RInv src s -> RInv src (snd (fn_element src s)))
   /\ (forall s, RInv src s -> (unread (snd (fn_element src s)) <= unread s)%nat)
   /\ (forall s, RInv src s -> fst (fn_element src s) = POk ->
         (unread (snd (fn_element src s)) < unread s)%nat)
   /\ (forall s, RInv src s -> fst (fn_element src s) = PDoNothing ->
         stop (peek_kind (snd (fn_element src s))) = false ->
         (unread (snd (fn_element src s)) < unread s)%nat))
  /\ RInv src (parser_new src) /\ stop TEndOfFile = true
  /\ let r := parse_list (fn_element src) stop 7%N (parser_new src) in
     fst r = true /\ peek_kind (snd r) = TRBrace /\ unread (parser_new src) = 18%nat
     /\ unread (snd r) = 4%nat /\ length (p_emitted (snd r)) = 2%nat.
Proof.
  cbv zeta. split; [|split; [apply parser_new_rinv|split; [reflexivity|vm_compute; repeat split]]].
  destruct (fn_element_contract (str_of_string "+ ] fn ) fn ; }  x")) as [A [B [C D]]].
  split; [exact A|]. split; [exact B|]. split; [exact C|]. intros s. apply D.
Qed.

(* non-vacuity: garbage (NUL, form feed, lone CR, unterminated string) still ends in EndOfFile *)
Example C09_example :
  let s := [0; 12; 13; 39; 97]%N in
  map t_kind (lex_all s) = [TBadCharacters; TBadCharacters; TShortString; TEndOfFile].
Proof. vm_compute. reflexivity. Qed.

Print Assumptions C09_lexer_total_progress.
Print Assumptions C09_trivia_fuel_sufficient.
Print Assumptions C09_diag_in_file.
Print Assumptions C09_recovery_progress.
Print Assumptions C09_recovery_stop_sites.
Print Assumptions C09_recovery_element_ops.
Print Assumptions C09_recovery_entry.
