(* Props/C06.v -- the property theorems of C06 (primitive integer / felt252 operations are exact),
   CASM layer, and nothing else.  For each verified libfunc, over the CASM that the compiler in
   /repo emits NOW (GenC03, regenerated on every check):
   * soundness (the C03 shape): every accepted run returns [Spec.op args];
   * completeness: with the HONEST hint answers (VmRun.honest, transcribed from
     cairo-lang-runner's execute_core_hint) the executable VM never fails on in-range arguments
     and returns [Spec.op args] -- for 8-bit types by a complete sweep of the 65 536 operand pairs.
   The user-visible operators (corelib glue, lowering, Sierra generation) are tied to
   Spec/Ops.v by the pipeline leg (exploration, not proof): see evidence/C06.json.
   Not covered: libfuncs outside the list; VmRun.v is a hand model of cairo-vm (flat addresses). *)
From Vmx Require Import VmRun.
From Spec Require Import Int Ops.
From Libfuncs Require Import Stmt CStmt UAddSubC UAddSub.
From GenC03 Require Import W_u8_overflowing_add W_u8_overflowing_sub.

Theorem C06_u8_overflowing_add_sound : uarith_sound uadd 8 code_u8_overflowing_add entry_u8_overflowing_add.
Proof. exact u8_overflowing_add_sound. Qed.
Theorem C06_u8_overflowing_add_complete : uarith_complete uadd 8 code_u8_overflowing_add entry_u8_overflowing_add.
Proof. exact u8_overflowing_add_complete. Qed.
Theorem C06_u8_overflowing_sub_sound : uarith_sound usub 8 code_u8_overflowing_sub entry_u8_overflowing_sub.
Proof. exact u8_overflowing_sub_sound. Qed.
Theorem C06_u8_overflowing_sub_complete : uarith_complete usub 8 code_u8_overflowing_sub entry_u8_overflowing_sub.
Proof. exact u8_overflowing_sub_complete. Qed.

(* the completeness statement unfolded once *)
Theorem C06_u8_overflowing_add_complete_unfolded : forall a b,
  0 <= a < 2 ^ 8 -> 0 <= b < 2 ^ 8 ->
  exists s' m',
    vm_run CFG (honest CFG) 0 code_u8_overflowing_add 64 0
           (init_st entry_u8_overflowing_add) (init_mem [RC0; a; b]) = Ok (s', m') /\
    lookup (ap s' - 3) m' = Some (RC0 + 1) /\
    (if a + b <? 2 ^ 8
     then lookup (ap s' - 2) m' = Some 0 /\ lookup (ap s' - 1) m' = Some (a + b)
     else lookup (ap s' - 2) m' = Some 1 /\ lookup (ap s' - 1) m' = Some (a + b - 2 ^ 8)).
Proof.
  intros a b Ha Hb.
  pose proof (u8_overflowing_add_complete a b Ha Hb) as H.
  unfold uarith_post, run_honest, uadd in H.
  destruct H as (s' & m' & H1 & H2 & H3).
  exists s', m'. split; [exact H1|]. split; [exact H2|].
  destruct (a + b <? 2 ^ 8); exact H3.
Qed.

(* non-vacuity / what the objects look like: 200 + 100 on u8 *)
Example C06_example :
  outputs (run_honest code_u8_overflowing_add entry_u8_overflowing_add 64 [RC0; 200; 100]) 3
    = Some [Some (RC0 + 1); Some 1; Some 44]
  /\ eval Ops.OAdd (U 8) [200; 100] = Some (Panic [0x75385f616464204f766572666c6f77] (* the felt of the short string `u8_add Overflow` *))
  /\ eval Ops.ORem (Ops.I 8) [-128; -1] = Some (Success [0]).
Proof.
  split; [vm_compute; reflexivity|]. split; vm_compute; reflexivity.
Qed.

Print Assumptions C06_u8_overflowing_add_sound.
Print Assumptions C06_u8_overflowing_add_complete.
Print Assumptions C06_u8_overflowing_sub_sound.
Print Assumptions C06_u8_overflowing_sub_complete.
Print Assumptions C06_u8_overflowing_add_complete_unfolded.
Print Assumptions C06_example.
