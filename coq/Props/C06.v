(* Props/C06.v -- the property theorems of C06 (primitive integer / felt252 operations are exact),
   CASM layer, and nothing else.  For each verified libfunc, over the CASM that the compiler in
   /repo emits NOW (GenC03, regenerated on every check):
   * soundness (the C03 shape): every accepted run returns [Spec.op args];
   * completeness: with the HONEST hint answers (VmRun.honest, transcribed from
     cairo-lang-runner's execute_core_hint) the executable VM never fails on in-range arguments
     and returns [Spec.op args] -- for 8-bit types by a complete sweep of the 65 536 operand pairs.
   The user-visible operators (corelib glue, lowering, Sierra generation) are tied to
   Spec/Ops.v by the pipeline leg (exploration, not proof): see evidence/C06.json.
   Not covered: libfuncs outside the list; VmRun.v is a hand model of cairo-vm (flat addresses). *)
From Vmx Require Import VmRun.
From Spec Require Import Int Ops.
From Libfuncs Require Import Stmt CStmt C8a C8b1 C8b2 C8b3 C8b4 C8c UAddSub Simple Mul DivMod_u8 IAdd ISub Sqrt.
From GenC03 Require Import W_i8_eq W_i8_overflowing_add W_i8_overflowing_sub W_i8_to_felt252
  W_i8_wide_mul W_u8_eq W_u8_is_zero W_u8_overflowing_add W_u8_overflowing_sub W_u8_safe_divmod
  W_u8_sqrt W_u8_to_felt252 W_u8_wide_mul W_upcast_i8_i128 W_upcast_i8_i16 W_upcast_i8_i32
  W_upcast_i8_i64 W_upcast_u8_i128 W_upcast_u8_i16 W_upcast_u8_i32 W_upcast_u8_i64
  W_upcast_u8_u128 W_upcast_u8_u16 W_upcast_u8_u32 W_upcast_u8_u64.

Theorem C06_u8_overflowing_add_sound : uarith_sound uadd 8 code_u8_overflowing_add entry_u8_overflowing_add.
Proof. exact u8_overflowing_add_sound. Qed.
Theorem C06_u8_overflowing_add_complete : uarith_complete uadd 8 code_u8_overflowing_add entry_u8_overflowing_add.
Proof. exact u8_overflowing_add_complete. Qed.
Theorem C06_u8_overflowing_sub_sound : uarith_sound usub 8 code_u8_overflowing_sub entry_u8_overflowing_sub.
Proof. exact u8_overflowing_sub_sound. Qed.
Theorem C06_u8_overflowing_sub_complete : uarith_complete usub 8 code_u8_overflowing_sub entry_u8_overflowing_sub.
Proof. exact u8_overflowing_sub_complete. Qed.
Theorem C06_u8_eq_sound : eq_sound code_u8_eq entry_u8_eq.
Proof. exact u8_eq_sound. Qed.
Theorem C06_u8_eq_complete : ueq_complete 8 code_u8_eq entry_u8_eq.
Proof. exact u8_eq_complete. Qed.
Theorem C06_u8_wide_mul_sound : uwide_mul_sound 8 code_u8_wide_mul entry_u8_wide_mul.
Proof. exact u8_wide_mul_sound. Qed.
Theorem C06_u8_wide_mul_complete : uwide_mul_complete 8 code_u8_wide_mul entry_u8_wide_mul.
Proof. exact u8_wide_mul_complete. Qed.
Theorem C06_u8_safe_divmod_sound : udivmod_sound 8 3 code_u8_safe_divmod entry_u8_safe_divmod.
Proof. exact u8_safe_divmod_sound. Qed.
Theorem C06_u8_safe_divmod_complete : udivmod_complete 8 3 code_u8_safe_divmod entry_u8_safe_divmod.
Proof. exact u8_safe_divmod_complete. Qed.
Theorem C06_i8_overflowing_add_sound : iarith_sound Z.add 8 2 1 code_i8_overflowing_add entry_i8_overflowing_add.
Proof. exact i8_overflowing_add_sound. Qed.
Theorem C06_i8_overflowing_add_complete : iarith_complete Z.add 8 2 1 code_i8_overflowing_add entry_i8_overflowing_add.
Proof. exact i8_overflowing_add_complete. Qed.
Theorem C06_i8_overflowing_sub_sound : iarith_sound Z.sub 8 2 1 code_i8_overflowing_sub entry_i8_overflowing_sub.
Proof. exact i8_overflowing_sub_sound. Qed.
Theorem C06_i8_overflowing_sub_complete : iarith_complete Z.sub 8 2 1 code_i8_overflowing_sub entry_i8_overflowing_sub.
Proof. exact i8_overflowing_sub_complete. Qed.
Theorem C06_i8_eq_sound : eq_sound code_i8_eq entry_i8_eq.
Proof. exact i8_eq_sound. Qed.
Theorem C06_i8_eq_complete : ieq_complete 8 code_i8_eq entry_i8_eq.
Proof. exact i8_eq_complete. Qed.
Theorem C06_i8_wide_mul_sound : iwide_mul_sound 8 code_i8_wide_mul entry_i8_wide_mul.
Proof. exact i8_wide_mul_sound. Qed.
Theorem C06_i8_wide_mul_complete : iwide_mul_complete 8 code_i8_wide_mul entry_i8_wide_mul.
Proof. exact i8_wide_mul_complete. Qed.
Theorem C06_u8_is_zero_sound : is_zero_sound code_u8_is_zero entry_u8_is_zero.
Proof. exact u8_is_zero_sound. Qed.
Theorem C06_u8_is_zero_complete : is_zero_complete 8 code_u8_is_zero entry_u8_is_zero.
Proof. exact u8_is_zero_complete. Qed.
Theorem C06_u8_to_felt252_sound : ident_sound code_u8_to_felt252 entry_u8_to_felt252.
Proof. exact u8_to_felt252_sound. Qed.
Theorem C06_u8_to_felt252_complete : uident_complete 8 code_u8_to_felt252 entry_u8_to_felt252.
Proof. exact u8_to_felt252_complete. Qed.
Theorem C06_u8_sqrt_sound : usqrt_sound 8 code_u8_sqrt entry_u8_sqrt.
Proof. exact u8_sqrt_sound. Qed.
Theorem C06_u8_sqrt_complete : usqrt_complete 8 code_u8_sqrt entry_u8_sqrt.
Proof. exact u8_sqrt_complete. Qed.
Theorem C06_i8_to_felt252_sound : ident_sound code_i8_to_felt252 entry_i8_to_felt252.
Proof. exact i8_to_felt252_sound. Qed.
Theorem C06_i8_to_felt252_complete : iident_complete 8 code_i8_to_felt252 entry_i8_to_felt252.
Proof. exact i8_to_felt252_complete. Qed.
Theorem C06_upcast_i8_i128_sound : ident_sound code_upcast_i8_i128 entry_upcast_i8_i128.
Proof. exact upcast_i8_i128_sound. Qed.
Theorem C06_upcast_i8_i128_complete : iident_complete 8 code_upcast_i8_i128 entry_upcast_i8_i128.
Proof. exact upcast_i8_i128_complete. Qed.
Theorem C06_upcast_i8_i16_sound : ident_sound code_upcast_i8_i16 entry_upcast_i8_i16.
Proof. exact upcast_i8_i16_sound. Qed.
Theorem C06_upcast_i8_i16_complete : iident_complete 8 code_upcast_i8_i16 entry_upcast_i8_i16.
Proof. exact upcast_i8_i16_complete. Qed.
Theorem C06_upcast_i8_i32_sound : ident_sound code_upcast_i8_i32 entry_upcast_i8_i32.
Proof. exact upcast_i8_i32_sound. Qed.
Theorem C06_upcast_i8_i32_complete : iident_complete 8 code_upcast_i8_i32 entry_upcast_i8_i32.
Proof. exact upcast_i8_i32_complete. Qed.
Theorem C06_upcast_i8_i64_sound : ident_sound code_upcast_i8_i64 entry_upcast_i8_i64.
Proof. exact upcast_i8_i64_sound. Qed.
Theorem C06_upcast_i8_i64_complete : iident_complete 8 code_upcast_i8_i64 entry_upcast_i8_i64.
Proof. exact upcast_i8_i64_complete. Qed.
Theorem C06_upcast_u8_i128_sound : ident_sound code_upcast_u8_i128 entry_upcast_u8_i128.
Proof. exact upcast_u8_i128_sound. Qed.
Theorem C06_upcast_u8_i128_complete : uident_complete 8 code_upcast_u8_i128 entry_upcast_u8_i128.
Proof. exact upcast_u8_i128_complete. Qed.
Theorem C06_upcast_u8_i16_sound : ident_sound code_upcast_u8_i16 entry_upcast_u8_i16.
Proof. exact upcast_u8_i16_sound. Qed.
Theorem C06_upcast_u8_i16_complete : uident_complete 8 code_upcast_u8_i16 entry_upcast_u8_i16.
Proof. exact upcast_u8_i16_complete. Qed.
Theorem C06_upcast_u8_i32_sound : ident_sound code_upcast_u8_i32 entry_upcast_u8_i32.
Proof. exact upcast_u8_i32_sound. Qed.
Theorem C06_upcast_u8_i32_complete : uident_complete 8 code_upcast_u8_i32 entry_upcast_u8_i32.
Proof. exact upcast_u8_i32_complete. Qed.
Theorem C06_upcast_u8_i64_sound : ident_sound code_upcast_u8_i64 entry_upcast_u8_i64.
Proof. exact upcast_u8_i64_sound. Qed.
Theorem C06_upcast_u8_i64_complete : uident_complete 8 code_upcast_u8_i64 entry_upcast_u8_i64.
Proof. exact upcast_u8_i64_complete. Qed.
Theorem C06_upcast_u8_u128_sound : ident_sound code_upcast_u8_u128 entry_upcast_u8_u128.
Proof. exact upcast_u8_u128_sound. Qed.
Theorem C06_upcast_u8_u128_complete : uident_complete 8 code_upcast_u8_u128 entry_upcast_u8_u128.
Proof. exact upcast_u8_u128_complete. Qed.
Theorem C06_upcast_u8_u16_sound : ident_sound code_upcast_u8_u16 entry_upcast_u8_u16.
Proof. exact upcast_u8_u16_sound. Qed.
Theorem C06_upcast_u8_u16_complete : uident_complete 8 code_upcast_u8_u16 entry_upcast_u8_u16.
Proof. exact upcast_u8_u16_complete. Qed.
Theorem C06_upcast_u8_u32_sound : ident_sound code_upcast_u8_u32 entry_upcast_u8_u32.
Proof. exact upcast_u8_u32_sound. Qed.
Theorem C06_upcast_u8_u32_complete : uident_complete 8 code_upcast_u8_u32 entry_upcast_u8_u32.
Proof. exact upcast_u8_u32_complete. Qed.
Theorem C06_upcast_u8_u64_sound : ident_sound code_upcast_u8_u64 entry_upcast_u8_u64.
Proof. exact upcast_u8_u64_sound. Qed.
Theorem C06_upcast_u8_u64_complete : uident_complete 8 code_upcast_u8_u64 entry_upcast_u8_u64.
Proof. exact upcast_u8_u64_complete. Qed.

(* the completeness statement unfolded once *)
Theorem C06_u8_overflowing_add_complete_unfolded : forall a b,
  0 <= a < 2 ^ 8 -> 0 <= b < 2 ^ 8 ->
  outputs (run_honest code_u8_overflowing_add entry_u8_overflowing_add 200 [RC0; a; b]) 3
  = Some (if a + b <? 2 ^ 8
          then [Some (RC0 + 1); Some 0; Some (a + b)]
          else [Some (RC0 + 1); Some 1; Some (a + b - 2 ^ 8)]).
Proof.
  intros a b Ha Hb.
  pose proof (u8_overflowing_add_complete a b Ha Hb ltac:(discriminate)) as H.
  unfold run_outputs, sp_uarith, uadd in H. cbn [fst snd] in H.
  destruct (a + b <? 2 ^ 8); cbn [List.length map] in H; exact H.
Qed.

(* non-vacuity / what the objects look like: 200 + 100 on u8 *)
Example C06_example :
  outputs (run_honest code_u8_overflowing_add entry_u8_overflowing_add 200 [RC0; 200; 100]) 3
    = Some [Some (RC0 + 1); Some 1; Some 44]
  /\ eval Ops.OAdd (U 8) [200; 100] = Some (Panic [0x75385f616464204f766572666c6f77] (* the felt of the short string `u8_add Overflow` *))
  /\ eval Ops.ORem (Ops.I 8) [-128; -1] = Some (Success [0]).
Proof.
  split; [vm_compute; reflexivity|]. split; vm_compute; reflexivity.
Qed.

Definition C06_all_theorems :=
  (C06_u8_overflowing_add_sound, C06_u8_overflowing_add_complete,
   C06_u8_overflowing_sub_sound, C06_u8_overflowing_sub_complete,
   C06_u8_eq_sound, C06_u8_eq_complete,
   C06_u8_wide_mul_sound, C06_u8_wide_mul_complete,
   C06_u8_safe_divmod_sound, C06_u8_safe_divmod_complete,
   C06_i8_overflowing_add_sound, C06_i8_overflowing_add_complete,
   C06_i8_overflowing_sub_sound, C06_i8_overflowing_sub_complete,
   C06_i8_eq_sound, C06_i8_eq_complete,
   C06_i8_wide_mul_sound, C06_i8_wide_mul_complete,
   C06_u8_is_zero_sound, C06_u8_is_zero_complete,
   C06_u8_to_felt252_sound, C06_u8_to_felt252_complete,
   C06_u8_sqrt_sound, C06_u8_sqrt_complete,
   C06_i8_to_felt252_sound, C06_i8_to_felt252_complete,
   C06_upcast_i8_i128_sound, C06_upcast_i8_i128_complete,
   C06_upcast_i8_i16_sound, C06_upcast_i8_i16_complete,
   C06_upcast_i8_i32_sound, C06_upcast_i8_i32_complete,
   C06_upcast_i8_i64_sound, C06_upcast_i8_i64_complete,
   C06_upcast_u8_i128_sound, C06_upcast_u8_i128_complete,
   C06_upcast_u8_i16_sound, C06_upcast_u8_i16_complete,
   C06_upcast_u8_i32_sound, C06_upcast_u8_i32_complete,
   C06_upcast_u8_i64_sound, C06_upcast_u8_i64_complete,
   C06_upcast_u8_u128_sound, C06_upcast_u8_u128_complete,
   C06_upcast_u8_u16_sound, C06_upcast_u8_u16_complete,
   C06_upcast_u8_u32_sound, C06_upcast_u8_u32_complete,
   C06_upcast_u8_u64_sound, C06_upcast_u8_u64_complete,
   C06_u8_overflowing_add_complete_unfolded,
   C06_example).
Print Assumptions C06_all_theorems.
Print Assumptions C06_u8_overflowing_add_complete.
Print Assumptions C06_i8_overflowing_sub_complete.
Print Assumptions C06_u8_overflowing_add_complete_unfolded.
Print Assumptions C06_example.
