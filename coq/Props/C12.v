(* Props/C12.v -- the property theorems of C12 (kernel), and nothing else.

   C12 as a whole ("same sources, same output, on any schedule") is about thread interleavings and
   query histories of the whole compiler; those cannot be exhibited by a Gallina model.  What is
   proved here is the kernel that makes schedule independence possible:
   (1) the canonical id replacer erases the interned ids (which are the schedule-dependent state);
   (2) iteration of the ordered collections is a function of the operation sequence only (not of
       the hasher);
   (3) the observers of the unordered map do not reveal insertion order / table order.
   The end-to-end sentence is explored differentially by harness/h12c (see props/c12.py). *)
From C12 Require Import Canon CanonProofs Maps OrderedProofs UnorderedProofs.
From Coq Require Import Permutation.
Local Open Scope N_scope.

(* (1) The canonical program does not depend on which ids interning handed out -- hence not on the
   schedule or query history that determined them.  [s] renames type, libfunc and function ids
   independently; it only has to be injective on the ids that occur in [p]. *)
Theorem C12_canon_invariant : forall (s : renaming) (p : program),
  injective_on (ids p) s -> well_formed p -> canon (rename s p) = canon p.
Proof. exact canon_invariant. Qed.

(* the same without well-formedness: also the `expect` panic and its kind are invariant *)
Theorem C12_canon_invariant_any : forall (s : renaming) (p : program),
  injective_on (ids p) s -> canon (rename s p) = canon p.
Proof. exact canon_invariant_strong. Qed.

(* on well-formed programs (every used id declared, declarations distinct) the replacer does not
   panic, its result is a fixed point, and the declared ids become 0,1,2,... in declaration order *)
Theorem C12_canon_total : forall p, well_formed p -> exists c, canon p = Ok c.
Proof. intros p H. eexists. apply canon_total. exact H. Qed.

Theorem C12_canon_idempotent : forall p c, well_formed p -> canon p = Ok c -> canon c = Ok c.
Proof. exact canon_idempotent. Qed.

Theorem C12_canon_declared_order : forall p c k, well_formed p -> canon p = Ok c ->
  declared k c = map N.of_nat (seq 0 (length (declared k p))).
Proof. exact canon_declared. Qed.

(* non-vacuity: a two-function program with generic arguments of all three id kinds, whose ids are
   renamed by a non-trivial injective renaming (swapping and shifting ids) *)
Definition ex_prog : program :=
  {| p_types := [ {| td_id := 40; td_generic := 0; td_args := []; td_info := None |};
                  {| td_id := 7;  td_generic := 1; td_args := [GType 40; GValue (-3)]; td_info := Some (true, true, false, false) |} ];
     p_libfuncs := [ {| ld_id := 9; ld_generic := 2; ld_args := [GType 7] |};
                     {| ld_id := 3; ld_generic := 3; ld_args := [GUserFunc 12; GLibfunc 9; GUserType 5] |} ];
     p_stmts := [ Invocation 3 [0] [(Fallthrough, [1])]; Invocation 9 [1] [(Statement 0, []); (Fallthrough, [2])];
                  Return [2] ];
     p_funcs := [ {| f_id := 12; f_param_types := [40]; f_ret_types := [7]; f_params := [(0, 40)]; f_entry := 0 |};
                  {| f_id := 5;  f_param_types := []; f_ret_types := []; f_params := []; f_entry := 2 |} ] |}.

Definition ex_ren : renaming :=
  fun k i => match k with
             | NsType => if N.eqb i 40 then 7 else if N.eqb i 7 then 40 else i
             | NsLibfunc => (i + 1000)%N
             | NsFunc => (17 - i)%N
             end.

Example C12_example :
  well_formed ex_prog /\ injective_on (ids ex_prog) ex_ren
  /\ rename ex_ren ex_prog <> ex_prog
  /\ canon (rename ex_ren ex_prog) = canon ex_prog
  /\ exists c, canon ex_prog = Ok c /\ declared NsType c = [0; 1]%N /\ declared NsLibfunc c = [0; 1]%N
               /\ p_stmts c = [ Invocation 1 [0%N] [(Fallthrough, [1%N])];
                                Invocation 0 [1%N] [(Statement 0, []); (Fallthrough, [2%N])]; Return [2%N] ].
Proof.
  assert (Hwf : well_formed ex_prog) by (apply well_formedb_sound; vm_compute; reflexivity).
  assert (Hinj : injective_on (ids ex_prog) ex_ren).
  { intros k a b Ha Hb. cbn in Ha, Hb.
    repeat (destruct Ha as [Ha|Ha]; [injection Ha as <- <-|]); try destruct Ha;
    repeat (destruct Hb as [Hb|Hb]; [try discriminate Hb; injection Hb as <-|]); try destruct Hb;
    vm_compute; intros H; try reflexivity; discriminate H. }
  split; [exact Hwf|]. split; [exact Hinj|]. split; [vm_compute; discriminate|].
  split; [apply canon_invariant; assumption|].
  eexists. split; [vm_compute; reflexivity|]. vm_compute. repeat split; reflexivity.
Qed.

(* (2) Iteration order of the ordered map / set is a function of the insertion/removal sequence only.
   [h_run pl ops] is the hashed model of IndexMap (entries vector + index table, lookups through the
   table) run under an ARBITRARY placement [pl] of indices in the table (hash function, seed,
   capacity, probing history); [spec_run ops] is the association-list semantics, which does not
   mention [pl].  Operations: insert (overwrite keeps the position), entry().or_insert / set insert,
   swap_remove, shift_remove, pop, clear. *)
Theorem C12_ordered_iteration : forall (pl : placement) (ops : list oop),
  h_to_list (h_run pl ops) = spec_run ops.
Proof. exact ordered_iteration. Qed.

Theorem C12_ordered_iteration_sequence_only : forall (pl1 pl2 : placement) (ops : list oop),
  h_to_list (h_run pl1 ops) = h_to_list (h_run pl2 ops).
Proof. exact ordered_iteration_sequence_only. Qed.

(* (3) Every observer the unordered map exposes is invariant under the raw table order: two tables
   holding the same finite map ([uequiv]: distinct keys, same get) answer identically.
   Map-valued observers (aggregate_by, filter, map) return [uequiv] tables again, so the statement
   composes.  Side conditions, stated precisely: iter_sorted_by_key needs a key that does not tie on
   the entries ([inj_on]); aggregate_by needs r (r a x) y = r (r a y) x ([left_comm]). *)
Theorem C12_unordered_observers : forall m1 m2, uequiv m1 m2 ->
  (forall k, u_get m1 k = u_get m2 k)
  /\ u_len m1 = u_len m2
  /\ (forall k, u_contains_key m1 k = u_contains_key m2 k)
  /\ u_iter_sorted m1 = u_iter_sorted m2
  /\ (forall f, inj_on f m1 -> u_iter_sorted_by_key f m1 = u_iter_sorted_by_key f m2)
  /\ (forall pl1 pl2 g r d, left_comm r -> uequiv (u_aggregate_by pl1 g r d m1) (u_aggregate_by pl2 g r d m2))
  /\ (forall pl1 pl2 p, uequiv (u_filter pl1 p m1) (u_filter pl2 p m2))
  /\ (forall pl1 pl2 f, uequiv (u_map pl1 f m1) (u_map pl2 f m2))
  /\ (forall n1 n2, uequiv n1 n2 -> u_eq m1 n1 = u_eq m2 n2).
Proof. exact unordered_observers. Qed.

(* ... and the tables are [uequiv] whenever the operation sequences agree on the last write of
   every key (last write wins; a remove is a write of "absent"), whatever the two placements: *)
Theorem C12_unordered_last_write_wins : forall pl1 pl2 ops1 ops2,
  (forall k, last_write ops1 k None = last_write ops2 k None) ->
  uequiv (u_run pl1 ops1) (u_run pl2 ops2).
Proof. exact unordered_runs. Qed.

(* in particular when distinct keys are inserted in a permuted order *)
Theorem C12_unordered_permuted_insertions : forall pl1 pl2 (l1 l2 : list entry),
  NoDup (map fst l1) -> Permutation l1 l2 ->
  uequiv (u_run pl1 (map uins l1)) (u_run pl2 (map uins l2)).
Proof. exact unordered_permuted_insertions. Qed.

(* the two side conditions cannot be dropped: these observers DO reveal the raw order otherwise *)
Theorem C12_aggregate_by_needs_commutativity :
  exists m1 m2 pl, uequiv m1 m2 /\
    u_get (u_aggregate_by pl (fun _ => 0) (fun a v => 2 * a + v) 0 m1) 0
    <> u_get (u_aggregate_by pl (fun _ => 0) (fun a v => 2 * a + v) 0 m2) 0.
Proof. exact aggregate_by_order_sensitive. Qed.

Theorem C12_sorted_by_key_needs_injectivity :
  exists m1 m2, uequiv m1 m2 /\ u_iter_sorted_by_key (fun _ => 0) m1 <> u_iter_sorted_by_key (fun _ => 0) m2.
Proof. exact sorted_by_key_order_sensitive. Qed.

(* non-vacuity for the maps: an operation sequence with an overwrite and a swap_remove under two
   different placements; two insertion orders of an unordered map under two placements whose raw
   tables differ while all observers agree *)
Example C12_maps_example :
  let ops := [OInsert 5 1; OInsert 9 2; OInsert 7 3; OInsert 9 4; OSwapRemove 5; OEntryOrInsert 5 8] in
  let pa : placement := fun _ _ => O in
  let pb : placement := fun k n => n in
  h_table (h_run pa ops) <> h_table (h_run pb ops)
  /\ h_to_list (h_run pa ops) = [(7, 3); (9, 4); (5, 8)]
  /\ h_to_list (h_run pb ops) = [(7, 3); (9, 4); (5, 8)]
  /\ let l1 := [(3, 30); (1, 10); (2, 20)] in
     let l2 := [(2, 20); (3, 30); (1, 10)] in
     u_run pa (map uins l1) <> u_run pb (map uins l2)
     /\ uequiv (u_run pa (map uins l1)) (u_run pb (map uins l2))
     /\ u_iter_sorted (u_run pa (map uins l1)) = [(1, 10); (2, 20); (3, 30)].
Proof.
  cbv zeta. split; [vm_compute; discriminate|]. split; [vm_compute; reflexivity|].
  split; [vm_compute; reflexivity|]. split; [vm_compute; discriminate|].
  split; [|vm_compute; reflexivity].
  apply unordered_permuted_insertions.
  - cbn. repeat constructor; cbn; intuition discriminate.
  - symmetry. apply (Permutation_cons_append [(3, 30); (1, 10)] (2, 20)).
Qed.

Print Assumptions C12_canon_invariant.
Print Assumptions C12_canon_invariant_any.
Print Assumptions C12_canon_total.
Print Assumptions C12_canon_idempotent.
Print Assumptions C12_canon_declared_order.
Print Assumptions C12_ordered_iteration.
Print Assumptions C12_ordered_iteration_sequence_only.
Print Assumptions C12_unordered_observers.
Print Assumptions C12_unordered_last_write_wins.
Print Assumptions C12_unordered_permuted_insertions.
Print Assumptions C12_aggregate_by_needs_commutativity.
Print Assumptions C12_sorted_by_key_needs_injectivity.
