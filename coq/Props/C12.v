(* Props/C12.v -- the property theorems of C12 (kernel), and nothing else.

   C12 as a whole ("same sources, same output, on any schedule") is about thread interleavings and
   query histories of the whole compiler; those cannot be exhibited by a Gallina model.  What is
   proved here is the kernel that makes schedule independence possible:
   (1) the canonical id replacer erases the interned ids (which are the schedule-dependent state);
   (2) iteration of the ordered collections is a function of the operation sequence only (not of
       the hasher);
   (3) the observers of the unordered map do not reveal insertion order / table order.
   The end-to-end sentence is explored differentially by harness/h12c (see props/c12.py). *)
From C12 Require Import Canon CanonProofs.
Local Open Scope N_scope.

(* (1) The canonical program does not depend on which ids interning handed out -- hence not on the
   schedule or query history that determined them.  [s] renames type, libfunc and function ids
   independently; it only has to be injective on the ids that occur in [p]. *)
Theorem C12_canon_invariant : forall (s : renaming) (p : program),
  injective_on (ids p) s -> well_formed p -> canon (rename s p) = canon p.
Proof. exact canon_invariant. Qed.

(* the same without well-formedness: also the `expect` panic and its kind are invariant *)
Theorem C12_canon_invariant_any : forall (s : renaming) (p : program),
  injective_on (ids p) s -> canon (rename s p) = canon p.
Proof. exact canon_invariant_strong. Qed.

(* on well-formed programs (every used id declared, declarations distinct) the replacer does not
   panic, its result is a fixed point, and the declared ids become 0,1,2,... in declaration order *)
Theorem C12_canon_total : forall p, well_formed p -> exists c, canon p = Ok c.
Proof. intros p H. eexists. apply canon_total. exact H. Qed.

Theorem C12_canon_idempotent : forall p c, well_formed p -> canon p = Ok c -> canon c = Ok c.
Proof. exact canon_idempotent. Qed.

Theorem C12_canon_declared_order : forall p c k, well_formed p -> canon p = Ok c ->
  declared k c = map N.of_nat (seq 0 (length (declared k p))).
Proof. exact canon_declared. Qed.

(* non-vacuity: a two-function program with generic arguments of all three id kinds, whose ids are
   renamed by a non-trivial injective renaming (swapping and shifting ids) *)
Definition ex_prog : program :=
  {| p_types := [ {| td_id := 40; td_generic := 0; td_args := []; td_info := None |};
                  {| td_id := 7;  td_generic := 1; td_args := [GType 40; GValue (-3)]; td_info := Some (true, true, false, false) |} ];
     p_libfuncs := [ {| ld_id := 9; ld_generic := 2; ld_args := [GType 7] |};
                     {| ld_id := 3; ld_generic := 3; ld_args := [GUserFunc 12; GLibfunc 9; GUserType 5] |} ];
     p_stmts := [ Invocation 3 [0] [(Fallthrough, [1])]; Invocation 9 [1] [(Statement 0, []); (Fallthrough, [2])];
                  Return [2] ];
     p_funcs := [ {| f_id := 12; f_param_types := [40]; f_ret_types := [7]; f_params := [(0, 40)]; f_entry := 0 |};
                  {| f_id := 5;  f_param_types := []; f_ret_types := []; f_params := []; f_entry := 2 |} ] |}.

Definition ex_ren : renaming :=
  fun k i => match k with
             | NsType => if N.eqb i 40 then 7 else if N.eqb i 7 then 40 else i
             | NsLibfunc => (i + 1000)%N
             | NsFunc => (17 - i)%N
             end.

Example C12_example :
  well_formed ex_prog /\ injective_on (ids ex_prog) ex_ren
  /\ rename ex_ren ex_prog <> ex_prog
  /\ canon (rename ex_ren ex_prog) = canon ex_prog
  /\ exists c, canon ex_prog = Ok c /\ declared NsType c = [0; 1]%N /\ declared NsLibfunc c = [0; 1]%N
               /\ p_stmts c = [ Invocation 1 [0%N] [(Fallthrough, [1%N])];
                                Invocation 0 [1%N] [(Statement 0, []); (Fallthrough, [2%N])]; Return [2%N] ].
Proof.
  assert (Hwf : well_formed ex_prog) by (apply well_formedb_sound; vm_compute; reflexivity).
  assert (Hinj : injective_on (ids ex_prog) ex_ren).
  { intros k a b Ha Hb. cbn in Ha, Hb.
    repeat (destruct Ha as [Ha|Ha]; [injection Ha as <- <-|]); try destruct Ha;
    repeat (destruct Hb as [Hb|Hb]; [try discriminate Hb; injection Hb as <-|]); try destruct Hb;
    vm_compute; intros H; try reflexivity; discriminate H. }
  split; [exact Hwf|]. split; [exact Hinj|]. split; [vm_compute; discriminate|].
  split; [apply canon_invariant; assumption|].
  eexists. split; [vm_compute; reflexivity|]. vm_compute. repeat split; reflexivity.
Qed.

Print Assumptions C12_canon_invariant.
Print Assumptions C12_canon_invariant_any.
Print Assumptions C12_canon_total.
Print Assumptions C12_canon_idempotent.
Print Assumptions C12_canon_declared_order.
