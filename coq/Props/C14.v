(* Props/C14.v -- the proved kernel of C14 ("untrusted Sierra is handled totally").
   What is proved here fixes what the ANSWER of the untrusted-input entry points must be on the
   models (C18/Serde.v, C18/Compress.v of felt252_serde.rs / felt252_vec_compression.rs;
   Sierra/Annot.v of the acceptance pass): the deserialiser and the decompressor are total
   functions whose allocations are bounded by the input, and acceptance puts every index later
   stages use in range.  That the Rust code never panics / hangs / over-allocates is NOT proved:
   it is explored on the implementation by harness/h14 on every run (props/c14.py). *)
From Coq Require Import NArith ZArith List Bool Lia.
From C18 Require Compress Serde CompressProofs SerdeProofs Corr.
From Sierra Require Annot Closure Corr Examples.
From C14 Require DecompressTotal AnnotTotal.
Import ListNotations.

(* Program::deserialize (model) is a total function; every vec_with_bounded_capacity(size,
   remaining) request it makes satisfies size <= remaining <= |input|; it never returns more input
   than it was given.  [keccak]/[long_ids]: starknet_keccak and SERDE_SUPPORTED_LONG_IDS. *)
Theorem C14_de_total_bounded :
  forall (keccak : C18.Serde.bytes -> N) (long_ids : list C18.Serde.bytes) (l : list N),
  (exists r, C18.Serde.de_program keccak long_ids l = r)
  /\ Forall (fun '(size, remaining) => (size <= remaining /\ remaining <= C18.Compress.lenN l)%N)
            (C18.Serde.alloc_requests keccak long_ids l)
  /\ match C18.Serde.de_program keccak long_ids l with
     | Some (_, rest) => (C18.Compress.lenN rest <= C18.Compress.lenN l)%N
     | None => True
     end.
Proof. exact C18.SerdeProofs.de_total_bounded. Qed.

(* decompress (model) is total; when it answers, the output has exactly the length for which its
   one allocation was made, that allocation is at most 31 slots per input felt, and every output
   element was fetched from the code table at an in-range index (it is one of the input felts).
   Out-of-range indices, short inputs and oversized length fields end in None. *)
Theorem C14_decompress_total : forall (pv out : list N),
  C18.Compress.decompress pv = Some out ->
  exists bound, C18.Compress.decompress_alloc pv = Some (C18.Compress.lenN out, bound)
    /\ (C18.Compress.lenN out <= bound)%N /\ (bound <= 31 * C18.Compress.lenN pv)%N
    /\ Forall (fun v => In v pv) out.
Proof. exact C14.DecompressTotal.decompress_total. Qed.

(* the model of the acceptance pass always answers ... *)
Theorem C14_annot_total : forall p : Sierra.Annot.program,
  Sierra.Annot.annot_accepts p = true \/ Sierra.Annot.annot_accepts p = false.
Proof. exact C14.AnnotTotal.annot_total. Qed.

(* ... and when it accepts, every index it and the later stages use is in range: branch targets and
   entry points are statements of the program, callees are declared functions with a single branch,
   every return belongs to a declared function *)
Theorem C14_accepted_in_range : forall p : Sierra.Annot.program,
  Sierra.Annot.annot_accepts p = true ->
  (forall i iv b, Sierra.Closure.stmt_at p i = Some (Sierra.Annot.SInvoke iv) ->
     In b (Sierra.Annot.i_branches iv) ->
     (Sierra.Annot.b_target b < length (Sierra.Annot.stmts p))%nat)
  /\ (forall k f, nth_error (Sierra.Annot.funcs p) k = Some f ->
        (Sierra.Annot.f_entry f < length (Sierra.Annot.stmts p))%nat)
  /\ (forall i iv g, Sierra.Closure.stmt_at p i = Some (Sierra.Annot.SInvoke iv) ->
        Sierra.Annot.i_kind iv = Sierra.Annot.LfCall g ->
        (g < length (Sierra.Annot.funcs p))%nat /\ length (Sierra.Annot.i_branches iv) = 1%nat)
  /\ (forall i vs, Sierra.Closure.stmt_at p i = Some (Sierra.Annot.SReturn vs) ->
        exists k, (k < length (Sierra.Annot.funcs p))%nat).
Proof. exact C14.AnnotTotal.accepted_in_range. Qed.

(* ---- non-vacuity ---- *)
(* a compressed vector that decompresses (300 values, code table padded to 512) and the allocation
   it makes; a truncated one and one with an oversized length field are rejected *)
Example C14_example_decompress :
  let vs := (map N.of_nat (seq 0 300)) in
  let pv := C18.Compress.compress vs in
  C18.Compress.decompress pv = Some vs
  /\ C18.Compress.decompress_alloc pv = Some (300, 12 * 27)%N
  /\ C18.Compress.decompress (firstn 200 pv) = None
  /\ C18.Compress.decompress (map (fun v => if (v =? 300)%N then (2 ^ 40)%N else v) pv) = None.
Proof. cbv zeta. repeat split; vm_compute; reflexivity. Qed.

(* the deserialiser on a length field that promises more elements than there is input: rejected,
   with no allocation at all; and on a well-formed empty program: accepted, four allocations of 0 *)
Example C14_example_de :
  let kc := C18.Corr.tab_keccak [] in
  C18.Serde.de_program kc [] [1000; 1; 2]%N = None
  /\ C18.Serde.alloc_requests kc [] [1000; 1; 2]%N = []
  /\ C18.Serde.alloc_requests kc [] [0; 0; 0; 0]%N = [(0, 3); (0, 2); (0, 1); (0, 0)]%N.
Proof. cbv zeta. repeat split; vm_compute; reflexivity. Qed.

Example C14_example_annot :
  Sierra.Annot.annot_accepts Sierra.Examples.ex_prog = true
  /\ Sierra.Annot.annot_accepts
       (Sierra.Corr.P [Sierra.Corr.I Sierra.Corr.KOther [] []
                         [Sierra.Corr.B 7 [] [] (Some 0%Z) Sierra.Annot.TNone [0%Z]] None]
                      [Sierra.Corr.F 0 [] [] None None]) = false.
Proof. split; vm_compute; reflexivity. Qed.

Print Assumptions C14_de_total_bounded.
Print Assumptions C14_decompress_total.
Print Assumptions C14_annot_total.
Print Assumptions C14_accepted_in_range.
