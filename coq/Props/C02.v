(* Props/C02.v -- the proved kernel of C02 ("accepted Sierra always runs to completion").
   Proved, over the model of the acceptance pass (Sierra/Annot.v) and the abstract Sierra machine
   (Sierra/Sem.v): a reachable configuration of an accepted program is never stuck, and in a
   gas-checked accepted program there is no loop whose declared costs are all non-negative with one
   of them positive - every such loop goes through a gas-withdrawing branch.
   NOT proved (explored on the implementation by harness/h14run on every run): that each libfunc's
   CASM + honest hints never fails in the VM (the abstract machine's [branch_dyn] assumes a libfunc
   branch just happens), termination of callees, and the cost-table fact that every backward edge
   has a positive declared cost. *)
From Coq Require Import ZArith List Bool Lia.
From Sierra Require Import Annot Closure Vmap Sem Corr Examples.
From C02 Require Import Progress Cycles.
Import ListNotations.
Open Scope Z_scope.

(* Every reachable configuration of an accepted program is safe (its statement exists; an invocation
   finds all its arguments present with exactly the declared types; a return finds exactly the
   declared return types and leaves nothing behind - C15's [safe]) and can continue: at a libfunc
   that is not a function call EVERY branch has a successor configuration inside the program. *)
Theorem C02_progress : forall p prices,
  annot_accepts p = true -> gas_uniformb p = true -> Forall (fun x => 0 <= x) prices ->
  forall k c, reach p prices k c ->
    safe p k c
    /\ match stmt_at p (c_pc c) with
       | Some (SReturn _) => True
       | Some (SInvoke iv) =>
           (forall g, i_kind iv <> LfCall g) ->
           forall b, In b (i_branches iv) ->
             exists c', reach p prices k c' /\ c_pc c' = b_target b
                        /\ (c_pc c' < length (stmts p))%nat
       | None => False
       end.
Proof. exact accepted_progress. Qed.

(* In an accepted program compiled with gas checking, around every cycle of the statement graph
   through a reachable statement the declared branch costs sum to zero for every token price
   vector; so a cycle with a branch of positive price contains a branch of negative price (a
   gas-withdrawing branch). *)
Theorem C02_cycles_pay : forall p prices,
  annot_accepts p = true -> gas_uniformb p = true -> Forall (fun x => 0 <= x) prices ->
  forall k f cf c bs,
    nth_error (funcs p) k = Some f -> f_cost f = Some cf ->
    reach p prices k c -> path p (c_pc c) (c_pc c) bs ->
    (forall ps, path_cost ps bs = 0)
    /\ forall ps, (exists b, In b bs /\ 0 < price_with ps (b_gas b)) ->
                  exists b', In b' bs /\ price_with ps (b_gas b') < 0.
Proof. exact accepted_cycles_pay. Qed.

(* ---- non-vacuity: a loop  1: withdraw{ok->2, fail->5}  2: align  3: body  4: jump 1  ---- *)
Definition b12 := B 2 [] [] (Some 0) TNone [-300].
Definition b23 := B 3 [] [] (Some 0) TNone [0].
Definition b34 := B 4 [] [] (Some 0) TNone [100].
Definition b41 := B 1 [] [] (Some 0) TNone [200].
Definition ex_loop : program :=
  P [ I KOther [] [] [B 1 [] [] (Some 0) TNone [0]] (Some 0);
      I KOther [] [] [b12; B 5 [] [] (Some 0) TNone [100]] (Some 0);
      I KAlign [] [] [b23] (Some 0);
      I KOther [] [] [b34] (Some 0);
      I KOther [] [] [b41] None;
      I KAlign [] [] [B 6 [] [] (Some 0) TNone [0]] (Some 0);
      R [] ]
    [ F 0 [] [] (Some [100]) (Some 0) ].

Example C02_example :
  annot_accepts ex_loop = true /\ gas_uniformb ex_loop = true
  /\ (exists c, reach ex_loop [1] 0 c /\ c_pc c = 1%nat)
  /\ path ex_loop 1 1 [b12; b23; b34; b41]
  /\ path_cost [1] [b12; b23; b34; b41] = 0
  /\ 0 < price_with [1] (b_gas b34) /\ price_with [1] (b_gas b12) < 0.
Proof.
  split; [vm_compute; reflexivity|]. split; [vm_compute; reflexivity|]. split; [|split].
  - eexists. split.
    + eapply (reach_step ex_loop [1] 0 _ _ (B 1 [] [] (Some 0) TNone [0]) _ _ _ 0 0).
      * eapply (reach_init ex_loop [1] 0); reflexivity.
      * reflexivity.
      * left. reflexivity.
      * intros g H. discriminate.
      * cbn. reflexivity.
      * cbn. reflexivity.
      * split; [intros k H; inversion H; reflexivity | cbn; lia].
    + reflexivity.
  - eapply path_cons; [reflexivity | left; reflexivity |].
    eapply path_cons; [reflexivity | left; reflexivity |].
    eapply path_cons; [reflexivity | left; reflexivity |].
    eapply path_cons; [reflexivity | left; reflexivity |].
    apply path_nil.
  - repeat split; vm_compute; reflexivity.
Qed.

(* the checker rejects the same loop without the withdrawal (the jump's cost has nowhere to come from) *)
Example C02_example_free_loop_rejected :
  annot_accepts
    (P [ I KOther [] [] [B 1 [] [] (Some 0) TNone [0]] (Some 0);
         I KOther [] [] [B 2 [] [] (Some 0) TNone [100]] (Some 0);
         I KOther [] [] [B 1 [] [] (Some 0) TNone [100]] None ]
       [ F 0 [] [] (Some [1000]) (Some 0) ]) = false.
Proof. vm_compute. reflexivity. Qed.

Print Assumptions C02_progress.
Print Assumptions C02_cycles_pay.
