(* Props/C19.v -- the property theorems of C19, and nothing else.  Each is closed by [exact] of a
   lemma proved in C19/, and [Print Assumptions] follows.  Model: C19/Class.v. *)
From C19 Require Import Class CheckProofs LayoutProofs.
From Coq Require Import Sorting.Sorted.

(* Segment lengths.  get_segment_lengths subtracts consecutive start offsets in usize; the code
   relies on the offsets being non-decreasing, starting at 0 and not exceeding the bytecode length
   (otherwise: panic, see segments_unsorted_panics).  Under that precondition the lengths are all
   positive and add up to the bytecode length. *)
Theorem C19_segments_sum : forall offs len,
  StronglySorted Z.le offs -> hd_error offs = Some 0 -> last offs 0 <= len ->
  exists ls, get_segment_lengths offs len = Some ls /\ sumZ ls = len /\ Forall (fun n => 0 < n) ls.
Proof. exact segments_sum. Qed.

(* ... and the precondition is met by the offsets the compilation itself assigns (statement start
   offsets accumulated from instruction sizes >= 0, const segments laid out after the code):
   compute_bytecode_segment_lengths never panics there, and when it does not reject the program
   (NoFunctionStartAtZero / JumpOutsideFunction) the leaves are positive and add up to the length of
   the assembled bytecode.  [fe] = the functions' entry statements, which must exist. *)
Theorem C19_segments_sum_layout : forall max c seg_lens L fe stmts,
  compile_layout max c seg_lens = Ok L ->
  nonneg_code c -> Forall (fun n => 0 <= n) seg_lens ->
  Forall (fun e => 0 <= e < Z.of_nat (length c)) fe ->
  let len := assembled_len c seg_lens in
  match compute_bytecode_segment_lengths fe stmts (map s_start (l_infos L)) (l_total_seg L)
          (l_seg_offsets L) len with
  | Ok n => sumZ (leaves n) = len /\ (0 < len -> Forall (fun x => 0 < x) (leaves n))
  | Err _ => True
  | Panic => False
  end.
Proof. exact segments_sum_layout. Qed.

(* Selector order: the tuple_windows check accepts exactly the strictly increasing lists. *)
Theorem C19_selectors_sorted : forall l,
  check_selectors l = None <-> StronglySorted Z.lt l.
Proof. intros l. split; [apply check_selectors_sorted|apply sorted_check_selectors]. Qed.

(* Builtins: an accepted entry point has parameters  bs ++ [gas; system; span]  and returns
   bs ++ [gas; system; panic_result]  (same type ids), gas/system resolve to GasBuiltin/System, and
   the generic ids of bs form a duplicate-free subsequence of ENTRY_POINT_BUILTIN_ORDER; the builtin
   names of the CASM entry point are their snake-case names in that order. *)
Theorem C19_builtins_protocol_order : forall tt funcs e st names,
  validate_entry_point tt funcs e = Ok (st, names) ->
  exists f bs gs,
    nthZ funcs (ep_fidx e) = Some f /\ st = fn_entry f
    /\ entry_shape tt f bs gs
    /\ names = map builtin_name gs
    /\ subseq gs ORDER /\ NoDup gs.
Proof. exact validate_entry_point_ok. Qed.

(* ... and the check is exact: every function of that shape is accepted *)
Theorem C19_builtins_protocol_order_complete : forall tt funcs e f bs gs,
  nthZ funcs (ep_fidx e) = Some f -> entry_shape tt f bs gs -> subseq gs ORDER ->
  validate_entry_point tt funcs e = Ok (fn_entry f, map builtin_name gs).
Proof. exact validate_entry_point_complete. Qed.

(* Entry offsets: in each table of the produced class the i-th CASM entry point belongs to the i-th
   contract entry point (same selector), its offset is the recorded start offset of the entry
   statement of the function it names, and its builtins are as above ... *)
Theorem C19_entry_offset : forall k starts ext l1 ctor,
  class_entry_points k starts = Ok (ext, l1, ctor) ->
  Forall2 (entry_rel k starts) (k_external k) ext
  /\ Forall2 (entry_rel k starts) (k_l1_handler k) l1
  /\ Forall2 (entry_rel k starts) (k_constructor k) ctor.
Proof. exact class_entry_points_ok. Qed.

(* ... and the recorded start offset of a statement that compiles to at least one instruction is
   the bytecode offset at which its first instruction (index s_instr_idx) starts. *)
Theorem C19_entry_offset_first_instruction : forall max c seg_lens L k s info,
  compile_layout max c seg_lens = Ok L ->
  nth_error c k = Some s -> nth_error (l_infos L) k = Some info ->
  s_start info = instr_sizes (concat (firstn k c))
  /\ s_end info = s_start info + instr_sizes s
  /\ s_instr_idx info = Z.of_nat (length (concat (firstn k c)))
  /\ (s <> [] ->
      nth_error (instr_starts 0 (concat c)) (Z.to_nat (s_instr_idx info)) = Some (s_start info)).
Proof. exact statement_start_is_instruction_start. Qed.

(* everything an accepted class satisfies before compilation (sorted selectors in all three tables,
   at most two uses of a function, constructor shape, version) *)
Theorem C19_class_accepted : forall k ext l1 ctor,
  validate_class k = Ok (ext, l1, ctor) -> class_accepted k ext l1 ctor.
Proof. exact validate_class_ok. Qed.

(* Hint offsets: with instruction sizes >= 1, the keys of the hints table are exactly the start
   offsets of the instructions that carry hints; they are strictly increasing (no duplicate key)
   and lie inside the code. *)
Theorem C19_hint_offsets : forall is,
  Forall (fun i => 1 <= i_size i) is ->
  (forall pc, In pc (assemble_hints 0 is) -> In pc (instr_starts 0 is))
  /\ (forall pc, In pc (assemble_hints 0 is) <->
        exists m i, nth_error is m = Some i /\ i_hints i = true /\ pc = 0 + instr_sizes (firstn m is))
  /\ StronglySorted Z.lt (assemble_hints 0 is)
  /\ Forall (fun pc => 0 <= pc < 0 + instr_sizes is) (assemble_hints 0 is).
Proof.
  intros is Hpos. split; [intros pc; apply assemble_hints_incl|].
  split; [intros pc; apply assemble_hints_spec|]. apply assemble_hints_sorted. exact Hpos.
Qed.

(* Bytecode size limit: compile succeeds exactly when the assembled bytecode fits. *)
Theorem C19_bytecode_limit : forall max c seg_lens,
  nonneg_code c -> Forall (fun n => 0 <= n) seg_lens ->
  ((exists L, compile_layout max c seg_lens = Ok L) <-> assembled_len c seg_lens <= max).
Proof.
  intros max c seg_lens Hc Hs. split.
  - intros (L & HL). eapply compile_layout_limit. exact HL.
  - apply compile_layout_accepts; assumption.
Qed.

(* Canonical words: every word of the class bytecode is the canonical representative in [0, P) of
   the assembled (signed, unbounded) word.  (True of the code since /repo commit 5d200f2; before it
   negative multiples of P were mapped to P itself -- the boundary found by this check.) *)
Theorem C19_words_canonical : forall w, 0 <= canon w < P.
Proof. exact canon_range. Qed.

Theorem C19_words_canonical_value : forall w, canon w = w mod P.
Proof. exact canon_mod. Qed.

(* regression: the words that used to come out as P *)
Example C19_words_canonical_regression :
  canon (- P) = 0 /\ canon (- (2 * P)) = 0 /\ canon (- P - 1) = P - 1.
Proof. exact canon_negative_multiples. Qed.

(* non-vacuity: a two-function program with a const segment; entry point with two builtins *)
Example C19_example :
  let c : code := [[{| i_size := 2; i_hints := true |}; {| i_size := 1; i_hints := false |}]; [];
                   [{| i_size := 1; i_hints := false |}];
                   [{| i_size := 2; i_hints := false |}; {| i_size := 1; i_hints := true |}];
                   [{| i_size := 1; i_hints := false |}]] in
  let stmts := [Invoke [Fallthrough; Jump 2]; Invoke [Fallthrough]; Return;
                Invoke [Fallthrough]; Return] in
  exists L,
    compile_layout 12 c [3] = Ok L
    /\ map s_start (l_infos L) = [0; 3; 3; 4; 7]
    /\ assemble_hints 0 (concat c) = [0; 6]
    /\ compute_bytecode_segment_lengths [3; 0] stmts (map s_start (l_infos L)) (l_total_seg L)
         (l_seg_offsets L) (assembled_len c [3]) = Ok (Node [Leaf 4; Leaf 4; Leaf 4])
    /\ compile_layout 11 c [3] = Err CodeSizeLimitExceeded
    /\ (let tt := [ {| t_gid := RangeCheck; t_is_span := false; t_is_ret := false |};
                    {| t_gid := Poseidon; t_is_span := false; t_is_ret := false |};
                    {| t_gid := GasBuiltin; t_is_span := false; t_is_ret := false |};
                    {| t_gid := System; t_is_span := false; t_is_ret := false |};
                    {| t_gid := OtherG 0; t_is_span := true; t_is_ret := false |};
                    {| t_gid := OtherG 1; t_is_span := false; t_is_ret := true |} ] in
        let f := {| fn_entry := 3; fn_params := [0; 1; 2; 3; 4]; fn_rets := [0; 1; 2; 3; 5] |} in
        let k := {| k_major := 1; k_minor := 7; k_cur_major := 1; k_cur_minor := 7;
                    k_constructor := []; k_external := [{| ep_selector := 5; ep_fidx := 0 |}];
                    k_l1_handler := []; k_types := tt; k_funcs := [f] |} in
        class_entry_points k (map s_start (l_infos L))
        = Ok ([{| c_selector := 5; c_offset := 4; c_builtins := ["range_check"; "poseidon"]%string |}], [], [])
        /\ validate_entry_point tt [{| fn_entry := 3; fn_params := [1; 0; 2; 3; 4]; fn_rets := [1; 0; 2; 3; 5] |}]
             {| ep_selector := 5; ep_fidx := 0 |} = Err InvalidEntryPointSignatureWrongBuiltinsOrder).
Proof. cbv zeta. eexists. repeat split; vm_compute; reflexivity. Qed.

Print Assumptions C19_segments_sum.
Print Assumptions C19_segments_sum_layout.
Print Assumptions C19_selectors_sorted.
Print Assumptions C19_builtins_protocol_order.
Print Assumptions C19_builtins_protocol_order_complete.
Print Assumptions C19_entry_offset.
Print Assumptions C19_entry_offset_first_instruction.
Print Assumptions C19_class_accepted.
Print Assumptions C19_hint_offsets.
Print Assumptions C19_bytecode_limit.
Print Assumptions C19_words_canonical.
Print Assumptions C19_words_canonical_value.
