(* Props/C11.v -- the property theorems of C11 (and C09_linebreak_terminates), and nothing else.
   Each is closed by [exact] of a lemma proved in C11/, and [Print Assumptions] follows.
   What is theorem: the comment re-wrapper keeps every word of a comment (with its comment kind)
   in order, for every indent and width; at string level under [comment_safe]; the
   unconditional string-level statement and idempotence of the re-wrapper at full strength are
   refuted (only by comments containing TABs; the K1/K2 witnesses are repaired).  Idempotence of the whole formatter, and `parse (format t)`, are explored, not proved. *)
From C11 Require Import CommentSpec CommentProofs CommentWords LineBreak LineBreakTerm LineBreakTokens.

(* The lines format_leading_comment appends ([fmt_lines], before they are rendered) carry exactly
   the words of the input comment, each with the comment kind (#slashes, #exclamation marks) of
   its line, in order -- for every alnum table, indent and width (including the
   saturating-subtraction corner, where every word goes to its own line). *)
Theorem C11_comment_lines_words : forall alnum c indent w,
  flat_map cl_words (fmt_lines alnum c indent w) = comment_words c.
Proof. exact fmt_lines_words. Qed.

(* [format_leading_comment] is [trim] of those lines rendered one per line. *)
Theorem C11_comment_render : forall alnum c indent w,
  format_leading_comment alnum c indent w = trim (render indent (fmt_lines alnum c indent w)).
Proof. exact format_render. Qed.

(* String level: reading the output back the way the formatter reads comments gives the same
   words and comment kinds as the input, when no word of a line whose prefix does not end in a
   space starts with `/` or `!` ([comment_safe]). *)
Theorem C11_comment_words : forall alnum c indent w,
  comment_safe c = true ->
  comment_words (format_leading_comment alnum c indent w) = comment_words c.
Proof. exact comment_words_preserved. Qed.

(* After the repair of K1/K2 (e04b99a in /repo, mirrored in CommentWrap.word_step) the former
   witnesses are regressions: the model re-wraps them without losing a word or oscillating. *)
Example C11_k1_k2_repaired :
  let alnum := fun c => (97 <=? c) && (c <=? 122) in
  let k1 := [47;47;32;97;97;97;97;32;98;98;98;98;32;99;99;99;32;32;104;116;116;112;115;58;47;47;101;120;97;109;112;108;101;46;111;114;103;47;120] in
  let k2 := [47;47;97;32;47;98] in  (* "//a /b" *)
  format_leading_comment alnum (format_leading_comment alnum k1 4 20) 4 20 = format_leading_comment alnum k1 4 20
  /\ comment_words (format_leading_comment alnum k1 4 20) = comment_words k1
  /\ comment_words (format_leading_comment alnum k2 0 4) = comment_words k2.
Proof. vm_compute. repeat split. Qed.

(* Without a hypothesis the string-level statement is still false in the faithful model: when a
   TAB (or any whitespace other than a space) follows the slashes, Display's trim() glues the
   word to the prefix: "//<TAB>/x" -> "///x", a doc comment (replayed on the real formatter:
   candidate finding K9). [comment_safe] excludes it. *)
Theorem C11_comment_words_unsafe_refuted : forall alnum, exists c indent w,
  comment_words (format_leading_comment alnum c indent w) <> comment_words c.
Proof.
  intros alnum. exists [47;47;9;47;120], 0, 100.
  vm_compute. discriminate.
Qed.

(* Idempotence of the re-wrapper at equal indent and width, at full strength, is still false in
   the faithful model -- only for comments that contain whitespace other than spaces, at widths
   where a word does not fit: "// <TAB> x" at width 3 gives "// \n// x" (a line with a trailing
   space), then "//\n// x". *)
Theorem C11_comment_idempotent_refuted : forall alnum, exists c indent w,
  format_leading_comment alnum (format_leading_comment alnum c indent w) indent w
  <> format_leading_comment alnum c indent w.
Proof.
  intros alnum. exists [47;47;32;9;32;120], 0, 3.
  vm_compute. discriminate.
Qed.

(* ---- the line breaker (LineBuilder::build) ----
   [items_l]: the code tokens (non-blank Token components), the break points marked
   is_comma_if_broken, and the comments of a tree, in order, protected zones flattened.
   [evolves a b]: b is a with every comma point dropped, kept, or replaced by the token ",";
   every trailing comment unchanged; every leading comment passed through
   format_leading_comment zero or more times; nothing else added, lost or reordered. *)

(* C09: the two loops of break_line_tree run on the fuel [S (mu self)] (mu = number of break
   points and protected zones anywhere in the tree) and never exhaust it: build returns for every
   LineBuilder, width and tab size -- no hypothesis on the tree. *)
Theorem C09_linebreak_terminates : forall alnum max_line_width tab_size (self : builder),
  build alnum max_line_width tab_size self <> None.
Proof. exact build_total. Qed.

(* the same with the measure explicit: any fuel above the measure is enough *)
Theorem C09_linebreak_measure : forall alnum max_line_width tab_size fuel (self : builder),
  (mu_l (children self) < fuel)%nat ->
  break_line_tree alnum max_line_width tab_size fuel self <> None.
Proof. exact break_line_tree_fuel. Qed.

(* For every tree whose protected zones are all closed (what format_node hands over; checked
   on every dumped tree), every width and tab size -- i.e. whatever break choice the search
   makes: the final lines ([blt_leaves], the builders whose to_string() are the output lines)
   carry exactly the items of the tree after [evolves]. *)
Theorem C11_tokens_preserved : forall alnum max_line_width tab_size fuel (self : builder) leaves,
  closed_l (children self) = true ->
  blt_leaves alnum max_line_width tab_size fuel self = Some leaves ->
  evolves alnum max_line_width (items_l (children self)) (carried leaves)
  /\ break_line_tree alnum max_line_width tab_size fuel self = Some (map bshow leaves).
Proof.
  intros alnum w tab fuel self leaves Hc H. split.
  - exact (blt_leaves_carried alnum w tab fuel self leaves Hc H).
  - rewrite blt_leaves_show, H. reflexivity.
Qed.

(* the code tokens of the output lines are the code tokens of the tree, in order, with a ","
   at some of the is_comma_if_broken points *)
Theorem C11_tokens_preserved_list : forall alnum max_line_width tab_size fuel (self : builder) leaves,
  closed_l (children self) = true ->
  blt_leaves alnum max_line_width tab_size fuel self = Some leaves ->
  comma_ins (items_l (children self)) (toks (carried leaves)).
Proof.
  intros alnum w tab fuel self leaves Hc H. eapply evolves_toks. exact (blt_leaves_carried alnum w tab fuel self leaves Hc H).
Qed.

(* the comments of the output lines are the comments of the tree, in order; trailing comments
   are untouched, leading comments were passed through format_leading_comment *)
Theorem C11_comments_preserved : forall alnum max_line_width tab_size fuel (self : builder) leaves,
  closed_l (children self) = true ->
  blt_leaves alnum max_line_width tab_size fuel self = Some leaves ->
  Forall2 (fun x y => snd x = snd y /\ cmt_rel alnum max_line_width (snd x) (fst x) (fst y))
          (cmts (items_l (children self))) (cmts (carried leaves)).
Proof.
  intros alnum w tab fuel self leaves Hc H. apply evolves_cmts. exact (blt_leaves_carried alnum w tab fuel self leaves Hc H).
Qed.

(* down to the characters: the string build returns, whitespace removed, spells exactly the
   evolved items *)
Theorem C11_build_string : forall alnum max_line_width tab_size (self : builder) out,
  closed_l (children self) = true ->
  build alnum max_line_width tab_size self = Some out ->
  exists its, evolves alnum max_line_width (items_l (children self)) its
              /\ strip_ws out = strip_ws (texts its).
Proof. exact build_preserves. Qed.

(* non-vacuity of the line-breaker theorems: `f(aaaa, bbbb)` as the formatter builds it, at
   width 8: the argument list is broken, the comma point after the last argument gets its "," *)
Example C11_linebreak_example :
  let bp o c := Break {| is_empty_line_breakpoint := false; precedence := 3; break_indentation := IndentedWithTail;
                         is_optional := o; space_if_not_broken := false; is_single_breakpoint := false;
                         is_comma_if_broken := c |} in
  let sp := Break {| is_empty_line_breakpoint := false; precedence := 5; break_indentation := NotIndented;
                     is_optional := true; space_if_not_broken := true; is_single_breakpoint := false;
                     is_comma_if_broken := false |} in
  let tree := {| children := [Token [102]; Token [40]; bp true false;
                              Zone [Token [97;97;97;97]; Token [44]; sp; Token [98;98;98;98]] false [] 1;
                              bp true true; Token [41]; Token [59]];
                 is_open := true; pending := [] |} in
  closed_l (children tree) = true
  /\ build (fun _ => false) 8 4 tree
     = Some [102;40;10;32;32;32;32;97;97;97;97;44;10;32;32;32;32;98;98;98;98;44;10;41;59;10].
Proof. vm_compute. split; reflexivity. Qed.

(* non-vacuity: a two-line comment that is wrapped, merged with its continuation line and is
   prefix-safe *)
Example C11_example :
  let alnum := fun c => (97 <=? c) && (c <=? 122) in
  let c := [47;47;32;97;97;32;98;98;32;99;99;10;47;47;32;100;100] in  (* "// aa bb cc\n// dd" *)
  comment_safe c = true
  /\ format_leading_comment alnum c 0 8 = [47;47;32;97;97;32;98;98;10;47;47;32;99;99;32;100;100]
  /\ comment_words (format_leading_comment alnum c 0 8) = comment_words c.
Proof. vm_compute. repeat split. Qed.

Print Assumptions C11_comment_lines_words.
Print Assumptions C11_comment_render.
Print Assumptions C11_comment_words.
Print Assumptions C11_comment_words_unsafe_refuted.
Print Assumptions C11_comment_idempotent_refuted.
Print Assumptions C09_linebreak_terminates.
Print Assumptions C09_linebreak_measure.
Print Assumptions C11_tokens_preserved.
Print Assumptions C11_tokens_preserved_list.
Print Assumptions C11_comments_preserved.
Print Assumptions C11_build_string.
