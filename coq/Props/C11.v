(* Props/C11.v -- the property theorems of C11 (and C09_linebreak_terminates), and nothing else.
   Each is closed by [exact] of a lemma proved in C11/, and [Print Assumptions] follows.
   What is theorem: the comment re-wrapper keeps every word of a comment (with its comment kind)
   in order, for every indent and width; at string level under [comment_safe], and the
   unconditional string-level statement is refuted (K2); idempotence of the re-wrapper is refuted
   (K1).  Idempotence of the whole formatter, and `parse (format t)`, are explored, not proved. *)
From C11 Require Import CommentSpec CommentProofs CommentWords.

(* The lines format_leading_comment appends ([fmt_lines], before they are rendered) carry exactly
   the words of the input comment, each with the comment kind (#slashes, #exclamation marks) of
   its line, in order -- for every alnum table, indent and width (including the
   saturating-subtraction corner, where every word goes to its own line). *)
Theorem C11_comment_lines_words : forall alnum c indent w,
  flat_map cl_words (fmt_lines alnum c indent w) = comment_words c.
Proof. exact fmt_lines_words. Qed.

(* [format_leading_comment] is [trim] of those lines rendered one per line. *)
Theorem C11_comment_render : forall alnum c indent w,
  format_leading_comment alnum c indent w = trim (render indent (fmt_lines alnum c indent w)).
Proof. exact format_render. Qed.

(* String level: reading the output back the way the formatter reads comments gives the same
   words and comment kinds as the input, when no word of a line whose prefix does not end in a
   space starts with `/` or `!` ([comment_safe]). *)
Theorem C11_comment_words : forall alnum c indent w,
  comment_safe c = true ->
  comment_words (format_leading_comment alnum c indent w) = comment_words c.
Proof. exact comment_words_preserved. Qed.

(* Without the hypothesis the statement is false in the faithful model: known finding K2,
   replayed on the real formatter by the harness. *)
Theorem C11_comment_words_unsafe_refuted : forall alnum, exists c indent w,
  comment_words (format_leading_comment alnum c indent w) <> comment_words c.
Proof.
  intros alnum. exists [47;47;97;32;47;98], 0, 4. (* "//a /b" -> "//a\n///b" *)
  vm_compute. discriminate.
Qed.

(* Idempotence of the re-wrapper at equal indent and width is false in the faithful model: known
   finding K1 (a line that fills the width, two spaces, a word that does not fit). *)
Theorem C11_comment_idempotent_refuted : forall alnum, exists c indent w,
  format_leading_comment alnum (format_leading_comment alnum c indent w) indent w
  <> format_leading_comment alnum c indent w.
Proof.
  intros alnum.
  (* "// aaaa bbbb ccc  https://example.org/x" at indent 4, width 20 *)
  exists [47;47;32;97;97;97;97;32;98;98;98;98;32;99;99;99;32;32;104;116;116;112;115;58;47;47;101;120;97;109;112;108;101;46;111;114;103;47;120], 4, 20.
  vm_compute. discriminate.
Qed.

(* non-vacuity: a two-line comment that is wrapped, merged with its continuation line and is
   prefix-safe *)
Example C11_example :
  let alnum := fun c => (97 <=? c) && (c <=? 122) in
  let c := [47;47;32;97;97;32;98;98;32;99;99;10;47;47;32;100;100] in  (* "// aa bb cc\n// dd" *)
  comment_safe c = true
  /\ format_leading_comment alnum c 0 8 = [47;47;32;97;97;32;98;98;10;47;47;32;99;99;32;100;100]
  /\ comment_words (format_leading_comment alnum c 0 8) = comment_words c.
Proof. vm_compute. repeat split. Qed.

Print Assumptions C11_comment_lines_words.
Print Assumptions C11_comment_render.
Print Assumptions C11_comment_words.
Print Assumptions C11_comment_words_unsafe_refuted.
Print Assumptions C11_comment_idempotent_refuted.
