(* Props/C08.v -- the property theorems of C08 (second half: ownership violations are rejected),
   over the model C08/Borrow.v of the borrow checker and the declarative semantics C08/Spec.v. *)
From Coq Require Import List Bool Arith.
From C08 Require Import Lowered Borrow Spec Sound Complete.
Import ListNotations.

(* Soundness of the borrow checker (model of borrow_check/{mod,demand}.rs + analysis/backward.rs)
   for the declarative ownership semantics of Spec.v: if it reports nothing for a lowered function
   then no path of the function - through any sequence of match arms and gotos, ending at a Return,
   at a Panic or at a panicable call that panics - uses a non-copyable value after it was moved or
   lets a never-used value go out of scope that is neither Drop nor Destruct (nor, on a path that
   ends in a panic, PanicDestruct).  Contrapositive: a function with such a path gets a diagnostic
   (VariableMoved / VariableNotDropped / DesnappingANonCopyableType, or the analysis itself fails).
   Hypothesis remap_flags_ok: both sides of every remapping entry have the same capabilities (they
   have the same type in the compiler); the tie checks it on every translated function.
   PARTIAL with respect to the property: this is its second sentence, over the model; the first
   sentence (error-free programs compile) is explored by the impl-level oracle, not proved. *)
Theorem C08_borrow_sound : forall L : lowered,
  remap_flags_ok L = true -> borrow_check L = [] -> forall p : path, ~ bad L p.
Proof. exact borrow_sound. Qed.

(* use after move: v1 (not copyable) is passed to two calls *)
Definition ex_uam : lowered :=
  Low [0] false [mkv true true false false 0; mkv false true false false 1]
    [Blk [SStructConstruct [] 1; SCall false 2 [(1, 3)] []; SCall false 4 [(1, 5)] []] (EReturn [(0, 6)])].
Example C08_example_use_after_move :
  borrow_check ex_uam = [VariableMoved 1 5] /\ exec_path ex_uam (Path [] PEnd) = BadMoved 1.
Proof. split; vm_compute; reflexivity. Qed.

(* a value without Drop/Destruct is dropped on the arm of a match that does not consume it *)
Definition ex_nodrop : lowered :=
  Low [0] false [mkv true true false false 0; mkv false false false false 1]
    [Blk [SStructConstruct [] 1] (EMatch 2 [(0, 3)] [(1, []); (2, [])]);
     Blk [SCall false 4 [(1, 5)] []] (EReturn [(0, 6)]);
     Blk [] (EReturn [(0, 7)])].
Example C08_example_not_dropped :
  borrow_check ex_nodrop = [VariableNotDropped 1 1] /\ exec_path ex_nodrop (Path [2] PEnd) = BadNotDropped 1.
Proof. split; vm_compute; reflexivity. Qed.

(* accepted diamond: a non-droppable value re-assigned in one arm, merged by remappings *)
Definition ex_diamond : lowered :=
  Low [0] false [mkv true true false false 0; mkv false false false false 1; mkv false false false false 2;
                 mkv false false false false 3]
    [Blk [SStructConstruct [] 1] (EMatch 2 [(0, 3)] [(1, []); (2, [])]);
     Blk [SCall false 4 [(1, 5)] []; SStructConstruct [] 2] (EGoto 3 [(3, (2, 6))]);
     Blk [] (EGoto 3 [(3, (1, 7))]);
     Blk [SCall false 8 [(3, 9)] []] (EReturn [(0, 10)])].
Example C08_example_diamond :
  borrow_check ex_diamond = [] /\ remap_flags_ok ex_diamond = true /\
  exec_path ex_diamond (Path [1; 3] PEnd) = Good /\ exec_path ex_diamond (Path [2; 3] PEnd) = Good.
Proof. repeat split; vm_compute; reflexivity. Qed.

(* Completeness on the shape the mutation generator injects (NOT full completeness w.r.t. Spec.v):
   in a block reachable from the root, a non-copyable variable that is used twice - twice in one
   input list, or by two statements with no re-introduction in between ([double_use]) - is reported
   as VariableMoved, provided the analysis itself terminates normally. *)
Theorem C08_moved_detected : forall (L : lowered) (b : blockid) (blk : block) (v : var),
  ~ In (InternalError 0) (borrow_check L) ->
  reach L 0 b -> get_block L b = Some blk ->
  copyable L v = false -> double_use v (b_stmts blk) ->
  exists l, In (VariableMoved v l) (borrow_check L).
Proof. exact moved_detected. Qed.

Example C08_example_moved_detected_applies :
  ~ In (InternalError 0) (borrow_check ex_uam) /\ reach ex_uam 0 0 /\ copyable ex_uam 1 = false /\
  double_use 1 [SStructConstruct [] 1; SCall false 2 [(1, 3)] []; SCall false 4 [(1, 5)] []].
Proof.
  repeat split.
  - vm_compute. intros [H|[]]. discriminate.
  - apply reach_refl.
  - apply du_skip. apply du_split.
    + cbv. auto.
    + cbv. auto.
    + apply ul_here. cbv. auto.
Qed.

Print Assumptions C08_borrow_sound.
Print Assumptions C08_moved_detected.
