(* Props/C17_zoo.v -- libfunc-level premises of C17 (ap change) and C04 (cost) over the statements of
   the freshly compiled, un-pinned programs (examples, bug samples, instantiation zoo): GenZoo/Zoo.v is
   regenerated from /repo's (or $VERIF_REPO's) current tree on every check; see PathsZoo/ZooCost.v for
   what an entry is, what is excluded and why, and how builtin cost tokens are treated.
   [stmt_paths] enumerates EVERY control path of a statement's code (both arms of each jnz whatever the
   memory; a forward computed jump may land on any later instruction of the statement; paths through
   the canonical failing instruction [x] = [x] + k are dead), so the statements hold for every
   execution.  Not covered: statements with call / ret / absolute jumps ([stmt_paths] = None, listed by
   [zoo_uncovered_libfuncs]); ApChange other than Known; statements without branches. *)
From Coq Require Import String.
From Vmx Require Import Range.
From PathsZoo Require Import ZooCost.
From GenZoo Require Import Zoo.

Theorem C17_zoo_ap_exact : forall name c sts s ps p,
  In (name, c, sts) zoo_programs -> In s sts -> stmt_paths c s = Some ps -> In p ps ->
  exists tgt apc cost, In (tgt, apc, cost) (si_branches s) /\ r_exit p = tgt /\
    (forall k, apc = Some k -> r_apk p = k).
Proof. exact zoo_ap_exact. Qed.

(* step component of the declared cost only; store_local / withdraw_gas* / redeposit_gas excluded *)
Theorem C04_zoo_steps_bound : forall name c sts s ps p,
  In (name, c, sts) zoo_programs -> In s sts -> plain_cost s = true ->
  stmt_paths c s = Some ps -> In p ps ->
  exists tgt apc cost, In (tgt, apc, cost) (si_branches s) /\ r_exit p = tgt /\
    100 * r_steps p <= cost.
Proof. exact zoo_steps_bound. Qed.

(* non-vacuity: the table has covered statements with real paths *)
Example C17_zoo_example : exists name c sts s ps p,
  In (name, c, sts) zoo_programs /\ In s sts /\ plain_cost s = true /\ stmt_paths c s = Some ps /\
  In p ps /\ 0 < r_steps p.
Proof.
  assert (H : existsb (fun w : string * code * list stmt_info =>
                let '(_, c, sts) := w in
                existsb (fun s => plain_cost s && match stmt_paths c s with
                                  | Some (p :: _) => Z.ltb 0 (r_steps p)
                                  | _ => false end) sts) zoo_programs = true)
    by (vm_compute; reflexivity).
  apply existsb_exists in H. destruct H as ([[n c] sts] & Hw & H).
  apply existsb_exists in H. destruct H as (s & Hs & H).
  apply andb_prop in H. destruct H as [Hpl H].
  destruct (stmt_paths c s) as [[|p ps]|] eqn:E; try discriminate.
  exists n, c, sts, s, (p :: ps), p.
  split; [exact Hw|]. split; [exact Hs|]. split; [exact Hpl|]. split; [exact E|].
  split; [left; reflexivity|]. apply Z.ltb_lt. exact H.
Qed.

Print Assumptions C17_zoo_ap_exact.
Print Assumptions C04_zoo_steps_bound.
Print Assumptions C17_zoo_example.
Print zoo_covered_libfuncs.
Print zoo_uncovered_libfuncs.
Print zoo_paths_total.
