(* Props/C20.v -- the property theorems of C20, and nothing else.
   C20 (compiling against a crate cache = compiling the crate from source) is NOT proved end to end.
   Proved: (1) over the description of the `*Cached` mirror types that harness/h13 (h20 shape)
   regenerates from /repo's working tree on every run (coq/GenC20/Shape.v): every variant and field of
   every mirror is produced when saving and consumed when loading, no arm is hidden, the variant
   mapping of saving is inverted by loading, and the only exceptions are the listed ones;
   (2) the id-table scheme and the cached lowered IR round-trip (C20/Intern.v, C20/IR.v).
   The property itself is decided on the code by the differential oracle of harness/h13 (h20). *)
From Coq Require Import List String Bool.
From C20 Require Import ShapeDefs ShapeCheck ShapeExceptions ShapeProofs.
From GenC20 Require Import Shape.
Import ListNotations.
Local Open Scope string_scope.

(* the translator read all three files *)
Theorem C20_shape_complete : translator_errors = 0 /\ List.length shapes >= 100.
Proof. vm_compute. split; [reflexivity|]. repeat constructor. Qed.

(* every cached mirror type of defs/semantic/lowering cache/mod.rs is bijective up to the explicit
   exceptions of C20/ShapeExceptions.v, and every exception is needed *)
Theorem C20_shape_bijective :
  (forall t, In t shapes -> type_bijective exceptions_now t)
  /\ exceptions_used exceptions_now shapes = true.
Proof.
  split.
  - apply shapes_ok_sound. vm_compute. reflexivity.
  - vm_compute. reflexivity.
Qed.

(* non-vacuity: the mirror of the block ends of the lowered IR has five variants, each produced by
   `new`, each consumed by `embed`, and mapped back to the variant it came from *)
Example C20_example_block_end :
  In t_lowering_BlockEndCached shapes
  /\ ct_members t_lowering_BlockEndCached = ["NotSet"; "Return"; "Panic"; "Goto"; "Match"]
  /\ type_ok exceptions_now t_lowering_BlockEndCached = true
  /\ type_ok exceptions_now
       (mk_type "lowering" "BlockEndCached" KEnum ["NotSet"; "Return"; "Panic"; "Goto"; "Match"; "Extra"]
                (ct_fns t_lowering_BlockEndCached) [] []) = false.
Proof.
  split; [|vm_compute; repeat split; reflexivity].
  unfold shapes. repeat (first [left; reflexivity | right]).
Qed.

Print Assumptions C20_shape_complete.
Print Assumptions C20_shape_bijective.
