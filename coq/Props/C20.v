(* Props/C20.v -- the property theorems of C20, and nothing else.
   C20 (compiling against a crate cache = compiling the crate from source) is NOT proved end to end.
   Proved: (1) over the description of the `*Cached` mirror types that harness/h13 (h20 shape)
   regenerates from /repo's working tree on every run (coq/GenC20/Shape.v): every variant and field of
   every mirror is produced when saving and consumed when loading, no arm is hidden, the variant
   mapping of saving is inverted by loading, and the only exceptions are the listed ones;
   (2) the id-table scheme and the cached lowered IR round-trip (C20/Intern.v, C20/IR.v).
   The property itself is decided on the code by the differential oracle of harness/h13 (h20). *)
From Coq Require Import List String Bool Arith Lia.
From C20 Require Import ShapeDefs ShapeCheck ShapeExceptions ShapeProofs Intern InternProofs IR IRProofs.
From GenC20 Require Import Shape.
Import ListNotations.
Local Open Scope string_scope.

(* the translator read all three files *)
Theorem C20_shape_complete : translator_errors = 0 /\ List.length shapes >= 100.
Proof. vm_compute. split; [reflexivity|]. repeat constructor. Qed.

(* every cached mirror type of defs/semantic/lowering cache/mod.rs is bijective up to the explicit
   exceptions of C20/ShapeExceptions.v, and every exception is needed *)
Theorem C20_shape_bijective :
  (forall t, In t shapes -> type_bijective exceptions_now t)
  /\ exceptions_used exceptions_now shapes = true.
Proof.
  split.
  - apply shapes_ok_sound. vm_compute. reflexivity.
  - vm_compute. reflexivity.
Qed.

(* non-vacuity: the mirror of the block ends of the lowered IR has five variants, each produced by
   `new`, each consumed by `embed`, and mapped back to the variant it came from *)
Example C20_example_block_end :
  In t_lowering_BlockEndCached shapes
  /\ ct_members t_lowering_BlockEndCached = ["NotSet"; "Return"; "Panic"; "Goto"; "Match"]
  /\ type_ok exceptions_now t_lowering_BlockEndCached = true
  /\ type_ok exceptions_now
       (mk_type "lowering" "BlockEndCached" KEnum ["NotSet"; "Return"; "Panic"; "Goto"; "Match"; "Extra"]
                (ct_fns t_lowering_BlockEndCached) [] []) = false.
Proof.
  split; [|vm_compute; repeat split; reflexivity].
  unfold shapes. repeat (first [left; reflexivity | right]).
Qed.

(* ---- the id-table scheme (C20/Intern.v): for every history of insertions into the tables, every
   index that `new` handed out loads back, from the final tables, to the id it was handed out for ---- *)
Theorem C20_intern_roundtrip : forall (xs : list val) (is : list nat) (st' : stab),
  insert_all xs empty_tab = (is, st') ->
  Forall2 (fun i x => embed_id (Intern.lookup st') i = Some x) is xs.
Proof. exact intern_roundtrip. Qed.

(* one step, from any table that satisfies the invariant (which every reachable table does) *)
Theorem C20_intern_step : forall (v : val) (st : stab) (i : nat) (st' : stab),
  tab_ok st -> new_id v st = (i, st') ->
  tab_ok st' /\ extends (Intern.lookup st) (Intern.lookup st') /\ embed_id (Intern.lookup st') i = Some v.
Proof. exact new_id_ok. Qed.

(* the loader with the memo map returns what the plain loader returns *)
Theorem C20_intern_memo_agrees : forall f lk i v memo' x,
  embed_m f lk [] i = Some (v, memo') -> embed_id lk i = Some x -> v = x.
Proof. exact embed_m_agrees. Qed.

(* ---- the cached lowered IR (C20/IR.v): embed (new L) = L ---- *)
Theorem C20_ir_roundtrip : forall (L : lowered) (st : stab) (C : clowered) (st' : stab),
  tab_ok st -> wf_lowered L -> new_lowered L st = (C, st') ->
  embed_lowered (Intern.lookup st') C = Some L.
Proof. exact ir_roundtrip. Qed.

(* non-vacuity: a function with two variables of a tuple type, a call, a match on an enum with two
   arms, a goto with a remapping; saved into empty tables and loaded back *)
Definition ex_ty := V 1 [V 2 []; V 2 []].
Definition ex_loc (k : nat) := V 3 [V 4 [V k []]].
Definition ex_fn := V 5 [ex_ty; V 6 []].
Definition ex_lowered : lowered :=
  mk_lowered
    (mk_sig [ex_ty] [] (V 2 []) [V 7 []] true (ex_loc 0))
    [mk_var (Some (V 8 [ex_ty])) None None (Some (V 9 [])) ex_ty (ex_loc 1);
     mk_var None (Some (V 8 [V 2 []])) None None (V 2 []) (ex_loc 2)]
    [mk_block [SCall ex_fn [mk_vu 0 (ex_loc 3)] false [1] (ex_loc 4) false; SConst (V 10 []) 1 true]
              (EMatch (MEnum (V 11 [ex_ty]) (mk_vu 1 (ex_loc 5))
                             [IR.mk_arm (V 12 []) 1 [0]; IR.mk_arm (V 13 []) 1 []] (ex_loc 6)));
     mk_block [SSnapshot (mk_vu 0 (ex_loc 3)) 0 1] (EGoto 0 [(1, mk_vu 0 (ex_loc 1))])]
    [0].

Example C20_ir_example :
  wf_lowered ex_lowered /\
  (let r := new_lowered ex_lowered empty_tab in
   embed_lowered (Intern.lookup (snd r)) (fst r) = Some ex_lowered
   /\ List.length (Intern.lookup (snd r)) = 31).
Proof.
  split.
  - unfold wf_lowered. cbn. repeat (first [split | constructor | discriminate | unfold wf_vu; cbn; lia]).
  - vm_compute. split; reflexivity.
Qed.

Print Assumptions C20_shape_complete.
Print Assumptions C20_shape_bijective.
Print Assumptions C20_intern_roundtrip.
Print Assumptions C20_intern_step.
Print Assumptions C20_intern_memo_agrees.
Print Assumptions C20_ir_roundtrip.
