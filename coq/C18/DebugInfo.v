(* C18/DebugInfo.v -- model of crates/cairo-lang-sierra/src/debug_info.rs: DebugInfo::extract and
   DebugInfo::populate (the three name maps; annotations / executables do not take part), i.e. the
   step that puts the debug names back after a program was read from the felt252 form of a contract
   class (ContractClass::extract_sierra_program(true)).
   Model file: no proofs. *)
From C18 Require Export Serde.
Local Open Scope N_scope.

(* OrderedHashMap<Id, SmolStr> collected from an iterator of pairs; the key is the numeric id (the
   ids' Hash/Eq ignore the debug name); a later pair with an equal key replaces the value *)
Definition names := list (N * bytes).
Definition lookup (m : names) (i : N) : option bytes :=
  fold_left (fun acc kv => if fst kv =? i then Some (snd kv) else acc) m None.

Record debug_info := { type_names : names; libfunc_names : names; user_func_names : names }.

(* .filter_map(|decl| decl.id.debug_name.clone().map(|name| (Id::new(decl.id.id), name))) *)
Definition decl_names {A} (idof : A -> id64) (l : list A) : names :=
  flat_map (fun d => match cid_dbg (idof d) with
                     | Some n => [(cid_id (idof d), n)]
                     | None => []
                     end) l.

(* pub fn extract(program) *)
Definition extract (p : program) : debug_info :=
  {| type_names := decl_names td_id (type_decls p);
     libfunc_names := decl_names ld_id (libfunc_decls p);
     user_func_names := decl_names f_id (funcs p) |}.

(* fn try_replace_{type,libfunc,function}_id: if the map has the id, the name is overwritten *)
Definition try_replace (m : names) (i : id64) : id64 :=
  match lookup m (cid_id i) with
  | Some n => {| cid_id := cid_id i; cid_dbg := Some n |}
  | None => i
  end.

(* fn try_replace_generic_arg_ids *)
Definition populate_garg (d : debug_info) (g : generic_arg) : generic_arg :=
  match g with
  | GType t => GType (try_replace (type_names d) t)
  | GLibfunc l => GLibfunc (try_replace (libfunc_names d) l)
  | GUserFunc f => GUserFunc (try_replace (user_func_names d) f)
  | GValue _ | GUserType _ => g
  end.

(* pub fn populate(&self, program) *)
Definition populate (d : debug_info) (p : program) : program :=
  {| type_decls := map (fun x =>
       {| td_id := try_replace (type_names d) (td_id x); td_generic := td_generic x;
          td_args := map (populate_garg d) (td_args x); td_info := td_info x |}) (type_decls p);
     libfunc_decls := map (fun x =>
       {| ld_id := try_replace (libfunc_names d) (ld_id x); ld_generic := ld_generic x;
          ld_args := map (populate_garg d) (ld_args x) |}) (libfunc_decls p);
     statements := map (fun s =>
       match s with
       | Invocation l a b => Invocation (try_replace (libfunc_names d) l) a b
       | Return v => Return v
       end) (statements p);
     funcs := map (fun f =>
       {| f_id := try_replace (user_func_names d) (f_id f);
          f_param_types := map (try_replace (type_names d)) (f_param_types f);
          f_ret_types := map (try_replace (type_names d)) (f_ret_types f);
          f_params := map (fun q => {| p_id := p_id q; p_ty := try_replace (type_names d) (p_ty q) |})
                          (f_params f);
          f_entry := f_entry f |}) (funcs p) |}.

(* ---- programs that carry their names consistently: an id has, at every occurrence, the name its
   declaration(s) give it (none if undeclared or declared without a name); variables and user types
   have no name (DebugInfo has no place for them).  This is the invariant of compiler output. ---- *)
Definition oeqb (a b : option bytes) : bool :=
  match a, b with
  | Some x, Some y => bytes_eqb x y
  | None, None => true
  | _, _ => false
  end.
Definition id_cons (m : names) (i : id64) : bool := oeqb (cid_dbg i) (lookup m (cid_id i)).
Definition bare (i : id64) : bool := match cid_dbg i with None => true | Some _ => false end.
Definition garg_cons (d : debug_info) (g : generic_arg) : bool :=
  match g with
  | GType t => id_cons (type_names d) t
  | GLibfunc l => id_cons (libfunc_names d) l
  | GUserFunc f => id_cons (user_func_names d) f
  | GValue _ => true
  | GUserType u => match ut_dbg u with None => true | Some _ => false end
  end.
Definition names_consistent (p : program) : bool :=
  let d := extract p in
  forallb (fun x => id_cons (type_names d) (td_id x) && forallb (garg_cons d) (td_args x)) (type_decls p)
  && forallb (fun x => id_cons (libfunc_names d) (ld_id x) && forallb (garg_cons d) (ld_args x))
             (libfunc_decls p)
  && forallb (fun s => match s with
                       | Invocation l a b =>
                           id_cons (libfunc_names d) l && forallb bare a
                           && forallb (fun br => forallb bare (br_results br)) b
                       | Return v => forallb bare v
                       end) (statements p)
  && forallb (fun f => id_cons (user_func_names d) (f_id f)
                       && forallb (id_cons (type_names d)) (f_param_types f)
                       && forallb (id_cons (type_names d)) (f_ret_types f)
                       && forallb (fun q => bare (p_id q) && id_cons (type_names d) (p_ty q)) (f_params f))
             (funcs p).
