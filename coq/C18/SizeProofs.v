(* C18/SizeProofs.v -- C14 kernel, second half: whatever Program::deserialize accepts, it has read
   exactly one felt per scalar it built (sz_program), so its output is never larger than its input. *)
From C18 Require Import Compress Serde CompressProofs SerdeProofs.
From Coq Require Import Lia.
Local Open Scope N_scope.

(* ---------- C14: the deserializer builds no more than it reads ---------- *)
(* number of felts a value occupies in the input *)
Definition sumN (l : list N) : N := fold_right N.add 0 l.
Definition sz_ids (l : list id64) : N := 1 + lenN l.
Definition sz_gargs (l : list generic_arg) : N := 2 * lenN l.
Definition sz_type_decl (d : type_decl) : N := 2 + sz_gargs (td_args d).
Definition sz_libfunc_decl (d : libfunc_decl) : N := 2 + sz_gargs (ld_args d).
Definition sz_branch (b : branch) : N := 1 + sz_ids (br_results b).
Definition sz_statement (s : statement) : N :=
  match s with
  | Invocation _ a b => 2 + sz_ids a + (1 + sumN (map sz_branch b))
  | Return v => 1 + sz_ids v
  end.
Definition sz_func (f : func) : N :=
  sz_ids (f_param_types f) + sz_ids (f_ret_types f) + lenN (f_params f) + 1.
Definition sz_program (p : program) : N :=
  (1 + sumN (map sz_type_decl (type_decls p))) + (1 + sumN (map sz_libfunc_decl (libfunc_decls p)))
  + (1 + sumN (map sz_statement (statements p))) + (1 + sumN (map sz_func (funcs p))).

Definition exact {A} (m : M A) (sz : A -> N) : Prop :=
  forall l a l', snd (m l) = Some (a, l') -> lenN l = sz a + lenN l'.

Ltac inv_bind H :=
  rewrite snd_bind in H;
  match type of H with
  | match ?s with _ => _ end = _ =>
      let E := fresh "E" in destruct s as [[? ?]|] eqn:E; [|discriminate]
  end.
Lemma some_pair_inj {A B} (a a' : A) (b b' : B) : Some (a, b) = Some (a', b') -> a = a' /\ b = b'.
Proof. intros H. injection H. auto. Qed.
Ltac inv_ret H := rewrite snd_ret in H; apply some_pair_inj in H; destruct H as [<- <-].

Lemma exact_next : exact next (fun _ => 1).
Proof. intros [|x r] a l' H; cbn in H; [discriminate|]. injection H as <- <-. rewrite lenN_cons. lia. Qed.
Lemma exact_de_usize : exact de_usize (fun _ => 1).
Proof.
  intros l a l' H. unfold de_usize in H. inv_bind H. apply exact_next in E.
  destruct (n <? USIZE); [|discriminate]. inv_ret H. exact E.
Qed.
Lemma exact_de_u64 : exact de_u64 (fun _ => 1).
Proof.
  intros l a l' H. unfold de_u64 in H. inv_bind H. apply exact_next in E.
  destruct (n <? 2 ^ 64); [|discriminate]. inv_ret H. exact E.
Qed.
Lemma exact_de_bigint : exact de_bigint (fun _ => 1).
Proof. intros l a l' H. unfold de_bigint in H. inv_bind H. apply exact_next in E. inv_ret H. exact E. Qed.
Lemma exact_de_id : exact de_id (fun _ => 1).
Proof. intros l a l' H. unfold de_id in H. inv_bind H. apply exact_de_u64 in E. inv_ret H. exact E. Qed.
Lemma exact_de_user_type : exact de_user_type (fun _ => 1).
Proof. intros l a l' H. unfold de_user_type in H. inv_bind H. apply exact_next in E. inv_ret H. exact E. Qed.
Lemma bounded_inv size l u l' : snd (bounded size l) = Some (u, l') -> l' = l.
Proof. unfold bounded. destruct (lenN l <? size); cbn; [discriminate|]. intros H. injection H as _ <-. reflexivity. Qed.

Lemma exact_de_n {A} (e : M A) sz : exact e sz ->
  forall n l xs l', snd (de_n n e l) = Some (xs, l') ->
  lenN l = sumN (map sz xs) + lenN l' /\ length xs = n.
Proof.
  intros He. induction n as [|n IH]; intros l xs l' H; cbn [de_n] in H.
  - inv_ret H. cbn. split; [lia|reflexivity].
  - inv_bind H. inv_bind H. inv_ret H. apply He in E. apply IH in E0. destruct E0 as [E0 E1].
    cbn [map sumN fold_right length]. fold (sumN (map sz l1)). split; [lia|congruence].
Qed.
Lemma exact_de_n_from {A} (e : N -> M A) sz : (forall i, exact (e i) sz) ->
  forall n i l xs l', snd (de_n_from n i e l) = Some (xs, l') ->
  lenN l = sumN (map sz xs) + lenN l' /\ length xs = n.
Proof.
  intros He. induction n as [|n IH]; intros i l xs l' H; cbn [de_n_from] in H.
  - inv_ret H. cbn. split; [lia|reflexivity].
  - inv_bind H. inv_bind H. inv_ret H. apply He in E. apply IH in E0. destruct E0 as [E0 E1].
    cbn [map sumN fold_right length]. fold (sumN (map sz l1)). split; [lia|congruence].
Qed.
Lemma exact_de_vec {A} (e : M A) sz : exact e sz -> exact (de_vec e) (fun xs => 1 + sumN (map sz xs)).
Proof.
  intros He l xs l' H. unfold de_vec in H. inv_bind H. inv_bind H.
  apply exact_de_usize in E. apply bounded_inv in E0. subst.
  apply (exact_de_n e sz He) in H. lia.
Qed.
Lemma exact_de_seq {A} (e : N -> M A) sz : (forall i, exact (e i) sz) ->
  exact (de_seq e) (fun xs => 1 + sumN (map sz xs)).
Proof.
  intros He l xs l' H. unfold de_seq in H. inv_bind H. inv_bind H.
  apply exact_de_usize in E. apply bounded_inv in E0. subst.
  apply (exact_de_n_from e sz He) in H. lia.
Qed.
Lemma sumN_const {A} (l : list A) c : sumN (map (fun _ => c) l) = c * lenN l.
Proof. induction l as [|x l IH]; [cbn; lia|]. cbn [map sumN fold_right]. fold (sumN (map (fun _ => c) l)). rewrite IH, lenN_cons. lia. Qed.
Lemma exact_de_ids : exact (de_vec de_id) sz_ids.
Proof.
  intros l xs l' H. apply (exact_de_vec de_id (fun _ => 1) exact_de_id) in H.
  rewrite sumN_const in H. unfold sz_ids. lia.
Qed.
Lemma exact_de_target : exact de_target (fun _ => 1).
Proof. intros l a l' H. unfold de_target in H. inv_bind H. apply exact_de_usize in E. inv_ret H. exact E. Qed.
Lemma exact_de_branch : exact de_branch sz_branch.
Proof.
  intros l a l' H. unfold de_branch in H. inv_bind H. inv_bind H. inv_ret H.
  apply exact_de_target in E. apply exact_de_ids in E0. unfold sz_branch. cbn [br_results]. lia.
Qed.
Lemma exact_de_statement : exact de_statement sz_statement.
Proof.
  intros l a l' H. unfold de_statement in H. inv_bind H. apply exact_de_u64 in E.
  destruct (n =? 0).
  - inv_bind H. inv_bind H. inv_bind H. inv_ret H.
    apply exact_de_id in E0. apply exact_de_ids in E1.
    apply (exact_de_vec de_branch sz_branch exact_de_branch) in E2. cbn [sz_statement]. lia.
  - destruct (n =? 1); [|discriminate]. inv_bind H. inv_ret H. apply exact_de_ids in E0.
    cbn [sz_statement]. lia.
Qed.
Lemma exact_de_params tys : exact (de_params tys) (fun ps => lenN ps).
Proof.
  induction tys as [|t r IH]; intros l a l' H; cbn [de_params] in H.
  - inv_ret H. cbn. lia.
  - inv_bind H. inv_bind H. inv_ret H. apply exact_de_id in E. apply IH in E0. rewrite lenN_cons. lia.
Qed.
Lemma exact_de_func i : exact (de_func i) sz_func.
Proof.
  intros l a l' H. unfold de_func in H. inv_bind H. inv_bind H. inv_bind H. inv_bind H. inv_ret H.
  apply exact_de_ids in E, E0. apply exact_de_params in E1. apply exact_de_usize in E2.
  unfold sz_func. cbn [f_param_types f_ret_types f_params]. lia.
Qed.

Section SizeProofs.
Variable keccak : bytes -> N.
Variable long_ids : list bytes.

Lemma exact_de_generic_id : exact (de_generic_id keccak long_ids) (fun _ => 1).
Proof.
  intros l a l' H. unfold de_generic_id in H. inv_bind H. apply exact_next in E.
  destruct (long_name_fix keccak long_ids n).
  - inv_ret H. exact E.
  - destruct (utf8_valid (to_bytes_be n)); [|discriminate]. inv_ret H. exact E.
Qed.
Lemma exact_de_garg : exact de_garg (fun _ => 2).
Proof.
  intros l a l' H. unfold de_garg in H. inv_bind H. apply exact_de_usize in E.
  destruct (n =? 0); [inv_bind H; inv_ret H; apply exact_de_user_type in E0; lia|].
  destruct (n =? 1); [inv_bind H; inv_ret H; apply exact_de_id in E0; lia|].
  destruct (n =? 2); [inv_bind H; inv_ret H; apply exact_de_bigint in E0; lia|].
  destruct (n =? 3); [inv_bind H; inv_ret H; apply exact_de_id in E0; lia|].
  destruct (n =? 4); [inv_bind H; inv_ret H; apply exact_de_id in E0; lia|].
  destruct (n =? 5); [inv_bind H; inv_ret H; apply exact_de_bigint in E0; lia|].
  discriminate.
Qed.
Lemma exact_de_type_info i : exact (de_type_info keccak long_ids i) sz_type_decl.
Proof.
  intros l a l' H. unfold de_type_info in H. inv_bind H. inv_bind H.
  apply exact_de_generic_id in E. apply exact_de_bigint in E0.
  match type of H with snd ((if ?c then _ else _) _) = _ => destruct c end; [discriminate|].
  match type of H with snd ((if ?c then _ else _) _) = _ => destruct c end; [discriminate|].
  inv_bind H. inv_bind H. inv_ret H. apply bounded_inv in E1. subst.
  apply (exact_de_n de_garg (fun _ => 2) exact_de_garg) in E2. destruct E2 as [E2 _].
  rewrite sumN_const in E2. unfold sz_type_decl, sz_gargs. cbn [td_args]. lia.
Qed.
Lemma exact_de_libfunc_long i : exact (de_libfunc_long keccak long_ids i) sz_libfunc_decl.
Proof.
  intros l a l' H. unfold de_libfunc_long in H. inv_bind H. inv_bind H. inv_ret H.
  apply exact_de_generic_id in E. apply (exact_de_vec de_garg (fun _ => 2) exact_de_garg) in E0.
  rewrite sumN_const in E0. unfold sz_libfunc_decl, sz_gargs. cbn [ld_args]. lia.
Qed.

(* whatever the deserializer accepts, it has read exactly one felt per scalar it built: the
   program it returns is never larger than the input (no amplification) *)
Theorem de_program_size l p rest :
  de_program keccak long_ids l = Some (p, rest) -> lenN l = sz_program p + lenN rest.
Proof.
  unfold de_program, de_program_log. intros H.
  inv_bind H. inv_bind H. inv_bind H. inv_bind H. inv_ret H.
  apply (exact_de_seq _ _ exact_de_type_info) in E.
  apply (exact_de_seq _ _ exact_de_libfunc_long) in E0.
  apply (exact_de_vec _ _ exact_de_statement) in E1.
  apply (exact_de_seq _ _ exact_de_func) in E2.
  unfold sz_program. cbn [type_decls libfunc_decls statements funcs]. lia.
Qed.

Theorem de_total_bounded_size (l : list N) :
  Forall (fun '(size, remaining) => size <= remaining /\ remaining <= lenN l)
         (alloc_requests keccak long_ids l)
  /\ match de_program keccak long_ids l with
     | Some (p, rest) => lenN l = sz_program p + lenN rest
     | None => True
     end.
Proof.
  split; [apply (de_total_bounded keccak long_ids l)|].
  destruct (de_program keccak long_ids l) as [[p rest]|] eqn:E; [|exact I].
  exact (de_program_size l p rest E).
Qed.
End SizeProofs.
