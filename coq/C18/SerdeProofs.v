(* C18/SerdeProofs.v -- proofs about the model in Serde.v: the deserializer inverts the serializer on
   every program satisfying ser_ok (C18_de_ser), the full pipeline sierra_from . sierra_to, and
   the allocation bound of the deserializer (C14_de_total_bounded). *)
From C18 Require Import Compress Serde CompressProofs.
From Coq Require Import Lia.
Local Open Scope N_scope.
Ltac Zify.zify_post_hook ::= Z.div_mod_to_equations.

(* ---------- the deserializer monad ---------- *)
Lemma snd_bind {A B} (m : M A) (f : A -> M B) l :
  snd (bind m f l) = match snd (m l) with Some (a, l') => snd (f a l') | None => None end.
Proof.
  unfold bind. destruct (m l) as [lg [[a l']|]]; cbn [snd]; [|reflexivity].
  destruct (f a l'). reflexivity.
Qed.
Lemma snd_ret {A} (a : A) l : snd (ret a l) = Some (a, l).
Proof. reflexivity. Qed.

(* round trip of one serializer/deserializer pair, in any context [rest]; the serialization is
   never empty (vec_with_bounded_capacity relies on it: size <= remaining felts) *)
Definition rt {A} (ser : A -> option (list N)) (de : M A) (ok : A -> bool) (strip : A -> A) : Prop :=
  forall x rest, ok x = true ->
  exists l, ser x = Some l /\ l <> [] /\ snd (de (l ++ rest)) = Some (strip x, rest).

Lemma de_usize_ok n rest : n < USIZE -> snd (de_usize (n :: rest)) = Some (n, rest).
Proof.
  intros H. unfold de_usize. rewrite snd_bind. cbn [next snd].
  apply N.ltb_lt in H. rewrite H. reflexivity.
Qed.
Lemma de_u64_ok n rest : n < 2 ^ 64 -> snd (de_u64 (n :: rest)) = Some (n, rest).
Proof.
  intros H. unfold de_u64. rewrite snd_bind. cbn [next snd].
  apply N.ltb_lt in H. rewrite H. reflexivity.
Qed.
Lemma de_bigint_ok n rest : snd (de_bigint (n :: rest)) = Some (Z.of_N n, rest).
Proof. unfold de_bigint. rewrite snd_bind. reflexivity. Qed.

Lemma rt_id : rt ser_id de_id id_ok strip_id.
Proof.
  intros x rest Hok. unfold id_ok, u64_ok in Hok. apply N.ltb_lt in Hok.
  exists [cid_id x]. split; [reflexivity|]. split; [discriminate|].
  cbn [app]. unfold de_id. rewrite snd_bind, de_u64_ok by exact Hok. reflexivity.
Qed.

(* ---------- sequences ---------- *)
Lemma rt_list {A} ser (de : M A) ok strip : rt ser de ok strip ->
  forall l rest, forallb ok l = true ->
  exists o, ser_list ser l = Some o /\ (length l <= length o)%nat
            /\ snd (de_n (length l) de (o ++ rest)) = Some (map strip l, rest).
Proof.
  intros Hrt. induction l as [|x l IH]; intros rest Hall.
  - exists []. repeat split; reflexivity || (cbn; lia).
  - cbn [forallb] in Hall. apply andb_prop in Hall. destruct Hall as [Hx Hl].
    destruct (IH rest Hl) as (o & Ho & Hlen & Hde).
    destruct (Hrt x (o ++ rest) Hx) as (a & Ha & Hne & Hdx).
    exists (a ++ o). cbn [ser_list]. rewrite Ha, Ho. cbn [obind]. split; [reflexivity|]. split.
    + rewrite app_length. cbn [length]. destruct a; [congruence|cbn [length]; lia].
    + cbn [length de_n]. rewrite snd_bind, <- app_assoc, Hdx.
      rewrite snd_bind, Hde. reflexivity.
Qed.

Lemma bounded_ok size l : size <= lenN l -> snd (bounded size l) = Some (tt, l).
Proof.
  intros H. unfold bounded. apply N.ltb_ge in H. rewrite H. reflexivity.
Qed.

Lemma rt_vec {A} ser (de : M A) ok strip : rt ser de ok strip ->
  rt (ser_vec ser) (de_vec de) (fun l => len_ok l && forallb ok l) (map strip).
Proof.
  intros Hrt l rest Hok. apply andb_prop in Hok. destruct Hok as [Hlen Hall].
  unfold len_ok in Hlen. apply N.ltb_lt in Hlen.
  destruct (rt_list ser de ok strip Hrt l rest Hall) as (o & Ho & Hl & Hde).
  exists (lenN l :: o). unfold ser_vec. rewrite Ho. cbn [obind]. split; [reflexivity|].
  split; [discriminate|].
  cbn [app]. unfold de_vec. rewrite snd_bind, de_usize_ok by exact Hlen.
  rewrite snd_bind, bounded_ok.
  - unfold lenN. rewrite Nat2N.id. exact Hde.
  - unfold lenN. rewrite app_length. lia.
Qed.

Lemma rt_ids : rt (ser_vec ser_id) (de_vec de_id) ids_ok (map strip_id).
Proof. exact (rt_vec ser_id de_id id_ok strip_id rt_id). Qed.

(* declarations: the i-th gets id i *)
Lemma rt_seq {A} (idof : A -> N) ser (de : N -> M A) ok strip :
  (forall x rest, ok x = true ->
     exists l, ser x = Some l /\ l <> [] /\ snd (de (idof x) (l ++ rest)) = Some (strip x, rest)) ->
  forall l i rest, seq_ok idof ok i l = true ->
  exists o, ser_seq idof ser i l = Some o /\ (length l <= length o)%nat
            /\ snd (de_n_from (length l) i de (o ++ rest)) = Some (map strip l, rest).
Proof.
  intros Hrt. induction l as [|x l IH]; intros i rest Hall.
  - exists []. repeat split; reflexivity || (cbn; lia).
  - cbn [seq_ok] in Hall. apply andb_prop in Hall. destruct Hall as [Hall Hl].
    apply andb_prop in Hall. destruct Hall as [Hi Hx]. apply N.eqb_eq in Hi. subst i.
    destruct (IH (idof x + 1) rest Hl) as (o & Ho & Hlen & Hde).
    destruct (Hrt x (o ++ rest) Hx) as (a & Ha & Hne & Hdx).
    exists (a ++ o). cbn [ser_seq]. rewrite N.eqb_refl, Ha, Ho. cbn [obind].
    split; [reflexivity|]. split.
    + rewrite app_length. cbn [length]. destruct a; [congruence|cbn [length]; lia].
    + cbn [length de_n_from]. rewrite snd_bind, <- app_assoc, Hdx.
      rewrite snd_bind, Hde. reflexivity.
Qed.

Lemma de_seq_ok {A} (idof : A -> N) ser (de : N -> M A) ok strip :
  (forall x rest, ok x = true ->
     exists l, ser x = Some l /\ l <> [] /\ snd (de (idof x) (l ++ rest)) = Some (strip x, rest)) ->
  forall l rest, len_ok l = true -> seq_ok idof ok 0 l = true ->
  exists o, ser_seq idof ser 0 l = Some o
            /\ snd (de_seq de ((lenN l :: o) ++ rest)) = Some (map strip l, rest).
Proof.
  intros Hrt l rest Hlen Hall. unfold len_ok in Hlen. apply N.ltb_lt in Hlen.
  destruct (rt_seq idof ser de ok strip Hrt l 0 rest Hall) as (o & Ho & Hl & Hde).
  exists o. split; [exact Ho|].
  cbn [app]. unfold de_seq. rewrite snd_bind, de_usize_ok by exact Hlen.
  rewrite snd_bind, bounded_ok.
  - unfold lenN. rewrite Nat2N.id. exact Hde.
  - unfold lenN. rewrite app_length. lia.
Qed.

(* ---------- BigUint::from_bytes_be / to_bytes_be ---------- *)
Lemma from_bytes_snoc s b : from_bytes_be (s ++ [b]) = from_bytes_be s * 256 + b.
Proof. unfold from_bytes_be. rewrite fold_left_app. reflexivity. Qed.

Definition head_nz (s : bytes) : Prop := match s with [] => True | b :: _ => b <> 0 end.

Lemma head_nz_snoc s b : s <> [] -> head_nz (s ++ [b]) -> head_nz s.
Proof. destruct s; [congruence|]. intros _ H. exact H. Qed.

(* lower bound: a non-empty string with non-zero first byte reads as >= 256^(len-1) *)
Lemma from_bytes_lower s : s <> [] -> head_nz s -> Forall (fun b => b < 256) s ->
  256 ^ (lenN s - 1) <= from_bytes_be s.
Proof.
  induction s as [|b s IH] using rev_ind; intros Hne Hnz Hall; [congruence|].
  apply Forall_app in Hall. destruct Hall as [Hs Hb].
  rewrite from_bytes_snoc, lenN_app. change (lenN [b]) with 1.
  destruct s as [|c s'].
  - cbn. cbn in Hnz. lia.
  - assert (Hne' : c :: s' <> []) by discriminate.
    specialize (IH Hne' (head_nz_snoc _ _ Hne' Hnz) Hs).
    replace (lenN (c :: s') + 1 - 1) with (N.succ (lenN (c :: s') - 1))
      by (rewrite lenN_cons; lia).
    rewrite N.pow_succ_r by lia. lia.
Qed.

Lemma to_bytes_aux_from : forall s, head_nz s -> Forall (fun b => b < 256) s ->
  forall fuel acc, (length s <= fuel)%nat ->
  to_bytes_aux fuel (from_bytes_be s) acc = s ++ acc.
Proof.
  induction s as [|b s IH] using rev_ind; intros Hnz Hall fuel acc Hf.
  - destruct fuel; reflexivity.
  - apply Forall_app in Hall. destruct Hall as [Hs Hb]. inversion Hb as [|? ? Hb' _]; subst.
    rewrite app_length in Hf. cbn [length] in Hf.
    destruct fuel as [|f]; [lia|]. cbn [to_bytes_aux].
    rewrite from_bytes_snoc.
    assert (Hnz0 : from_bytes_be s * 256 + b <> 0).
    { destruct s as [|c s'].
      - cbn. cbn in Hnz. lia.
      - assert (Hne' : c :: s' <> []) by discriminate.
        pose proof (from_bytes_lower (c :: s') Hne' (head_nz_snoc _ _ Hne' Hnz) Hs) as Hlow.
        assert (0 < 256 ^ (lenN (c :: s') - 1)) by (apply N.neq_0_lt_0, N.pow_nonzero; lia).
        lia. }
    apply N.eqb_neq in Hnz0. rewrite Hnz0.
    replace ((from_bytes_be s * 256 + b) / 256) with (from_bytes_be s)
      by (symmetry; rewrite N.add_comm, N.div_add by lia; rewrite N.div_small by lia; lia).
    replace ((from_bytes_be s * 256 + b) mod 256) with b
      by (symmetry; rewrite N.add_comm, N.mod_add by lia; apply N.mod_small; lia).
    rewrite IH.
    + rewrite <- app_assoc. reflexivity.
    + destruct s as [|c s']; [exact I|]. apply (head_nz_snoc (c :: s') b); [discriminate|exact Hnz].
    + exact Hs.
    + lia.
Qed.

Lemma size_ge_len s : s <> [] -> head_nz s -> Forall (fun b => b < 256) s ->
  (length s <= N.to_nat (N.size (from_bytes_be s)))%nat.
Proof.
  intros Hne Hnz Hall. pose proof (from_bytes_lower s Hne Hnz Hall) as Hlow.
  set (n := from_bytes_be s) in *.
  assert (Hpos : 0 < 256 ^ (lenN s - 1)) by (apply N.neq_0_lt_0, N.pow_nonzero; lia).
  assert (Hn : 0 < n) by lia.
  rewrite N.size_log2 by lia.
  assert (Hl : 8 * (lenN s - 1) <= N.log2 n).
  { apply N.log2_le_pow2; [exact Hn|]. rewrite N.pow_mul_r. exact Hlow. }
  assert (1 <= lenN s) by (destruct s; [congruence|rewrite lenN_cons; lia]).
  unfold lenN in *. lia.
Qed.

Lemma to_from_bytes s : s <> [] -> head_nz s -> Forall (fun b => b < 256) s ->
  to_bytes_be (from_bytes_be s) = s.
Proof.
  intros Hne Hnz Hall. unfold to_bytes_be.
  pose proof (from_bytes_lower s Hne Hnz Hall) as Hlow.
  assert (Hpos : 0 < 256 ^ (lenN s - 1)) by (apply N.neq_0_lt_0, N.pow_nonzero; lia).
  replace (from_bytes_be s =? 0) with false by (symmetry; apply N.eqb_neq; lia).
  rewrite to_bytes_aux_from; [apply app_nil_r|exact Hnz|exact Hall|].
  apply size_ge_len; assumption.
Qed.

Lemma bytes_eqb_eq a : forall b, bytes_eqb a b = true <-> a = b.
Proof.
  induction a as [|x a IH]; intros [|y b]; cbn [bytes_eqb]; try (split; [discriminate|congruence]).
  - split; reflexivity.
  - rewrite andb_true_iff, N.eqb_eq, IH. split; [intros [-> ->]; reflexivity|intros H; injection H; auto].
Qed.

Lemma find_none_iff {A} (f : A -> bool) l : find f l = None <-> forall x, In x l -> f x = false.
Proof.
  split; [apply find_none|].
  induction l as [|y l IH]; intros H; [reflexivity|]. cbn [find].
  rewrite (H y (or_introl eq_refl)). apply IH. intros x Hx. apply H. now right.
Qed.

Lemma NoDup_map_inj {A B} (f : A -> B) l : NoDup (map f l) ->
  forall x y, In x l -> In y l -> f x = f y -> x = y.
Proof.
  induction l as [|a l IH]; intros Hnd x y Hx Hy Hf; [destruct Hx|].
  cbn [map] in Hnd. inversion Hnd as [|? ? Hnotin Hnd']; subst.
  destruct Hx as [->|Hx], Hy as [->|Hy].
  - reflexivity.
  - exfalso. apply Hnotin. rewrite Hf. apply in_map, Hy.
  - exfalso. apply Hnotin. rewrite <- Hf. apply in_map, Hx.
  - apply IH; assumption.
Qed.

Section LongIdProofs.
Variable keccak : bytes -> N.
Variable long_ids : list bytes.
(* the one property of starknet_keccak the codec relies on *)
Hypothesis keccak_inj : NoDup (map keccak long_ids).

Notation ser_generic_id := (ser_generic_id keccak long_ids).
Notation de_generic_id := (de_generic_id keccak long_ids).
Notation generic_id_ok := (generic_id_ok keccak long_ids).

Lemma generic_id_rt s rest : generic_id_ok s = true ->
  exists x, ser_generic_id s = Some [x] /\ snd (de_generic_id (x :: rest)) = Some (s, rest).
Proof.
  unfold Serde.generic_id_ok, Serde.ser_generic_id. intros Hok.
  destruct (lenN s <=? SHORT_STRING_BOUND) eqn:Elen.
  - (* short: the bytes *)
    apply andb_prop in Hok. destruct Hok as [Hok Hnc].
    apply andb_prop in Hok. destruct Hok as [Hok Hhd].
    apply andb_prop in Hok. destruct Hok as [Hb Hutf].
    exists (from_bytes_be s). split; [reflexivity|].
    unfold Serde.de_generic_id. rewrite snd_bind. cbn [next snd].
    assert (Hfix : long_name_fix keccak long_ids (from_bytes_be s) = None).
    { unfold long_name_fix. apply find_none_iff. intros t Ht. apply in_rev in Ht.
      apply negb_true_iff in Hnc.
      destruct (keccak t =? from_bytes_be s) eqn:E; [|reflexivity].
      assert (existsb (fun t => keccak t =? from_bytes_be s) long_ids = true)
        by (apply existsb_exists; eauto).
      congruence. }
    rewrite Hfix.
    assert (Hs : to_bytes_be (from_bytes_be s) = s).
    { apply to_from_bytes.
      - destruct s; [discriminate|discriminate].
      - destruct s as [|b s']; [exact I|]. cbn. apply negb_true_iff, N.eqb_neq in Hhd. exact Hhd.
      - unfold bytes_ok in Hb. rewrite forallb_forall in Hb. apply Forall_forall.
        intros b Hin. apply N.ltb_lt, Hb, Hin. }
    rewrite Hs, Hutf. reflexivity.
  - (* long: the keccak, resolved through LONG_NAME_FIX *)
    rewrite Hok. exists (keccak s). split; [reflexivity|].
    apply existsb_exists in Hok. destruct Hok as (s' & Hin & He). apply bytes_eqb_eq in He. subst s'.
    unfold Serde.de_generic_id. rewrite snd_bind. cbn [next snd].
    unfold long_name_fix.
    destruct (find (fun t => keccak t =? keccak s) (rev long_ids)) as [t|] eqn:Ef.
    + apply find_some in Ef. destruct Ef as [Ht Hk]. apply in_rev in Ht. apply N.eqb_eq in Hk.
      rewrite (NoDup_map_inj keccak long_ids keccak_inj t s Ht Hin Hk). reflexivity.
    + exfalso. rewrite find_none_iff in Ef. specialize (Ef s). rewrite N.eqb_refl in Ef.
      assert (In s (rev long_ids)) by (apply in_rev; rewrite rev_involutive; exact Hin).
      specialize (Ef H). discriminate.
Qed.

(* ---------- GenericArg ---------- *)
Lemma rt_garg : rt ser_garg de_garg garg_ok strip_garg.
Proof.
  intros g rest Hok. destruct g as [u|t|v|f|l]; cbn [ser_garg garg_ok strip_garg] in *.
  - exists [0; ut_id u]. split; [reflexivity|]. split; [discriminate|].
    unfold de_garg. cbn [app]. rewrite snd_bind, de_usize_ok by (unfold USIZE; lia).
    cbn [N.eqb]. unfold de_user_type. rewrite snd_bind, snd_bind. reflexivity.
  - unfold id_ok, u64_ok in Hok. apply N.ltb_lt in Hok.
    exists [1; cid_id t]. split; [reflexivity|]. split; [discriminate|].
    unfold de_garg. cbn [app]. rewrite snd_bind, de_usize_ok by (unfold USIZE; lia).
    cbn [N.eqb Pos.eqb]. unfold de_id. rewrite snd_bind, snd_bind, de_u64_ok by exact Hok. reflexivity.
  - destruct (v <? 0)%Z eqn:E.
    + apply Z.ltb_lt in E. unfold ser_bigint.
      replace (- v <? 0)%Z with false by (symmetry; apply Z.ltb_ge; lia).
      exists [5; Z.to_N (- v)]. split; [reflexivity|]. split; [discriminate|].
      unfold de_garg. cbn [app]. rewrite snd_bind, de_usize_ok by (unfold USIZE; lia).
      cbn [N.eqb Pos.eqb]. rewrite snd_bind, de_bigint_ok.
      rewrite Z2N.id by lia. rewrite Z.opp_involutive. reflexivity.
    + apply Z.ltb_ge in E. unfold ser_bigint.
      replace (v <? 0)%Z with false by (symmetry; apply Z.ltb_ge; lia).
      exists [2; Z.to_N v]. split; [reflexivity|]. split; [discriminate|].
      unfold de_garg. cbn [app]. rewrite snd_bind, de_usize_ok by (unfold USIZE; lia).
      cbn [N.eqb Pos.eqb]. rewrite snd_bind, de_bigint_ok.
      rewrite Z2N.id by lia. reflexivity.
  - unfold id_ok, u64_ok in Hok. apply N.ltb_lt in Hok.
    exists [3; cid_id f]. split; [reflexivity|]. split; [discriminate|].
    unfold de_garg. cbn [app]. rewrite snd_bind, de_usize_ok by (unfold USIZE; lia).
    cbn [N.eqb Pos.eqb]. unfold de_id. rewrite snd_bind, snd_bind, de_u64_ok by exact Hok. reflexivity.
  - unfold id_ok, u64_ok in Hok. apply N.ltb_lt in Hok.
    exists [4; cid_id l]. split; [reflexivity|]. split; [discriminate|].
    unfold de_garg. cbn [app]. rewrite snd_bind, de_usize_ok by (unfold USIZE; lia).
    cbn [N.eqb Pos.eqb]. unfold de_id. rewrite snd_bind, snd_bind, de_u64_ok by exact Hok. reflexivity.
Qed.

(* ---------- ConcreteTypeInfo ---------- *)
Lemma decl_ti_value_lt o : decl_ti_value o < 2 ^ 64.
Proof.
  destruct o as [[[] [] [] []]|]; vm_compute; reflexivity.
Qed.
Lemma decl_ti_value_decode o :
  (if decl_ti_value o =? 0 then None else
     Some {| storable := negb (N.land (decl_ti_value o) 1 =? 0);
             droppable := negb (N.land (decl_ti_value o) 2 =? 0);
             duplicatable := negb (N.land (decl_ti_value o) 4 =? 0);
             zero_sized := negb (N.land (decl_ti_value o) 8 =? 0) |}) = o.
Proof. destruct o as [[[] [] [] []]|]; vm_compute; reflexivity. Qed.

Lemma N2Z_land a b : Z.of_N (N.land a b) = Z.land (Z.of_N a) (Z.of_N b).
Proof. destruct a, b; reflexivity. Qed.
Lemma N2Z_shiftr128 a : Z.to_N (Z.shiftr (Z.of_N a) 128) = a / 2 ^ 128.
Proof.
  rewrite Z.shiftr_div_pow2 by lia.
  change (2 ^ 128)%Z with (Z.of_N (2 ^ 128)). rewrite <- N2Z.inj_div, N2Z.id. reflexivity.
Qed.

Lemma type_word_split len decl : len < 2 ^ 64 ->
  let w := Z.of_N (len + N.shiftl decl 128) in
  Z.to_N (Z.land w (Z.of_N (2 ^ 128 - 1))) = len /\ Z.to_N (Z.shiftr w 128) = decl.
Proof.
  intros Hlen. cbv zeta. rewrite N.shiftl_mul_pow2. split.
  - rewrite <- N2Z_land, N2Z.id. rewrite (land_mask _ 128).
    rewrite N.mod_add by lia. apply N.mod_small. lia.
  - rewrite N2Z_shiftr128, N.div_add by lia. rewrite N.div_small by lia. lia.
Qed.

Lemma type_info_rt d rest : type_decl_ok keccak long_ids d = true ->
  exists l, ser_type_info keccak long_ids d = Some l /\ l <> []
    /\ snd (de_type_info keccak long_ids (cid_id (td_id d)) (l ++ rest)) = Some (strip_type_decl d, rest).
Proof.
  unfold type_decl_ok. intros Hok. apply andb_prop in Hok. destruct Hok as [Hg Ha].
  unfold gargs_ok in Ha. apply andb_prop in Ha. destruct Ha as [Hlen Hargs].
  unfold len_ok in Hlen. apply N.ltb_lt in Hlen. unfold USIZE in Hlen.
  destruct (rt_list ser_garg de_garg garg_ok strip_garg rt_garg (td_args d) rest Hargs)
    as (o & Ho & Hl & Hde).
  destruct (generic_id_rt (td_generic d)
              (Z.to_N (Z.of_N (lenN (td_args d) + N.shiftl (decl_ti_value (td_info d)) 128)) :: o ++ rest) Hg)
    as (x & Hx & Hdx).
  eexists. unfold ser_type_info. rewrite Hx. cbn [obind]. unfold ser_bigint.
  replace (Z.of_N (lenN (td_args d) + N.shiftl (decl_ti_value (td_info d)) 128) <? 0)%Z with false
    by (symmetry; apply Z.ltb_ge; lia).
  cbn [obind]. rewrite Ho. cbn [obind]. split; [reflexivity|]. split; [discriminate|].
  cbn [app]. unfold de_type_info. rewrite snd_bind, Hdx.
  rewrite snd_bind, de_bigint_ok. rewrite N2Z.id.
  destruct (type_word_split (lenN (td_args d)) (decl_ti_value (td_info d)) Hlen) as [H1 H2].
  rewrite H1, H2.
  replace (lenN (td_args d) <? USIZE) with true by (symmetry; apply N.ltb_lt; unfold USIZE; lia).
  pose proof (decl_ti_value_lt (td_info d)) as Hd. apply N.ltb_lt in Hd. rewrite Hd. cbn [negb].
  rewrite snd_bind, bounded_ok by (unfold lenN; rewrite app_length; lia).
  unfold lenN at 1. rewrite Nat2N.id. rewrite snd_bind, Hde.
  rewrite decl_ti_value_decode. reflexivity.
Qed.

Lemma libfunc_long_rt d rest : libfunc_decl_ok keccak long_ids d = true ->
  exists l, ser_libfunc_long keccak long_ids d = Some l /\ l <> []
    /\ snd (de_libfunc_long keccak long_ids (cid_id (ld_id d)) (l ++ rest)) = Some (strip_libfunc_decl d, rest).
Proof.
  unfold libfunc_decl_ok. intros Hok. apply andb_prop in Hok. destruct Hok as [Hg Ha].
  destruct (rt_vec ser_garg de_garg garg_ok strip_garg rt_garg (ld_args d) rest Ha)
    as (o & Ho & _ & Hde).
  destruct (generic_id_rt (ld_generic d) (o ++ rest) Hg) as (x & Hx & Hdx).
  exists (x :: o). unfold ser_libfunc_long. rewrite Hx, Ho. cbn [obind app].
  split; [reflexivity|]. split; [discriminate|].
  unfold de_libfunc_long. rewrite snd_bind, Hdx, snd_bind, Hde. reflexivity.
Qed.
End LongIdProofs.

(* ---------- statements ---------- *)
Lemma target_rt t rest : target_ok t = true ->
  exists x, ser_target t = Some [x] /\ snd (de_target (x :: rest)) = Some (t, rest).
Proof.
  intros Hok. destruct t as [|i]; cbn [ser_target target_ok] in *.
  - exists (USIZE - 1). split; [reflexivity|]. unfold de_target.
    rewrite snd_bind, de_usize_ok by (unfold USIZE; lia). rewrite N.eqb_refl. reflexivity.
  - apply N.ltb_lt in Hok. exists i. split; [reflexivity|]. unfold de_target.
    rewrite snd_bind, de_usize_ok by (unfold USIZE in *; lia).
    replace (i =? USIZE - 1) with false by (symmetry; apply N.eqb_neq; lia). reflexivity.
Qed.

Lemma rt_branch : rt ser_branch de_branch branch_ok strip_branch.
Proof.
  intros b rest Hok. unfold branch_ok in Hok. apply andb_prop in Hok. destruct Hok as [Ht Hr].
  destruct (rt_ids (br_results b) rest Hr) as (o & Ho & _ & Hde).
  destruct (target_rt (br_target b) (o ++ rest) Ht) as (x & Hx & Hdx).
  exists (x :: o). unfold ser_branch. rewrite Hx, Ho. cbn [obind app].
  split; [reflexivity|]. split; [discriminate|].
  unfold de_branch. rewrite snd_bind, Hdx, snd_bind, Hde. reflexivity.
Qed.

Lemma rt_statement : rt ser_statement de_statement statement_ok strip_statement.
Proof.
  intros s rest Hok. destruct s as [l a b|v]; cbn [statement_ok ser_statement strip_statement] in *.
  - apply andb_prop in Hok. destruct Hok as [Hok Hb]. apply andb_prop in Hok. destruct Hok as [Hok Hlb].
    apply andb_prop in Hok. destruct Hok as [Hl Ha].
    assert (Hbb : len_ok b && forallb branch_ok b = true) by (rewrite Hlb, Hb; reflexivity).
    destruct (rt_vec ser_branch de_branch branch_ok strip_branch rt_branch b rest Hbb)
      as (ob & Hob & _ & Hdb).
    destruct (rt_ids a (ob ++ rest) Ha) as (oa & Hoa & _ & Hda).
    destruct (rt_id l (oa ++ ob ++ rest) Hl) as (ol & Hol & _ & Hdl).
    exists ([0] ++ ol ++ oa ++ ob). unfold ser_u64 at 1. cbn [obind]. rewrite Hol, Hoa, Hob. cbn [obind].
    split; [reflexivity|]. split; [discriminate|].
    unfold de_statement. cbn [app]. rewrite snd_bind, de_u64_ok by lia. cbn [N.eqb].
    rewrite <- !app_assoc. rewrite snd_bind, Hdl, snd_bind, Hda, snd_bind, Hdb. reflexivity.
  - destruct (rt_ids v rest Hok) as (o & Ho & _ & Hde).
    exists ([1] ++ o). unfold ser_u64 at 1. cbn [obind]. rewrite Ho. cbn [obind].
    split; [reflexivity|]. split; [discriminate|].
    unfold de_statement. cbn [app]. rewrite snd_bind, de_u64_ok by lia. cbn [N.eqb Pos.eqb].
    rewrite snd_bind, Hde. reflexivity.
Qed.

(* ---------- functions ---------- *)
Lemma params_rt : forall ps tys rest, params_match ps tys = true ->
  length ps = length tys /\
  exists o, ser_params ps tys = Some o
    /\ snd (de_params (map strip_id tys) (o ++ rest)) = Some (map strip_param ps, rest).
Proof.
  induction ps as [|p ps IH]; intros [|t tys] rest Hm; cbn [params_match] in Hm; try discriminate.
  - split; [reflexivity|]. exists []. split; reflexivity.
  - apply andb_prop in Hm. destruct Hm as [Hm Hr]. apply andb_prop in Hm. destruct Hm as [Hty Hid].
    destruct (IH tys rest Hr) as (Hlen & o & Ho & Hde).
    destruct (rt_id (p_id p) (o ++ rest) Hid) as (a & Ha & _ & Hda).
    split; [cbn [length]; congruence|].
    exists (a ++ o). cbn [ser_params]. rewrite Hty, Ha, Ho. cbn [obind]. split; [reflexivity|].
    cbn [map de_params]. rewrite <- app_assoc, snd_bind, Hda, snd_bind, Hde.
    rewrite snd_ret. unfold strip_param at 2. apply N.eqb_eq in Hty.
    unfold strip_id at 3 4. rewrite Hty. reflexivity.
Qed.

Lemma func_rt f rest : func_ok f = true ->
  exists l, ser_func f = Some l /\ l <> []
    /\ snd (de_func (cid_id (f_id f)) (l ++ rest)) = Some (strip_func f, rest).
Proof.
  unfold func_ok. intros Hok. apply andb_prop in Hok. destruct Hok as [Hok He].
  apply andb_prop in Hok. destruct Hok as [Hok Hpm]. apply andb_prop in Hok. destruct Hok as [Hpt Hrt].
  apply N.ltb_lt in He.
  destruct (params_rt (f_params f) (f_param_types f) (f_entry f :: rest) Hpm) as (Hlen & oc & Hoc & Hdc).
  destruct (rt_ids (f_ret_types f) (oc ++ f_entry f :: rest) Hrt) as (ob & Hob & _ & Hdb).
  destruct (rt_ids (f_param_types f) (ob ++ oc ++ f_entry f :: rest) Hpt) as (oa & Hoa & Hne & Hda).
  exists (oa ++ ob ++ oc ++ [f_entry f]). unfold ser_func. rewrite Hoa, Hob. cbn [obind].
  replace (lenN (f_param_types f) =? lenN (f_params f)) with true
    by (symmetry; apply N.eqb_eq; unfold lenN; congruence).
  cbn [negb]. rewrite Hoc. cbn [obind ser_usize]. split; [reflexivity|].
  split; [destruct oa; [congruence|discriminate]|].
  unfold de_func. rewrite <- !app_assoc. cbn [app].
  rewrite snd_bind, Hda, snd_bind, Hdb, snd_bind, Hdc, snd_bind, de_usize_ok by exact He.
  reflexivity.
Qed.

(* ---------- the program ---------- *)
Section ProgramProofs.
Variable keccak : bytes -> N.
Variable long_ids : list bytes.
Hypothesis keccak_inj : NoDup (map keccak long_ids).

Theorem program_rt p rest : ser_ok keccak long_ids p = true ->
  exists l, ser_program keccak long_ids p = Some l
    /\ snd (de_program_log keccak long_ids (l ++ rest)) = Some (strip_debug p, rest).
Proof.
  unfold ser_ok. intros Hok.
  repeat (apply andb_prop in Hok; let H := fresh "H" in destruct Hok as [Hok H]).
  rename Hok into Hlt, H5 into Hst, H4 into Hll, H3 into Hsl, H2 into Hls, H1 into Hss, H0 into Hlf,
         H into Hsf.
  destruct (de_seq_ok (fun f => cid_id (f_id f)) ser_func de_func func_ok strip_func
              func_rt (funcs p) rest Hlf Hsf) as (od & Hod & Hdd).
  assert (Hstm : len_ok (statements p) && forallb statement_ok (statements p) = true)
    by (rewrite Hls, Hss; reflexivity).
  destruct (rt_vec ser_statement de_statement statement_ok strip_statement rt_statement
              (statements p) ((lenN (funcs p) :: od) ++ rest) Hstm) as (oc & Hoc & _ & Hdc).
  destruct (de_seq_ok (fun d => cid_id (ld_id d)) (ser_libfunc_long keccak long_ids)
              (de_libfunc_long keccak long_ids) (libfunc_decl_ok keccak long_ids) strip_libfunc_decl
              (libfunc_long_rt keccak long_ids keccak_inj) (libfunc_decls p)
              (oc ++ (lenN (funcs p) :: od) ++ rest) Hll Hsl) as (ob & Hob & Hdb).
  destruct (de_seq_ok (fun d => cid_id (td_id d)) (ser_type_info keccak long_ids)
              (de_type_info keccak long_ids) (type_decl_ok keccak long_ids) strip_type_decl
              (type_info_rt keccak long_ids keccak_inj) (type_decls p)
              ((lenN (libfunc_decls p) :: ob) ++ oc ++ (lenN (funcs p) :: od) ++ rest) Hlt Hst)
    as (oa & Hoa & Hda).
  eexists. unfold ser_program. rewrite Hoa, Hob, Hoc, Hod. cbn [obind]. split; [reflexivity|].
  unfold de_program_log. rewrite <- !app_assoc.
  rewrite snd_bind, Hda. rewrite snd_bind, Hdb. rewrite snd_bind, Hdc. rewrite snd_bind, Hdd.
  reflexivity.
Qed.

Theorem de_ser p : ser_ok keccak long_ids p = true ->
  exists l, ser_program keccak long_ids p = Some l
    /\ de_program keccak long_ids l = Some (strip_debug p, []).
Proof.
  intros Hok. destruct (program_rt p [] Hok) as (l & Hl & Hd).
  exists l. split; [exact Hl|]. unfold de_program. rewrite app_nil_r in Hd. exact Hd.
Qed.

(* the whole pipeline: sierra_from_felt252s (sierra_to_felt252s sv cv p) *)
Definition version_ok (v : version_id) : bool :=
  let '(a, b, c) := v in (a <? USIZE) && (b <? USIZE) && (c <? USIZE).

Theorem sierra_from_to sv cv p l :
  version_ok sv = true -> version_ok cv = true -> ser_ok keccak long_ids p = true ->
  ser_program keccak long_ids p = Some l -> lenN l < 2 ^ 63 ->
  exists fs, sierra_to keccak long_ids sv cv p = Some fs
    /\ sierra_from keccak long_ids fs = Some (sv, cv, strip_debug p).
Proof.
  intros Hsv Hcv Hok Hl Hlen.
  destruct (de_ser p Hok) as (l' & Hl' & Hde). rewrite Hl in Hl'. injection Hl' as <-.
  unfold sierra_to. rewrite Hl. cbn [obind]. eexists. split; [reflexivity|].
  destruct sv as [[a1 a2] a3], cv as [[b1 b2] b3]. cbn [version_ok] in Hsv, Hcv.
  repeat (apply andb_prop in Hsv; let H := fresh "Ha" in destruct Hsv as [Hsv H]).
  repeat (apply andb_prop in Hcv; let H := fresh "Hb" in destruct Hcv as [Hcv H]).
  apply N.ltb_lt in Hsv, Ha, Ha0, Hcv, Hb, Hb0.
  unfold sierra_from, versions_from. cbn [ser_version app].
  rewrite snd_bind. unfold de_version at 1.
  rewrite snd_bind, de_usize_ok, snd_bind, de_usize_ok, snd_bind, de_usize_ok by assumption.
  rewrite snd_ret, snd_bind. unfold de_version at 1.
  rewrite snd_bind, de_usize_ok, snd_bind, de_usize_ok, snd_bind, de_usize_ok by assumption.
  rewrite snd_ret, snd_ret.
  rewrite decompress_compress by exact Hlen. rewrite Hde. reflexivity.
Qed.

(* the class-level round trip: extract_sierra_program first requires every felt < P; the felts of
   sierra_to_felt252s are field elements as soon as the uncompressed serialization is *)
Theorem sierra_to_felts sv cv p l fs :
  version_ok sv = true -> version_ok cv = true ->
  ser_program keccak long_ids p = Some l -> lenN l < 2 ^ 63 -> Forall (fun v => v < PN) l ->
  sierra_to keccak long_ids sv cv p = Some fs -> Forall (fun v => v < PN) fs.
Proof.
  intros Hsv Hcv Hl Hlen Hall Hto. unfold sierra_to in Hto. rewrite Hl in Hto. cbn [obind] in Hto.
  injection Hto as <-.
  destruct sv as [[a1 a2] a3], cv as [[b1 b2] b3]. cbn [version_ok] in Hsv, Hcv.
  repeat (apply andb_prop in Hsv; let H := fresh "Ha" in destruct Hsv as [Hsv H]).
  repeat (apply andb_prop in Hcv; let H := fresh "Hb" in destruct Hcv as [Hcv H]).
  apply N.ltb_lt in Hsv, Ha, Ha0, Hcv, Hb, Hb0. unfold USIZE in *.
  cbn [ser_version app].
  repeat (constructor; [rewrite PN_val; lia|]).
  apply compress_felts; assumption.
Qed.
End ProgramProofs.

(* ---------- C14: every allocation of the deserializer is bounded by the remaining input ---------- *)
(* a parser is well-behaved on input l: every allocation it logs has size <= remaining <= |l|, and
   it never returns more input than it was given *)
Definition alloc_ok (bound : N) (a : alloc) : Prop := fst a <= snd a /\ snd a <= bound.
Definition wb {A} (m : M A) : Prop := forall l,
  Forall (alloc_ok (lenN l)) (fst (m l))
  /\ match snd (m l) with Some (_, l') => lenN l' <= lenN l | None => True end.

Lemma alloc_ok_mono b b' a : b <= b' -> alloc_ok b a -> alloc_ok b' a.
Proof. unfold alloc_ok. intros H [H1 H2]. split; lia. Qed.

Lemma wb_ret {A} (a : A) : wb (ret a).
Proof. intros l. cbn. split; [constructor|lia]. Qed.
Lemma wb_fail {A} : wb (@fail A).
Proof. intros l. cbn. split; [constructor|exact I]. Qed.
Lemma wb_next : wb next.
Proof. intros [|x r]; cbn [next fst snd]; (split; [constructor|]); [exact I|rewrite lenN_cons; lia]. Qed.
Lemma wb_bounded size : wb (bounded size).
Proof.
  intros l. unfold bounded. destruct (lenN l <? size) eqn:E; cbn [fst snd].
  - split; [constructor|exact I].
  - apply N.ltb_ge in E. split; [|lia]. constructor; [|constructor]. split; cbn [fst snd]; lia.
Qed.
Lemma wb_bind {A B} (m : M A) (f : A -> M B) : wb m -> (forall a, wb (f a)) -> wb (bind m f).
Proof.
  intros Hm Hf l. unfold bind. destruct (Hm l) as [H1 H2].
  destruct (m l) as [lg [[a l']|]]; cbn [fst snd] in *; [|split; [exact H1|exact I]].
  destruct (Hf a l') as [H3 H4]. destruct (f a l') as [lg' r]. cbn [fst snd] in *. split.
  - apply Forall_app. split; [exact H1|].
    eapply Forall_impl; [|exact H3]. intros x. apply alloc_ok_mono. exact H2.
  - destruct r as [[b l'']|]; [lia|exact I].
Qed.
Lemma wb_if {A} (c : bool) (m1 m2 : M A) : wb m1 -> wb m2 -> wb (if c then m1 else m2).
Proof. destruct c; auto. Qed.

Lemma wb_de_n {A} n (e : M A) : wb e -> wb (de_n n e).
Proof.
  intros He. induction n as [|n IH]; cbn [de_n]; [apply wb_ret|].
  apply wb_bind; [exact He|]. intros x. apply wb_bind; [exact IH|]. intros xs. apply wb_ret.
Qed.
Lemma wb_de_n_from {A} n (e : N -> M A) : (forall i, wb (e i)) -> forall i, wb (de_n_from n i e).
Proof.
  intros He. induction n as [|n IH]; intros i; cbn [de_n_from]; [apply wb_ret|].
  apply wb_bind; [apply He|]. intros x. apply wb_bind; [apply IH|]. intros xs. apply wb_ret.
Qed.

Ltac wb_step :=
  first [ apply wb_ret | apply wb_fail | apply wb_next | apply wb_bounded
        | apply wb_if | apply wb_de_n | apply wb_de_n_from
        | (apply wb_bind; [|intros ?]) ].

Lemma wb_de_usize : wb de_usize. Proof. unfold de_usize. repeat wb_step. Qed.
Lemma wb_de_u64 : wb de_u64. Proof. unfold de_u64. repeat wb_step. Qed.
Lemma wb_de_bigint : wb de_bigint. Proof. unfold de_bigint. repeat wb_step. Qed.
Lemma wb_de_id : wb de_id. Proof. unfold de_id. apply wb_bind; [apply wb_de_u64|intros; apply wb_ret]. Qed.
Lemma wb_de_user_type : wb de_user_type. Proof. unfold de_user_type. repeat wb_step. Qed.
Lemma wb_de_vec {A} (e : M A) : wb e -> wb (de_vec e).
Proof.
  intros He. unfold de_vec. apply wb_bind; [apply wb_de_usize|intros size].
  apply wb_bind; [apply wb_bounded|intros _]. apply wb_de_n, He.
Qed.
Lemma wb_de_seq {A} (e : N -> M A) : (forall i, wb (e i)) -> wb (de_seq e).
Proof.
  intros He. unfold de_seq. apply wb_bind; [apply wb_de_usize|intros size].
  apply wb_bind; [apply wb_bounded|intros _]. apply wb_de_n_from, He.
Qed.
Lemma wb_de_target : wb de_target.
Proof. unfold de_target. apply wb_bind; [apply wb_de_usize|intros; apply wb_ret]. Qed.
Lemma wb_de_branch : wb de_branch.
Proof.
  unfold de_branch. apply wb_bind; [apply wb_de_target|intros].
  apply wb_bind; [apply wb_de_vec, wb_de_id|intros; apply wb_ret].
Qed.
Lemma wb_de_statement : wb de_statement.
Proof.
  unfold de_statement. apply wb_bind; [apply wb_de_u64|intros tag].
  apply wb_if; [|apply wb_if; [|apply wb_fail]].
  - apply wb_bind; [apply wb_de_id|intros]. apply wb_bind; [apply wb_de_vec, wb_de_id|intros].
    apply wb_bind; [apply wb_de_vec, wb_de_branch|intros; apply wb_ret].
  - apply wb_bind; [apply wb_de_vec, wb_de_id|intros; apply wb_ret].
Qed.
Lemma wb_de_params tys : wb (de_params tys).
Proof.
  induction tys as [|t r IH]; cbn [de_params]; [apply wb_ret|].
  apply wb_bind; [apply wb_de_id|intros]. apply wb_bind; [exact IH|intros; apply wb_ret].
Qed.
Lemma wb_de_func i : wb (de_func i).
Proof.
  unfold de_func. apply wb_bind; [apply wb_de_vec, wb_de_id|intros pt].
  apply wb_bind; [apply wb_de_vec, wb_de_id|intros rt0].
  apply wb_bind; [apply wb_de_params|intros ps].
  apply wb_bind; [apply wb_de_usize|intros; apply wb_ret].
Qed.

Section AllocProofs.
Variable keccak : bytes -> N.
Variable long_ids : list bytes.

Lemma wb_de_generic_id : wb (de_generic_id keccak long_ids).
Proof.
  unfold de_generic_id. apply wb_bind; [apply wb_next|intros n].
  destruct (long_name_fix keccak long_ids n); [apply wb_ret|].
  apply wb_if; [apply wb_ret|apply wb_fail].
Qed.
Lemma wb_de_garg : wb de_garg.
Proof.
  unfold de_garg. apply wb_bind; [apply wb_de_usize|intros tag].
  repeat (apply wb_if; [|]); try apply wb_fail;
    (apply wb_bind; [first [apply wb_de_user_type|apply wb_de_id|apply wb_de_bigint]|intros; apply wb_ret]).
Qed.
Lemma wb_de_type_info i : wb (de_type_info keccak long_ids i).
Proof.
  unfold de_type_info. apply wb_bind; [apply wb_de_generic_id|intros g].
  apply wb_bind; [apply wb_de_bigint|intros w].
  apply wb_if; [apply wb_fail|]. apply wb_if; [apply wb_fail|].
  apply wb_bind; [apply wb_bounded|intros _].
  apply wb_bind; [apply wb_de_n, wb_de_garg|intros; apply wb_ret].
Qed.
Lemma wb_de_libfunc_long i : wb (de_libfunc_long keccak long_ids i).
Proof.
  unfold de_libfunc_long. apply wb_bind; [apply wb_de_generic_id|intros g].
  apply wb_bind; [apply wb_de_vec, wb_de_garg|intros; apply wb_ret].
Qed.
Lemma wb_de_program : wb (de_program_log keccak long_ids).
Proof.
  unfold de_program_log.
  apply wb_bind; [apply wb_de_seq, wb_de_type_info|intros tds].
  apply wb_bind; [apply wb_de_seq, wb_de_libfunc_long|intros lds].
  apply wb_bind; [apply wb_de_vec, wb_de_statement|intros sts].
  apply wb_bind; [apply wb_de_seq, wb_de_func|intros fs]. apply wb_ret.
Qed.

(* de_program is a total function (it is a Gallina term: terminates on every input, by structural
   recursion on the element counts it has checked against the remaining input), and every
   allocation it performs through vec_with_bounded_capacity is at most the number of felts
   still unread, which is at most the length of the input. *)
Theorem de_total_bounded (l : list N) :
  (exists r, de_program keccak long_ids l = r)
  /\ Forall (fun '(size, remaining) => size <= remaining /\ remaining <= lenN l)
            (alloc_requests keccak long_ids l)
  /\ match de_program keccak long_ids l with
     | Some (_, rest) => lenN rest <= lenN l
     | None => True
     end.
Proof.
  split; [eexists; reflexivity|].
  destruct (wb_de_program l) as [H1 H2]. split; [|exact H2].
  unfold alloc_requests. eapply Forall_impl; [|exact H1]. intros [s r] H. exact H.
Qed.
End AllocProofs.
