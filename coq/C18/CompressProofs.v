(* C18/CompressProofs.v -- proofs about the model in Compress.v: decompress (compress vs) = Some vs
   for every list (length < 2^63, which every Rust slice satisfies), the output of compress
   consists of felts when the input does, the decompressor's allocation is bounded. *)
From C18 Require Import Compress.
From Coq Require Import Lia.
Local Open Scope N_scope.
Ltac Zify.zify_post_hook ::= Z.div_mod_to_equations.

(* ---------- nthN / index_of / the code table ---------- *)
Lemma lenN_cons {A} (x : A) l : lenN (x :: l) = N.succ (lenN l).
Proof. unfold lenN. cbn [length]. lia. Qed.
Lemma lenN_app {A} (a b : list A) : lenN (a ++ b) = lenN a + lenN b.
Proof. unfold lenN. rewrite app_length. lia. Qed.
Lemma lenN_nil {A} : lenN (@nil A) = 0.
Proof. reflexivity. Qed.

Lemma existsb_eqb_In v l : existsb (N.eqb v) l = true <-> In v l.
Proof.
  rewrite existsb_exists. split.
  - intros (x & Hin & He). apply N.eqb_eq in He. subst. exact Hin.
  - intros H. exists v. split; [exact H|apply N.eqb_refl].
Qed.

Lemma index_of_In v code : In v code -> exists i, index_of v code = Some i.
Proof.
  induction code as [|c r IH]; intros Hin; [destruct Hin|].
  cbn [index_of]. destruct (v =? c) eqn:E; [eauto|].
  destruct Hin as [->|Hin]; [rewrite N.eqb_refl in E; discriminate|].
  destruct (IH Hin) as (i & ->). cbn. eauto.
Qed.

Lemma index_of_nth v code i :
  index_of v code = Some i -> nthN code i = Some v /\ i < lenN code.
Proof.
  revert i. induction code as [|c r IH]; intros i H; [discriminate|].
  cbn [index_of] in H. destruct (v =? c) eqn:E.
  - injection H as <-. apply N.eqb_eq in E. subst. rewrite lenN_cons. split; [reflexivity|lia].
  - destruct (index_of v r) as [j|] eqn:Ej; [|discriminate]. cbn in H. injection H as <-.
    destruct (IH j eq_refl) as [Hn Hl]. cbn [nthN].
    replace (N.succ j =? 0) with false by (symmetry; apply N.eqb_neq; lia).
    rewrite N.pred_succ. rewrite lenN_cons. split; [exact Hn|lia].
Qed.

Lemma code_idx_spec v code :
  In v code -> nthN code (code_idx code v) = Some v /\ code_idx code v < lenN code.
Proof.
  intros Hin. unfold code_idx. destruct (index_of_In _ _ Hin) as (i & Hi).
  rewrite Hi. apply index_of_nth. exact Hi.
Qed.

Lemma build_code_acc vs : forall acc,
  let r := fold_left insert_code vs acc in
  (forall v, In v acc -> In v r) /\ (forall v, In v vs -> In v r)
  /\ (length r <= length acc + length vs)%nat.
Proof.
  induction vs as [|x vs IH]; intros acc; cbn [fold_left].
  - cbv zeta. split; [auto|]. split; [intros v []|]. cbn [length]. lia.
  - destruct (IH (insert_code acc x)) as (H1 & H2 & H3).
    assert (Hx : In x (insert_code acc x) /\ (forall v, In v acc -> In v (insert_code acc x))
                 /\ (length (insert_code acc x) <= S (length acc))%nat).
    { unfold insert_code. destruct (existsb (N.eqb x) acc) eqn:E.
      - apply existsb_eqb_In in E. repeat split; auto.
      - repeat split.
        + apply in_or_app. right. now left.
        + intros v Hv. apply in_or_app. now left.
        + rewrite app_length. cbn. lia. }
    destruct Hx as (Hx1 & Hx2 & Hx3).
    cbv zeta. repeat split.
    + intros v Hv. apply H1, Hx2, Hv.
    + intros v [->|Hv]; [apply H1, Hx1|apply H2, Hv].
    + cbn [length]. lia.
Qed.

Lemma build_code_In vs v : In v vs -> In v (build_code vs).
Proof. intros H. unfold build_code. now apply (build_code_acc vs []). Qed.
Lemma build_code_len vs : (length (build_code vs) <= length vs)%nat.
Proof. unfold build_code. destruct (build_code_acc vs []) as (_ & _ & H). exact H. Qed.
(* [code[&value]] never meets a missing key *)
Lemma index_of_build_code vs v : In v vs -> index_of v (build_code vs) <> None.
Proof.
  intros H. destruct (index_of_In v (build_code vs) (build_code_In _ _ H)) as (i & ->). discriminate.
Qed.

(* ---------- padded code size ---------- *)
Lemma next_pow2_spec n : 256 <= n <= 2 ^ 63 ->
  let b := N.log2_up n in
  next_pow2 n = 2 ^ b /\ 8 <= b <= 63 /\ n <= 2 ^ b.
Proof.
  intros [Hlo Hhi]. cbv zeta. unfold next_pow2. split; [reflexivity|]. split; [split|].
  - change 8 with (N.log2_up 256). apply N.log2_up_le_mono. exact Hlo.
  - apply N.log2_up_le_pow2; [lia|exact Hhi].
  - apply N.log2_log2_up_spec. lia.
Qed.

Lemma is_pow2_pow2 b : is_pow2 (2 ^ b) = true.
Proof.
  unfold is_pow2. rewrite N.log2_pow2 by lia. rewrite N.eqb_refl.
  assert (0 < 2 ^ b) by (apply N.neq_0_lt_0, N.pow_nonzero; lia).
  apply N.ltb_lt in H. rewrite H. reflexivity.
Qed.

(* ---------- words_per_felt ---------- *)
Lemma wpf_loop_ge fuel : forall p m c, c <= wpf_loop fuel p m c.
Proof.
  induction fuel as [|f IH]; intros p m c; cbn [wpf_loop]; [lia|].
  destruct (m <? PN); [|lia]. specialize (IH p (m * p) (c + 1)). lia.
Qed.
Lemma PN_val : PN = 2 ^ 251 + 17 * 2 ^ 192 + 1.
Proof. reflexivity. Qed.
Lemma words_per_felt_pos p : p < PN -> 1 <= words_per_felt p.
Proof.
  intros H. unfold words_per_felt. change 256%nat with (S 255). cbn [wpf_loop].
  apply N.ltb_lt in H. rewrite H. apply (wpf_loop_ge 255 p (p * p) (0 + 1)).
Qed.
(* the loop invariant: max_encoded = p^(count+1); on exit p^count < PN (for count >= 1) *)
Lemma wpf_loop_bound fuel : forall p c,
  (c = 0 \/ p ^ c < PN) -> let r := wpf_loop fuel p (p ^ (c + 1)) c in r = 0 \/ p ^ r < PN.
Proof.
  induction fuel as [|f IH]; intros p c Hc; cbn [wpf_loop]; cbv zeta; [exact Hc|].
  destruct (p ^ (c + 1) <? PN) eqn:E; [|exact Hc].
  apply N.ltb_lt in E.
  replace (p ^ (c + 1) * p) with (p ^ (c + 1 + 1)) by (rewrite (N.pow_add_r p (c + 1) 1), N.pow_1_r; reflexivity).
  apply IH. right. exact E.
Qed.
Lemma words_per_felt_bound p : p < PN -> p ^ words_per_felt p < PN.
Proof.
  intros H. pose proof (words_per_felt_pos p H) as Hpos.
  unfold words_per_felt in *.
  pose proof (wpf_loop_bound 256 p 0 (or_introl eq_refl)) as Hb. cbv zeta in Hb.
  rewrite N.add_0_l, N.pow_1_r in Hb. destruct Hb as [Hb|Hb]; [lia|exact Hb].
Qed.

(* ---------- bit-level facts ---------- *)
Lemma pow2_pos n : 0 < 2 ^ n.
Proof. apply N.neq_0_lt_0, N.pow_nonzero. lia. Qed.

Lemma lor_shiftl_add a b n : a < 2 ^ n -> N.lor a (N.shiftl b n) = a + b * 2 ^ n.
Proof.
  intros Ha. rewrite N.shiftl_mul_pow2.
  rewrite <- N.lxor_lor.
  - symmetry. apply N.add_nocarry_lxor.
    apply N.bits_inj_0. intros k. rewrite N.land_spec.
    destruct (N.lt_ge_cases k n) as [Hk|Hk].
    + rewrite (N.mul_pow2_bits_low b n k Hk). apply andb_false_r.
    + replace (N.testbit a k) with false; [reflexivity|].
      symmetry. destruct (N.eq_dec a 0) as [->|Hnz]; [apply N.bits_0|].
      apply N.bits_above_log2. apply N.log2_lt_pow2 in Ha; lia.
  - apply N.bits_inj_0. intros k. rewrite N.land_spec.
    destruct (N.lt_ge_cases k n) as [Hk|Hk].
    + rewrite (N.mul_pow2_bits_low b n k Hk). apply andb_false_r.
    + replace (N.testbit a k) with false; [reflexivity|].
      symmetry. destruct (N.eq_dec a 0) as [->|Hnz]; [apply N.bits_0|].
      apply N.bits_above_log2. apply N.log2_lt_pow2 in Ha; lia.
Qed.

Lemma land_mask a bits : N.land a (2 ^ bits - 1) = a mod 2 ^ bits.
Proof. rewrite <- N.land_ones. f_equal. rewrite N.ones_equiv. lia. Qed.

(* ---------- the digit extractor of decompress ---------- *)
Section Extract.
Variable code : list N.
Variable bits : N.
Hypothesis bits_le : bits <= 64.
Let padded := 2 ^ bits.
Hypothesis code_fits : lenN code <= padded.

Lemma pack_cons v c : pack code padded (v :: c) = pack code padded c * padded + code_idx code v.
Proof. reflexivity. Qed.

(* the state (rest, buffer, bib) stands for the number buffer + rest * 2^bib *)
Lemma extract_pack : forall chunk rest buffer bib,
  Forall (fun v => In v code) chunk ->
  buffer < 2 ^ bib ->
  buffer + rest * 2 ^ bib = pack code padded chunk ->
  extract (length chunk) code bits (padded - 1) rest buffer bib = Some chunk.
Proof.
  induction chunk as [|v c IH]; intros rest buffer bib Hall Hbuf Hval; [reflexivity|].
  inversion Hall as [|? ? Hv Hc]; subst.
  destruct (code_idx_spec v code Hv) as [Hnth Hlt].
  rewrite pack_cons in Hval.
  cbn [length extract].
  (* after the optional refill *)
  assert (Hst : exists rest' buffer' bib',
    (if bib <? bits
     then (rest / 2 ^ 64, N.lor buffer (N.shiftl (rest mod 2 ^ 64) bib), bib + 64)
     else (rest, buffer, bib)) = (rest', buffer', bib')
    /\ bits <= bib' /\ buffer' < 2 ^ bib'
    /\ buffer' + rest' * 2 ^ bib' = pack code padded c * padded + code_idx code v).
  { destruct (bib <? bits) eqn:E.
    - apply N.ltb_lt in E. do 3 eexists. split; [reflexivity|].
      rewrite lor_shiftl_add by exact Hbuf.
      pose proof (pow2_pos bib) as Hp. pose proof (pow2_pos 64) as Hp64.
      assert (Hm : rest mod 2 ^ 64 < 2 ^ 64) by (apply N.mod_lt; lia).
      rewrite N.pow_add_r. split; [lia|]. split.
      + nia.
      + rewrite <- Hval. rewrite (N.div_mod rest (2 ^ 64)) at 3 by lia. nia.
    - apply N.ltb_ge in E. do 3 eexists. split; [reflexivity|]. auto. }
  destruct Hst as (rest' & buffer' & bib' & -> & Hge & Hbuf' & Hval').
  assert (Hsplit : 2 ^ bib' = 2 ^ (bib' - bits) * padded).
  { unfold padded. rewrite <- N.pow_add_r. f_equal. lia. }
  pose proof (pow2_pos bits) as Hpb. fold padded in Hpb.
  pose proof (pow2_pos (bib' - bits)) as Hpc.
  set (C := 2 ^ (bib' - bits)) in *.
  assert (Hidx : code_idx code v < padded) by lia.
  (* low digit *)
  assert (Hmod : buffer' mod padded = code_idx code v).
  { transitivity ((buffer' + rest' * C * padded) mod padded).
    - rewrite N.mod_add by lia. reflexivity.
    - replace (buffer' + rest' * C * padded) with (code_idx code v + pack code padded c * padded)
        by (rewrite Hsplit in Hval'; lia).
      rewrite N.mod_add by lia. apply N.mod_small. exact Hidx. }
  assert (Hdiv : buffer' / padded + rest' * C = pack code padded c).
  { transitivity ((buffer' + rest' * C * padded) / padded).
    - rewrite N.div_add by lia. reflexivity.
    - replace (buffer' + rest' * C * padded) with (code_idx code v + pack code padded c * padded)
        by (rewrite Hsplit in Hval'; lia).
      rewrite N.div_add by lia. rewrite N.div_small by exact Hidx. lia. }
  unfold padded at 1. rewrite land_mask. fold padded. rewrite Hmod, Hnth.
  rewrite N.shiftr_div_pow2. fold padded.
  rewrite (IH rest' (buffer' / padded) (bib' - bits) Hc).
  - reflexivity.
  - fold C. apply N.div_lt_upper_bound; [lia|]. rewrite N.mul_comm, <- Hsplit. exact Hbuf'.
  - fold C. exact Hdiv.
Qed.
End Extract.

(* ---------- all packed felts ---------- *)
Lemma chunks_count {A} fuel w : forall (l : list A), (1 <= w)%nat -> (length l <= fuel)%nat ->
  (length l <= length (chunks fuel w l) * w)%nat.
Proof.
  induction fuel as [|f IH]; intros l Hw Hl.
  - destruct l; [cbn; lia|cbn in Hl; lia].
  - destruct l as [|x l']; [cbn; lia|].
    cbn [chunks]. cbn [length].
    assert (Hs : (length (skipn w (x :: l')) <= f)%nat) by (rewrite skipn_length; cbn [length] in *; lia).
    specialize (IH _ Hw Hs). rewrite skipn_length in IH. cbn [length] in *. lia.
Qed.

Lemma unpack_all_chunks code bits : bits <= 64 -> lenN code <= 2 ^ bits ->
  forall fuel w l, (1 <= w)%nat -> (length l <= fuel)%nat -> Forall (fun v => In v code) l ->
  unpack_all (map (pack code (2 ^ bits)) (chunks fuel w l)) code bits (2 ^ bits - 1)
             (N.of_nat w) (lenN l) = Some l.
Proof.
  intros Hb Hc. induction fuel as [|f IH]; intros w l Hw Hl Hall.
  - destruct l; [reflexivity|cbn in Hl; lia].
  - destruct l as [|x l']; [reflexivity|].
    cbn [chunks map unpack_all].
    set (l := x :: l') in *.
    assert (Hcurr : N.to_nat (N.min (N.of_nat w) (lenN l)) = length (firstn w l)).
    { rewrite firstn_length. unfold lenN. lia. }
    rewrite Hcurr.
    rewrite (extract_pack code bits Hb Hc (firstn w l) (pack code (2 ^ bits) (firstn w l)) 0 0).
    + assert (Hrem : lenN l - N.min (N.of_nat w) (lenN l) = lenN (skipn w l)).
      { unfold lenN. rewrite skipn_length. lia. }
      rewrite Hrem. rewrite IH.
      * rewrite firstn_skipn. reflexivity.
      * exact Hw.
      * rewrite skipn_length. subst l. cbn [length] in *. lia.
      * rewrite <- (firstn_skipn w l) in Hall. apply Forall_app in Hall. apply Hall.
    + rewrite <- (firstn_skipn w l) in Hall. apply Forall_app in Hall. apply Hall.
    + cbn. lia.
    + cbn [N.pow]. lia.
Qed.

Lemma split_at_app {A} (a b : list A) : split_at (lenN a) (a ++ b) = (a, b).
Proof.
  induction a as [|x a IH].
  - cbn. destruct b; reflexivity.
  - rewrite lenN_cons. cbn [app split_at].
    replace (N.succ (lenN a) =? 0) with false by (symmetry; apply N.eqb_neq; lia).
    rewrite N.pred_succ, IH. reflexivity.
Qed.

(* ---------- the round trip ---------- *)
Theorem decompress_compress vs :
  lenN vs < 2 ^ 63 -> decompress (compress vs) = Some vs.
Proof.
  intros Hlen. unfold compress.
  set (code := build_code vs).
  set (n := lenN code).
  assert (Hn : n <= lenN vs) by (unfold n, code, lenN; pose proof (build_code_len vs); lia).
  assert (Hmax : 256 <= N.max MIN_PADDED_CODE_SIZE n <= 2 ^ 63) by (unfold MIN_PADDED_CODE_SIZE; lia).
  destruct (next_pow2_spec _ Hmax) as (Hp & Hb & Hge). 
  set (bits := N.log2_up (N.max MIN_PADDED_CODE_SIZE n)) in *.
  rewrite Hp. set (padded := 2 ^ bits).
  assert (Hpad_lo : 256 <= padded).
  { unfold padded. change 256 with (2 ^ 8). apply N.pow_le_mono_r; lia. }
  assert (Hpad_hi : padded <= 2 ^ 63) by (unfold padded; apply N.pow_le_mono_r; lia).
  assert (Hnp : n <= padded) by (unfold padded, MIN_PADDED_CODE_SIZE in *; lia).
  assert (HpPN : padded < PN) by (rewrite PN_val; lia).
  pose proof (words_per_felt_pos padded HpPN) as Hw.
  set (w := words_per_felt padded) in *.
  set (packed := map (pack code padded) (chunks (length vs) (N.to_nat w) vs)).
  unfold decompress. cbn [app pop_usize].
  replace (n <? USIZE) with true by (symmetry; apply N.ltb_lt; unfold USIZE; lia).
  replace (n <? lenN ((padded - n) :: code ++ lenN vs :: packed)) with true.
  2:{ symmetry. apply N.ltb_lt. rewrite lenN_cons, lenN_app, lenN_cons. fold n. lia. }
  cbn [negb pop_usize].
  replace (padded - n <? USIZE) with true by (symmetry; apply N.ltb_lt; unfold USIZE; lia).
  assert (Hsp : split_at n (code ++ lenN vs :: packed) = (code, lenN vs :: packed))
    by apply split_at_app.
  rewrite Hsp. cbn [pop_usize].
  replace (lenN vs <? USIZE) with true by (symmetry; apply N.ltb_lt; unfold USIZE; lia).
  replace (n + (padded - n)) with padded by lia.
  replace (padded <? USIZE) with true by (symmetry; apply N.ltb_lt; unfold USIZE; lia).
  replace (padded <? MIN_PADDED_CODE_SIZE) with false
    by (symmetry; apply N.ltb_ge; unfold MIN_PADDED_CODE_SIZE; lia).
  unfold padded at 1. rewrite is_pow2_pow2. cbn [negb orb].
  fold w.
  assert (Hcount : lenN vs <= lenN packed * w).
  { unfold packed, lenN. rewrite map_length.
    pose proof (chunks_count (length vs) (N.to_nat w) vs) as Hc.
    assert (Hc' : (length vs <= length (chunks (length vs) (N.to_nat w) vs) * N.to_nat w)%nat)
      by (apply Hc; lia).
    nia. }
  apply N.leb_le in Hcount. rewrite Hcount. cbn [negb].
  unfold padded at 1. rewrite N.log2_pow2 by lia.
  unfold packed, padded.
  replace w with (N.of_nat (N.to_nat w)) at 2 by apply N2Nat.id.
  apply unpack_all_chunks.
  - lia.
  - fold padded. fold n. exact Hnp.
  - lia.
  - lia.
  - apply Forall_forall. intros v Hv. apply build_code_In. exact Hv.
Qed.

(* the output of compress is a vector of felts whenever the input is *)
Lemma pack_bound code padded chunk :
  Forall (fun v => In v code) chunk -> lenN code <= padded -> 0 < padded ->
  pack code padded chunk < padded ^ lenN chunk.
Proof.
  intros Hall Hc Hp. induction chunk as [|v c IH].
  - cbn. lia.
  - inversion Hall as [|? ? Hv Hr]; subst. specialize (IH Hr).
    change (pack code padded (v :: c)) with (pack code padded c * padded + code_idx code v).
    destruct (code_idx_spec v code Hv) as [_ Hlt].
    rewrite lenN_cons, N.pow_succ_r by lia. nia.
Qed.

Lemma build_code_acc_rev vs : forall acc v,
  In v (fold_left insert_code vs acc) -> In v acc \/ In v vs.
Proof.
  induction vs as [|x vs IH]; intros acc v H; cbn [fold_left] in H; [now left|].
  apply IH in H. destruct H as [H|H]; [|right; now right].
  unfold insert_code in H. destruct (existsb (N.eqb x) acc); [now left|].
  apply in_app_or in H. destruct H as [H|[<-|[]]]; [now left|right; now left].
Qed.
Lemma build_code_sub vs v : In v (build_code vs) -> In v vs.
Proof. intros H. apply build_code_acc_rev in H. destruct H as [[]|H]. exact H. Qed.

Lemma chunks_spec {A} fuel w : forall (l : list A),
  Forall (fun c => incl c l /\ (length c <= w)%nat) (chunks fuel w l).
Proof.
  induction fuel as [|f IH]; intros l; cbn [chunks]; [constructor|].
  destruct l as [|x l']; [constructor|]. set (l := x :: l'). constructor.
  - split; [|rewrite firstn_length; lia].
    intros z Hz. rewrite <- (firstn_skipn w l). apply in_or_app. now left.
  - eapply Forall_impl; [|apply IH]. intros c [Hi Hl]. split; [|exact Hl].
    intros z Hz. rewrite <- (firstn_skipn w l). apply in_or_app. right. apply Hi, Hz.
Qed.

Theorem compress_felts vs :
  lenN vs < 2 ^ 63 -> Forall (fun v => v < PN) vs -> Forall (fun v => v < PN) (compress vs).
Proof.
  intros Hlen Hvs. unfold compress.
  set (code := build_code vs).
  set (n := lenN code).
  assert (Hn : n <= lenN vs) by (unfold n, code, lenN; pose proof (build_code_len vs); lia).
  assert (Hmax : 256 <= N.max MIN_PADDED_CODE_SIZE n <= 2 ^ 63) by (unfold MIN_PADDED_CODE_SIZE; lia).
  destruct (next_pow2_spec _ Hmax) as (Hp & Hb & Hge).
  set (bits := N.log2_up (N.max MIN_PADDED_CODE_SIZE n)) in *.
  rewrite Hp. set (padded := 2 ^ bits).
  assert (Hpad_hi : padded <= 2 ^ 63) by (unfold padded; apply N.pow_le_mono_r; lia).
  assert (Hnp : n <= padded) by (unfold padded, MIN_PADDED_CODE_SIZE in *; lia).
  assert (HpPN : padded < PN) by (rewrite PN_val; lia).
  pose proof (words_per_felt_bound padded HpPN) as Hwb.
  set (w := words_per_felt padded) in *.
  assert (Hppos : 0 < padded) by apply pow2_pos.
  cbn [app]. constructor; [rewrite PN_val; lia|]. constructor; [rewrite PN_val; lia|].
  apply Forall_app. split.
  - apply Forall_forall. intros v Hv. apply build_code_sub in Hv.
    rewrite Forall_forall in Hvs. now apply Hvs.
  - constructor; [rewrite PN_val; lia|].
    apply Forall_forall. intros x Hx. apply in_map_iff in Hx. destruct Hx as (c & <- & Hc).
    pose proof (chunks_spec (length vs) (N.to_nat w) vs) as HQ.
    rewrite Forall_forall in HQ. destruct (HQ c Hc) as [Hincl Hlc].
    assert (Hall : Forall (fun v => In v code) c).
    { apply Forall_forall. intros v Hv. apply build_code_In. apply Hincl, Hv. }
    pose proof (pack_bound code padded c Hall Hnp Hppos) as Hpk.
    assert (padded ^ lenN c <= padded ^ w) by (apply N.pow_le_mono_r; unfold lenN; lia).
    lia.
Qed.

(* ---------- the allocation of decompress (C14) ---------- *)
Lemma words_per_felt_le_31 p : 256 <= p -> p < PN -> words_per_felt p <= 31.
Proof.
  intros Hlo Hhi. pose proof (words_per_felt_bound p Hhi) as Hb.
  destruct (N.le_gt_cases (words_per_felt p) 31) as [H|H]; [exact H|exfalso].
  assert (H1 : 256 ^ 32 <= 256 ^ words_per_felt p) by (apply N.pow_le_mono_r; lia).
  assert (H2 : 256 ^ words_per_felt p <= p ^ words_per_felt p) by (apply N.pow_le_mono_l; lia).
  assert (H3 : PN < 256 ^ 32) by (rewrite PN_val; reflexivity).
  lia.
Qed.

Lemma split_at_len {A} : forall n (l : list A),
  lenN (snd (split_at n l)) <= lenN l.
Proof.
  intros n l. revert n. induction l as [|x l IH]; intros n; cbn [split_at]; [cbn; lia|].
  destruct (n =? 0); [cbn [snd]; lia|].
  specialize (IH (N.pred n)). destruct (split_at (N.pred n) l). cbn [snd] in *.
  rewrite lenN_cons. lia.
Qed.

Theorem decompress_alloc_bounded pv size bound :
  decompress_alloc pv = Some (size, bound) -> size <= bound /\ bound <= 31 * lenN pv.
Proof.
  unfold decompress_alloc.
  destruct pv as [|x0 pv0]; cbn [pop_usize]; [discriminate|].
  destruct (x0 <? USIZE); [|discriminate].
  destruct (negb (x0 <? lenN pv0)); [discriminate|].
  destruct pv0 as [|x1 pv1]; cbn [pop_usize]; [discriminate|].
  destruct (x1 <? USIZE); [|discriminate].
  pose proof (split_at_len x0 pv1) as Hs.
  destruct (split_at x0 pv1) as [code pv2]. cbn [snd] in Hs.
  destruct pv2 as [|x2 pv3]; cbn [pop_usize]; [discriminate|].
  destruct (x2 <? USIZE); [|discriminate].
  destruct (negb (x0 + x1 <? USIZE)) eqn:E1; [discriminate|].
  destruct (x0 + x1 <? MIN_PADDED_CODE_SIZE) eqn:E2; [discriminate|]. cbn [orb].
  destruct (negb (is_pow2 (x0 + x1))); [discriminate|].
  destruct (negb (x2 <=? lenN pv3 * words_per_felt (x0 + x1))) eqn:E3; [discriminate|].
  intros H. injection H as <- <-.
  apply negb_false_iff in E1, E3. apply N.ltb_lt in E1. apply N.leb_le in E3. apply N.ltb_ge in E2.
  unfold USIZE, MIN_PADDED_CODE_SIZE in *.
  assert (Hw : words_per_felt (x0 + x1) <= 31).
  { apply words_per_felt_le_31; [exact E2|rewrite PN_val; lia]. }
  split; [exact E3|]. rewrite !lenN_cons in *. nia.
Qed.
