(* C18/Compress.v -- model of crates/cairo-lang-starknet-classes/src/felt252_vec_compression.rs
   (compress, decompress, pop_usize, words_per_felt), written as the Rust is written.
   BigUint = N; usize = N with the bound 2^64 checked where Rust converts (to_usize, checked_add).
   Model file: no proofs. *)
From Base Require Export Felt.
From Coq Require Export NArith.
Local Open Scope N_scope.

Definition USIZE : N := 2 ^ 64.                 (* usize::MAX + 1 on the 64-bit targets *)
Definition PN : N := Z.to_N P.                  (* Felt252::prime() *)
Definition MIN_PADDED_CODE_SIZE : N := 256.

Definition lenN {A} (l : list A) : N := N.of_nat (length l).

(* slice.get(i) / indexing by an N (never converts a big N to nat) *)
Fixpoint nthN {A} (l : list A) (i : N) : option A :=
  match l with
  | [] => None
  | x :: r => if i =? 0 then Some x else nthN r (N.pred i)
  end.

(* ---- the code table: OrderedHashMap<&value, usize>, insertion (= first occurrence) order ---- *)
(* for value in values { let idx = code.len(); code.entry(value).or_insert(idx); } *)
Definition insert_code (code : list N) (v : N) : list N :=
  if existsb (N.eqb v) code then code else code ++ [v].
Definition build_code (vs : list N) : list N := fold_left insert_code vs [].

(* code[&value]: the index stored for the key = its position in insertion order *)
Fixpoint index_of (v : N) (code : list N) : option N :=
  match code with
  | [] => None
  | c :: r => if v =? c then Some 0 else option_map N.succ (index_of v r)
  end.
(* Rust's [code[&value]] panics on a missing key; every value was inserted, so the default is
   unreachable (lemma index_of_build_code in CompressProofs.v). *)
Definition code_idx (code : list N) (v : N) : N :=
  match index_of v code with Some i => i | None => 0 end.

(* usize::next_power_of_two: smallest power of two >= n (1 for n = 0) *)
Definition next_pow2 (n : N) : N := 2 ^ N.log2_up n.
(* usize::is_power_of_two *)
Definition is_pow2 (n : N) : bool := (0 <? n) && (n =? 2 ^ N.log2 n).

(* fn words_per_felt: count = 0; max_encoded = padded; while max_encoded < prime
   { max_encoded *= padded; count += 1 }.  The fuel (256 >= 252 doublings) is never exhausted for
   padded >= 2; for padded < 2 the Rust loop would not terminate (unreachable: padded >= 256). *)
Fixpoint wpf_loop (fuel : nat) (padded max_encoded count : N) : N :=
  match fuel with
  | O => count
  | S f => if max_encoded <? PN then wpf_loop f padded (max_encoded * padded) (count + 1) else count
  end.
Definition words_per_felt (padded : N) : N := wpf_loop 256 padded padded 0.

(* for value in chunk.iter().rev() { packed *= padded; packed += code[&value]; } *)
Definition pack (code : list N) (padded : N) (chunk : list N) : N :=
  fold_right (fun v acc => acc * padded + code_idx code v) 0 chunk.

(* values.chunks(w); fuel = length of the list (each chunk is non-empty when w >= 1) *)
Fixpoint chunks {A} (fuel : nat) (w : nat) (l : list A) : list (list A) :=
  match fuel with
  | O => []
  | S f => match l with [] => [] | _ => firstn w l :: chunks f w (skipn w l) end
  end.

(* pub fn compress(values, result): the felts appended to [result] *)
Definition compress (vs : list N) : list N :=
  let code := build_code vs in
  let n := lenN code in
  let padded := next_pow2 (N.max MIN_PADDED_CODE_SIZE n) in
  let w := words_per_felt padded in
  [n; padded - n] ++ code ++ [lenN vs]
    ++ map (pack code padded) (chunks (length vs) (N.to_nat w) vs).

(* fn pop_usize *)
Definition pop_usize (l : list N) : option (list N * N) :=
  match l with
  | [] => None
  | x :: r => if x <? USIZE then Some (r, x) else None
  end.

(* The inner loop of decompress for one packed felt.  The iterator [iter_u64_digits] followed by
   [.next().unwrap_or_default()] is represented by the number [rest] still to be delivered
   (next digit = rest mod 2^64, then rest / 2^64; 0 forever once exhausted).  [buffer] is a u128:
   at the refill bits_in_buffer < bits <= 63, so [digit << bits_in_buffer] < 2^127 never loses bits. *)
Fixpoint extract (n : nat) (code : list N) (bits mask : N) (rest buffer bib : N)
  : option (list N) :=
  match n with
  | O => Some []
  | S n' =>
      let '(rest, buffer, bib) :=
        if bib <? bits
        then (rest / 2 ^ 64, N.lor buffer (N.shiftl (rest mod 2 ^ 64) bib), bib + 64)
        else (rest, buffer, bib) in
      match nthN code (N.land buffer mask) with
      | None => None
      | Some v =>
          match extract n' code bits mask rest (N.shiftr buffer bits) (bib - bits) with
          | None => None
          | Some r => Some (v :: r)
          end
      end
  end.

(* for packed_value in packed_values { curr_words = min(w, remaining); ...; remaining -= curr_words }
   if remaining == 0 { Some(result) } else { None } *)
Fixpoint unpack_all (pvs : list N) (code : list N) (bits mask w remaining : N)
  : option (list N) :=
  match pvs with
  | [] => if remaining =? 0 then Some [] else None
  | pv :: r =>
      let curr := N.min w remaining in
      match extract (N.to_nat curr) code bits mask pv 0 0 with
      | None => None
      | Some ds =>
          match unpack_all r code bits mask w (remaining - curr) with
          | None => None
          | Some rs => Some (ds ++ rs)
          end
      end
  end.

Fixpoint split_at {A} (n : N) (l : list A) : list A * list A :=
  match l with
  | [] => ([], [])
  | x :: r => if n =? 0 then ([], l) else let (a, b) := split_at (N.pred n) r in (x :: a, b)
  end.

(* the allocation decompress performs: Vec::with_capacity(remaining_unpacked_size), after the check
   remaining_unpacked_size <= packed_values.len() * words_per_felt *)
Definition decompress_alloc (pv : list N) : option (N * N) :=
  match pop_usize pv with None => None | Some (pv, code_size) =>
  if negb (code_size <? lenN pv) then None else
  match pop_usize pv with None => None | Some (pv, padding) =>
  let (code, pv) := split_at code_size pv in
  match pop_usize pv with None => None | Some (pv, remaining) =>
  let padded := code_size + padding in
  if negb (padded <? USIZE) then None else
  if (padded <? MIN_PADDED_CODE_SIZE) || negb (is_pow2 padded) then None else
  let w := words_per_felt padded in
  if negb (remaining <=? lenN pv * w) then None else
  Some (remaining, lenN pv * w)
  end end end.

(* pub fn decompress *)
Definition decompress (pv : list N) : option (list N) :=
  match pop_usize pv with None => None | Some (pv, code_size) =>
  if negb (code_size <? lenN pv) then None else
  match pop_usize pv with None => None | Some (pv, padding) =>
  let (code, pv) := split_at code_size pv in
  match pop_usize pv with None => None | Some (pv, remaining) =>
  let padded := code_size + padding in
  if negb (padded <? USIZE) then None else                         (* checked_add *)
  if (padded <? MIN_PADDED_CODE_SIZE) || negb (is_pow2 padded) then None else
  let w := words_per_felt padded in
  if negb (remaining <=? lenN pv * w) then None else
  let bits := N.log2 padded in                                     (* trailing_zeros of a power of 2 *)
  let mask := padded - 1 in
  unpack_all pv code bits mask w remaining
  end end end.
