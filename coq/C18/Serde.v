(* C18/Serde.v -- model of crates/cairo-lang-starknet-classes/src/felt252_serde.rs: the Felt252Serde
   impls (usize, u64, Vec, BigInt, StatementIdx, generic ids, UserTypeId, the u64 ids, Program,
   ConcreteTypeInfo, ConcreteLibfuncLongId, FunctionSignature, Invocation, BranchInfo, VersionId,
   Statement, GenericArg, BranchTarget), vec_with_bounded_capacity, sierra_to_felt252s,
   version_id_from_felt252s, sierra_from_felt252s; and of the Sierra program types of
   cairo-lang-sierra (program.rs, ids.rs) they work on.
   BigUint = N, BigInt = Z, usize/u64 = N (range checked where Rust converts), strings = their
   UTF-8 bytes.  Deserializers run in a monad that threads the remaining input and logs every
   allocation made through vec_with_bounded_capacity.
   Model file: no proofs. *)
From C18 Require Export Compress.
Local Open Scope N_scope.

(* ---------------- Sierra program (cairo-lang-sierra/src/program.rs, ids.rs) ---------------- *)
Definition bytes := list N.        (* a Rust str/SmolStr as its UTF-8 bytes, each < 256 *)

(* ConcreteTypeId / ConcreteLibfuncId / VarId / FunctionId: u64 id + debug name that PartialEq
   ignores (define_identity!) *)
Record id64 := { cid_id : N; cid_dbg : option bytes }.
(* UserTypeId: BigUint id + ignored debug name *)
Record user_type_id := { ut_id : N; ut_dbg : option bytes }.

Inductive generic_arg :=
  | GUserType (u : user_type_id)
  | GType (t : id64)
  | GValue (v : Z)
  | GUserFunc (f : id64)
  | GLibfunc (l : id64).

Record type_info := { storable : bool; droppable : bool; duplicatable : bool; zero_sized : bool }.

Record type_decl := {
  td_id : id64; td_generic : bytes; td_args : list generic_arg; td_info : option type_info }.
Record libfunc_decl := { ld_id : id64; ld_generic : bytes; ld_args : list generic_arg }.

Inductive branch_target := Fallthrough | Target (idx : N).
Record branch := { br_target : branch_target; br_results : list id64 }.
Inductive statement :=
  | Invocation (libfunc : id64) (args : list id64) (branches : list branch)
  | Return (vars : list id64).

Record param := { p_id : id64; p_ty : id64 }.
Record func := {
  f_id : id64; f_param_types : list id64; f_ret_types : list id64;
  f_params : list param; f_entry : N }.

Record program := {
  type_decls : list type_decl; libfunc_decls : list libfunc_decl;
  statements : list statement; funcs : list func }.

Definition version_id := (N * N * N)%type.     (* VersionId { major, minor, patch } *)

(* ---------------- bytes <-> BigUint, UTF-8 ---------------- *)
(* BigUint::from_bytes_be *)
Definition from_bytes_be (s : bytes) : N := fold_left (fun acc b => acc * 256 + b) s 0.

(* BigUint::to_bytes_be: [0] for zero, otherwise the base-256 digits without leading zeros.
   fuel: number of bits of the value (>= number of bytes) *)
Fixpoint to_bytes_aux (fuel : nat) (n : N) (acc : bytes) : bytes :=
  match fuel with
  | O => acc
  | S f => if n =? 0 then acc else to_bytes_aux f (n / 256) (n mod 256 :: acc)
  end.
Definition to_bytes_be (n : N) : bytes :=
  if n =? 0 then [0] else to_bytes_aux (N.to_nat (N.size n)) n [].

Definition cont (b : N) : bool := (0x80 <=? b) && (b <=? 0xBF).
Definition rng (lo hi b : N) : bool := (lo <=? b) && (b <=? hi).
(* core::str::from_utf8(..).is_ok(): well-formed UTF-8 (Unicode table 3-7: no overlong forms, no
   surrogates, at most U+10FFFF) *)
Fixpoint utf8_valid (s : bytes) : bool :=
  match s with
  | [] => true
  | b0 :: r0 =>
    if b0 <? 0x80 then utf8_valid r0 else
    match r0 with
    | [] => false
    | b1 :: r1 =>
      if rng 0xC2 0xDF b0 then cont b1 && utf8_valid r1 else
      match r1 with
      | [] => false
      | b2 :: r2 =>
        if b0 =? 0xE0 then rng 0xA0 0xBF b1 && cont b2 && utf8_valid r2 else
        if rng 0xE1 0xEC b0 || rng 0xEE 0xEF b0 then cont b1 && cont b2 && utf8_valid r2 else
        if b0 =? 0xED then rng 0x80 0x9F b1 && cont b2 && utf8_valid r2 else
        match r2 with
        | [] => false
        | b3 :: r3 =>
          if b0 =? 0xF0 then rng 0x90 0xBF b1 && cont b2 && cont b3 && utf8_valid r3 else
          if rng 0xF1 0xF3 b0 then cont b1 && cont b2 && cont b3 && utf8_valid r3 else
          if b0 =? 0xF4 then rng 0x80 0x8F b1 && cont b2 && cont b3 && utf8_valid r3 else
          false
        end
      end
    end
  end.

Fixpoint bytes_eqb (a b : bytes) : bool :=
  match a, b with
  | [], [] => true
  | x :: a', y :: b' => (x =? y) && bytes_eqb a' b'
  | _, _ => false
  end.

(* ---------------- option monad for the serializers ---------------- *)
Definition obind {A B} (o : option A) (f : A -> option B) : option B :=
  match o with Some a => f a | None => None end.
Notation "x <-? m ;; k" := (obind m (fun x => k)) (at level 61, m at next level, right associativity).

(* ---------------- deserializer monad ---------------- *)
(* an allocation performed through vec_with_bounded_capacity: (size, input.len() at that moment) *)
Definition alloc := (N * N)%type.
Definition M (A : Type) := list N -> list alloc * option (A * list N).
Definition ret {A} (a : A) : M A := fun l => ([], Some (a, l)).
Definition fail {A} : M A := fun _ => ([], None).
Definition bind {A B} (m : M A) (f : A -> M B) : M B := fun l =>
  match m l with
  | (lg, None) => (lg, None)
  | (lg, Some (a, l')) => let (lg', r) := f a l' in (lg ++ lg', r)
  end.
Notation "x <- m ;; k" := (bind m (fun x => k)) (at level 61, m at next level, right associativity).
(* input.next() *)
Definition next : M N := fun l => match l with [] => ([], None) | x :: r => ([], Some (x, r)) end.
(* fn vec_with_bounded_capacity(size, input.len()) *)
Definition bounded (size : N) : M unit := fun l =>
  if lenN l <? size then ([], None) else ([(size, lenN l)], Some (tt, l)).

(* for _ in 0..n { result.push(T::deserialize(input)?) } *)
Fixpoint de_n {A} (n : nat) (e : M A) : M (list A) :=
  match n with
  | O => ret []
  | S n' => x <- e ;; xs <- de_n n' e ;; ret (x :: xs)
  end.
(* for i in i0..i0+n { result.push(f(i)?) } *)
Fixpoint de_n_from {A} (n : nat) (i : N) (e : N -> M A) : M (list A) :=
  match n with
  | O => ret []
  | S n' => x <- e i ;; xs <- de_n_from n' (i + 1) e ;; ret (x :: xs)
  end.

(* ---- basic types ---- *)
Definition ser_usize (n : N) : option (list N) := Some [n].
Definition de_usize : M N := x <- next ;; if x <? USIZE then ret x else fail.   (* to_usize *)
Definition ser_u64 (n : N) : option (list N) := Some [n].
Definition de_u64 : M N := x <- next ;; if x <? 2 ^ 64 then ret x else fail.    (* to_u64 *)
(* BigInt: to_biguint fails on negatives (BigIntOutOfBounds) *)
Definition ser_bigint (z : Z) : option (list N) := if (z <? 0)%Z then None else Some [Z.to_N z].
Definition de_bigint : M Z := x <- next ;; ret (Z.of_N x).

(* Vec<T> *)
Fixpoint ser_list {A} (f : A -> option (list N)) (l : list A) : option (list N) :=
  match l with
  | [] => Some []
  | x :: r => a <-? f x ;; b <-? ser_list f r ;; Some (a ++ b)
  end.
Definition ser_vec {A} (f : A -> option (list N)) (l : list A) : option (list N) :=
  b <-? ser_list f l ;; Some (lenN l :: b).
Definition de_vec {A} (e : M A) : M (list A) :=
  size <- de_usize ;; _ <- bounded size ;; de_n (N.to_nat size) e.

(* id_serde!: ConcreteTypeId, ConcreteLibfuncId, VarId, FunctionId *)
Definition ser_id (i : id64) : option (list N) := ser_u64 (cid_id i).
Definition de_id : M id64 := x <- de_u64 ;; ret {| cid_id := x; cid_dbg := None |}.

(* UserTypeId *)
Definition ser_user_type (u : user_type_id) : option (list N) := Some [ut_id u].
Definition de_user_type : M user_type_id := x <- next ;; ret {| ut_id := x; ut_dbg := None |}.

Definition SHORT_STRING_BOUND : N := 31.
Definition TYPE_INFO_MARKER : N := 0x8000000000000000.

Section LongIds.
(* starknet_keccak on the bytes of a name, and SERDE_SUPPORTED_LONG_IDS; both are supplied by the
   harness from the current code (Corr.v) and quantified over in the theorems. *)
Variable keccak : bytes -> N.
Variable long_ids : list bytes.

(* generic_id_serde!: GenericTypeId, GenericLibfuncId *)
Definition ser_generic_id (s : bytes) : option (list N) :=
  if lenN s <=? SHORT_STRING_BOUND then Some [from_bytes_be s]
  else if existsb (bytes_eqb s) long_ids then Some [keccak s]
  else None.                                                   (* GenericIdTooLong *)
(* LONG_NAME_FIX.get(id): a hash map filled in list order, so a later equal key wins *)
Definition long_name_fix (n : N) : option bytes :=
  find (fun t => keccak t =? n) (rev long_ids).
Definition de_generic_id : M bytes :=
  n <- next ;;
  match long_name_fix n with
  | Some s => ret s
  | None => let b := to_bytes_be n in if utf8_valid b then ret b else fail
  end.

(* GenericArg (custom impl; tag read with usize::deserialize) *)
Definition ser_garg (g : generic_arg) : option (list N) :=
  match g with
  | GUserType u => a <-? ser_usize 0 ;; b <-? ser_user_type u ;; Some (a ++ b)
  | GType t => a <-? ser_usize 1 ;; b <-? ser_id t ;; Some (a ++ b)
  | GValue v =>
      if (v <? 0)%Z then a <-? ser_usize 5 ;; b <-? ser_bigint (- v) ;; Some (a ++ b)
      else a <-? ser_usize 2 ;; b <-? ser_bigint v ;; Some (a ++ b)
  | GUserFunc f => a <-? ser_usize 3 ;; b <-? ser_id f ;; Some (a ++ b)
  | GLibfunc l => a <-? ser_usize 4 ;; b <-? ser_id l ;; Some (a ++ b)
  end.
Definition de_garg : M generic_arg :=
  tag <- de_usize ;;
  if tag =? 0 then u <- de_user_type ;; ret (GUserType u)
  else if tag =? 1 then t <- de_id ;; ret (GType t)
  else if tag =? 2 then v <- de_bigint ;; ret (GValue v)
  else if tag =? 3 then f <- de_id ;; ret (GUserFunc f)
  else if tag =? 4 then l <- de_id ;; ret (GLibfunc l)
  else if tag =? 5 then v <- de_bigint ;; ret (GValue (- v))
  else fail.

(* ConcreteTypeInfo: generic id, len + (decl_ti_value << 128), args *)
Definition b2n (b : bool) (v : N) : N := if b then v else 0.
Definition decl_ti_value (o : option type_info) : N :=
  match o with
  | Some i => N.lor (N.lor (N.lor (N.lor TYPE_INFO_MARKER (b2n (storable i) 1))
                (b2n (droppable i) 2)) (b2n (duplicatable i) 4)) (b2n (zero_sized i) 8)
  | None => 0
  end.
Definition ser_type_info (d : type_decl) : option (list N) :=
  a <-? ser_generic_id (td_generic d) ;;
  b <-? ser_bigint (Z.of_N (lenN (td_args d) + N.shiftl (decl_ti_value (td_info d)) 128)) ;;
  c <-? ser_list ser_garg (td_args d) ;;
  Some (a ++ b ++ c).
Definition de_type_info (i : N) : M type_decl :=
  g <- de_generic_id ;;
  w <- de_bigint ;;
  let len := Z.to_N (Z.land w (Z.of_N (2 ^ 128 - 1))) in
  if negb (len <? USIZE) then fail else                         (* to_usize *)
  let decl := Z.to_N (Z.shiftr w 128) in
  if negb (decl <? 2 ^ 64) then fail else                       (* to_u64 *)
  _ <- bounded len ;;
  args <- de_n (N.to_nat len) de_garg ;;
  ret {| td_id := {| cid_id := i; cid_dbg := None |}; td_generic := g; td_args := args;
         td_info := if decl =? 0 then None else
           Some {| storable := negb (N.land decl 1 =? 0); droppable := negb (N.land decl 2 =? 0);
                   duplicatable := negb (N.land decl 4 =? 0);
                   zero_sized := negb (N.land decl 8 =? 0) |} |}.

(* ConcreteLibfuncLongId (struct_serde!) *)
Definition ser_libfunc_long (d : libfunc_decl) : option (list N) :=
  a <-? ser_generic_id (ld_generic d) ;; b <-? ser_vec ser_garg (ld_args d) ;; Some (a ++ b).
Definition de_libfunc_long (i : N) : M libfunc_decl :=
  g <- de_generic_id ;; args <- de_vec de_garg ;;
  ret {| ld_id := {| cid_id := i; cid_dbg := None |}; ld_generic := g; ld_args := args |}.
End LongIds.

(* BranchTarget: usize::MAX = Fallthrough; StatementIdx = usize *)
Definition ser_target (t : branch_target) : option (list N) :=
  match t with Fallthrough => ser_usize (USIZE - 1) | Target i => ser_usize i end.
Definition de_target : M branch_target :=
  i <- de_usize ;; ret (if i =? USIZE - 1 then Fallthrough else Target i).

(* BranchInfo, Invocation (struct_serde!), Statement (enum_serde!, tag read with u64::deserialize) *)
Definition ser_branch (b : branch) : option (list N) :=
  a <-? ser_target (br_target b) ;; r <-? ser_vec ser_id (br_results b) ;; Some (a ++ r).
Definition de_branch : M branch :=
  t <- de_target ;; r <- de_vec de_id ;; ret {| br_target := t; br_results := r |}.
Definition ser_statement (s : statement) : option (list N) :=
  match s with
  | Invocation l a b =>
      t <-? ser_u64 0 ;; x <-? ser_id l ;; y <-? ser_vec ser_id a ;; z <-? ser_vec ser_branch b ;;
      Some (t ++ x ++ y ++ z)
  | Return v => t <-? ser_u64 1 ;; x <-? ser_vec ser_id v ;; Some (t ++ x)
  end.
Definition de_statement : M statement :=
  tag <- de_u64 ;;
  if tag =? 0 then l <- de_id ;; a <- de_vec de_id ;; b <- de_vec de_branch ;; ret (Invocation l a b)
  else if tag =? 1 then v <- de_vec de_id ;; ret (Return v)
  else fail.

(* one element of Program.funcs: signature, the parameter ids (after require(len equal) and
   require(param.ty == ty) for each), the entry point *)
Fixpoint ser_params (ps : list param) (tys : list id64) : option (list N) :=
  match ps, tys with
  | [], _ => Some []             (* zip stops at the shorter; lengths were required equal before *)
  | _, [] => Some []
  | p :: ps', t :: tys' =>
      if cid_id (p_ty p) =? cid_id t
      then a <-? ser_id (p_id p) ;; b <-? ser_params ps' tys' ;; Some (a ++ b)
      else None                                   (* FunctionArgumentsMismatchInSerialization *)
  end.
Definition ser_func (f : func) : option (list N) :=
  a <-? ser_vec ser_id (f_param_types f) ;;
  b <-? ser_vec ser_id (f_ret_types f) ;;
  if negb (lenN (f_param_types f) =? lenN (f_params f)) then None else
  c <-? ser_params (f_params f) (f_param_types f) ;;
  d <-? ser_usize (f_entry f) ;;
  Some (a ++ b ++ c ++ d).
Fixpoint de_params (tys : list id64) : M (list param) :=
  match tys with
  | [] => ret []
  | t :: r => v <- de_id ;; ps <- de_params r ;; ret ({| p_id := v; p_ty := t |} :: ps)
  end.
Definition de_func (i : N) : M func :=
  pt <- de_vec de_id ;; rt <- de_vec de_id ;; ps <- de_params pt ;; e <- de_usize ;;
  ret {| f_id := {| cid_id := i; cid_dbg := None |}; f_param_types := pt; f_ret_types := rt;
         f_params := ps; f_entry := e |}.

(* declarations with the sequential-id requirement: require(i as u64 == e.id.id) *)
Fixpoint ser_seq {A} (idof : A -> N) (f : A -> option (list N)) (i : N) (l : list A)
  : option (list N) :=
  match l with
  | [] => Some []
  | x :: r => if i =? idof x then a <-? f x ;; b <-? ser_seq idof f (i + 1) r ;; Some (a ++ b)
              else None                              (* OutOfOrder...DeclarationsForSerialization *)
  end.
Definition de_seq {A} (e : N -> M A) : M (list A) :=
  size <- de_usize ;; _ <- bounded size ;; de_n_from (N.to_nat size) 0 e.

Section LongIds2.
Variable keccak : bytes -> N.
Variable long_ids : list bytes.

(* impl Felt252Serde for Program *)
Definition ser_program (p : program) : option (list N) :=
  a <-? ser_seq (fun d => cid_id (td_id d)) (ser_type_info keccak long_ids) 0 (type_decls p) ;;
  b <-? ser_seq (fun d => cid_id (ld_id d)) (ser_libfunc_long keccak long_ids) 0 (libfunc_decls p) ;;
  c <-? ser_vec ser_statement (statements p) ;;
  d <-? ser_seq (fun f => cid_id (f_id f)) ser_func 0 (funcs p) ;;
  Some ((lenN (type_decls p) :: a) ++ (lenN (libfunc_decls p) :: b) ++ c ++ (lenN (funcs p) :: d)).

Definition de_program_log : M program :=
  tds <- de_seq (de_type_info keccak long_ids) ;;
  lds <- de_seq (de_libfunc_long keccak long_ids) ;;
  sts <- de_vec de_statement ;;
  fs <- de_seq de_func ;;
  ret {| type_decls := tds; libfunc_decls := lds; statements := sts; funcs := fs |}.
(* Program::deserialize(&mut iter): the program and the unread rest of the input *)
Definition de_program (l : list N) : option (program * list N) := snd (de_program_log l).
(* the allocations it performed through vec_with_bounded_capacity *)
Definition alloc_requests (l : list N) : list alloc := fst (de_program_log l).

(* VersionId (struct_serde!) *)
Definition ser_version (v : version_id) : list N := let '(a, b, c) := v in [a; b; c].
Definition de_version : M version_id :=
  a <- de_usize ;; b <- de_usize ;; c <- de_usize ;; ret (a, b, c).

(* pub fn sierra_to_felt252s *)
Definition sierra_to (sv cv : version_id) (p : program) : option (list N) :=
  l <-? ser_program p ;; Some (ser_version sv ++ ser_version cv ++ compress l).

(* pub fn version_id_from_felt252s: two versions and &sierra_program[6..] *)
Definition versions_from (l : list N) : option (version_id * version_id * list N) :=
  match snd ((sv <- de_version ;; cv <- de_version ;; ret (sv, cv)) l) with
  | Some ((sv, cv), rest) => Some (sv, cv, rest)
  | None => None
  end.
(* pub fn sierra_from_felt252s (the program is NOT required to consume the whole input) *)
Definition sierra_from (l : list N) : option (version_id * version_id * program) :=
  match versions_from l with
  | None => None
  | Some (sv, cv, rest) =>
      match decompress rest with
      | None => None
      | Some d => match de_program d with Some (p, _) => Some (sv, cv, p) | None => None end
      end
  end.

(* ---------------- what the format can represent ---------------- *)
Definition u64_ok (n : N) : bool := n <? 2 ^ 64.
Definition id_ok (i : id64) : bool := u64_ok (cid_id i).
Definition len_ok {A} (l : list A) : bool := lenN l <? USIZE.
Definition ids_ok (l : list id64) : bool := len_ok l && forallb id_ok l.
Definition bytes_ok (s : bytes) : bool := forallb (fun b => b <? 256) s.

(* a generic id survives iff: at most 31 bytes, a valid UTF-8 string that is non-empty, does not
   start with NUL and is not the big-endian reading of the keccak of a supported long id; or
   longer and in SERDE_SUPPORTED_LONG_IDS *)
Definition generic_id_ok (s : bytes) : bool :=
  if lenN s <=? SHORT_STRING_BOUND
  then bytes_ok s && utf8_valid s
       && match s with [] => false | b :: _ => negb (b =? 0) end
       && negb (existsb (fun t => keccak t =? from_bytes_be s) long_ids)
  else existsb (bytes_eqb s) long_ids.

Definition garg_ok (g : generic_arg) : bool :=
  match g with
  | GUserType _ => true
  | GType t | GUserFunc t | GLibfunc t => id_ok t
  | GValue _ => true
  end.
Definition gargs_ok (l : list generic_arg) : bool := len_ok l && forallb garg_ok l.

Definition type_decl_ok (d : type_decl) : bool := generic_id_ok (td_generic d) && gargs_ok (td_args d).
Definition libfunc_decl_ok (d : libfunc_decl) : bool :=
  generic_id_ok (ld_generic d) && gargs_ok (ld_args d).
Definition target_ok (t : branch_target) : bool :=
  match t with Fallthrough => true | Target i => i <? USIZE - 1 end.
Definition branch_ok (b : branch) : bool := target_ok (br_target b) && ids_ok (br_results b).
Definition statement_ok (s : statement) : bool :=
  match s with
  | Invocation l a b => id_ok l && ids_ok a && len_ok b && forallb branch_ok b
  | Return v => ids_ok v
  end.
Fixpoint params_match (ps : list param) (tys : list id64) : bool :=
  match ps, tys with
  | [], [] => true
  | p :: ps', t :: tys' => (cid_id (p_ty p) =? cid_id t) && id_ok (p_id p) && params_match ps' tys'
  | _, _ => false
  end.
Definition func_ok (f : func) : bool :=
  ids_ok (f_param_types f) && ids_ok (f_ret_types f) && params_match (f_params f) (f_param_types f)
  && (f_entry f <? USIZE).
Fixpoint seq_ok {A} (idof : A -> N) (ok : A -> bool) (i : N) (l : list A) : bool :=
  match l with
  | [] => true
  | x :: r => (idof x =? i) && ok x && seq_ok idof ok (i + 1) r
  end.

Definition ser_ok (p : program) : bool :=
  len_ok (type_decls p) && seq_ok (fun d => cid_id (td_id d)) type_decl_ok 0 (type_decls p)
  && len_ok (libfunc_decls p) && seq_ok (fun d => cid_id (ld_id d)) libfunc_decl_ok 0 (libfunc_decls p)
  && len_ok (statements p) && forallb statement_ok (statements p)
  && len_ok (funcs p) && seq_ok (fun f => cid_id (f_id f)) func_ok 0 (funcs p).
End LongIds2.

(* ---------------- dropping the debug names (what Program's PartialEq ignores) ---------------- *)
Definition strip_id (i : id64) : id64 := {| cid_id := cid_id i; cid_dbg := None |}.
Definition strip_garg (g : generic_arg) : generic_arg :=
  match g with
  | GUserType u => GUserType {| ut_id := ut_id u; ut_dbg := None |}
  | GType t => GType (strip_id t)
  | GValue v => GValue v
  | GUserFunc f => GUserFunc (strip_id f)
  | GLibfunc l => GLibfunc (strip_id l)
  end.
Definition strip_type_decl (d : type_decl) : type_decl :=
  {| td_id := strip_id (td_id d); td_generic := td_generic d;
     td_args := map strip_garg (td_args d); td_info := td_info d |}.
Definition strip_libfunc_decl (d : libfunc_decl) : libfunc_decl :=
  {| ld_id := strip_id (ld_id d); ld_generic := ld_generic d; ld_args := map strip_garg (ld_args d) |}.
Definition strip_branch (b : branch) : branch :=
  {| br_target := br_target b; br_results := map strip_id (br_results b) |}.
Definition strip_statement (s : statement) : statement :=
  match s with
  | Invocation l a b => Invocation (strip_id l) (map strip_id a) (map strip_branch b)
  | Return v => Return (map strip_id v)
  end.
Definition strip_param (p : param) : param := {| p_id := strip_id (p_id p); p_ty := strip_id (p_ty p) |}.
Definition strip_func (f : func) : func :=
  {| f_id := strip_id (f_id f); f_param_types := map strip_id (f_param_types f);
     f_ret_types := map strip_id (f_ret_types f); f_params := map strip_param (f_params f);
     f_entry := f_entry f |}.
Definition strip_debug (p : program) : program :=
  {| type_decls := map strip_type_decl (type_decls p);
     libfunc_decls := map strip_libfunc_decl (libfunc_decls p);
     statements := map strip_statement (statements p);
     funcs := map strip_func (funcs p) |}.
