(* C18/Corr.v -- executable comparison of the model (Compress.v, Serde.v) with the answers of
   cairo-lang-starknet-classes as printed by harness/h18.  Each [check_*] returns the indices of the
   cases on which model and implementation disagree (with a short rendering of the model's
   answer); the driver expects [].
   The harness supplies [long_tab]: the names in SERDE_SUPPORTED_LONG_IDS as observed on the code
   (the > 31 byte core libfunc/type ids the implementation agrees to serialize) with their
   starknet_keccak.  [check_hyp] evaluates the hypotheses of C18_de_ser on that table. *)
From C18 Require Export Compress Serde DebugInfo.
From Coq Require Export Uint63.
Local Open Scope N_scope.

(* Big numbers of the printed cases: little-endian 60-bit chunks as primitive integers (a 250-bit
   hex literal costs Coq 8.16 about 5 ms to parse, a primitive integer nothing). *)
Definition B (l : list int) : N :=
  fold_right (fun c acc => acc * 2 ^ 60 + Z.to_N (Uint63.to_Z c)) 0 l.
Definition ZB (l : list int) : Z := Z.of_N (B l).
Definition ZBn (l : list int) : Z := (- Z.of_N (B l))%Z.

(* short constructors used by the printed cases *)
Definition i_ (n : N) : id64 := {| cid_id := n; cid_dbg := None |}.
Definition id_ (n : N) (s : bytes) : id64 := {| cid_id := n; cid_dbg := Some s |}.
Definition ut_ (n : N) : user_type_id := {| ut_id := n; ut_dbg := None |}.
Definition utd_ (n : N) (s : bytes) : user_type_id := {| ut_id := n; ut_dbg := Some s |}.
Definition ti_ (a b c d : bool) : option type_info :=
  Some {| storable := a; droppable := b; duplicatable := c; zero_sized := d |}.

Fixpoint list_eqb {A} (eqb : A -> A -> bool) (a b : list A) : bool :=
  match a, b with
  | [], [] => true
  | x :: a', y :: b' => eqb x y && list_eqb eqb a' b'
  | _, _ => false
  end.
Definition opt_eqb {A} (eqb : A -> A -> bool) (a b : option A) : bool :=
  match a, b with Some x, Some y => eqb x y | None, None => true | _, _ => false end.

(* full structural equality, debug names included *)
Definition id_eqb (a b : id64) : bool :=
  (cid_id a =? cid_id b) && opt_eqb bytes_eqb (cid_dbg a) (cid_dbg b).
Definition ut_eqb (a b : user_type_id) : bool :=
  (ut_id a =? ut_id b) && opt_eqb bytes_eqb (ut_dbg a) (ut_dbg b).
Definition garg_eqb (a b : generic_arg) : bool :=
  match a, b with
  | GUserType x, GUserType y => ut_eqb x y
  | GType x, GType y | GUserFunc x, GUserFunc y | GLibfunc x, GLibfunc y => id_eqb x y
  | GValue x, GValue y => (x =? y)%Z
  | _, _ => false
  end.
Definition ti_eqb (a b : type_info) : bool :=
  Bool.eqb (storable a) (storable b) && Bool.eqb (droppable a) (droppable b)
  && Bool.eqb (duplicatable a) (duplicatable b) && Bool.eqb (zero_sized a) (zero_sized b).
Definition td_eqb (a b : type_decl) : bool :=
  id_eqb (td_id a) (td_id b) && bytes_eqb (td_generic a) (td_generic b)
  && list_eqb garg_eqb (td_args a) (td_args b) && opt_eqb ti_eqb (td_info a) (td_info b).
Definition ld_eqb (a b : libfunc_decl) : bool :=
  id_eqb (ld_id a) (ld_id b) && bytes_eqb (ld_generic a) (ld_generic b)
  && list_eqb garg_eqb (ld_args a) (ld_args b).
Definition target_eqb (a b : branch_target) : bool :=
  match a, b with
  | Fallthrough, Fallthrough => true
  | Target x, Target y => x =? y
  | _, _ => false
  end.
Definition branch_eqb (a b : branch) : bool :=
  target_eqb (br_target a) (br_target b) && list_eqb id_eqb (br_results a) (br_results b).
Definition statement_eqb (a b : statement) : bool :=
  match a, b with
  | Invocation l x y, Invocation l' x' y' =>
      id_eqb l l' && list_eqb id_eqb x x' && list_eqb branch_eqb y y'
  | Return x, Return y => list_eqb id_eqb x y
  | _, _ => false
  end.
Definition param_eqb (a b : param) : bool := id_eqb (p_id a) (p_id b) && id_eqb (p_ty a) (p_ty b).
Definition func_eqb (a b : func) : bool :=
  id_eqb (f_id a) (f_id b) && list_eqb id_eqb (f_param_types a) (f_param_types b)
  && list_eqb id_eqb (f_ret_types a) (f_ret_types b) && list_eqb param_eqb (f_params a) (f_params b)
  && (f_entry a =? f_entry b).
Definition program_eqb (a b : program) : bool :=
  list_eqb td_eqb (type_decls a) (type_decls b) && list_eqb ld_eqb (libfunc_decls a) (libfunc_decls b)
  && list_eqb statement_eqb (statements a) (statements b) && list_eqb func_eqb (funcs a) (funcs b).
Definition version_eqb (a b : version_id) : bool :=
  let '(a1, a2, a3) := a in let '(b1, b2, b3) := b in (a1 =? b1) && (a2 =? b2) && (a3 =? b3).

Fixpoint indexed {A} (n : N) (l : list A) : list (N * A) :=
  match l with [] => [] | x :: r => (n, x) :: indexed (n + 1) r end.

(* ---- the long-id table ---- *)
Definition long_tab_t := list (bytes * N).
Definition tab_keccak (t : long_tab_t) (s : bytes) : N :=
  match find (fun e => bytes_eqb (fst e) s) t with Some e => snd e | None => 0 end.
Definition tab_ids (t : long_tab_t) : list bytes := map fst t.

Fixpoint nodupb (l : list N) : bool :=
  match l with [] => true | x :: r => negb (existsb (N.eqb x) r) && nodupb r end.
Fixpoint nodup_bytes (l : list bytes) : bool :=
  match l with [] => true | x :: r => negb (existsb (bytes_eqb x) r) && nodup_bytes r end.
(* hypotheses of C18_de_ser for the current table (the hypothesis proper is NoDup of the
   keccaks); also checks what the code's own test asserts (every listed id is longer than 31
   bytes), that the names are distinct, and that every keccak is a felt. *)
Definition check_hyp (t : long_tab_t) : list N :=
  (if nodupb (map (tab_keccak t) (tab_ids t)) then [] else [1])
  ++ (if forallb (fun s => SHORT_STRING_BOUND <? lenN s) (tab_ids t) then [] else [2])
  ++ (if nodup_bytes (tab_ids t) then [] else [3])
  ++ (if forallb (fun e => snd e <? PN) t then [] else [4]).

(* ---- leg 1: compress (and decompress of its output) ---- *)
Definition compress_case := (list N * list N)%type.          (* values, impl compress(values) *)
Definition check_compress (cs : list compress_case) : list (N * N) :=
  flat_map (fun '(k, (vs, e)) =>
    let m := compress vs in
    if list_eqb N.eqb m e && opt_eqb (list_eqb N.eqb) (decompress e) (Some vs)
    then [] else [(k, lenN m)]) (indexed 0 cs).

(* ---- leg 2: decompress on arbitrary felts ---- *)
Definition decompress_case := (list N * option (list N))%type.
Definition check_decompress (cs : list decompress_case) : list (N * option N) :=
  flat_map (fun '(k, (l, e)) =>
    let m := decompress l in
    if opt_eqb (list_eqb N.eqb) m e then [] else [(k, option_map lenN m)]) (indexed 0 cs).

(* ---- leg 3: sierra_to_felt252s ---- *)
Definition ser_case := (version_id * version_id * program * option (list N))%type.
(* answer: (index, model is Some?, ser_ok) *)
Definition check_ser (t : long_tab_t) (cs : list ser_case) : list (N * bool * bool) :=
  let kc := tab_keccak t in let ids := tab_ids t in
  flat_map (fun '(k, (sv, cv, p, e)) =>
    let m := sierra_to kc ids sv cv p in
    if opt_eqb (list_eqb N.eqb) m e then []
    else [(k, match m with Some _ => true | None => false end, ser_ok kc ids p)]) (indexed 0 cs).
(* how many of the cases lie in the domain of C18_de_ser *)
Definition count_ser_ok (t : long_tab_t) (cs : list ser_case) : N :=
  lenN (filter (fun '(sv, cv, p, e) => ser_ok (tab_keccak t) (tab_ids t) p) cs).

(* ---- leg 4: sierra_from_felt252s ---- *)
Definition de_case := (list N * option (version_id * version_id * program))%type.
Definition res_eqb (a b : version_id * version_id * program) : bool :=
  let '(a1, a2, a3) := a in let '(b1, b2, b3) := b in
  version_eqb a1 b1 && version_eqb a2 b2 && program_eqb a3 b3.
Definition check_de (t : long_tab_t) (cs : list de_case) : list (N * bool) :=
  let kc := tab_keccak t in let ids := tab_ids t in
  flat_map (fun '(k, (l, e)) =>
    let m := sierra_from kc ids l in
    if opt_eqb res_eqb m e then []
    else [(k, match m with Some _ => true | None => false end)]) (indexed 0 cs).

(* ---- leg 5: DebugInfo::extract(p).populate(q) ---- *)
Definition populate_case := (program * program * program)%type.   (* p, q, impl result *)
(* answer: (index, names_consistent p) *)
Definition check_populate (cs : list populate_case) : list (N * bool) :=
  flat_map (fun '(k, (p, q, e)) =>
    if program_eqb (populate (extract p) q) e then [] else [(k, names_consistent p)]) (indexed 0 cs).
