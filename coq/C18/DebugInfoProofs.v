(* C18/DebugInfoProofs.v -- populate (extract p) (strip_debug p) = p for every program that carries
   its debug names consistently. *)
From C18 Require Import Serde DebugInfo.
From Coq Require Import Lia.
Local Open Scope N_scope.

Lemma bytes_eqb_true a : forall b, bytes_eqb a b = true -> a = b.
Proof.
  induction a as [|x a IH]; intros [|y b] H; cbn [bytes_eqb] in H; try discriminate; [reflexivity|].
  apply andb_prop in H. destruct H as [H1 H2]. apply N.eqb_eq in H1. rewrite (IH b H2), H1. reflexivity.
Qed.

Lemma try_replace_strip m i : id_cons m i = true -> try_replace m (strip_id i) = i.
Proof.
  unfold id_cons, try_replace, strip_id. destruct i as [n dbg]. cbn [cid_id cid_dbg].
  destruct (lookup m n) as [s|], dbg as [t|]; cbn [oeqb]; intros H; try discriminate; [|reflexivity].
  apply bytes_eqb_true in H. rewrite H. reflexivity.
Qed.
Lemma strip_bare i : bare i = true -> strip_id i = i.
Proof. unfold bare, strip_id. destruct i as [n [s|]]; cbn; [discriminate|reflexivity]. Qed.

Lemma map_map_id {A} (f g : A -> A) (ok : A -> bool) (l : list A) :
  (forall x, ok x = true -> f (g x) = x) -> forallb ok l = true -> map f (map g l) = l.
Proof.
  intros H. induction l as [|x l IH]; intros Hl; [reflexivity|].
  cbn [forallb] in Hl. apply andb_prop in Hl. destruct Hl as [Hx Hr].
  cbn [map]. rewrite (H x Hx), (IH Hr). reflexivity.
Qed.
Lemma map_id_ok {A} (g : A -> A) (ok : A -> bool) (l : list A) :
  (forall x, ok x = true -> g x = x) -> forallb ok l = true -> map g l = l.
Proof.
  intros H. induction l as [|x l IH]; intros Hl; [reflexivity|].
  cbn [forallb] in Hl. apply andb_prop in Hl. destruct Hl as [Hx Hr].
  cbn [map]. rewrite (H x Hx), (IH Hr). reflexivity.
Qed.

Lemma garg_restore d g : garg_cons d g = true -> populate_garg d (strip_garg g) = g.
Proof.
  destruct g as [u|t|v|f|l]; cbn [garg_cons populate_garg strip_garg]; intros H.
  - destruct u as [n [s|]]; cbn in *; [discriminate|reflexivity].
  - rewrite try_replace_strip by exact H. reflexivity.
  - reflexivity.
  - rewrite try_replace_strip by exact H. reflexivity.
  - rewrite try_replace_strip by exact H. reflexivity.
Qed.

Theorem populate_extract_strip p :
  names_consistent p = true -> populate (extract p) (strip_debug p) = p.
Proof.
  unfold names_consistent. set (d := extract p). intros H.
  apply andb_prop in H. destruct H as [H Hf]. apply andb_prop in H. destruct H as [H Hs].
  apply andb_prop in H. destruct H as [Ht Hl].
  destruct p as [tds lds sts fs]. unfold populate, strip_debug.
  cbn [type_decls libfunc_decls statements funcs] in *. f_equal.
  - eapply map_map_id; [|exact Ht]. intros x Hx. cbv beta in Hx.
    apply andb_prop in Hx. destruct Hx as [H1 H2]. destruct x as [i g a ti].
    unfold strip_type_decl. cbn [td_id td_generic td_args td_info] in *.
    rewrite try_replace_strip by exact H1.
    rewrite (map_map_id _ _ _ _ (garg_restore d) H2). reflexivity.
  - eapply map_map_id; [|exact Hl]. intros x Hx. cbv beta in Hx.
    apply andb_prop in Hx. destruct Hx as [H1 H2]. destruct x as [i g a].
    unfold strip_libfunc_decl. cbn [ld_id ld_generic ld_args] in *.
    rewrite try_replace_strip by exact H1.
    rewrite (map_map_id _ _ _ _ (garg_restore d) H2). reflexivity.
  - eapply map_map_id; [|exact Hs]. intros s Hx. cbv beta in Hx.
    destruct s as [l a b|v]; cbn [strip_statement].
    + apply andb_prop in Hx. destruct Hx as [Hx Hb]. apply andb_prop in Hx. destruct Hx as [H1 Ha].
      rewrite try_replace_strip by exact H1.
      rewrite (map_id_ok _ _ _ strip_bare Ha).
      f_equal. eapply map_id_ok; [|exact Hb]. intros br Hbr. cbv beta in Hbr.
      destruct br as [t r]. unfold strip_branch. cbn [br_target br_results] in *.
      rewrite (map_id_ok _ _ _ strip_bare Hbr). reflexivity.
    + rewrite (map_id_ok _ _ _ strip_bare Hx). reflexivity.
  - eapply map_map_id; [|exact Hf]. intros f Hx. cbv beta in Hx.
    apply andb_prop in Hx. destruct Hx as [Hx Hp]. apply andb_prop in Hx. destruct Hx as [Hx Hr].
    apply andb_prop in Hx. destruct Hx as [H1 Hpt]. destruct f as [i pt rt ps e].
    unfold strip_func. cbn [f_id f_param_types f_ret_types f_params f_entry] in *.
    rewrite try_replace_strip by exact H1.
    rewrite (map_map_id _ _ _ _ (try_replace_strip (type_names d)) Hpt).
    rewrite (map_map_id _ _ _ _ (try_replace_strip (type_names d)) Hr).
    f_equal. eapply map_map_id; [|exact Hp]. intros q Hq. cbv beta in Hq.
    apply andb_prop in Hq. destruct Hq as [Hq1 Hq2]. destruct q as [qi qt].
    unfold strip_param. cbn [p_id p_ty] in *.
    rewrite try_replace_strip by exact Hq2. rewrite strip_bare by exact Hq1. reflexivity.
Qed.
