(* C12/Maps.v -- executable models (no proofs) of the collections of cairo-lang-utils that carry
   order in the compiler:

     /repo/crates/cairo-lang-utils/src/ordered_hash_map.rs   OrderedHashMap = IndexMap (Deref/DerefMut)
     /repo/crates/cairo-lang-utils/src/ordered_hash_set.rs   OrderedHashSet = IndexSet
     /repo/crates/cairo-lang-utils/src/unordered_hash_map.rs UnorderedHashMap = HashMap behind an API
                                                             without raw iteration

   Ordered map, two levels:
   * the specification: an association list in insertion order ([spec_step]);
   * the "hashed" model of IndexMapCore: a vector of entries plus a table of indices whose internal
     order is decided by an arbitrary [placement] function (it stands for the hash function, its
     per-process random seed, the capacity and the probing history).  Lookups go through the table.
   MapsProofs.v proves that iteration of the hashed model equals the specification for every
   placement.

   Unordered map: a list of entries in *raw table order*, again decided by an arbitrary placement;
   the observers are those the Rust type exposes (get, len, contains_key, iter_sorted,
   iter_sorted_by_key, aggregate_by, filter, map, eq).  MapsProofs.v proves that they do not depend on
   the placement nor on the order of insertions. *)
From Coq Require Export List NArith Bool.
Export ListNotations.
Local Open Scope N_scope.

Definition entry := (N * N)%type.

(* ================================================================== *)
(* OrderedHashMap: specification                                       *)
(* ================================================================== *)
Inductive oop :=
| OInsert (k v : N)          (* IndexMap::insert: overwrite keeps the position *)
| OEntryOrInsert (k v : N)   (* entry(k).or_insert(v); IndexSet::insert (value ignored) *)
| OSwapRemove (k : N)        (* swap_remove: the last entry takes the place of the removed one *)
| OShiftRemove (k : N)       (* shift_remove: later entries move down *)
| OPop                       (* pop: removes the last entry *)
| OClear.

Definition has_key (m : list entry) (k : N) : bool := existsb (fun e => fst e =? k) m.

Fixpoint s_insert (m : list entry) (k v : N) : list entry :=
  match m with
  | [] => [(k, v)]
  | (k', v') :: m' => if k =? k' then (k', v) :: m' else (k', v') :: s_insert m' k v
  end.

Definition s_or_insert (m : list entry) (k v : N) : list entry :=
  if has_key m k then m else m ++ [(k, v)].

Fixpoint s_shift_remove (m : list entry) (k : N) : list entry :=
  match m with
  | [] => []
  | (k', v') :: m' => if k =? k' then m' else (k', v') :: s_shift_remove m' k
  end.

Fixpoint s_swap_remove (m : list entry) (k : N) : list entry :=
  match m with
  | [] => []
  | (k', v') :: m' =>
      if k =? k' then match m' with [] => [] | _ => last m' (k', v') :: removelast m' end
      else (k', v') :: s_swap_remove m' k
  end.

Definition spec_step (m : list entry) (o : oop) : list entry :=
  match o with
  | OInsert k v => s_insert m k v
  | OEntryOrInsert k v => s_or_insert m k v
  | OSwapRemove k => s_swap_remove m k
  | OShiftRemove k => s_shift_remove m k
  | OPop => removelast m
  | OClear => []
  end.

Definition spec_run (ops : list oop) : list entry := fold_left spec_step ops [].

(* ================================================================== *)
(* OrderedHashMap: hashed model (IndexMapCore: entries + indices)      *)
(* ================================================================== *)
(* where a new element lands in a table that currently holds [n] elements: arbitrary *)
Definition placement := N -> nat -> nat.

Definition insert_at {A} (pos : nat) (x : A) (l : list A) : list A := firstn pos l ++ x :: skipn pos l.

Record hmap := { h_entries : list entry; h_table : list nat }.
Definition h_empty : hmap := {| h_entries := []; h_table := [] |}.

Definition key_at (es : list entry) (i : nat) : option N := option_map fst (nth_error es i).

(* the probe: the first table slot whose entry has the key *)
Definition h_find (m : hmap) (k : N) : option nat :=
  find (fun i => match key_at (h_entries m) i with Some k' => k' =? k | None => false end) (h_table m).

Fixpoint set_value (es : list entry) (i : nat) (v : N) : list entry :=
  match es, i with
  | [], _ => []
  | (k, _) :: r, O => (k, v) :: r
  | e :: r, S j => e :: set_value r j v
  end.

Fixpoint remove_nth {A} (l : list A) (i : nat) : list A :=
  match l, i with
  | [], _ => []
  | _ :: r, O => r
  | x :: r, S j => x :: remove_nth r j
  end.

(* Vec::swap_remove *)
Definition vec_swap_remove (es : list entry) (i : nat) : list entry :=
  match nth_error es i with
  | None => es
  | Some e =>
      if Nat.eqb (S i) (length es) then removelast es
      else firstn i es ++ last es e :: removelast (skipn (S i) es)
  end.

Definition erase (t : list nat) (i : nat) : list nat := filter (fun j => negb (Nat.eqb j i)) t.

Definition h_push (pl : placement) (m : hmap) (k v : N) : hmap :=
  {| h_entries := h_entries m ++ [(k, v)];
     h_table := insert_at (pl k (length (h_table m))) (length (h_entries m)) (h_table m) |}.

Definition h_step (pl : placement) (m : hmap) (o : oop) : hmap :=
  match o with
  | OInsert k v =>
      match h_find m k with
      | Some i => {| h_entries := set_value (h_entries m) i v; h_table := h_table m |}
      | None => h_push pl m k v
      end
  | OEntryOrInsert k v =>
      match h_find m k with
      | Some _ => m
      | None => h_push pl m k v
      end
  | OSwapRemove k =>
      match h_find m k with
      | None => m
      | Some i =>
          let lst := (length (h_entries m) - 1)%nat in
          (* erase_index, entries.swap_remove(i), then update_index(last -> i) if an entry moved *)
          {| h_entries := vec_swap_remove (h_entries m) i;
             h_table := map (fun j => if Nat.eqb j lst then i else j) (erase (h_table m) i) |}
      end
  | OShiftRemove k =>
      match h_find m k with
      | None => m
      | Some i =>
          (* erase_index, decrement_indices(i+1..), entries.remove(i) *)
          {| h_entries := remove_nth (h_entries m) i;
             h_table := map (fun j => if Nat.ltb i j then pred j else j) (erase (h_table m) i) |}
      end
  | OPop =>
      match h_entries m with
      | [] => m
      | _ => {| h_entries := removelast (h_entries m);
                h_table := erase (h_table m) (length (h_entries m) - 1) |}
      end
  | OClear => h_empty
  end.

Definition h_run (pl : placement) (ops : list oop) : hmap := fold_left (h_step pl) ops h_empty.

(* iteration (iter, keys, values, into_iter, Hash, PartialEq) walks the entries vector *)
Definition h_to_list (m : hmap) : list entry := h_entries m.

(* ================================================================== *)
(* UnorderedHashMap                                                    *)
(* ================================================================== *)
Inductive uop := UInsert (k v : N) | URemove (k : N).

(* the state is the raw table order *)
Definition umap := list entry.

Fixpoint u_get (m : umap) (k : N) : option N :=
  match m with
  | [] => None
  | (k', v) :: m' => if k =? k' then Some v else u_get m' k
  end.

Definition u_len (m : umap) : N := N.of_nat (length m).
Definition u_contains_key (m : umap) (k : N) : bool := has_key m k.

Definition u_insert (pl : placement) (m : umap) (k v : N) : umap :=
  if has_key m k then s_insert m k v else insert_at (pl k (length m)) (k, v) m.

Definition u_remove (m : umap) (k : N) : umap := s_shift_remove m k.

Definition u_step (pl : placement) (m : umap) (o : uop) : umap :=
  match o with
  | UInsert k v => u_insert pl m k v
  | URemove k => u_remove m k
  end.

Definition u_run (pl : placement) (ops : list uop) : umap := fold_left (u_step pl) ops [].

(* itertools::sorted_by_key = collect + stable sort *)
Fixpoint ins (f : entry -> N) (e : entry) (l : list entry) : list entry :=
  match l with
  | [] => [e]
  | x :: r => if f e <=? f x then e :: x :: r else x :: ins f e r
  end.
Definition isort (f : entry -> N) (l : list entry) : list entry := fold_right (ins f) [] l.

Definition u_iter_sorted (m : umap) : list entry := isort fst m.
Definition u_iter_sorted_by_key (f : entry -> N) (m : umap) : list entry := isort f m.

(* aggregate_by: fold over the raw order *)
Definition u_aggregate_by (pl : placement) (g : N -> N) (r : N -> N -> N) (d : N) (m : umap) : umap :=
  fold_left (fun acc e =>
               match u_get acc (g (fst e)) with
               | Some old => u_insert pl acc (g (fst e)) (r old (snd e))
               | None => u_insert pl acc (g (fst e)) (r d (snd e))
               end) m [].

(* filter / filter_cloned: the survivors are collected into a new table *)
Definition u_filter (pl : placement) (p : N -> N -> bool) (m : umap) : umap :=
  fold_left (fun acc e => if p (fst e) (snd e) then u_insert pl acc (fst e) (snd e) else acc) m [].

(* map: a new table with mapped values *)
Definition u_map (pl : placement) (f : N -> N) (m : umap) : umap :=
  fold_left (fun acc e => u_insert pl acc (fst e) (f (snd e))) m [].

(* PartialEq (HashMap ==): same length and every entry of one is found in the other *)
Definition u_eq (a b : umap) : bool :=
  Nat.eqb (length a) (length b)
  && forallb (fun e => match u_get b (fst e) with Some v => v =? snd e | None => false end) a.

(* what the last writes of an operation sequence leave for a key *)
Fixpoint last_write (ops : list uop) (k : N) (acc : option N) : option N :=
  match ops with
  | [] => acc
  | UInsert k' v :: r => last_write r k (if k =? k' then Some v else acc)
  | URemove k' :: r => last_write r k (if k =? k' then None else acc)
  end.

(* ================================================================== *)
(* notions used by the theorems                                        *)
(* ================================================================== *)
Definition keys (m : list entry) : list N := map fst m.

(* the position of a key in the entries vector *)
Fixpoint index_of (k : N) (es : list entry) : option nat :=
  match es with
  | [] => None
  | (k', _) :: r => if k =? k' then Some O else option_map S (index_of k r)
  end.

(* two raw tables hold the same finite map *)
Definition uequiv (a b : umap) : Prop :=
  NoDup (keys a) /\ NoDup (keys b) /\ forall k, u_get a k = u_get b k.

(* reduce functions for which aggregate_by is order-free *)
Definition left_comm (r : N -> N -> N) : Prop := forall a x y, r (r a x) y = r (r a y) x.

(* sort keys that do not tie on the entries of the map *)
Definition inj_on (f : entry -> N) (m : umap) : Prop := NoDup (map f m).

Definition uins (e : entry) : uop := UInsert (fst e) (snd e).
