(* C12/OrderedProofs.v -- iteration of the ordered map is a function of the operation sequence only.

   ordered_iteration : forall pl ops, h_to_list (h_run pl ops) = spec_run ops
   The hashed model (entries vector + index table whose internal order is decided by an arbitrary
   placement function, lookups through the table) iterates exactly as the association-list
   specification, for every operation sequence (insert, overwrite, entry().or_insert, swap_remove,
   shift_remove, pop, clear) and every placement -- i.e. whatever the hash function, its seed,
   the capacity or the probing history. *)
From C12 Require Import Maps.
From Coq Require Import Lia Permutation Arith.
Local Open Scope N_scope.

(* ---------- small list facts ---------- *)
Lemma key_at_keys es i : key_at es i = nth_error (keys es) i.
Proof.
  unfold key_at, keys. revert i. induction es as [|e es IH]; intros [|i]; cbn; try reflexivity. apply IH.
Qed.

Definition hit (es : list entry) (k : N) (i : nat) : bool :=
  match key_at es i with Some k' => k' =? k | None => false end.

Lemma hit_iff es k i : hit es k i = true <-> nth_error (keys es) i = Some k.
Proof.
  unfold hit. rewrite key_at_keys. destruct (nth_error (keys es) i) as [k'|]; split; intros H; try discriminate.
  - apply N.eqb_eq in H. subst. reflexivity.
  - injection H as ->. apply N.eqb_refl.
Qed.

Lemma index_of_some k es i : index_of k es = Some i -> (i < length es)%nat /\ hit es k i = true.
Proof.
  revert i. induction es as [|[k' v'] es IH]; intros i; cbn [index_of]; [discriminate|].
  destruct (k =? k') eqn:E.
  - intros [= <-]. split; [cbn; lia|]. apply hit_iff. cbn. apply N.eqb_eq in E. subst. reflexivity.
  - destruct (index_of k es) as [j|]; cbn [option_map]; [|discriminate]. intros [= <-].
    destruct (IH j eq_refl) as [Hlt Hh]. split; [cbn; lia|]. apply hit_iff. cbn. apply hit_iff. exact Hh.
Qed.

Lemma index_of_none k es : index_of k es = None -> forall i, hit es k i = false.
Proof.
  induction es as [|[k' v'] es IH]; cbn [index_of]; intros H i.
  - unfold hit, key_at. destruct i; reflexivity.
  - destruct (k =? k') eqn:E; [discriminate|].
    destruct (index_of k es) as [j|] eqn:Ej; [discriminate|].
    destruct i as [|i].
    + unfold hit, key_at. cbn. rewrite N.eqb_sym. exact E.
    + specialize (IH eq_refl i). unfold hit, key_at in *. cbn. exact IH.
Qed.

Lemma hit_unique es k i j : NoDup (keys es) -> hit es k i = true -> hit es k j = true -> i = j.
Proof.
  intros Hnd Hi Hj. apply hit_iff in Hi. apply hit_iff in Hj.
  apply (proj1 (NoDup_nth_error (keys es)) Hnd).
  - apply nth_error_Some. rewrite Hi. discriminate.
  - rewrite Hi, Hj. reflexivity.
Qed.

Lemma index_of_none_keys k es : index_of k es = None -> ~ In k (keys es).
Proof.
  intros H Hin. apply In_nth_error in Hin. destruct Hin as [i Hi].
  apply hit_iff in Hi. rewrite (index_of_none k es H i) in Hi. discriminate.
Qed.

Lemma has_key_index es k : has_key es k = match index_of k es with Some _ => true | None => false end.
Proof.
  unfold has_key. induction es as [|[k' v'] es IH]; cbn [existsb index_of fst]; [reflexivity|].
  rewrite (N.eqb_sym k' k). destruct (k =? k'); [reflexivity|]. cbn [orb]. rewrite IH.
  destruct (index_of k es); reflexivity.
Qed.

(* ---------- the specification operations through the index ---------- *)
Lemma s_insert_index es k v :
  s_insert es k v = match index_of k es with Some i => set_value es i v | None => es ++ [(k, v)] end.
Proof.
  induction es as [|[k' v'] es IH]; cbn [s_insert index_of app]; [reflexivity|].
  destruct (k =? k'); [reflexivity|]. rewrite IH.
  destruct (index_of k es); cbn [option_map set_value]; reflexivity.
Qed.

Lemma s_shift_remove_index es k :
  s_shift_remove es k = match index_of k es with Some i => remove_nth es i | None => es end.
Proof.
  induction es as [|[k' v'] es IH]; cbn [s_shift_remove index_of]; [reflexivity|].
  destruct (k =? k'); [reflexivity|]. rewrite IH.
  destruct (index_of k es); cbn [option_map remove_nth]; reflexivity.
Qed.

Lemma last_cons {A} (x : A) l d : l <> [] -> last (x :: l) d = last l d.
Proof. destruct l; [congruence|reflexivity]. Qed.

Lemma removelast_cons {A} (x : A) l : l <> [] -> removelast (x :: l) = x :: removelast l.
Proof. destruct l; [congruence|reflexivity]. Qed.

Lemma last_indep {A} (l : list A) d d' : l <> [] -> last l d = last l d'.
Proof.
  induction l as [|a l IH]; [congruence|]. intros _. destruct l as [|b l]; [reflexivity|].
  change (last (b :: l) d = last (b :: l) d'). apply IH. discriminate.
Qed.

Lemma vec_swap_remove_cons x es j :
  (j < length es)%nat -> vec_swap_remove (x :: es) (S j) = x :: vec_swap_remove es j.
Proof.
  intros Hj. unfold vec_swap_remove. cbn [nth_error].
  destruct (nth_error es j) as [e|] eqn:E; [|apply nth_error_None in E; lia].
  assert (es <> []) as Hne by (destruct es; [cbn in Hj; lia|discriminate]).
  cbn [length]. destruct (Nat.eqb (S j) (length es)) eqn:El.
  - apply Nat.eqb_eq in El. replace (Nat.eqb (S (S j)) (S (length es))) with true
      by (symmetry; apply Nat.eqb_eq; lia).
    apply removelast_cons. exact Hne.
  - apply Nat.eqb_neq in El. replace (Nat.eqb (S (S j)) (S (length es))) with false
      by (symmetry; apply Nat.eqb_neq; lia).
    cbn [firstn skipn app]. rewrite last_cons by exact Hne. reflexivity.
Qed.

Lemma s_swap_remove_index es k :
  s_swap_remove es k = match index_of k es with Some i => vec_swap_remove es i | None => es end.
Proof.
  induction es as [|[k' v'] es IH]; cbn [s_swap_remove index_of]; [reflexivity|].
  destruct (k =? k') eqn:E.
  - unfold vec_swap_remove. cbn [nth_error length].
    destruct es as [|e es]; [reflexivity|].
    cbn [Nat.eqb length firstn skipn app].
    rewrite (last_cons (k', v') (e :: es)) by congruence. reflexivity.
  - rewrite IH. destruct (index_of k es) as [j|] eqn:Ej; cbn [option_map]; [|reflexivity].
    rewrite vec_swap_remove_cons; [reflexivity|]. apply (index_of_some k es j Ej).
Qed.

(* ---------- the specification keeps the keys distinct ---------- *)
Lemma keys_s_insert_in es k v : In k (keys es) -> keys (s_insert es k v) = keys es.
Proof.
  induction es as [|[k' v'] es IH]; cbn [s_insert keys map fst]; [intros []|].
  destruct (k =? k') eqn:E; [reflexivity|]. intros [H|H].
  - subst. rewrite N.eqb_refl in E. discriminate.
  - cbn [map fst]. f_equal. apply IH. exact H.
Qed.

Lemma s_insert_fresh es k v : ~ In k (keys es) -> s_insert es k v = es ++ [(k, v)].
Proof.
  induction es as [|[k' v'] es IH]; cbn [s_insert keys map fst app]; [reflexivity|].
  intros Hn. destruct (k =? k') eqn:E.
  - apply N.eqb_eq in E. subst. exfalso. apply Hn. left. reflexivity.
  - f_equal. apply IH. intros H. apply Hn. right. exact H.
Qed.

Lemma nodup_keys_snoc es k v : NoDup (keys es) -> ~ In k (keys es) -> NoDup (keys (es ++ [(k, v)])).
Proof.
  intros Hnd Hn. unfold keys. rewrite map_app. cbn [map fst].
  apply (Permutation_NoDup (l := k :: map fst es)); [apply Permutation_cons_append|].
  constructor; assumption.
Qed.

Lemma s_insert_nodup es k v : NoDup (keys es) -> NoDup (keys (s_insert es k v)).
Proof.
  intros Hnd. destruct (in_dec N.eq_dec k (keys es)) as [Hin|Hn].
  - rewrite keys_s_insert_in by exact Hin. exact Hnd.
  - rewrite s_insert_fresh by exact Hn. apply nodup_keys_snoc; assumption.
Qed.

Lemma keys_shift_remove_incl es k : incl (keys (s_shift_remove es k)) (keys es).
Proof.
  induction es as [|[k' v'] es IH]; cbn [s_shift_remove keys map fst]; [apply incl_refl|].
  destruct (k =? k'); [apply incl_tl, incl_refl|].
  cbn [map fst]. intros x [<-|Hx]; [left; reflexivity|right; apply IH; exact Hx].
Qed.

Lemma s_shift_remove_nodup es k : NoDup (keys es) -> NoDup (keys (s_shift_remove es k)).
Proof.
  induction es as [|[k' v'] es IH]; cbn [s_shift_remove keys map fst]; intros Hnd; [constructor|].
  inversion Hnd as [|? ? Hnotin Hnd']; subst.
  destruct (k =? k'); [exact Hnd'|]. cbn [map fst]. constructor; [|apply IH; exact Hnd'].
  intros H. apply Hnotin. apply (keys_shift_remove_incl es k). exact H.
Qed.

Lemma s_swap_shift_perm es k : Permutation (s_swap_remove es k) (s_shift_remove es k).
Proof.
  induction es as [|[k' v'] es IH]; cbn [s_swap_remove s_shift_remove]; [constructor|].
  destruct (k =? k'); [|constructor; exact IH].
  destruct es as [|e es]; [constructor|].
  pose proof (@app_removelast_last _ (e :: es) (k', v') ltac:(discriminate)) as H.
  rewrite H at 3. apply Permutation_cons_append.
Qed.

Lemma s_swap_remove_nodup es k : NoDup (keys es) -> NoDup (keys (s_swap_remove es k)).
Proof.
  intros Hnd. apply (Permutation_NoDup (l := keys (s_shift_remove es k))).
  - apply Permutation_map. symmetry. apply s_swap_shift_perm.
  - apply s_shift_remove_nodup. exact Hnd.
Qed.

Lemma removelast_nodup es : NoDup (keys es) -> NoDup (keys (removelast es)).
Proof.
  intros Hnd. destruct es as [|e es]; [exact Hnd|].
  pose proof (@app_removelast_last _ (e :: es) e ltac:(discriminate)) as H.
  rewrite H in Hnd. unfold keys in *. rewrite map_app in Hnd. cbn [map] in Hnd.
  apply NoDup_remove_1 in Hnd. rewrite app_nil_r in Hnd. exact Hnd.
Qed.

Lemma spec_step_nodup es o : NoDup (keys es) -> NoDup (keys (spec_step es o)).
Proof.
  intros Hnd. destruct o as [k v|k v|k|k| |]; cbn [spec_step].
  - apply s_insert_nodup. exact Hnd.
  - unfold s_or_insert. rewrite has_key_index. destruct (index_of k es) eqn:E; [exact Hnd|].
    apply nodup_keys_snoc; [exact Hnd|]. apply index_of_none_keys. exact E.
  - apply s_swap_remove_nodup. exact Hnd.
  - apply s_shift_remove_nodup. exact Hnd.
  - apply removelast_nodup. exact Hnd.
  - constructor.
Qed.

(* ---------- lengths ---------- *)
Lemma set_value_length es i v : length (set_value es i v) = length es.
Proof.
  revert i. induction es as [|[k w] es IH]; intros [|i]; cbn [set_value length]; try reflexivity.
  rewrite IH. reflexivity.
Qed.

Lemma remove_nth_length {A} (l : list A) i : (i < length l)%nat -> length (remove_nth l i) = (length l - 1)%nat.
Proof.
  revert i. induction l as [|x l IH]; intros [|i]; cbn [remove_nth length]; intros H; try lia.
  rewrite IH by lia. lia.
Qed.

Lemma removelast_length {A} (l : list A) : length (removelast l) = (length l - 1)%nat.
Proof.
  destruct l as [|x l]; [reflexivity|].
  pose proof (@app_removelast_last _ (x :: l) x ltac:(discriminate)) as H.
  apply (f_equal (@length A)) in H. rewrite app_length in H. cbn [length] in *. lia.
Qed.

Lemma vec_swap_remove_length es i : (i < length es)%nat -> length (vec_swap_remove es i) = (length es - 1)%nat.
Proof.
  intros Hi. pose proof (Permutation_length (s_swap_shift_perm es (match nth_error es i with Some e => fst e | None => 0 end))) as _.
  unfold vec_swap_remove. destruct (nth_error es i) as [e|] eqn:E; [|apply nth_error_None in E; lia].
  destruct (Nat.eqb (S i) (length es)) eqn:El.
  - apply removelast_length.
  - apply Nat.eqb_neq in El. rewrite app_length. cbn [length]. rewrite firstn_length, removelast_length, skipn_length. lia.
Qed.

(* ---------- the invariant of the hashed model ---------- *)
Definition hinv (m : hmap) : Prop :=
  NoDup (keys (h_entries m)) /\ forall j, In j (h_table m) <-> (j < length (h_entries m))%nat.

Lemma h_find_spec m k : hinv m -> h_find m k = index_of k (h_entries m).
Proof.
  intros [Hnd Htab]. unfold h_find. fold (hit (h_entries m) k).
  destruct (index_of k (h_entries m)) as [i|] eqn:E.
  - destruct (index_of_some _ _ _ E) as [Hlt Hhit].
    destruct (find (hit (h_entries m) k) (h_table m)) as [x|] eqn:F.
    + apply find_some in F. destruct F as [_ Hx]. f_equal. apply (hit_unique (h_entries m) k); assumption.
    + exfalso. pose proof (find_none _ _ F i (proj2 (Htab i) Hlt)) as Hc. rewrite Hhit in Hc. discriminate.
  - destruct (find (hit (h_entries m) k) (h_table m)) as [x|] eqn:F; [|reflexivity].
    apply find_some in F. destruct F as [_ Hx]. rewrite (index_of_none _ _ E x) in Hx. discriminate.
Qed.

Lemma in_insert_at {A} pos (x y : A) l : In y (insert_at pos x l) <-> y = x \/ In y l.
Proof.
  unfold insert_at. rewrite in_app_iff. cbn [In].
  assert (In y l <-> In y (firstn pos l) \/ In y (skipn pos l)) as H
    by (rewrite <- in_app_iff, firstn_skipn; reflexivity).
  intuition congruence.
Qed.

Lemma in_erase t i j : In j (erase t i) <-> In j t /\ j <> i.
Proof.
  unfold erase. rewrite filter_In. rewrite negb_true_iff, Nat.eqb_neq. reflexivity.
Qed.

Lemma push_inv pl m k v : hinv m -> index_of k (h_entries m) = None -> hinv (h_push pl m k v).
Proof.
  intros [Hnd Htab] E. split; cbn [h_push h_entries h_table].
  - apply nodup_keys_snoc; [exact Hnd|]. apply index_of_none_keys. exact E.
  - intros j. rewrite in_insert_at, Htab, app_length. cbn [length]. lia.
Qed.

(* one step: the entries follow the specification and the invariant is kept *)
Lemma h_step_refines pl m o :
  hinv m -> h_entries (h_step pl m o) = spec_step (h_entries m) o /\ hinv (h_step pl m o).
Proof.
  intros Hinv. pose proof Hinv as [Hnd Htab].
  assert (Hnd' : NoDup (keys (spec_step (h_entries m) o))) by (apply spec_step_nodup; exact Hnd).
  destruct o as [k v|k v|k|k| |]; cbn [h_step spec_step] in *.
  - (* insert *)
    rewrite (h_find_spec m k Hinv), s_insert_index in *.
    destruct (index_of k (h_entries m)) as [i|] eqn:E.
    + split; [reflexivity|]. split; cbn [h_entries h_table]; [exact Hnd'|].
      intros j. rewrite set_value_length. apply Htab.
    + split; [reflexivity|]. apply push_inv; assumption.
  - (* entry().or_insert *)
    rewrite (h_find_spec m k Hinv). unfold s_or_insert in *. rewrite has_key_index in *.
    destruct (index_of k (h_entries m)) as [i|] eqn:E.
    + split; [reflexivity|exact Hinv].
    + split; [reflexivity|]. apply push_inv; assumption.
  - (* swap_remove *)
    rewrite (h_find_spec m k Hinv), s_swap_remove_index in *.
    destruct (index_of k (h_entries m)) as [i|] eqn:E; [|split; [reflexivity|exact Hinv]].
    destruct (index_of_some _ _ _ E) as [Hlt _].
    split; [reflexivity|]. split; cbn [h_entries h_table]; [exact Hnd'|].
    intros x. rewrite vec_swap_remove_length by exact Hlt. rewrite in_map_iff. split.
    + intros [j [Hx Hj]]. apply in_erase in Hj. destruct Hj as [Hj Hne]. apply Htab in Hj.
      destruct (Nat.eqb j (length (h_entries m) - 1)) eqn:Ej.
      * apply Nat.eqb_eq in Ej. subst. lia.
      * apply Nat.eqb_neq in Ej. subst. lia.
    + intros Hx. destruct (Nat.eq_dec x i) as [->|Hne].
      * exists (length (h_entries m) - 1)%nat. rewrite Nat.eqb_refl. split; [reflexivity|].
        apply in_erase. split; [apply Htab; lia|lia].
      * exists x. replace (Nat.eqb x (length (h_entries m) - 1)) with false
          by (symmetry; apply Nat.eqb_neq; lia).
        split; [reflexivity|]. apply in_erase. split; [apply Htab; lia|exact Hne].
  - (* shift_remove *)
    rewrite (h_find_spec m k Hinv), s_shift_remove_index in *.
    destruct (index_of k (h_entries m)) as [i|] eqn:E; [|split; [reflexivity|exact Hinv]].
    destruct (index_of_some _ _ _ E) as [Hlt _].
    split; [reflexivity|]. split; cbn [h_entries h_table]; [exact Hnd'|].
    intros x. rewrite remove_nth_length by exact Hlt. rewrite in_map_iff. split.
    + intros [j [Hx Hj]]. apply in_erase in Hj. destruct Hj as [Hj Hne]. apply Htab in Hj.
      destruct (Nat.ltb i j) eqn:Ej.
      * apply Nat.ltb_lt in Ej. subst. lia.
      * apply Nat.ltb_ge in Ej. subst. lia.
    + intros Hx. destruct (Nat.ltb x i) eqn:Exi.
      * apply Nat.ltb_lt in Exi. exists x.
        replace (Nat.ltb i x) with false by (symmetry; apply Nat.ltb_ge; lia).
        split; [reflexivity|]. apply in_erase. split; [apply Htab; lia|lia].
      * apply Nat.ltb_ge in Exi. exists (S x).
        replace (Nat.ltb i (S x)) with true by (symmetry; apply Nat.ltb_lt; lia).
        split; [reflexivity|]. apply in_erase. split; [apply Htab; lia|lia].
  - (* pop *)
    destruct (h_entries m) as [|e es] eqn:Ees.
    + split; [rewrite Ees; reflexivity|exact Hinv].
    + split; [reflexivity|]. split; cbn [h_entries h_table]; [exact Hnd'|].
      intros j. rewrite in_erase, Htab, removelast_length. cbn [length]. lia.
  - (* clear *)
    split; [reflexivity|]. split; cbn; [constructor|]. intros j. split; [intros []|lia].
Qed.

Lemma h_run_refines pl ops : forall m,
  hinv m ->
  h_entries (fold_left (h_step pl) ops m) = fold_left spec_step ops (h_entries m)
  /\ hinv (fold_left (h_step pl) ops m).
Proof.
  induction ops as [|o ops IH]; intros m Hinv; cbn [fold_left]; [split; [reflexivity|exact Hinv]|].
  destruct (h_step_refines pl m o Hinv) as [He Hi]. rewrite <- He. apply IH. exact Hi.
Qed.

Lemma hinv_empty : hinv h_empty.
Proof. split; cbn; [constructor|]. intros j. split; [intros []|lia]. Qed.

Theorem ordered_iteration : forall pl ops, h_to_list (h_run pl ops) = spec_run ops.
Proof. intros pl ops. apply (h_run_refines pl ops h_empty hinv_empty). Qed.

Corollary ordered_iteration_sequence_only : forall pl1 pl2 ops,
  h_to_list (h_run pl1 ops) = h_to_list (h_run pl2 ops).
Proof. intros. rewrite !ordered_iteration. reflexivity. Qed.

(* the keys of an ordered map stay distinct, so the list really is a map *)
Theorem spec_run_nodup : forall ops, NoDup (keys (spec_run ops)).
Proof.
  intros ops. unfold spec_run.
  assert (forall m, NoDup (keys m) -> NoDup (keys (fold_left spec_step ops m))) as H.
  { induction ops as [|o ops IH]; intros m Hm; cbn [fold_left]; [exact Hm|]. apply IH, spec_step_nodup, Hm. }
  apply H. constructor.
Qed.
