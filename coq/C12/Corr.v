(* C12/Corr.v -- executable comparison of the models with the implementation's answers, as emitted
   by harness/h12.  Each [check_*] returns the indices (with a reason code) of the cases on which
   model and implementation disagree; the driver expects []. *)
From C12 Require Import Canon Maps.
Local Open Scope N_scope.

Fixpoint list_eqb {A} (eqb : A -> A -> bool) (a b : list A) : bool :=
  match a, b with
  | [], [] => true
  | x :: a', y :: b' => eqb x y && list_eqb eqb a' b'
  | _, _ => false
  end.
Definition opt_eqb {A} (eqb : A -> A -> bool) (a b : option A) : bool :=
  match a, b with Some x, Some y => eqb x y | None, None => true | _, _ => false end.
Definition pair_eqb {A B} (ea : A -> A -> bool) (eb : B -> B -> bool) (a b : A * B) : bool :=
  ea (fst a) (fst b) && eb (snd a) (snd b).

Fixpoint indexed {A} (n : N) (l : list A) : list (N * A) :=
  match l with [] => [] | x :: r => (n, x) :: indexed (n + 1) r end.

(* ---------- leg 1: CanonicalReplacer::from_program(p).apply(p) ---------- *)
Definition garg_eqb (a b : garg) : bool :=
  match a, b with
  | GUserType x, GUserType y | GType x, GType y | GUserFunc x, GUserFunc y | GLibfunc x, GLibfunc y =>
      x =? y
  | GValue x, GValue y => Z.eqb x y
  | _, _ => false
  end.

Definition info_eqb (a b : bool * bool * bool * bool) : bool :=
  let '(a1, a2, a3, a4) := a in let '(b1, b2, b3, b4) := b in
  Bool.eqb a1 b1 && Bool.eqb a2 b2 && Bool.eqb a3 b3 && Bool.eqb a4 b4.

Definition type_decl_eqb (a b : type_decl) : bool :=
  (td_id a =? td_id b) && (td_generic a =? td_generic b)
  && list_eqb garg_eqb (td_args a) (td_args b) && opt_eqb info_eqb (td_info a) (td_info b).

Definition libfunc_decl_eqb (a b : libfunc_decl) : bool :=
  (ld_id a =? ld_id b) && (ld_generic a =? ld_generic b) && list_eqb garg_eqb (ld_args a) (ld_args b).

Definition target_eqb (a b : target) : bool :=
  match a, b with
  | Fallthrough, Fallthrough => true
  | Statement x, Statement y => x =? y
  | _, _ => false
  end.

Definition stmt_eqb (a b : stmt) : bool :=
  match a, b with
  | Invocation l x br, Invocation l' x' br' =>
      (l =? l') && list_eqb N.eqb x x'
      && list_eqb (pair_eqb target_eqb (list_eqb N.eqb)) br br'
  | Return x, Return y => list_eqb N.eqb x y
  | _, _ => false
  end.

Definition func_eqb (a b : func) : bool :=
  (f_id a =? f_id b) && list_eqb N.eqb (f_param_types a) (f_param_types b)
  && list_eqb N.eqb (f_ret_types a) (f_ret_types b)
  && list_eqb (pair_eqb N.eqb N.eqb) (f_params a) (f_params b) && (f_entry a =? f_entry b).

Definition program_eqb (a b : program) : bool :=
  list_eqb type_decl_eqb (p_types a) (p_types b)
  && list_eqb libfunc_decl_eqb (p_libfuncs a) (p_libfuncs b)
  && list_eqb stmt_eqb (p_stmts a) (p_stmts b)
  && list_eqb func_eqb (p_funcs a) (p_funcs b).

Definition result_eqb (a b : result) : bool :=
  match a, b with
  | Ok x, Ok y => program_eqb x y
  | Panic x, Panic y => ns_eqb x y
  | _, _ => false
  end.

(* a case: the program, a renaming of its ids (three tables), what the implementation's canonical
   replacer returned on the program, and (for small programs) the harness' renamed program *)
Definition tables := (list (N * N) * list (N * N) * list (N * N))%type.
Definition canon_case := (program * tables * result * option program)%type.

(* reason codes: 1 canon p <> impl; 2 renaming printed by the harness is not injective / does not
   cover the ids; 3 canon (rename s p) <> impl's canon p; 4 harness' renamed program <> rename s p;
   5 canonical result not a fixed point of canon; 6 a well-formed program panicked / declared ids of
   the canonical program are not 0..n-1 *)
Definition seqN (n : nat) : list N := map N.of_nat (seq 0 n).

Definition check_canon_one (c : canon_case) : list N :=
  let '(p, (t1, t2, t3), e, q) := c in
  let s := table_renaming t1 t2 t3 in
  let mp := canon p in
  (if result_eqb mp e then [] else [1])
  ++ (if table_injb t1 && table_injb t2 && table_injb t3 && covered t1 t2 t3 p then [] else [2])
  ++ (if result_eqb (canon (rename s p)) e then [] else [3])
  ++ (match q with Some q' => if program_eqb (rename s p) q' then [] else [4] | None => [] end)
  ++ (match mp with
      | Ok c' =>
          if well_formedb p then
            (if result_eqb (canon c') mp then [] else [5])
            ++ (if list_eqb N.eqb (declared NsType c') (seqN (length (p_types p)))
                   && list_eqb N.eqb (declared NsLibfunc c') (seqN (length (p_libfuncs p)))
                   && list_eqb N.eqb (declared NsFunc c') (seqN (length (p_funcs p)))
                then [] else [6])
          else []
      | Panic _ => if well_formedb p then [6] else []
      end).

Definition check_canon (cs : list canon_case) : list (N * list N) :=
  flat_map (fun '(k, c) => match check_canon_one c with [] => [] | r => [(k, r)] end) (indexed 0 cs).

(* ---------- leg 2: OrderedHashMap (IndexMap) ---------- *)
(* a case: a sequence of operations and, after each, what the implementation's map iterates to *)
Definition omap_case := (list oop * list (list (N * N)))%type.

Fixpoint trace_spec (ops : list oop) (m : list (N * N)) : list (list (N * N)) :=
  match ops with
  | [] => []
  | o :: r => let m' := spec_step m o in m' :: trace_spec r m'
  end.

(* the hashed model is run with two arbitrary placement functions; both must give the same order *)
Definition place_a : placement := fun k n => N.to_nat (k mod N.of_nat (S n)).
Definition place_b : placement := fun k n => (n - N.to_nat ((k * 7 + 3) mod N.of_nat (S n)))%nat.

Definition check_omap_one (c : omap_case) : list N :=
  let '(ops, tr) := c in
  let es := list_eqb (list_eqb (pair_eqb N.eqb N.eqb)) in
  (if es (trace_spec ops []) tr then [] else [1])
  ++ (if list_eqb (pair_eqb N.eqb N.eqb) (h_to_list (h_run place_a ops)) (last tr []) then [] else [2])
  ++ (if list_eqb (pair_eqb N.eqb N.eqb) (h_to_list (h_run place_b ops)) (last tr []) then [] else [3]).

Definition check_omap (cs : list omap_case) : list (N * list N) :=
  flat_map (fun '(k, c) => match check_omap_one c with [] => [] | r => [(k, r)] end) (indexed 0 cs).

(* ---------- leg 3: UnorderedHashMap observers ---------- *)
(* a case: a sequence of insert/remove operations and the implementation's answers:
   len, get on probe keys, iter_sorted, iter_sorted_by_key (key = value, then key),
   aggregate_by (key mod 4, sum, 0) observed through iter_sorted, filter (value even) observed through
   iter_sorted *)
Definition umap_obs := (N * list (N * option N) * list (N * N) * list (N * N) * list (N * N) * list (N * N))%type.
Definition umap_case := (list uop * umap_obs)%type.

Definition sort_key (e : N * N) : N := snd e * 4294967296 + fst e.
Definition agg_key (k : N) : N := k mod 4.
Definition even_val (k v : N) : bool := N.even v.

Definition observe (pl : placement) (ops : list uop) (probes : list N) : umap_obs :=
  let m := u_run pl ops in
  (u_len m, map (fun k => (k, u_get m k)) probes, u_iter_sorted m, u_iter_sorted_by_key sort_key m,
   u_iter_sorted (u_aggregate_by pl agg_key N.add 0 m), u_iter_sorted (u_filter pl even_val m)).

Definition obs_eqb (a b : umap_obs) : bool :=
  let '(l1, g1, s1, k1, a1, f1) := a in let '(l2, g2, s2, k2, a2, f2) := b in
  let le := list_eqb (pair_eqb N.eqb N.eqb) in
  (l1 =? l2) && list_eqb (pair_eqb N.eqb (opt_eqb N.eqb)) g1 g2 && le s1 s2 && le k1 k2 && le a1 a2 && le f1 f2.

Definition check_umap_one (c : umap_case) : list N :=
  let '(ops, o) := c in
  let '(_, g, _, _, _, _) := o in
  let probes := map fst g in
  (if obs_eqb (observe place_a ops probes) o then [] else [1])
  ++ (if obs_eqb (observe place_b ops probes) o then [] else [2]).

Definition check_umap (cs : list umap_case) : list (N * list N) :=
  flat_map (fun '(k, c) => match check_umap_one c with [] => [] | r => [(k, r)] end) (indexed 0 cs).
