(* C12/Canon.v -- executable model (no proofs) of

     /repo/crates/cairo-lang-sierra-generator/src/canonical_id_replacer.rs
        CanonicalReplacer::from_program            (l.21-42)
        replace_{libfunc,type,function}_id          (l.45-77, `.get(id).expect("Unexpected ... id.")`)
     /repo/crates/cairo-lang-sierra-generator/src/replace_ids.rs
        SierraIdReplacer::apply                     (l.11-42)
        SierraIdReplacer::replace_generic_args      (l.62-78)

   A Sierra program is modelled with *abstract interned ids*: concrete type ids, concrete libfunc
   ids and function ids are opaque numbers ([N], the `id: u64` field; `Eq`/`Hash` of the Rust ids
   ignore `debug_name`, ids.rs l.44-56, and so does the model).  Everything that is not an interned
   id (generic names, user type ids, values, variable ids, branch targets, declared type info,
   entry points) is carried through unchanged, as in the Rust.

   [rename s p] applies a renaming [s] of the interned ids to every occurrence; [canon p] is
   `CanonicalReplacer::from_program(&p).apply(&p)`, with the `expect` panics as [Panic]. *)
From Coq Require Export List NArith ZArith Bool.
Export ListNotations.
Local Open Scope N_scope.

(* the three namespaces of interned ids *)
Inductive ns := NsType | NsLibfunc | NsFunc.

Definition ns_eqb (a b : ns) : bool :=
  match a, b with
  | NsType, NsType | NsLibfunc, NsLibfunc | NsFunc, NsFunc => true
  | _, _ => false
  end.

(* an occurrence of an interned id *)
Definition occ := (ns * N)%type.

(* ---------- program.rs: Program and its parts ---------- *)
Inductive garg :=                        (* program.rs GenericArg *)
| GUserType (u : N)                      (*   UserType(UserTypeId): a hash of the name, not interned *)
| GType (t : N)                          (*   Type(ConcreteTypeId) *)
| GValue (v : Z)                         (*   Value(BigInt) *)
| GUserFunc (f : N)                      (*   UserFunc(FunctionId) *)
| GLibfunc (l : N).                      (*   Libfunc(ConcreteLibfuncId) *)

Record type_decl := {                    (* TypeDeclaration *)
  td_id : N;
  td_generic : N;                        (*   long_id.generic_id (a name; abstract) *)
  td_args : list garg;                   (*   long_id.generic_args *)
  td_info : option (bool * bool * bool * bool)  (* declared_type_info *)
}.

Record libfunc_decl := {                 (* LibfuncDeclaration *)
  ld_id : N;
  ld_generic : N;
  ld_args : list garg
}.

Inductive target := Fallthrough | Statement (idx : N).

Inductive stmt :=                        (* GenStatement<StatementIdx> *)
| Invocation (libfunc : N) (args : list N) (branches : list (target * list N))
| Return (vars : list N).

Record func := {                         (* GenFunction<StatementIdx> *)
  f_id : N;
  f_param_types : list N;                (*   signature.param_types *)
  f_ret_types : list N;                  (*   signature.ret_types *)
  f_params : list (N * N);               (*   params: (VarId, ConcreteTypeId) *)
  f_entry : N
}.

Record program := {
  p_types : list type_decl;
  p_libfuncs : list libfunc_decl;
  p_stmts : list stmt;
  p_funcs : list func
}.

(* ---------- the ids of a program ---------- *)
Definition garg_occ (g : garg) : list occ :=
  match g with
  | GType t => [(NsType, t)]
  | GUserFunc f => [(NsFunc, f)]
  | GLibfunc l => [(NsLibfunc, l)]
  | GUserType _ | GValue _ => []
  end.

Definition stmt_occ (s : stmt) : list occ :=
  match s with
  | Invocation l _ _ => [(NsLibfunc, l)]
  | Return _ => []
  end.

Definition type_decl_occ (d : type_decl) : list occ :=
  (NsType, td_id d) :: flat_map garg_occ (td_args d).

Definition libfunc_decl_occ (d : libfunc_decl) : list occ :=
  (NsLibfunc, ld_id d) :: flat_map garg_occ (ld_args d).

Definition func_occ (f : func) : list occ :=
  (NsFunc, f_id f)
  :: map (fun pr => (NsType, snd pr)) (f_params f)
  ++ map (fun t => (NsType, t)) (f_ret_types f)
  ++ map (fun t => (NsType, t)) (f_param_types f).

(* Every occurrence of an interned id in the program, in the order in which `apply` looks them up
   (statements, type declarations, libfunc declarations, functions). *)
Definition ids (p : program) : list occ :=
  flat_map stmt_occ (p_stmts p)
  ++ flat_map type_decl_occ (p_types p)
  ++ flat_map libfunc_decl_occ (p_libfuncs p)
  ++ flat_map func_occ (p_funcs p).

(* the declared ids of one namespace, in declaration order *)
Definition declared (k : ns) (p : program) : list N :=
  match k with
  | NsType => map td_id (p_types p)
  | NsLibfunc => map ld_id (p_libfuncs p)
  | NsFunc => map f_id (p_funcs p)
  end.

(* ---------- applying a function to every interned id (structure of `apply`) ---------- *)
Definition map_garg (s : ns -> N -> N) (g : garg) : garg :=
  match g with
  | GType t => GType (s NsType t)
  | GUserFunc f => GUserFunc (s NsFunc f)
  | GLibfunc l => GLibfunc (s NsLibfunc l)
  | GUserType _ | GValue _ => g
  end.

Definition map_stmt (s : ns -> N -> N) (st : stmt) : stmt :=
  match st with
  | Invocation l a b => Invocation (s NsLibfunc l) a b
  | Return v => Return v
  end.

Definition map_type_decl (s : ns -> N -> N) (d : type_decl) : type_decl :=
  {| td_id := s NsType (td_id d); td_generic := td_generic d;
     td_args := map (map_garg s) (td_args d); td_info := td_info d |}.

Definition map_libfunc_decl (s : ns -> N -> N) (d : libfunc_decl) : libfunc_decl :=
  {| ld_id := s NsLibfunc (ld_id d); ld_generic := ld_generic d;
     ld_args := map (map_garg s) (ld_args d) |}.

Definition map_func (s : ns -> N -> N) (f : func) : func :=
  {| f_id := s NsFunc (f_id f);
     f_param_types := map (s NsType) (f_param_types f);
     f_ret_types := map (s NsType) (f_ret_types f);
     f_params := map (fun pr => (fst pr, s NsType (snd pr))) (f_params f);
     f_entry := f_entry f |}.

Definition map_ids (s : ns -> N -> N) (p : program) : program :=
  {| p_types := map (map_type_decl s) (p_types p);
     p_libfuncs := map (map_libfunc_decl s) (p_libfuncs p);
     p_stmts := map (map_stmt s) (p_stmts p);
     p_funcs := map (map_func s) (p_funcs p) |}.

(* A renaming of the interned ids (what a different schedule / query history does to a program:
   the same program, with other numbers handed out by the intern tables). *)
Definition renaming := ns -> N -> N.
Definition rename (s : renaming) (p : program) : program := map_ids s p.

(* ---------- UnorderedHashMap<Id, u64> as used by from_program: insert / len / get ---------- *)
Definition idmap := list (N * N).

Fixpoint m_get (m : idmap) (k : N) : option N :=
  match m with
  | [] => None
  | (k', v) :: m' => if k =? k' then Some v else m_get m' k
  end.

(* HashMap::insert: the value of an existing key is overwritten (the map does not grow) *)
Fixpoint m_insert (m : idmap) (k v : N) : idmap :=
  match m with
  | [] => [(k, v)]
  | (k', v') :: m' => if k =? k' then (k', v) :: m' else (k', v') :: m_insert m' k v
  end.

Definition m_len (m : idmap) : N := N.of_nat (length m).

(* `for d in decls { ids.insert(d.id.clone(), ids.len() as u64); }` *)
Definition number (decls : list N) : idmap :=
  fold_left (fun m id => m_insert m id (m_len m)) decls [].

(* CanonicalReplacer::from_program *)
Record replacer := { type_ids : idmap; function_ids : idmap; libfunc_ids : idmap }.
Definition from_program (p : program) : replacer :=
  {| type_ids := number (declared NsType p);
     function_ids := number (declared NsFunc p);
     libfunc_ids := number (declared NsLibfunc p) |}.
Definition rmap (r : replacer) (k : ns) : idmap :=
  match k with NsType => type_ids r | NsLibfunc => libfunc_ids r | NsFunc => function_ids r end.

(* replace_*_id: `*self.<ns>_ids.get(id).expect("Unexpected <ns> id.")` *)
Definition lookup (r : replacer) (k : ns) (i : N) : option N := m_get (rmap r k) i.

Definition is_some {A} (o : option A) : bool := match o with Some _ => true | None => false end.
Definition or0 (o : option N) : N := match o with Some v => v | None => 0 end.

Inductive result := Ok (p : program) | Panic (k : ns).

(* `replacer.apply(p)`: every interned id is looked up (in the order of [ids]); the first id that
   is not in its map panics ("Unexpected libfunc/type/function id."), otherwise every id is
   replaced by its number. *)
Definition apply (r : replacer) (p : program) : result :=
  match find (fun o => negb (is_some (lookup r (fst o) (snd o)))) (ids p) with
  | Some (k, _) => Panic k
  | None => Ok (map_ids (fun k i => or0 (lookup r k i)) p)
  end.

Definition canon (p : program) : result := let r := from_program p in apply r p.

(* ---------- hypotheses of the theorems ---------- *)
Definition injective_on (S : list occ) (s : renaming) : Prop :=
  forall k a b, In (k, a) S -> In (k, b) S -> s k a = s k b -> a = b.

(* every used id is declared, declarations are distinct *)
Definition well_formed (p : program) : Prop :=
  (forall k, NoDup (declared k p))
  /\ (forall k i, In (k, i) (ids p) -> In i (declared k p)).

(* boolean versions, for the case files *)
Fixpoint nodupb (l : list N) : bool :=
  match l with
  | [] => true
  | x :: l' => negb (existsb (N.eqb x) l') && nodupb l'
  end.

Definition well_formedb (p : program) : bool :=
  nodupb (declared NsType p) && nodupb (declared NsLibfunc p) && nodupb (declared NsFunc p)
  && forallb (fun o => existsb (N.eqb (snd o)) (declared (fst o) p)) (ids p).

Definition occ_eqb (a b : occ) : bool := ns_eqb (fst a) (fst b) && (snd a =? snd b).

(* renaming given by finite tables (identity elsewhere), as the harness prints it *)
Definition table_renaming (tt tl tf : list (N * N)) : renaming :=
  fun k i =>
    match m_get (match k with NsType => tt | NsLibfunc => tl | NsFunc => tf end) i with
    | Some v => v
    | None => i
    end.

(* a finite table is injective when its keys and its values are pairwise distinct; a program's ids
   are covered when each occurs as a key of the table of its namespace *)
Definition table_injb (t : list (N * N)) : bool := nodupb (map fst t) && nodupb (map snd t).
Definition covered (tt tl tf : list (N * N)) (p : program) : bool :=
  forallb (fun o => is_some (m_get (match fst o with NsType => tt | NsLibfunc => tl | NsFunc => tf end)
                                   (snd o))) (ids p).
