(* C12/CanonProofs.v -- the canonical program does not depend on the interned ids.

   canon_invariant      canon (rename s p) = canon p for every renaming injective on the ids of p
                        (no well-formedness needed: also the panic and its kind are preserved)
   canon_total          well_formed p -> canon p is Ok
   canon_idempotent     well_formed p -> canon p = Ok c -> canon c = Ok c
   canon_declared       well_formed p -> canon p = Ok c -> the declared ids of c are 0,1,2,... in
                        declaration order (the doc comment of CanonicalReplacer) *)
From C12 Require Import Canon.
From Coq Require Import Lia Permutation.
Local Open Scope N_scope.

(* ------------------------------------------------------------------ *)
(* idmap                                                               *)
(* ------------------------------------------------------------------ *)
Definition keys (m : idmap) : list N := map fst m.
Definition map_keys (s : N -> N) (m : idmap) : idmap := map (fun kv => (s (fst kv), snd kv)) m.

Lemma keys_map_keys s m : keys (map_keys s m) = map s (keys m).
Proof. unfold keys, map_keys. rewrite !map_map. reflexivity. Qed.

Lemma map_keys_length s m : length (map_keys s m) = length m.
Proof. apply map_length. Qed.

Lemma keys_insert m k v : incl (keys (m_insert m k v)) (k :: keys m).
Proof.
  induction m as [|[k' v'] m IH]; cbn [m_insert keys map fst].
  - intros x [<-|[]]. left. reflexivity.
  - destruct (k =? k') eqn:E; cbn [map fst].
    + intros x Hx. right. exact Hx.
    + intros x [<-|Hx]. { right. left. reflexivity. }
      destruct (IH x Hx) as [<-|Hin]. { left. reflexivity. } right. right. exact Hin.
Qed.

Lemma keys_insert_old m k v x : In x (keys m) -> In x (keys (m_insert m k v)).
Proof.
  induction m as [|[k' v'] m IH]; cbn [m_insert keys map fst]; [intros []|].
  destruct (k =? k'); cbn [map fst]; intros [Hx|Hx].
  - left. exact Hx.
  - right. exact Hx.
  - left. exact Hx.
  - right. apply IH. exact Hx.
Qed.

Lemma keys_insert_new m k v : In k (keys (m_insert m k v)).
Proof.
  induction m as [|[k' v'] m IH]; cbn [m_insert keys map fst]. { left. reflexivity. }
  destruct (k =? k') eqn:E; cbn [map fst].
  - apply N.eqb_eq in E. left. symmetry. exact E.
  - right. exact IH.
Qed.

Lemma m_get_some_in m k v : m_get m k = Some v -> In (k, v) m.
Proof.
  induction m as [|[k' v'] m IH]; cbn [m_get]; [discriminate|].
  destruct (k =? k') eqn:E.
  - apply N.eqb_eq in E. subst. intros [= <-]. left. reflexivity.
  - intros H. right. apply IH. exact H.
Qed.

Lemma m_get_in_keys m k : In k (keys m) -> is_some (m_get m k) = true.
Proof.
  induction m as [|[k' v'] m IH]; cbn [m_get keys map fst]; [intros []|].
  destruct (k =? k') eqn:E; [reflexivity|].
  intros [Heq|Hin]; [|apply IH; exact Hin].
  subst. rewrite N.eqb_refl in E. discriminate.
Qed.

Lemma m_get_none_not_keys m k : m_get m k = None -> ~ In k (keys m).
Proof. intros H Hin. apply m_get_in_keys in Hin. rewrite H in Hin. discriminate. Qed.

Lemma m_insert_fresh m k v : ~ In k (keys m) -> m_insert m k v = m ++ [(k, v)].
Proof.
  induction m as [|[k' v'] m IH]; cbn [m_insert keys map fst app]; [reflexivity|].
  intros Hn. destruct (k =? k') eqn:E.
  - apply N.eqb_eq in E. subst. exfalso. apply Hn. left. reflexivity.
  - rewrite IH; [reflexivity|]. intros Hin. apply Hn. right. exact Hin.
Qed.

(* a renaming injective on the keys (and the inserted key) commutes with insert and get *)
Lemma m_insert_map_keys (s : N -> N) m k v :
  (forall a, In a (keys m) -> s a = s k -> a = k) ->
  m_insert (map_keys s m) (s k) v = map_keys s (m_insert m k v).
Proof.
  induction m as [|[k' v'] m IH]; intros Hinj; cbn [m_insert map_keys map fst snd]; [reflexivity|].
  destruct (k =? k') eqn:E.
  - apply N.eqb_eq in E. subst k'. rewrite N.eqb_refl. reflexivity.
  - destruct (s k =? s k') eqn:E'.
    + apply N.eqb_eq in E'. exfalso.
      assert (k' = k) as Hk by (apply Hinj; [left; reflexivity|symmetry; exact E']).
      subst. rewrite N.eqb_refl in E. discriminate.
    + cbn [map fst snd]. f_equal. apply IH. intros a Ha. apply Hinj. right. exact Ha.
Qed.

Lemma m_get_map_keys (s : N -> N) m x :
  (forall a, In a (keys m) -> s a = s x -> a = x) ->
  m_get (map_keys s m) (s x) = m_get m x.
Proof.
  induction m as [|[k' v'] m IH]; intros Hinj; cbn [m_get map_keys map fst snd]; [reflexivity|].
  destruct (x =? k') eqn:E.
  - apply N.eqb_eq in E. subst k'. rewrite N.eqb_refl. reflexivity.
  - destruct (s x =? s k') eqn:E'.
    + apply N.eqb_eq in E'. exfalso.
      assert (k' = x) as Hk by (apply Hinj; [left; reflexivity|symmetry; exact E']).
      subst. rewrite N.eqb_refl in E. discriminate.
    + apply IH. intros a Ha. apply Hinj. right. exact Ha.
Qed.

(* ------------------------------------------------------------------ *)
(* number                                                              *)
(* ------------------------------------------------------------------ *)
Definition step (m : idmap) (id : N) : idmap := m_insert m id (m_len m).

Lemma number_eq ds : number ds = fold_left step ds [].
Proof. reflexivity. Qed.

Lemma fold_step_keys ds : forall m, incl (keys (fold_left step ds m)) (keys m ++ ds).
Proof.
  induction ds as [|d ds IH]; intros m; cbn [fold_left].
  - rewrite app_nil_r. apply incl_refl.
  - intros x Hx. apply IH in Hx. apply in_app_or in Hx. destruct Hx as [Hx|Hx].
    + apply keys_insert in Hx. destruct Hx as [<-|Hx].
      * apply in_or_app. right. left. reflexivity.
      * apply in_or_app. left. exact Hx.
    + apply in_or_app. right. right. exact Hx.
Qed.

Lemma fold_step_keys_ge ds : forall m x, In x (keys m) \/ In x ds -> In x (keys (fold_left step ds m)).
Proof.
  induction ds as [|d ds IH]; intros m x; cbn [fold_left].
  - intros [H|[]]. exact H.
  - intros [H|[<-|H]]; apply IH.
    + left. apply keys_insert_old. exact H.
    + left. apply keys_insert_new.
    + right. exact H.
Qed.

Lemma number_keys ds : incl (keys (number ds)) ds.
Proof. intros x Hx. apply fold_step_keys in Hx. exact Hx. Qed.

Lemma number_keys_ge ds x : In x ds -> In x (keys (number ds)).
Proof. intros H. apply fold_step_keys_ge. right. exact H. Qed.

Lemma fold_step_map_keys (s : N -> N) ds : forall m,
  (forall a b, In a (keys m ++ ds) -> In b (keys m ++ ds) -> s a = s b -> a = b) ->
  fold_left step (map s ds) (map_keys s m) = map_keys s (fold_left step ds m).
Proof.
  induction ds as [|d ds IH]; intros m Hinj; cbn [fold_left map]; [reflexivity|].
  unfold step at 2. unfold m_len. rewrite map_keys_length.
  rewrite m_insert_map_keys.
  - apply IH. intros a b Ha Hb. apply Hinj.
    + apply in_app_or in Ha. destruct Ha as [Ha|Ha].
      * apply keys_insert in Ha. destruct Ha as [<-|Ha]; apply in_or_app; [right; left; reflexivity|left; exact Ha].
      * apply in_or_app. right. right. exact Ha.
    + apply in_app_or in Hb. destruct Hb as [Hb|Hb].
      * apply keys_insert in Hb. destruct Hb as [<-|Hb]; apply in_or_app; [right; left; reflexivity|left; exact Hb].
      * apply in_or_app. right. right. exact Hb.
  - intros a Ha. apply Hinj; apply in_or_app; [left; exact Ha|right; left; reflexivity].
Qed.

Lemma number_map (s : N -> N) ds :
  (forall a b, In a ds -> In b ds -> s a = s b -> a = b) ->
  number (map s ds) = map_keys s (number ds).
Proof. intros H. rewrite !number_eq. apply (fold_step_map_keys s ds []). exact H. Qed.

(* distinct declarations are numbered 0,1,2,... in order *)
Definition nums (a n : nat) : list N := map N.of_nat (seq a n).

Lemma fold_step_nodup ds : forall m,
  NoDup (keys m ++ ds) ->
  fold_left step ds m = m ++ combine ds (nums (length m) (length ds)).
Proof.
  induction ds as [|d ds IH]; intros m Hnd; cbn [fold_left length nums seq map combine].
  - rewrite app_nil_r. reflexivity.
  - unfold step at 2. rewrite m_insert_fresh.
    + rewrite IH.
      * rewrite <- app_assoc. cbn [app]. rewrite app_length. cbn [length].
        unfold m_len, nums. replace (length m + 1)%nat with (S (length m)) by lia. reflexivity.
      * unfold keys. rewrite map_app. cbn [map fst]. rewrite <- app_assoc. exact Hnd.
    + intros Hin. apply NoDup_remove_2 in Hnd. apply Hnd. apply in_or_app. left. exact Hin.
Qed.

Lemma number_nodup ds : NoDup ds -> number ds = combine ds (nums 0 (length ds)).
Proof. intros H. rewrite number_eq. rewrite fold_step_nodup; [reflexivity|exact H]. Qed.

Lemma nums_length a n : length (nums a n) = n.
Proof. unfold nums. rewrite map_length, seq_length. reflexivity. Qed.

Lemma nums_nodup a n : NoDup (nums a n).
Proof.
  unfold nums. apply FinFun.Injective_map_NoDup; [|apply seq_NoDup].
  intros x y. apply Nat2N.inj.
Qed.

Lemma snd_combine {A B} (l : list A) (l' : list B) :
  length l = length l' -> map snd (combine l l') = l'.
Proof.
  revert l'. induction l as [|a l IH]; intros [|b l']; cbn; try discriminate; [reflexivity|].
  intros [= H]. f_equal. apply IH. exact H.
Qed.

Lemma in_snd_unique (m : idmap) a b v :
  NoDup (map snd m) -> In (a, v) m -> In (b, v) m -> a = b.
Proof.
  induction m as [|[k w] m IH]; cbn [map snd]; intros Hnd Ha Hb; [destruct Ha|].
  inversion Hnd as [|? ? Hnotin Hnd']; subst.
  destruct Ha as [Ha|Ha]; destruct Hb as [Hb|Hb].
  - congruence.
  - exfalso. apply Hnotin. injection Ha as _ ->. change v with (snd (b, v)). apply in_map. exact Hb.
  - exfalso. apply Hnotin. injection Hb as _ ->. change v with (snd (a, v)). apply in_map. exact Ha.
  - apply IH; assumption.
Qed.

Lemma number_inj ds a b :
  NoDup ds -> In a ds -> In b ds ->
  or0 (m_get (number ds) a) = or0 (m_get (number ds) b) -> a = b.
Proof.
  intros Hnd Ha Hb Heq.
  pose proof (m_get_in_keys _ _ (number_keys_ge ds a Ha)) as Sa.
  pose proof (m_get_in_keys _ _ (number_keys_ge ds b Hb)) as Sb.
  destruct (m_get (number ds) a) as [va|] eqn:Ea; [|discriminate].
  destruct (m_get (number ds) b) as [vb|] eqn:Eb; [|discriminate].
  cbn [or0] in Heq. subst vb.
  apply m_get_some_in in Ea. apply m_get_some_in in Eb.
  apply (in_snd_unique (number ds) a b va); [|exact Ea|exact Eb].
  rewrite number_nodup by exact Hnd.
  rewrite snd_combine by (rewrite nums_length; reflexivity). apply nums_nodup.
Qed.

Lemma map_get_combine ds (vs : list N) :
  NoDup ds -> length ds = length vs ->
  map (fun i => or0 (m_get (combine ds vs) i)) ds = vs.
Proof.
  revert vs. induction ds as [|d ds IH]; intros [|v vs] Hnd Hlen; cbn in Hlen; try discriminate;
    [reflexivity|].
  cbn [combine map m_get]. rewrite N.eqb_refl. cbn [or0]. f_equal.
  inversion Hnd as [|? ? Hnotin Hnd']; subst.
  transitivity (map (fun i => or0 (m_get (combine ds vs) i)) ds); [|apply IH; [exact Hnd'|lia]].
  apply map_ext_in. intros a Ha.
  destruct (a =? d) eqn:E; [|reflexivity].
  apply N.eqb_eq in E. subst. contradiction.
Qed.

(* ------------------------------------------------------------------ *)
(* structure of a program                                              *)
(* ------------------------------------------------------------------ *)
Definition ren_occ (s : ns -> N -> N) (o : occ) : occ := (fst o, s (fst o) (snd o)).

Lemma flat_map_map {A B C} (f : B -> list C) (g : A -> B) l :
  flat_map f (map g l) = flat_map (fun x => f (g x)) l.
Proof. induction l; cbn; [reflexivity|]. rewrite IHl. reflexivity. Qed.

Lemma map_flat_map {A B C} (f : A -> list B) (g : B -> C) l :
  map g (flat_map f l) = flat_map (fun x => map g (f x)) l.
Proof. induction l; cbn; [reflexivity|]. rewrite map_app, IHl. reflexivity. Qed.

Lemma flat_map_ext' {A B} (f g : A -> list B) l :
  (forall x, f x = g x) -> flat_map f l = flat_map g l.
Proof. intros H. induction l; cbn; [reflexivity|]. rewrite H, IHl. reflexivity. Qed.

Lemma garg_occ_map s g : garg_occ (map_garg s g) = map (ren_occ s) (garg_occ g).
Proof. destruct g; reflexivity. Qed.

Lemma gargs_occ_map s l :
  flat_map garg_occ (map (map_garg s) l) = map (ren_occ s) (flat_map garg_occ l).
Proof.
  rewrite flat_map_map, map_flat_map. apply flat_map_ext'. intros g. apply garg_occ_map.
Qed.

Lemma stmt_occ_map s st : stmt_occ (map_stmt s st) = map (ren_occ s) (stmt_occ st).
Proof. destruct st; reflexivity. Qed.

Lemma type_decl_occ_map s d : type_decl_occ (map_type_decl s d) = map (ren_occ s) (type_decl_occ d).
Proof. unfold type_decl_occ. cbn [map_type_decl td_id td_args map]. rewrite gargs_occ_map. reflexivity. Qed.

Lemma libfunc_decl_occ_map s d :
  libfunc_decl_occ (map_libfunc_decl s d) = map (ren_occ s) (libfunc_decl_occ d).
Proof. unfold libfunc_decl_occ. cbn [map_libfunc_decl ld_id ld_args map]. rewrite gargs_occ_map. reflexivity. Qed.

Lemma func_occ_map s f : func_occ (map_func s f) = map (ren_occ s) (func_occ f).
Proof.
  unfold func_occ. cbn [map_func f_id f_params f_ret_types f_param_types map].
  rewrite !map_app, !map_map. reflexivity.
Qed.

Lemma ids_map_ids s p : ids (map_ids s p) = map (ren_occ s) (ids p).
Proof.
  unfold ids. cbn [map_ids p_stmts p_types p_libfuncs p_funcs].
  rewrite !map_app, !flat_map_map, !map_flat_map.
  f_equal; [apply flat_map_ext'; intros x; apply stmt_occ_map|].
  f_equal; [apply flat_map_ext'; intros x; apply type_decl_occ_map|].
  f_equal; [apply flat_map_ext'; intros x; apply libfunc_decl_occ_map|].
  apply flat_map_ext'; intros x; apply func_occ_map.
Qed.

Lemma declared_map_ids s k p : declared k (map_ids s p) = map (s k) (declared k p).
Proof. destruct k; cbn [declared map_ids p_types p_libfuncs p_funcs]; rewrite !map_map; reflexivity. Qed.

Lemma declared_in_ids k i p : In i (declared k p) -> In (k, i) (ids p).
Proof.
  unfold ids. destruct k; cbn [declared]; intros H; apply in_map_iff in H; destruct H as [d [<- Hd]].
  - apply in_or_app. right. apply in_or_app. left. apply in_flat_map. exists d. split; [exact Hd|].
    left. reflexivity.
  - apply in_or_app. right. apply in_or_app. right. apply in_or_app. left. apply in_flat_map.
    exists d. split; [exact Hd|]. left. reflexivity.
  - apply in_or_app. right. apply in_or_app. right. apply in_or_app. right. apply in_flat_map.
    exists d. split; [exact Hd|]. left. reflexivity.
Qed.

(* composition *)
Lemma map_garg_comp f g x : map_garg f (map_garg g x) = map_garg (fun k i => f k (g k i)) x.
Proof. destruct x; reflexivity. Qed.

Lemma map_ids_comp f g p : map_ids f (map_ids g p) = map_ids (fun k i => f k (g k i)) p.
Proof.
  unfold map_ids. cbn [p_types p_libfuncs p_stmts p_funcs]. rewrite !map_map. f_equal.
  - apply map_ext. intros d. unfold map_type_decl. cbn [td_id td_generic td_args td_info].
    rewrite map_map. f_equal. apply map_ext. intros x. apply map_garg_comp.
  - apply map_ext. intros d. unfold map_libfunc_decl. cbn [ld_id ld_generic ld_args].
    rewrite map_map. f_equal. apply map_ext. intros x. apply map_garg_comp.
  - apply map_ext. intros st. destruct st; reflexivity.
  - apply map_ext. intros fn. unfold map_func. cbn [f_id f_param_types f_ret_types f_params f_entry].
    rewrite !map_map. reflexivity.
Qed.

(* extensionality on the ids of the program *)
Lemma map_garg_ext f g x :
  (forall k i, In (k, i) (garg_occ x) -> f k i = g k i) -> map_garg f x = map_garg g x.
Proof. destruct x; cbn; intros H; try reflexivity; rewrite H; auto. Qed.

Lemma map_gargs_ext f g l :
  (forall k i, In (k, i) (flat_map garg_occ l) -> f k i = g k i) ->
  map (map_garg f) l = map (map_garg g) l.
Proof.
  intros H. apply map_ext_in. intros x Hx. apply map_garg_ext. intros k i Hi. apply H.
  apply in_flat_map. exists x. split; assumption.
Qed.

Lemma map_ids_ext f g p :
  (forall k i, In (k, i) (ids p) -> f k i = g k i) -> map_ids f p = map_ids g p.
Proof.
  intros H. unfold map_ids. f_equal.
  - apply map_ext_in. intros d Hd.
    assert (forall k i, In (k, i) (type_decl_occ d) -> f k i = g k i) as Hd'.
    { intros k i Hi. apply H. unfold ids. apply in_or_app. right. apply in_or_app. left.
      apply in_flat_map. exists d. split; assumption. }
    unfold map_type_decl. f_equal.
    + apply Hd'. left. reflexivity.
    + apply map_gargs_ext. intros k i Hi. apply Hd'. right. exact Hi.
  - apply map_ext_in. intros d Hd.
    assert (forall k i, In (k, i) (libfunc_decl_occ d) -> f k i = g k i) as Hd'.
    { intros k i Hi. apply H. unfold ids. apply in_or_app. right. apply in_or_app. right.
      apply in_or_app. left. apply in_flat_map. exists d. split; assumption. }
    unfold map_libfunc_decl. f_equal.
    + apply Hd'. left. reflexivity.
    + apply map_gargs_ext. intros k i Hi. apply Hd'. right. exact Hi.
  - apply map_ext_in. intros st Hst. destruct st as [l a b|v]; [|reflexivity].
    cbn [map_stmt]. f_equal. apply H. unfold ids. apply in_or_app. left.
    apply in_flat_map. exists (Invocation l a b). split; [exact Hst|]. left. reflexivity.
  - apply map_ext_in. intros fn Hfn.
    assert (forall k i, In (k, i) (func_occ fn) -> f k i = g k i) as Hd'.
    { intros k i Hi. apply H. unfold ids. apply in_or_app. right. apply in_or_app. right.
      apply in_or_app. right. apply in_flat_map. exists fn. split; assumption. }
    unfold map_func. f_equal.
    + apply Hd'. left. reflexivity.
    + apply map_ext_in. intros t Ht. apply Hd'. right. apply in_or_app. right. apply in_or_app.
      right. apply in_map_iff. exists t. split; [reflexivity|exact Ht].
    + apply map_ext_in. intros t Ht. apply Hd'. right. apply in_or_app. right. apply in_or_app.
      left. apply in_map_iff. exists t. split; [reflexivity|exact Ht].
    + apply map_ext_in. intros pr Hpr. f_equal. apply Hd'. right. apply in_or_app. left.
      apply in_map_iff. exists pr. split; [reflexivity|exact Hpr].
Qed.

Lemma find_map_ext {A} (P Q : A -> bool) (g : A -> A) l :
  (forall x, In x l -> Q (g x) = P x) -> find Q (map g l) = option_map g (find P l).
Proof.
  induction l as [|a l IH]; intros H; cbn [map find option_map]; [reflexivity|].
  rewrite H by (left; reflexivity). destruct (P a); [reflexivity|].
  apply IH. intros x Hx. apply H. right. exact Hx.
Qed.

(* ------------------------------------------------------------------ *)
(* the theorems                                                        *)
(* ------------------------------------------------------------------ *)
Lemma rmap_from_program p k : rmap (from_program p) k = number (declared k p).
Proof. destruct k; reflexivity. Qed.

Lemma lookup_rename s p k i :
  injective_on (ids p) s -> In (k, i) (ids p) ->
  lookup (from_program (rename s p)) k (s k i) = lookup (from_program p) k i.
Proof.
  intros Hinj Hi. unfold lookup. rewrite !rmap_from_program. unfold rename. rewrite declared_map_ids.
  rewrite number_map.
  - apply m_get_map_keys. intros a Ha Heq. apply (Hinj k); [| exact Hi | exact Heq].
    apply declared_in_ids. apply number_keys. exact Ha.
  - intros a b Ha Hb. apply (Hinj k); apply declared_in_ids; assumption.
Qed.

Theorem canon_invariant_strong : forall s p,
  injective_on (ids p) s -> canon (rename s p) = canon p.
Proof.
  intros s p Hinj. unfold canon, apply.
  unfold rename at 2. rewrite ids_map_ids.
  rewrite (find_map_ext (fun o => negb (is_some (lookup (from_program p) (fst o) (snd o))))).
  2:{ intros [k i] Hi. unfold ren_occ. cbn [fst snd]. rewrite lookup_rename by assumption. reflexivity. }
  match goal with |- context [find ?P (ids p)] => destruct (find P (ids p)) as [[k i]|] end;
    cbn [option_map ren_occ fst snd]; [reflexivity|].
  f_equal. unfold rename at 2. rewrite map_ids_comp. apply map_ids_ext.
  intros k i Hi. rewrite lookup_rename by assumption. reflexivity.
Qed.

Theorem canon_invariant : forall s p,
  injective_on (ids p) s -> well_formed p -> canon (rename s p) = canon p.
Proof. intros s p H _. apply canon_invariant_strong. exact H. Qed.

Lemma wf_lookup p k i : well_formed p -> In (k, i) (ids p) ->
  is_some (lookup (from_program p) k i) = true.
Proof.
  intros [_ Hdecl] Hi. unfold lookup. rewrite rmap_from_program. apply m_get_in_keys. apply number_keys_ge.
  apply Hdecl. exact Hi.
Qed.

Theorem canon_total : forall p, well_formed p ->
  canon p = Ok (map_ids (fun k i => or0 (lookup (from_program p) k i)) p).
Proof.
  intros p Hwf. unfold canon, apply.
  match goal with |- context [find ?P (ids p)] => destruct (find P (ids p)) as [[k i]|] eqn:E end;
    [|reflexivity].
  apply find_some in E. destruct E as [Hin Hneg]. cbn [fst snd] in Hneg.
  rewrite wf_lookup in Hneg by assumption. discriminate.
Qed.

Lemma canon_renaming_injective p : well_formed p ->
  injective_on (ids p) (fun k i => or0 (lookup (from_program p) k i)).
Proof.
  intros [Hnd Hdecl] k a b Ha Hb Heq. unfold lookup in Heq. rewrite rmap_from_program in Heq.
  apply (number_inj (declared k p)); auto.
Qed.

Theorem canon_idempotent : forall p c, well_formed p -> canon p = Ok c -> canon c = Ok c.
Proof.
  intros p c Hwf Hc. pose proof (canon_total p Hwf) as Ht. rewrite Hc in Ht.
  injection Ht as ->.
  change (map_ids (fun k i => or0 (lookup (from_program p) k i)) p)
    with (rename (fun k i => or0 (lookup (from_program p) k i)) p) at 1.
  rewrite canon_invariant_strong by (apply canon_renaming_injective; exact Hwf).
  exact Hc.
Qed.

Theorem canon_declared : forall p c k, well_formed p -> canon p = Ok c ->
  declared k c = nums 0 (length (declared k p)).
Proof.
  intros p c k Hwf Hc. pose proof (canon_total p Hwf) as Ht. rewrite Hc in Ht. injection Ht as ->.
  rewrite declared_map_ids. unfold lookup. rewrite rmap_from_program. destruct Hwf as [Hnd _].
  rewrite number_nodup by apply Hnd.
  apply map_get_combine; [apply Hnd|]. rewrite nums_length. reflexivity.
Qed.

(* the canonical program is well formed again *)
Theorem canon_well_formed : forall p c, well_formed p -> canon p = Ok c -> well_formed c.
Proof.
  intros p c Hwf Hc. pose proof (canon_total p Hwf) as Ht. rewrite Hc in Ht. injection Ht as Hceq.
  split.
  - intros k. rewrite (canon_declared p c k Hwf Hc). apply nums_nodup.
  - intros k i Hi. subst c. rewrite ids_map_ids in Hi. apply in_map_iff in Hi.
    destruct Hi as [[k' j] [Heq Hj]]. unfold ren_occ in Heq. cbn [fst snd] in Heq.
    inversion Heq; subst. rewrite declared_map_ids.
    apply (in_map (fun i => or0 (lookup (from_program p) k i))). apply Hwf. exact Hj.
Qed.

(* boolean well-formedness reflects the proposition (used by the Example and the case files) *)
Lemma nodupb_sound l : nodupb l = true -> NoDup l.
Proof.
  induction l as [|x l IH]; cbn [nodupb]; intros H; [constructor|].
  apply andb_prop in H. destruct H as [Hx Hl]. constructor; [|apply IH; exact Hl].
  intros Hin. apply negb_true_iff in Hx.
  assert (existsb (N.eqb x) l = true) as Hex.
  { apply existsb_exists. exists x. split; [exact Hin|apply N.eqb_refl]. }
  rewrite Hex in Hx. discriminate.
Qed.

Lemma well_formedb_sound p : well_formedb p = true -> well_formed p.
Proof.
  unfold well_formedb. intros H.
  apply andb_prop in H. destruct H as [H Hall].
  apply andb_prop in H. destruct H as [H Hf].
  apply andb_prop in H. destruct H as [Ht Hl].
  split.
  - intros [| |]; apply nodupb_sound; assumption.
  - intros k i Hi. rewrite forallb_forall in Hall. specialize (Hall (k, i) Hi). cbn [fst snd] in Hall.
    apply existsb_exists in Hall. destruct Hall as [x [Hx Heq]]. apply N.eqb_eq in Heq. subst. exact Hx.
Qed.
