(* C12/UnorderedProofs.v -- the observers of the unordered map reveal neither the raw table order
   nor the order of insertions.

   unordered_observers           two raw tables that hold the same finite map ([uequiv]) answer every
                                 observer identically (map-valued observers: again [uequiv])
   unordered_runs                two operation sequences with the same last write per key, run
                                 under any two placements, give [uequiv] tables
   unordered_permuted_insertions the special case: inserting distinct keys in a permuted order
   aggregate_by_order_sensitive  aggregate_by with a non-commutative reduce DOES reveal the order
   sorted_by_key_order_sensitive iter_sorted_by_key with tying keys DOES reveal the order *)
From C12 Require Import Maps.
From Coq Require Import Lia Permutation Sorted Arith.
Local Open Scope N_scope.

(* ---------- get / membership ---------- *)
Lemma u_get_in m k v : u_get m k = Some v -> In (k, v) m.
Proof.
  induction m as [|[k' v'] m IH]; cbn [u_get]; [discriminate|].
  destruct (k =? k') eqn:E.
  - apply N.eqb_eq in E. subst. intros [= <-]. left. reflexivity.
  - intros H. right. apply IH. exact H.
Qed.

Lemma in_u_get m k v : NoDup (keys m) -> In (k, v) m -> u_get m k = Some v.
Proof.
  induction m as [|[k' v'] m IH]; cbn [u_get keys map fst]; intros Hnd Hin; [destruct Hin|].
  inversion Hnd as [|? ? Hnotin Hnd']; subst.
  destruct Hin as [[= -> ->]|Hin].
  - rewrite N.eqb_refl. reflexivity.
  - destruct (k =? k') eqn:E.
    + apply N.eqb_eq in E. subst. exfalso. apply Hnotin. change k' with (fst (k', v)). apply in_map. exact Hin.
    + apply IH; assumption.
Qed.

Lemma u_get_none m k : u_get m k = None <-> ~ In k (keys m).
Proof.
  induction m as [|[k' v'] m IH]; cbn [u_get keys map fst]; [tauto|].
  destruct (k =? k') eqn:E.
  - apply N.eqb_eq in E. subst. split; [discriminate|]. intros H. exfalso. apply H. left. reflexivity.
  - apply N.eqb_neq in E. rewrite IH. unfold keys. cbn [In]. intuition congruence.
Qed.

Lemma u_get_app a b k : u_get (a ++ b) k = match u_get a k with Some v => Some v | None => u_get b k end.
Proof.
  induction a as [|[k' v'] a IH]; cbn [u_get app]; [reflexivity|]. destruct (k =? k'); [reflexivity|apply IH].
Qed.

Lemma has_key_in m k : has_key m k = true <-> In k (keys m).
Proof.
  unfold has_key, keys. rewrite existsb_exists, in_map_iff. split.
  - intros [e [He Hk]]. apply N.eqb_eq in Hk. exists e. split; assumption.
  - intros [e [Hk He]]. exists e. split; [exact He|apply N.eqb_eq; exact Hk].
Qed.

Lemma nodup_keys_nodup m : NoDup (keys m) -> NoDup m.
Proof. unfold keys. apply NoDup_map_inv. Qed.

Lemma uequiv_perm a b : uequiv a b -> Permutation a b.
Proof.
  intros [Ha [Hb Hg]]. apply NoDup_Permutation; try (apply nodup_keys_nodup; assumption).
  intros [k v]. split; intros H.
  - apply u_get_in. rewrite <- Hg. apply in_u_get; assumption.
  - apply u_get_in. rewrite Hg. apply in_u_get; assumption.
Qed.

Lemma perm_uequiv a b : NoDup (keys a) -> Permutation a b -> uequiv a b.
Proof.
  intros Ha Hp.
  assert (Hb : NoDup (keys b)) by (apply (Permutation_NoDup (l := keys a)); [apply Permutation_map; exact Hp|exact Ha]).
  split; [exact Ha|]. split; [exact Hb|]. intros k.
  destruct (u_get a k) as [v|] eqn:E.
  - symmetry. apply in_u_get; [exact Hb|]. apply (Permutation_in _ Hp). apply u_get_in. exact E.
  - symmetry. apply u_get_none. apply u_get_none in E. intros H. apply E.
    apply (Permutation_in (l := keys b)); [apply Permutation_map; symmetry; exact Hp|exact H].
Qed.

Lemma uequiv_sym a b : uequiv a b -> uequiv b a.
Proof. intros [Ha [Hb Hg]]. split; [exact Hb|]. split; [exact Ha|]. intros k. symmetry. apply Hg. Qed.

(* ---------- insert / remove ---------- *)
Lemma s_insert_get m k v k0 : u_get (s_insert m k v) k0 = if k0 =? k then Some v else u_get m k0.
Proof.
  induction m as [|[k' v'] m IH]; cbn [s_insert u_get].
  - destruct (k0 =? k); reflexivity.
  - destruct (k =? k') eqn:E; cbn [u_get].
    + apply N.eqb_eq in E. subst k'. destruct (k0 =? k); reflexivity.
    + rewrite IH. destruct (k0 =? k') eqn:E'; [|reflexivity].
      apply N.eqb_eq in E'. subst k'. rewrite N.eqb_sym, E. reflexivity.
Qed.

Lemma s_insert_keys_in m k v : In k (keys m) -> keys (s_insert m k v) = keys m.
Proof.
  induction m as [|[k' v'] m IH]; cbn [s_insert keys map fst]; [intros []|].
  destruct (k =? k') eqn:E; [reflexivity|]. intros [H|H].
  - subst. rewrite N.eqb_refl in E. discriminate.
  - cbn [map fst]. f_equal. apply IH. exact H.
Qed.

Lemma insert_at_perm {A} pos (x : A) l : Permutation (insert_at pos x l) (x :: l).
Proof.
  unfold insert_at. rewrite <- (firstn_skipn pos l) at 3. symmetry. apply Permutation_middle.
Qed.

Lemma u_insert_nodup pl m k v : NoDup (keys m) -> NoDup (keys (u_insert pl m k v)).
Proof.
  intros Hnd. unfold u_insert. destruct (has_key m k) eqn:E.
  - apply has_key_in in E. rewrite s_insert_keys_in by exact E. exact Hnd.
  - apply (Permutation_NoDup (l := keys ((k, v) :: m))).
    + apply Permutation_map. symmetry. apply insert_at_perm.
    + cbn. constructor; [|exact Hnd]. intros H. apply has_key_in in H. congruence.
Qed.

Lemma u_insert_get pl m k v k0 : NoDup (keys m) ->
  u_get (u_insert pl m k v) k0 = if k0 =? k then Some v else u_get m k0.
Proof.
  intros Hnd. unfold u_insert. destruct (has_key m k) eqn:E; [apply s_insert_get|].
  assert (Hn : ~ In k (keys m)) by (intros H; apply has_key_in in H; congruence).
  assert (Hp : Permutation ((k, v) :: m) (insert_at (pl k (length m)) (k, v) m)) by (symmetry; apply insert_at_perm).
  assert (Hnd' : NoDup (keys ((k, v) :: m))) by (cbn; constructor; assumption).
  destruct (perm_uequiv _ _ Hnd' Hp) as [_ [_ Hg]]. rewrite <- Hg. reflexivity.
Qed.

Lemma keys_remove_incl m k : incl (keys (s_shift_remove m k)) (keys m).
Proof.
  induction m as [|[k' v'] m IH]; cbn [s_shift_remove keys map fst]; [apply incl_refl|].
  destruct (k =? k'); [apply incl_tl, incl_refl|].
  cbn [map fst]. intros x [<-|Hx]; [left; reflexivity|right; apply IH; exact Hx].
Qed.

Lemma u_remove_nodup m k : NoDup (keys m) -> NoDup (keys (u_remove m k)).
Proof.
  unfold u_remove. induction m as [|[k' v'] m IH]; cbn [s_shift_remove keys map fst]; intros Hnd; [constructor|].
  inversion Hnd as [|? ? Hnotin Hnd']; subst.
  destruct (k =? k'); [exact Hnd'|]. cbn [map fst]. constructor; [|apply IH; exact Hnd'].
  intros H. apply Hnotin. apply (keys_remove_incl m k). exact H.
Qed.

Lemma u_remove_get m k k0 : NoDup (keys m) ->
  u_get (u_remove m k) k0 = if k0 =? k then None else u_get m k0.
Proof.
  unfold u_remove. induction m as [|[k' v'] m IH]; cbn [s_shift_remove u_get keys map fst]; intros Hnd.
  - destruct (k0 =? k); reflexivity.
  - inversion Hnd as [|? ? Hnotin Hnd']; subst. destruct (k =? k') eqn:E.
    + apply N.eqb_eq in E. subst k'. destruct (k0 =? k) eqn:E0; [|reflexivity].
      apply N.eqb_eq in E0. subst k0. apply u_get_none. exact Hnotin.
    + cbn [u_get]. rewrite IH by exact Hnd'. destruct (k0 =? k') eqn:E'; [|reflexivity].
      apply N.eqb_eq in E'. subst k'. rewrite N.eqb_sym, E. reflexivity.
Qed.

(* ---------- runs: the table holds the last writes ---------- *)
Lemma u_step_nodup pl m o : NoDup (keys m) -> NoDup (keys (u_step pl m o)).
Proof. destruct o; cbn [u_step]; [apply u_insert_nodup|apply u_remove_nodup]. Qed.

Lemma u_run_get pl ops : forall m k, NoDup (keys m) ->
  NoDup (keys (fold_left (u_step pl) ops m))
  /\ u_get (fold_left (u_step pl) ops m) k = last_write ops k (u_get m k).
Proof.
  induction ops as [|o ops IH]; intros m k Hnd; cbn [fold_left last_write]; [split; [exact Hnd|reflexivity]|].
  destruct (IH (u_step pl m o) k (u_step_nodup pl m o Hnd)) as [H1 H2]. split; [exact H1|].
  rewrite H2. destruct o as [k' v|k']; cbn [u_step].
  - rewrite u_insert_get by exact Hnd. reflexivity.
  - rewrite u_remove_get by exact Hnd. reflexivity.
Qed.

Theorem unordered_runs : forall pl1 pl2 ops1 ops2,
  (forall k, last_write ops1 k None = last_write ops2 k None) ->
  uequiv (u_run pl1 ops1) (u_run pl2 ops2).
Proof.
  intros pl1 pl2 ops1 ops2 H. unfold u_run.
  assert (Hnil : NoDup (keys [])) by constructor.
  split; [apply (u_run_get pl1 ops1 [] 0 Hnil)|]. split; [apply (u_run_get pl2 ops2 [] 0 Hnil)|].
  intros k. rewrite (proj2 (u_run_get pl1 ops1 [] k Hnil)), (proj2 (u_run_get pl2 ops2 [] k Hnil)). apply H.
Qed.

Lemma last_write_inserts_notin l k acc : ~ In k (keys l) -> last_write (map uins l) k acc = acc.
Proof.
  revert acc. induction l as [|[k' v'] l IH]; intros acc Hn; cbn [map uins last_write fst snd]; [reflexivity|].
  destruct (k =? k') eqn:E.
  - apply N.eqb_eq in E. subst. exfalso. apply Hn. left. reflexivity.
  - apply IH. intros H. apply Hn. right. exact H.
Qed.

Lemma last_write_inserts_in l k v acc : NoDup (keys l) -> In (k, v) l -> last_write (map uins l) k acc = Some v.
Proof.
  revert acc. induction l as [|[k' v'] l IH]; intros acc Hnd Hin; cbn [map uins last_write fst snd]; [destruct Hin|].
  inversion Hnd as [|? ? Hnotin Hnd']; subst. destruct Hin as [[= -> ->]|Hin].
  - rewrite N.eqb_refl. apply last_write_inserts_notin. exact Hnotin.
  - apply IH; assumption.
Qed.

Theorem unordered_permuted_insertions : forall pl1 pl2 l1 l2,
  NoDup (keys l1) -> Permutation l1 l2 ->
  uequiv (u_run pl1 (map uins l1)) (u_run pl2 (map uins l2)).
Proof.
  intros pl1 pl2 l1 l2 Hnd Hp. apply unordered_runs. intros k.
  assert (Hnd2 : NoDup (keys l2)) by (apply (Permutation_NoDup (l := keys l1)); [apply Permutation_map; exact Hp|exact Hnd]).
  destruct (in_dec N.eq_dec k (keys l1)) as [Hin|Hn].
  - unfold keys in Hin. apply in_map_iff in Hin. destruct Hin as [[k' v] [Hk Hin]]. cbn in Hk. subst k'.
    rewrite (last_write_inserts_in l1 k v None Hnd Hin).
    rewrite (last_write_inserts_in l2 k v None Hnd2 (Permutation_in _ Hp Hin)). reflexivity.
  - rewrite last_write_inserts_notin by exact Hn.
    rewrite last_write_inserts_notin; [reflexivity|]. intros H. apply Hn.
    apply (Permutation_in (l := keys l2)); [apply Permutation_map; symmetry; exact Hp|exact H].
Qed.

(* ---------- sorting ---------- *)
Lemma ins_perm f e l : Permutation (ins f e l) (e :: l).
Proof.
  induction l as [|x l IH]; cbn [ins]; [reflexivity|]. destruct (f e <=? f x); [reflexivity|].
  rewrite IH. apply perm_swap.
Qed.

Lemma isort_perm f l : Permutation (isort f l) l.
Proof.
  induction l as [|x l IH]; cbn [isort fold_right]; [constructor|].
  fold (isort f l). rewrite ins_perm. constructor. exact IH.
Qed.

Definition le_on (f : entry -> N) (a b : entry) : Prop := f a <= f b.

Lemma ins_sorted f e l : StronglySorted (le_on f) l -> StronglySorted (le_on f) (ins f e l).
Proof.
  induction l as [|x l IH]; cbn [ins]; intros Hs.
  - constructor; constructor.
  - destruct (f e <=? f x) eqn:E.
    + apply N.leb_le in E. constructor; [exact Hs|].
      inversion Hs as [|? ? Hs' Hall]; subst. constructor; [exact E|].
      rewrite Forall_forall in *. intros y Hy. unfold le_on in *. specialize (Hall y Hy). lia.
    + apply N.leb_gt in E. inversion Hs as [|? ? Hs' Hall]; subst. constructor; [apply IH; exact Hs'|].
      rewrite Forall_forall in *. intros y Hy. apply (Permutation_in _ (ins_perm f e l)) in Hy.
      destruct Hy as [<-|Hy]; [unfold le_on; lia|apply Hall; exact Hy].
Qed.

Lemma isort_sorted f l : StronglySorted (le_on f) (isort f l).
Proof.
  induction l as [|x l IH]; cbn [isort fold_right]; [constructor|]. apply ins_sorted. exact IH.
Qed.

Lemma map_inj_in (f : entry -> N) l a b : NoDup (map f l) -> In a l -> In b l -> f a = f b -> a = b.
Proof.
  induction l as [|x l IH]; cbn [map]; intros Hnd Ha Hb Hf; [destruct Ha|].
  inversion Hnd as [|? ? Hnotin Hnd']; subst.
  destruct Ha as [<-|Ha]; destruct Hb as [<-|Hb].
  - reflexivity.
  - exfalso. apply Hnotin. rewrite Hf. apply in_map. exact Hb.
  - exfalso. apply Hnotin. rewrite <- Hf. apply in_map. exact Ha.
  - apply IH; assumption.
Qed.

Lemma sorted_perm_unique f : forall l1 l2,
  StronglySorted (le_on f) l1 -> StronglySorted (le_on f) l2 -> Permutation l1 l2 -> NoDup (map f l1) -> l1 = l2.
Proof.
  induction l1 as [|a l1 IH]; intros l2 S1 S2 Hp Hnd.
  - apply Permutation_nil in Hp. subst. reflexivity.
  - destruct l2 as [|b l2]; [symmetry in Hp; apply Permutation_nil in Hp; discriminate|].
    inversion S1 as [|? ? S1' A1]; subst. inversion S2 as [|? ? S2' A2]; subst.
    rewrite Forall_forall in A1, A2.
    assert (a = b) as ->.
    { apply (map_inj_in f (a :: l1)); [exact Hnd|left; reflexivity| |].
      - apply (Permutation_in (l := b :: l2)); [symmetry; exact Hp|left; reflexivity].
      - assert (In a (b :: l2)) as Ha by (apply (Permutation_in _ Hp); left; reflexivity).
        assert (In b (a :: l1)) as Hb by (apply (Permutation_in (l := b :: l2)); [symmetry; exact Hp|left; reflexivity]).
        unfold le_on in *. apply N.le_antisymm.
        + destruct Hb as [->|Hb]; [lia|apply A1; exact Hb].
        + destruct Ha as [->|Ha]; [lia|apply A2; exact Ha]. }
    f_equal. apply IH; [exact S1'|exact S2'|apply Permutation_cons_inv in Hp; exact Hp|].
    cbn [map] in Hnd. inversion Hnd; assumption.
Qed.

Lemma isort_perm_invariant f l1 l2 : Permutation l1 l2 -> NoDup (map f l1) -> isort f l1 = isort f l2.
Proof.
  intros Hp Hnd. apply (sorted_perm_unique f); try apply isort_sorted.
  - rewrite !isort_perm. exact Hp.
  - apply (Permutation_NoDup (l := map f l1)); [apply Permutation_map; symmetry; apply isort_perm|exact Hnd].
Qed.

(* ---------- collecting observers: filter, map ---------- *)
Definition u_collect (pl : placement) (phi : N -> N -> option N) (m : umap) : umap :=
  fold_left (fun acc e => match phi (fst e) (snd e) with
                          | Some v' => u_insert pl acc (fst e) v'
                          | None => acc
                          end) m [].

Lemma u_filter_collect pl p m : u_filter pl p m = u_collect pl (fun k v => if p k v then Some v else None) m.
Proof.
  unfold u_filter, u_collect. generalize (@nil entry) as acc. induction m as [|e m IH]; intros acc; cbn [fold_left]; [reflexivity|].
  rewrite IH. destruct (p (fst e) (snd e)); reflexivity.
Qed.

Lemma u_map_collect pl f m : u_map pl f m = u_collect pl (fun k v => Some (f v)) m.
Proof. reflexivity. Qed.

Lemma collect_get pl phi l : forall acc k, NoDup (keys l) -> NoDup (keys acc) ->
  let r := fold_left (fun acc e => match phi (fst e) (snd e) with
                                   | Some v' => u_insert pl acc (fst e) v'
                                   | None => acc
                                   end) l acc in
  NoDup (keys r)
  /\ u_get r k = match u_get l k with
                 | Some v => match phi k v with Some v' => Some v' | None => u_get acc k end
                 | None => u_get acc k
                 end.
Proof.
  induction l as [|[k0 v0] l IH]; intros acc k Hl Hacc; cbn [fold_left u_get fst snd keys map]; [split; [exact Hacc|reflexivity]|].
  cbn [keys map fst] in Hl. inversion Hl as [|? ? Hnotin Hl']; subst.
  set (acc' := match phi k0 v0 with Some v' => u_insert pl acc k0 v' | None => acc end).
  assert (Hacc' : NoDup (keys acc')) by (unfold acc'; destruct (phi k0 v0); [apply u_insert_nodup|]; exact Hacc).
  destruct (IH acc' k Hl' Hacc') as [H1 H2]. split; [exact H1|]. cbv zeta in H2. rewrite H2.
  destruct (k =? k0) eqn:E.
  - apply N.eqb_eq in E. subst k0. rewrite (proj2 (u_get_none l k) Hnotin).
    unfold acc'. destruct (phi k v0); [|reflexivity]. rewrite u_insert_get by exact Hacc. rewrite N.eqb_refl. reflexivity.
  - assert (u_get acc' k = u_get acc k) as ->.
    { unfold acc'. destruct (phi k0 v0); [|reflexivity]. rewrite u_insert_get by exact Hacc. rewrite E. reflexivity. }
    reflexivity.
Qed.

Lemma collect_uequiv pl1 pl2 phi m1 m2 : uequiv m1 m2 -> uequiv (u_collect pl1 phi m1) (u_collect pl2 phi m2).
Proof.
  intros [H1 [H2 Hg]]. assert (Hnil : NoDup (keys [])) by constructor. unfold u_collect.
  split; [apply (collect_get pl1 phi m1 [] 0 H1 Hnil)|]. split; [apply (collect_get pl2 phi m2 [] 0 H2 Hnil)|].
  intros k. rewrite (proj2 (collect_get pl1 phi m1 [] k H1 Hnil)), (proj2 (collect_get pl2 phi m2 [] k H2 Hnil)).
  rewrite Hg. reflexivity.
Qed.

(* ---------- aggregate_by ---------- *)
Definition or_default (d : N) (o : option N) : N := match o with Some x => x | None => d end.

Definition kstep (g : N -> N) (r : N -> N -> N) (d tk : N) (o : option N) (e : entry) : option N :=
  if tk =? g (fst e) then Some (r (or_default d o) (snd e)) else o.

Lemma aggregate_get pl g r d l : forall acc tk, NoDup (keys acc) ->
  let res := fold_left (fun acc e =>
               match u_get acc (g (fst e)) with
               | Some old => u_insert pl acc (g (fst e)) (r old (snd e))
               | None => u_insert pl acc (g (fst e)) (r d (snd e))
               end) l acc in
  NoDup (keys res) /\ u_get res tk = fold_left (kstep g r d tk) l (u_get acc tk).
Proof.
  induction l as [|e l IH]; intros acc tk Hacc; cbn [fold_left]; [split; [exact Hacc|reflexivity]|].
  set (acc' := match u_get acc (g (fst e)) with
               | Some old => u_insert pl acc (g (fst e)) (r old (snd e))
               | None => u_insert pl acc (g (fst e)) (r d (snd e))
               end).
  assert (Hacc' : NoDup (keys acc')) by (unfold acc'; destruct (u_get acc (g (fst e))); apply u_insert_nodup; exact Hacc).
  destruct (IH acc' tk Hacc') as [H1 H2]. split; [exact H1|]. cbv zeta in H2. rewrite H2. f_equal.
  unfold kstep, acc'. destruct (u_get acc (g (fst e))) as [old|] eqn:Eo; rewrite u_insert_get by exact Hacc;
    destruct (tk =? g (fst e)) eqn:E; try reflexivity; apply N.eqb_eq in E; subst tk; rewrite Eo; reflexivity.
Qed.

Lemma fold_left_perm {A B} (h : A -> B -> A) :
  (forall a x y, h (h a x) y = h (h a y) x) ->
  forall l1 l2, Permutation l1 l2 -> forall a, fold_left h l1 a = fold_left h l2 a.
Proof.
  intros Hc l1 l2 Hp. induction Hp as [|x l l' Hp IH|x y l|l l' l'' Hp1 IH1 Hp2 IH2]; intros a; cbn [fold_left].
  - reflexivity.
  - apply IH.
  - rewrite Hc. reflexivity.
  - rewrite IH1. apply IH2.
Qed.

Lemma kstep_comm g r d tk : left_comm r -> forall o x y, kstep g r d tk (kstep g r d tk o x) y = kstep g r d tk (kstep g r d tk o y) x.
Proof.
  intros Hc o x y. unfold kstep. destruct (tk =? g (fst x)), (tk =? g (fst y)); cbn [or_default]; try reflexivity.
  f_equal. apply Hc.
Qed.

Lemma aggregate_uequiv pl1 pl2 g r d m1 m2 : left_comm r -> uequiv m1 m2 ->
  uequiv (u_aggregate_by pl1 g r d m1) (u_aggregate_by pl2 g r d m2).
Proof.
  intros Hc He. pose proof (uequiv_perm _ _ He) as Hp. assert (Hnil : NoDup (keys [])) by constructor.
  unfold u_aggregate_by.
  split; [apply (aggregate_get pl1 g r d m1 [] 0 Hnil)|]. split; [apply (aggregate_get pl2 g r d m2 [] 0 Hnil)|].
  intros tk. rewrite (proj2 (aggregate_get pl1 g r d m1 [] tk Hnil)), (proj2 (aggregate_get pl2 g r d m2 [] tk Hnil)).
  apply fold_left_perm; [apply kstep_comm; exact Hc|exact Hp].
Qed.

(* ---------- equality ---------- *)
Lemma u_eq_spec a b : u_eq a b = true <-> length a = length b /\ forall k v, In (k, v) a -> u_get b k = Some v.
Proof.
  unfold u_eq. rewrite andb_true_iff, Nat.eqb_eq, forallb_forall. split; intros [Hl H]; (split; [exact Hl|]).
  - intros k v Hin. specialize (H (k, v) Hin). cbn [fst snd] in H.
    destruct (u_get b k) as [w|]; [|discriminate]. apply N.eqb_eq in H. subst. reflexivity.
  - intros [k v] Hin. cbn [fst snd]. rewrite (H k v Hin). apply N.eqb_refl.
Qed.

Lemma u_eq_uequiv a a' b b' : uequiv a a' -> uequiv b b' -> u_eq a b = u_eq a' b'.
Proof.
  intros Ha Hb. pose proof (uequiv_perm _ _ Ha) as Pa. pose proof (uequiv_perm _ _ Hb) as Pb.
  destruct Hb as [_ [_ Hgb]].
  apply eq_true_iff_eq. rewrite !u_eq_spec. rewrite (Permutation_length Pa), (Permutation_length Pb).
  split; intros [Hl H]; (split; [exact Hl|]); intros k v Hin.
  - rewrite <- Hgb. apply H. apply (Permutation_in (l := a')); [symmetry; exact Pa|exact Hin].
  - rewrite Hgb. apply H. apply (Permutation_in _ Pa). exact Hin.
Qed.

(* ---------- the theorem ---------- *)
Theorem unordered_observers : forall m1 m2, uequiv m1 m2 ->
  (forall k, u_get m1 k = u_get m2 k)
  /\ u_len m1 = u_len m2
  /\ (forall k, u_contains_key m1 k = u_contains_key m2 k)
  /\ u_iter_sorted m1 = u_iter_sorted m2
  /\ (forall f, inj_on f m1 -> u_iter_sorted_by_key f m1 = u_iter_sorted_by_key f m2)
  /\ (forall pl1 pl2 g r d, left_comm r -> uequiv (u_aggregate_by pl1 g r d m1) (u_aggregate_by pl2 g r d m2))
  /\ (forall pl1 pl2 p, uequiv (u_filter pl1 p m1) (u_filter pl2 p m2))
  /\ (forall pl1 pl2 f, uequiv (u_map pl1 f m1) (u_map pl2 f m2))
  /\ (forall n1 n2, uequiv n1 n2 -> u_eq m1 n1 = u_eq m2 n2).
Proof.
  intros m1 m2 He. pose proof (uequiv_perm _ _ He) as Hp. pose proof He as [H1 [H2 Hg]].
  split; [exact Hg|]. split; [unfold u_len; rewrite (Permutation_length Hp); reflexivity|].
  split.
  { intros k. unfold u_contains_key. apply eq_true_iff_eq. rewrite !has_key_in.
    split; intros H; [apply (Permutation_in (l := keys m1))|apply (Permutation_in (l := keys m2))];
      try exact H; apply Permutation_map; [exact Hp|symmetry; exact Hp]. }
  split; [apply isort_perm_invariant; [exact Hp|exact H1]|].
  split; [intros f Hf; apply isort_perm_invariant; [exact Hp|exact Hf]|].
  split; [intros; apply aggregate_uequiv; assumption|].
  split; [intros; rewrite !u_filter_collect; apply collect_uequiv; exact He|].
  split; [intros; rewrite !u_map_collect; apply collect_uequiv; exact He|].
  intros n1 n2 Hn. apply u_eq_uequiv; assumption.
Qed.

(* ---------- the side conditions are necessary ---------- *)
(* a reduce function that is not commutative makes aggregate_by reveal the raw order *)
Theorem aggregate_by_order_sensitive :
  exists m1 m2 pl, uequiv m1 m2 /\
    u_get (u_aggregate_by pl (fun _ => 0) (fun a v => 2 * a + v) 0 m1) 0
    <> u_get (u_aggregate_by pl (fun _ => 0) (fun a v => 2 * a + v) 0 m2) 0.
Proof.
  exists [(1, 1); (2, 5)], [(2, 5); (1, 1)], (fun _ _ => O). split.
  - apply perm_uequiv; [cbn; repeat constructor; cbn; intuition discriminate|apply perm_swap].
  - vm_compute. discriminate.
Qed.

(* a sort key that ties makes iter_sorted_by_key reveal the raw order *)
Theorem sorted_by_key_order_sensitive :
  exists m1 m2, uequiv m1 m2 /\ u_iter_sorted_by_key (fun _ => 0) m1 <> u_iter_sorted_by_key (fun _ => 0) m2.
Proof.
  exists [(1, 1); (2, 5)], [(2, 5); (1, 1)]. split.
  - apply perm_uequiv; [cbn; repeat constructor; cbn; intuition discriminate|apply perm_swap].
  - vm_compute. discriminate.
Qed.
