(* C02/Cycles.v -- no free loops in gas-checked accepted programs.
   A path is a sequence of branches following the statement graph.  In an accepted program whose
   functions are compiled with gas checking, the wallet annotation is a function of the statement
   (closure, Sierra/Closure.v), so along any path the wallet at the end is the wallet at the start
   minus the declared costs of the branches taken; around a cycle the declared costs therefore sum
   to zero FOR EVERY TOKEN PRICE VECTOR.  Hence a cycle that contains a branch of strictly positive
   price must contain a branch of strictly negative price - a gas-withdrawing branch (withdraw_gas /
   withdraw_gas_all / coupon refund: the only libfuncs whose declared cost is negative, because they
   top the wallet up from the run-time gas counter).  Together with the libfunc cost table giving a
   positive cost to every branch that emits an instruction (checked statically by harness/h15 on the
   emitted CASM: 90*steps <= cost), every loop that executes code draws on the gas counter on each
   iteration.  NOT proved here: that every cycle contains a positive-cost branch (a cost-table fact
   about `jump` and the conditional-branch libfuncs), and termination of the withdrawals (the
   counter is finite: C04). *)
From Coq Require Import ZArith List Bool Lia.
From Sierra Require Import Annot Closure Vmap Sem.
Import ListNotations.
Local Open Scope Z_scope.

Section Paths.
Variable p : program.

Inductive path : nat -> nat -> list branch -> Prop :=
| path_nil i : path i i []
| path_cons i iv b j bs :
    stmt_at p i = Some (SInvoke iv) -> In b (i_branches iv) -> path (b_target b) j bs ->
    path i j (b :: bs).

Definition path_cost (ps : list Z) (bs : list branch) : Z :=
  fold_right (fun b acc => price_with ps (b_gas b) + acc) 0 bs.

Variable T : nat -> option ann.
Hypothesis HC : Closed p T.

(* one edge: the wallet at the target is the wallet at the source minus the branch cost *)
Lemma edge_wallet i iv b e w :
  stmt_at p i = Some (SInvoke iv) -> In b (i_branches iv) ->
  T i = Some e -> a_wallet e = Some w ->
  exists e' w', T (b_target b) = Some e' /\ a_wallet e' = Some w'
    /\ forall ps, price_with ps w' = price_with ps w - price_with ps (b_gas b).
Proof.
  intros Hs Hb HT Hw. destruct HC as [HC1 _].
  destruct (HC1 _ _ Hs) as (e0 & HT0 & Hok). rewrite HT in HT0. inversion HT0; subst e0; clear HT0.
  cbn [stmt_ok] in Hok. destruct Hok as (ts & m & _ & _ & _ & _ & Hbr).
  destruct (Hbr b Hb) as (a' & Hpost & (_ & e' & HTd & Hsame) & _).
  destruct (same_unpack _ _ Hsame) as (_ & _ & Sw & _).
  unfold post in Hpost.
  destruct (put_vars m (b_results b) (b_outs b)); [|discriminate].
  destruct (track_update (a_track e) (b_track b) (b_ap b) (b_target b)); [|discriminate].
  rewrite Hw in Hpost. cbn [wallet_update] in Hpost.
  destruct (vnonneg (vsub w (b_gas b))); [|discriminate].
  inversion Hpost; subst a'; clear Hpost. cbn [a_wallet] in Sw.
  destruct (a_wallet e') as [w'|] eqn:Hw'; [|discriminate]. cbn in Sw.
  exists e', w'. split; [exact HTd|]. split; [exact Hw'|].
  intros ps. rewrite (price_with_veqb ps _ _ Sw), price_with_vsub. reflexivity.
Qed.

Lemma path_wallet i j bs : path i j bs ->
  forall e w, T i = Some e -> a_wallet e = Some w ->
  exists e' w', T j = Some e' /\ a_wallet e' = Some w'
    /\ forall ps, price_with ps w' = price_with ps w - path_cost ps bs.
Proof.
  induction 1 as [i | i iv b j bs Hs Hb Hp IH]; intros e w HT Hw.
  - exists e, w. split; [exact HT|]. split; [exact Hw|]. intros ps. cbn. lia.
  - destruct (edge_wallet _ _ _ _ _ Hs Hb HT Hw) as (e1 & w1 & HT1 & Hw1 & E1).
    destruct (IH _ _ HT1 Hw1) as (e2 & w2 & HT2 & Hw2 & E2).
    exists e2, w2. split; [exact HT2|]. split; [exact Hw2|].
    intros ps. rewrite E2, E1. cbn [path_cost fold_right]. fold (path_cost ps bs). lia.
Qed.

(* around a cycle through a gas-checked statement the declared costs cancel, for every price vector *)
Theorem cycle_cost_zero i bs e w :
  path i i bs -> T i = Some e -> a_wallet e = Some w ->
  forall ps, path_cost ps bs = 0.
Proof.
  intros Hp HT Hw ps.
  destruct (path_wallet _ _ _ Hp _ _ HT Hw) as (e' & w' & HT' & Hw' & E).
  rewrite HT in HT'. inversion HT'; subst e'. rewrite Hw in Hw'. inversion Hw'; subst w'.
  specialize (E ps). lia.
Qed.

Lemma path_cost_pos_neg ps bs :
  path_cost ps bs = 0 ->
  (exists b, In b bs /\ 0 < price_with ps (b_gas b)) ->
  exists b', In b' bs /\ price_with ps (b_gas b') < 0.
Proof.
  intros H0 (b & Hb & Hpos).
  destruct (existsb (fun x => price_with ps (b_gas x) <? 0) bs) eqn:E.
  - apply existsb_exists in E. destruct E as (x & Hx & Hlt). exists x. split; [exact Hx|lia].
  - exfalso.
    assert (Hall : forall x, In x bs -> 0 <= price_with ps (b_gas x)).
    { intros x Hx. destruct (Z.ltb_spec (price_with ps (b_gas x)) 0) as [Hl|Hl]; [|exact Hl].
      assert (existsb (fun x => price_with ps (b_gas x) <? 0) bs = true).
      { apply existsb_exists. exists x. split; [exact Hx|]. apply Z.ltb_lt. exact Hl. }
      congruence. }
    clear E. revert H0 Hb Hall. induction bs as [|y r IH]; intros H0 Hb Hall; [destruct Hb|].
    cbn [path_cost fold_right] in H0. fold (path_cost ps r) in H0.
    assert (Hr : 0 <= path_cost ps r).
    { clear - Hall. induction r as [|z r IHr]; cbn; [lia|].
      assert (0 <= price_with ps (b_gas z)) by (apply Hall; right; left; reflexivity).
      assert (0 <= path_cost ps r) by (apply IHr; intros x Hx; apply Hall; destruct Hx; [left|right; right]; auto).
      unfold path_cost in *. lia. }
    pose proof (Hall y (or_introl eq_refl)) as Hy.
    destruct Hb as [->|Hb]; [lia|].
    apply IH; [lia | exact Hb | intros x Hx; apply Hall; right; exact Hx].
Qed.
End Paths.

(* from acceptance: any cycle through a statement reachable in a gas-checked function *)
Theorem accepted_cycles_pay p prices :
  annot_accepts p = true -> gas_uniformb p = true -> Forall (fun x => 0 <= x) prices ->
  forall k f cf c bs,
    nth_error (funcs p) k = Some f -> f_cost f = Some cf ->
    reach p prices k c -> path p (c_pc c) (c_pc c) bs ->
    (forall ps, path_cost ps bs = 0)
    /\ forall ps, (exists b, In b bs /\ 0 < price_with ps (b_gas b)) ->
                  exists b', In b' bs /\ price_with ps (b_gas b') < 0.
Proof.
  intros Ha Hg Hp k f cf c bs Hf Hcf Hr Hpath.
  destruct (accepts_closed p Ha) as (T & HT).
  pose proof (reach_tied p prices Hp T HT (gas_uniformb_ok p Hg) k c Hr) as Ht.
  destruct Ht as (_ & e & HTe & _ & _ & _ & _ & Hpres & _).
  destruct (a_wallet e) as [w|] eqn:Hw.
  - assert (Hz : forall ps, path_cost ps bs = 0) by (intros ps; eapply cycle_cost_zero; eauto).
    split; [exact Hz|]. intros ps. apply path_cost_pos_neg, Hz.
  - exfalso. destruct (Hpres f Hf) as [Hx _]. specialize (Hx eq_refl). congruence.
Qed.
