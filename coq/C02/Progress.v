(* C02/Progress.v -- progress for accepted Sierra programs in the abstract machine of Sierra/Sem.v:
   a reachable configuration is never stuck.  It is either at a well-formed return, or at an
   invocation all of whose arguments are present with the declared types, and then - for a libfunc
   that is not a function call - EVERY branch the libfunc may take has a successor configuration in
   the machine (so whichever branch the run-time value selects, execution continues).  For a
   function call the successor exists as soon as the callee reaches one of its returns; that the
   callee does so is termination, which the model does not prove (it is the gas argument of
   C02_cycles_pay / C04 plus the libfunc-level facts explored by harness/h14run). *)
From Coq Require Import ZArith List Bool Lia.
From Sierra Require Import Annot Closure Vmap Sem.
Import ListNotations.
Local Open Scope Z_scope.

Definition can_continue (p : program) (prices : list Z) (k : nat) (c : cfg) : Prop :=
  match stmt_at p (c_pc c) with
  | Some (SReturn _) => True
  | Some (SInvoke iv) =>
      (forall g, i_kind iv <> LfCall g) ->
      forall b, In b (i_branches iv) ->
        exists c', reach p prices k c' /\ c_pc c' = b_target b
                   /\ (c_pc c' < length (stmts p))%nat
  | None => False
  end.

Theorem accepted_progress p prices :
  annot_accepts p = true -> gas_uniformb p = true -> Forall (fun x => 0 <= x) prices ->
  forall k c, reach p prices k c -> safe p k c /\ can_continue p prices k c.
Proof.
  intros Ha Hg Hp k c Hr.
  pose proof (accepted_safe p prices Ha Hg Hp k c Hr) as Hs.
  split; [exact Hs|].
  unfold can_continue. unfold safe in Hs.
  destruct (stmt_at p (c_pc c)) as [[iv|vs]|] eqn:Hst; [|exact I|exact Hs].
  intros Hnc b Hb. destruct Hs as (s1 & Htake & Hbr).
  destruct (Hbr b Hb) as ((s2 & Hput) & Hlt & _).
  (* the branch moves ap by its declared amount (0 when undeclared) and costs exactly its price *)
  set (dap := match b_ap b with Some x => x | None => 0 end).
  eexists. split.
  - eapply (reach_step p prices k c iv b _ s1 s2 dap (price prices (b_gas b))); eauto.
    split; [|lia]. intros x Hx. unfold dap. rewrite Hx. reflexivity.
  - cbn. split; [reflexivity|exact Hlt].
Qed.
