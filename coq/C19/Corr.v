(* C19/Corr.v -- executable comparison of the model (Class.v) with the implementation's answers as
   printed by harness/h19.  Every [check_*] returns the list of (leg number, case index) on which
   model and implementation disagree; the driver expects [bad = []].  No proofs here. *)
From C19 Require Export Class.
Open Scope Z_scope.

Fixpoint indexed {A} (n : Z) (l : list A) : list (Z * A) :=
  match l with [] => [] | x :: r => (n, x) :: indexed (n + 1) r end.

Definition failures {A} (leg : Z) (ok : A -> bool) (cs : list A) : list (Z * Z) :=
  flat_map (fun '(k, c) => if ok c then [] else [(leg, k)]) (indexed 0 cs).

Definition opt_eqb {A} (eqb : A -> A -> bool) (a b : option A) : bool :=
  match a, b with Some x, Some y => eqb x y | None, None => true | _, _ => false end.

(* ---- short constructors used by the printer ---- *)
Definition FT := Fallthrough.
Definition J := Jump.
Definition IV := Invoke.
Definition F := Invoke [Fallthrough].
Definition R := Return.

(* an instruction is printed as size + 10 * (has hints) *)
Definition mk_instr (z : Z) : minstr := {| i_size := z mod 10; i_hints := 10 <=? z |}.
Definition mk_code (c : list (list Z)) : code := map (map mk_instr) c.

Definition T (g : gid) (s r : bool) : tinfo := {| t_gid := g; t_is_span := s; t_is_ret := r |}.
Definition OT : tinfo := T (OtherG 0) false false.
Definition mk_func (x : Z * list Z * list Z) : func :=
  let '(e, ps, rs) := x in {| fn_entry := e; fn_params := ps; fn_rets := rs |}.
Definition mk_ep (x : Z * Z) : ep := {| ep_selector := fst x; ep_fidx := snd x |}.
Definition mk_cep (x : Z * Z * list string) : cep :=
  let '(s, o, b) := x in {| c_selector := s; c_offset := o; c_builtins := b |}.
(* replace the i-th function *)
Fixpoint upd {A} (l : list A) (i : nat) (x : A) : list A :=
  match l, i with
  | [], _ => []
  | _ :: r, O%nat => x :: r
  | y :: r, S i' => y :: upd r i' x
  end.

(* ---- leg 1: compute_bytecode_segment_lengths ---- *)
Fixpoint nested_eqb (a b : nested) : bool :=
  match a, b with
  | Leaf x, Leaf y => x =? y
  | Node l, Node m =>
    (fix go (l m : list nested) : bool :=
       match l, m with
       | [], [] => true
       | x :: l', y :: m' => nested_eqb x y && go l' m'
       | _, _ => false
       end) l m
  | _, _ => false
  end.
Definition seg_err_eqb (a b : seg_err) : bool :=
  match a, b with
  | NoFunctionStartAtZero, NoFunctionStartAtZero => true
  | JumpOutsideFunction x, JumpOutsideFunction y => x =? y
  | _, _ => false
  end.
Definition res_eqb {E A} (eqe : E -> E -> bool) (eqa : A -> A -> bool) (a b : res E A) : bool :=
  match a, b with
  | Ok x, Ok y => eqa x y
  | Err x, Err y => eqe x y
  | Panic, Panic => true
  | _, _ => false
  end.

(* function entry statements, statements, statement start offsets, total const size, const segment
   offsets, bytecode length, the implementation's answer *)
Definition seg_case := (list Z * list stmt * list Z * Z * list Z * Z * res seg_err nested)%type.
Definition seg_ok (c : seg_case) : bool :=
  let '(fe, stmts, starts, tot, offs, len, expected) := c in
  res_eqb seg_err_eqb nested_eqb
    (compute_bytecode_segment_lengths fe stmts starts tot offs len) expected.
Definition check_seg (cs : list seg_case) := failures 1 seg_ok cs.

(* ---- leg 2: offsets assigned by compile / assemble, size limit ---- *)
Inductive lay_res :=
| LFull (starts ends iidxs : list Z) (code_len : Z) (seg_offs : list Z) (total_seg : Z)
        (hint_offsets : list Z) (bytecode_len : Z)
| LLen (bytecode_len : Z)            (* accepted; only the length was recorded *)
| LErr.                              (* CodeSizeLimitExceeded *)
Definition lay_case := (Z * code * list Z * lay_res)%type.
Definition lay_ok (c : lay_case) : bool :=
  let '(max, cd, segs, expected) := c in
  match compile_layout max cd segs, expected with
  | Err CodeSizeLimitExceeded, LErr => true
  | Ok L, LLen n => n =? assembled_len cd segs
  | Ok L, LFull starts ends iidxs code_len seg_offs total_seg hints n =>
    list_eqb Z.eqb (map s_start (l_infos L)) starts
    && list_eqb Z.eqb (map s_end (l_infos L)) ends
    && list_eqb Z.eqb (map s_instr_idx (l_infos L)) iidxs
    && (l_code_len L =? code_len)
    && list_eqb Z.eqb (l_seg_offsets L) seg_offs
    && (l_total_seg L =? total_seg)
    && list_eqb Z.eqb (assemble_hints 0 (concat cd)) hints
    && (assembled_len cd segs =? n)
  | _, _ => false
  end.
Definition check_lay (cs : list lay_case) := failures 2 lay_ok cs.

(* ---- leg 3: canonicalisation of the assembled words ---- *)
Definition canon_case := (list Z * list Z)%type.        (* assembled (signed), class bytecode *)
Definition canon_ok (c : canon_case) : bool := list_eqb Z.eqb (map canon (fst c)) (snd c).
Definition check_canon (cs : list canon_case) := failures 3 canon_ok cs.

(* ---- leg 4: entry point checks and tables ---- *)
Inductive ep_res :=
| EOk (ext l1 ctor : list cep)
| EErr (e : ep_err)
| EPost          (* rejected after the modelled checks (compilation of a mutated program) *)
| EPanic.
Definition ep_err_eqb (a b : ep_err) : bool :=
  match a, b with
  | UnsupportedSierraVersion, UnsupportedSierraVersion
  | InvalidConstructorEntryPoint, InvalidConstructorEntryPoint
  | EntryPointsOutOfOrder, EntryPointsOutOfOrder
  | EntryPointError, EntryPointError
  | InvalidEntryPointSignatureMissingArgs, InvalidEntryPointSignatureMissingArgs
  | InvalidEntryPointSignature, InvalidEntryPointSignature
  | InvalidEntryPointSignatureWrongBuiltinsOrder, InvalidEntryPointSignatureWrongBuiltinsOrder => true
  | DuplicateEntryPointSelector x, DuplicateEntryPointSelector y => x =? y
  | DuplicateEntryPointSierraFunction x, DuplicateEntryPointSierraFunction y => x =? y
  | InvalidBuiltinType x, InvalidBuiltinType y => x =? y
  | _, _ => false
  end.
Definition cep_eqb (a b : cep) : bool :=
  (c_selector a =? c_selector b) && (c_offset a =? c_offset b)
  && list_eqb String.eqb (c_builtins a) (c_builtins b).

(* class input, start offsets of the compiled program (empty when it was rejected), whether the
   program was mutated after extraction, the implementation's answer *)
Definition ep_case := (class_in * list Z * bool * ep_res)%type.
Definition ep_ok (c : ep_case) : bool :=
  let '(k, starts, mutated, expected) := c in
  match expected with
  | EOk ext l1 ctor =>
    match class_entry_points k starts with
    | Ok (a, b, c) => list_eqb cep_eqb a ext && list_eqb cep_eqb b l1 && list_eqb cep_eqb c ctor
    | _ => false
    end
  | EErr e => match validate_class k with Err e' => ep_err_eqb e e' | _ => false end
  | EPost | EPanic =>
    (* only a mutated program may fail after validation; the model must have accepted it *)
    mutated && match validate_class k with Ok _ => true | _ => false end
  end.
Definition check_ep (cs : list ep_case) := failures 4 ep_ok cs.

Definition mk_class (maj min cmaj cmin : Z) (ctor ext l1 : list (Z * Z)) (tt : tytab)
  (funcs : list func) : class_in :=
  {| k_major := maj; k_minor := min; k_cur_major := cmaj; k_cur_minor := cmin;
     k_constructor := map mk_ep ctor; k_external := map mk_ep ext; k_l1_handler := map mk_ep l1;
     k_types := tt; k_funcs := funcs |}.

(* ---- leg 5: constants of the implementation ---- *)
(* ENTRY_POINT_BUILTIN_ORDER as strings, starknet_keccak("constructor") *)
Definition const_case := (list string * Z)%type.
Definition const_ok (c : const_case) : bool :=
  list_eqb String.eqb (map gid_name ORDER) (fst c) && (CONSTRUCTOR_SELECTOR =? snd c).
Definition check_const (cs : list const_case) := failures 5 const_ok cs.

(* ---- leg 6: bytecode_segment_lengths present iff the Sierra version supports 1.5.0 ---- *)
Definition ver_case := (Z * Z * bool)%type.
Definition ver_ok (c : ver_case) : bool :=
  let '(maj, min, present) := c in Bool.eqb (segmentation_enabled maj min) present.
Definition check_ver (cs : list ver_case) := failures 6 ver_ok cs.
