(* C19/Class.v -- executable model of the Starknet class compilation checks.  MODEL FILE: definitions
   only, no proofs (proofs are in ClassProofs.v, comparisons with the implementation in Corr.v).

   Transcribed from /repo/crates/cairo-lang-starknet-classes/src
     contract_segmentation.rs : compute_bytecode_segment_lengths (l.35-54), find_functions_segments
        (l.57-83), functions_statement_ids_to_offsets (l.86-99), get_segment_lengths (l.102-121),
        FunctionInfo::{new,finalize,visit_statement} (l.125-180), consts_segments_offsets (l.183-191),
        NestedIntList (l.21-24)
     casm_contract_class.rs   : from_contract_class_with_debug_info (l.380-631): version check,
        constructor check, selector order check, usage count, validate_entry_point, bytecode
        canonicalisation (l.551-559), as_casm_entry_points (offset lookup), ENTRY_POINT_BUILTIN_ORDER
        (l.99-109)
   and from /repo/crates/cairo-lang-sierra-to-casm/src/compiler.rs
     compile (offset accumulation l.478-481, 516-518, 568-576; size limit l.481-483, 676-685),
     ConstsInfo::new (size check l.268-270, segment offsets l.325-330), CairoProgram::assemble_ex
     (l.150-182: hints keyed by the length of the bytecode emitted so far).

   Conventions: usize values are Z (the harness prints them as such); a Rust panic (usize underflow
   with overflow checks, slice index out of range, expect on None) is the result [Panic].  The
   instruction encodings themselves are C16's subject; here an instruction is its size in words
   (op_size) and whether it carries hints. *)
From Coq Require Export ZArith List Lia Bool String.
From Base Require Export Felt.
Export ListNotations.
Open Scope Z_scope.

Inductive res (E A : Type) : Type :=
| Ok (a : A)
| Err (e : E)
| Panic.
Arguments Ok {E A} a.
Arguments Err {E A} e.
Arguments Panic {E A}.

(* checked usize subtraction: None = "attempt to subtract with overflow" *)
Definition usub (a b : Z) : option Z := if a <? b then None else Some (a - b).

Fixpoint sumZ (l : list Z) : Z := match l with [] => 0 | x :: r => x + sumZ r end.

(* ------------------------------------------------------------------------------------------ *)
(* Sierra program as seen by the segmentation: branch targets only                              *)
Inductive target := Fallthrough | Jump (i : Z).
Inductive stmt := Invoke (branches : list target) | Return.

(* StatementIdx::next *)
Definition next_idx (idx : Z) (t : target) : Z :=
  match t with Fallthrough => idx + 1 | Jump i => i end.

Inductive seg_err := NoFunctionStartAtZero | JumpOutsideFunction (src : Z).

(* NestedIntList *)
Inductive nested := Leaf (n : Z) | Node (l : list nested).

(* slice::sort on usize: insertion sort (any sort gives the same list on a total order) *)
Fixpoint insertZ (x : Z) (l : list Z) : list Z :=
  match l with
  | [] => [x]
  | y :: r => if x <=? y then x :: l else y :: insertZ x r
  end.
Fixpoint sortZ (l : list Z) : list Z :=
  match l with [] => [] | x :: r => insertZ x (sortZ r) end.

(* FunctionInfo *)
Record finfo := { f_entry : Z; f_max : Z; f_src : Z }.
Definition finfo_new (e : Z) : finfo := {| f_entry := e; f_max := e; f_src := e |}.

(* FunctionInfo::finalize: Some src = Err(JumpOutsideFunction(src)) *)
Definition finalize (f : finfo) (function_end : Z) : option Z :=
  if f_max f >=? function_end then Some (f_src f) else None.

(* FunctionInfo::visit_statement, the loop over the branches of an invocation *)
Fixpoint visit_branches (f : finfo) (idx : Z) (bs : list target) : res seg_err finfo :=
  match bs with
  | [] => Ok f
  | b :: r =>
    let n := next_idx idx b in
    if n <? f_entry f then Err (JumpOutsideFunction idx)
    else
      let f' := if n >? f_max f then {| f_entry := f_entry f; f_max := n; f_src := idx |} else f in
      visit_branches f' idx r
  end.
Definition visit_statement (f : finfo) (idx : Z) (s : stmt) : res seg_err finfo :=
  match s with Invoke bs => visit_branches f idx bs | Return => Ok f end.

(* the loop of find_functions_segments; [rest] = function_statement_ids[next_function_idx..] *)
Fixpoint ffs_loop (stmts : list stmt) (idx : Z) (cur : finfo) (rest : list Z)
  : res seg_err finfo :=
  match stmts with
  | [] => Ok cur
  | s :: ss =>
    let step (cur : finfo) (rest : list Z) :=
      match visit_statement cur idx s with
      | Ok cur' => ffs_loop ss (idx + 1) cur' rest
      | Err e => Err e
      | Panic => Panic
      end in
    match rest with
    | e :: rest' =>
      if e =? idx then
        match finalize cur idx with
        | Some src => Err (JumpOutsideFunction src)
        | None => step (finfo_new idx) rest'
        end
      else step cur rest
    | [] => step cur rest
    end
  end.

Definition find_functions_segments (func_entries : list Z) (stmts : list stmt)
  : res seg_err (list Z) :=
  let ids := sortZ func_entries in
  match ids with
  | 0 :: rest =>
    match ffs_loop stmts 0 (finfo_new 0) rest with
    | Ok cur =>
      match finalize cur (Z.of_nat (length stmts)) with
      | Some src => Err (JumpOutsideFunction src)
      | None => Ok ids
      end
    | Err e => Err e
    | Panic => Panic
    end
  | _ => Err NoFunctionStartAtZero
  end.

(* Vec index / .get().unwrap_or_else(panic) *)
Definition nthZ {A} (l : list A) (i : Z) : option A :=
  if i <? 0 then None else nth_error l (Z.to_nat i).

Fixpoint map_opt {A B} (f : A -> option B) (l : list A) : option (list B) :=
  match l with
  | [] => Some []
  | x :: r =>
    match f x, map_opt f r with
    | Some y, Some ys => Some (y :: ys)
    | _, _ => None
    end
  end.

(* functions_statement_ids_to_offsets: None = panic "Missing bytecode offset" *)
Definition ids_to_offsets (starts : list Z) (ids : list Z) : option (list Z) :=
  map_opt (nthZ starts) ids.

(* consts_segments_offsets: None = usize underflow *)
Definition consts_segments_offsets (total_segments_size : Z) (segment_offsets : list Z)
  (bytecode_len : Z) : option (list Z) :=
  match usub bytecode_len total_segments_size with
  | None => None
  | Some base => Some (map (fun o => base + o) segment_offsets)
  end.

(* get_segment_lengths: the loop over i in 1..len *)
Fixpoint seg_diffs (prev : Z) (rest : list Z) : option (list Z) :=
  match rest with
  | [] => Some []
  | x :: r =>
    match usub x prev with
    | None => None
    | Some d =>
      match seg_diffs x r with
      | None => None
      | Some ls => Some (if 0 <? d then d :: ls else ls)
      end
    end
  end.

Definition get_segment_lengths (offs : list Z) (bytecode_len : Z) : option (list Z) :=
  match offs with
  | [] => None                       (* .last().expect("Segmentation error: No function found.") *)
  | o :: r =>
    match seg_diffs o r with
    | None => None
    | Some ls =>
      match usub bytecode_len (last offs 0) with
      | None => None
      | Some d => Some (if 0 <? d then ls ++ [d] else ls)
      end
    end
  end.

Definition compute_bytecode_segment_lengths (func_entries : list Z) (stmts : list stmt)
  (starts : list Z) (total_segments_size : Z) (segment_offsets : list Z) (bytecode_len : Z)
  : res seg_err nested :=
  if bytecode_len =? 0 then Ok (Leaf 0)
  else
    match find_functions_segments func_entries stmts with
    | Err e => Err e
    | Panic => Panic
    | Ok ids =>
      match ids_to_offsets starts ids with
      | None => Panic
      | Some fo =>
        match consts_segments_offsets total_segments_size segment_offsets bytecode_len with
        | None => Panic
        | Some co =>
          match get_segment_lengths (fo ++ co) bytecode_len with
          | None => Panic
          | Some ls => Ok (Node (map Leaf ls))
          end
        end
      end
    end.

Fixpoint leaves (n : nested) : list Z :=
  match n with
  | Leaf k => [k]
  | Node l => (fix go (l : list nested) : list Z :=
                 match l with [] => [] | x :: r => leaves x ++ go r end) l
  end.

(* ------------------------------------------------------------------------------------------ *)
(* Layout: offsets assigned by sierra-to-casm's compile and by assemble                          *)
Record minstr := { i_size : Z; i_hints : bool }.
Definition code := list (list minstr).            (* instructions of each Sierra statement *)

Definition instr_sizes (is : list minstr) : Z := sumZ (map i_size is).

Record sinfo := { s_start : Z; s_end : Z; s_instr_idx : Z }.

Inductive lay_err := CodeSizeLimitExceeded.

(* the statement loop of compile: program_offset, instructions.len() *)
Fixpoint layout_loop (max : Z) (off iidx : Z) (c : code) : option (list sinfo * Z) :=
  match c with
  | [] => Some ([], off)
  | s :: r =>
    if off >? max then None
    else
      let off' := off + instr_sizes s in
      match layout_loop max off' (iidx + Z.of_nat (length s)) r with
      | None => None
      | Some (infos, fin) => Some ({| s_start := off; s_end := off'; s_instr_idx := iidx |} :: infos, fin)
      end
  end.

(* ConstsInfo::new: segment_offset of each segment and total_segments_size *)
Fixpoint const_offsets (acc : Z) (seg_lens : list Z) : list Z * Z :=
  match seg_lens with
  | [] => ([], acc)
  | n :: r => let (os, tot) := const_offsets (acc + 1 + n) r in (acc :: os, tot)
  end.

Record layout := {
  l_infos : list sinfo;          (* debug_info.sierra_statement_info *)
  l_code_len : Z;                (* program_offset after the loop *)
  l_seg_offsets : list Z;        (* consts_info.segments[..].segment_offset *)
  l_total_seg : Z;               (* consts_info.total_segments_size *)
}.

(* compile's size checks: per statement, checked_sub at the end, and in ConstsInfo::new
   (segments_data_size + segments.len() > const_segments_max_size; the left side only grows while
   constants are added and is checked after each addition, so the check after the last addition
   decides; without constants nothing is checked and 0 > const_max is false anyway) *)
Definition compile_layout (max : Z) (c : code) (seg_lens : list Z) : res lay_err layout :=
  match layout_loop max 0 0 c with
  | None => Err CodeSizeLimitExceeded
  | Some (infos, code_len) =>
    match usub max code_len with
    | None => Err CodeSizeLimitExceeded
    | Some const_max =>
      if sumZ seg_lens + Z.of_nat (length seg_lens) >? const_max
      then Err CodeSizeLimitExceeded
      else
        let (os, tot) := const_offsets 0 seg_lens in
        Ok {| l_infos := infos; l_code_len := code_len; l_seg_offsets := os; l_total_seg := tot |}
    end
  end.

(* assemble_ex: hints.push((bytecode.len(), hints)) for instructions with hints; then per const
   segment a ret word and the values *)
Fixpoint assemble_hints (off : Z) (is : list minstr) : list Z :=
  match is with
  | [] => []
  | i :: r => (if i_hints i then [off] else []) ++ assemble_hints (off + i_size i) r
  end.
Definition assembled_len (c : code) (seg_lens : list Z) : Z :=
  instr_sizes (concat c) + sumZ (map (fun n => 1 + n) seg_lens).

(* bytecode offsets at which an instruction starts *)
Fixpoint instr_starts (off : Z) (is : list minstr) : list Z :=
  match is with [] => [] | i :: r => off :: instr_starts (off + i_size i) r end.

(* ------------------------------------------------------------------------------------------ *)
(* Bytecode canonicalisation, as written (casm_contract_class.rs l.551-565):
     let (_q, reminder) = big_int.magnitude().div_rem(&prime);
     if big_int.is_negative() && !reminder.is_zero() { &prime - reminder } else { reminder }
   (before /repo commit 5d200f2 the test was only is_negative(), which mapped -k*P to P) *)
Definition canon (w : Z) : Z :=
  let r := Z.abs w mod P in
  if (w <? 0) && negb (r =? 0) then P - r else r.

(* ------------------------------------------------------------------------------------------ *)
(* Entry points                                                                                  *)
Inductive gid :=
| Pedersen | RangeCheck | Bitwise | EcOp | Poseidon | SegmentArena | RangeCheck96 | AddMod | MulMod
| GasBuiltin | System | OtherG (k : Z).

Definition gid_eqb (a b : gid) : bool :=
  match a, b with
  | Pedersen, Pedersen | RangeCheck, RangeCheck | Bitwise, Bitwise | EcOp, EcOp
  | Poseidon, Poseidon | SegmentArena, SegmentArena | RangeCheck96, RangeCheck96
  | AddMod, AddMod | MulMod, MulMod | GasBuiltin, GasBuiltin | System, System => true
  | OtherG x, OtherG y => x =? y
  | _, _ => false
  end.

(* ENTRY_POINT_BUILTIN_ORDER *)
Definition ORDER : list gid :=
  [Pedersen; RangeCheck; Bitwise; EcOp; Poseidon; SegmentArena; RangeCheck96; AddMod; MulMod].

(* the generic type id strings (GenericTypeId.0) *)
Definition gid_name (g : gid) : string :=
  match g with
  | Pedersen => "Pedersen" | RangeCheck => "RangeCheck" | Bitwise => "Bitwise" | EcOp => "EcOp"
  | Poseidon => "Poseidon" | SegmentArena => "SegmentArena" | RangeCheck96 => "RangeCheck96"
  | AddMod => "AddMod" | MulMod => "MulMod" | GasBuiltin => "GasBuiltin" | System => "System"
  | OtherG _ => "?"
  end%string.

(* "RangeCheck96" => "range_check96", name => name.to_case(Case::Snake); only evaluated on members
   of ORDER *)
Definition builtin_name (g : gid) : string :=
  match g with
  | Pedersen => "pedersen" | RangeCheck => "range_check" | Bitwise => "bitwise" | EcOp => "ec_op"
  | Poseidon => "poseidon" | SegmentArena => "segment_arena" | RangeCheck96 => "range_check96"
  | AddMod => "add_mod" | MulMod => "mul_mod" | GasBuiltin => "gas_builtin" | System => "system"
  | OtherG _ => "?"
  end%string.

(* TypeResolver: type_decl[type_id.id as usize] -- the table is indexed by the type id (out of range
   = panic).  Of a declaration the checks use its generic id and the two shape predicates
   is_felt252_span / is_valid_entry_point_return_type, which are inputs here (not modelled). *)
Record tinfo := { t_gid : gid; t_is_span : bool; t_is_ret : bool }.
Definition tytab := list tinfo.

(* a Sierra function as the checks see it: entry statement, param type ids, return type ids *)
Record func := { fn_entry : Z; fn_params : list Z; fn_rets : list Z }.

Record ep := { ep_selector : Z; ep_fidx : Z }.          (* ContractEntryPoint *)
Record cep := { c_selector : Z; c_offset : Z; c_builtins : list string }. (* CasmContractEntryPoint *)

Inductive ep_err :=
| UnsupportedSierraVersion
| InvalidConstructorEntryPoint
| EntryPointsOutOfOrder
| DuplicateEntryPointSelector (s : Z)
| DuplicateEntryPointSierraFunction (idx : Z)
| EntryPointError
| InvalidEntryPointSignatureMissingArgs
| InvalidEntryPointSignature
| InvalidBuiltinType (tid : Z)
| InvalidEntryPointSignatureWrongBuiltinsOrder.

(* starknet_keccak(b"constructor") *)
Definition CONSTRUCTOR_SELECTOR : Z :=
  0x28ffe4ff0f226a9107253e17a904099aa4f63a02a5621de0576e5aa71bc5194.

(* sierra_version.major == current.major && sierra_version.minor <= current.minor *)
Definition version_ok (maj min cur_maj cur_min : Z) : bool := (maj =? cur_maj) && (min <=? cur_min).
(* VersionId::supports *)
Definition supports (maj min omaj omin : Z) : bool := (maj >? omaj) || ((maj =? omaj) && (min >=? omin)).

Definition constructor_ok (ctor : list ep) : bool :=
  match ctor with
  | [] => true
  | [e] => ep_selector e =? CONSTRUCTOR_SELECTOR
  | _ => false
  end.

(* entry_points.iter().tuple_windows(): first offending window decides *)
Fixpoint check_selectors (l : list Z) : option ep_err :=
  match l with
  | prev :: ((nxt :: _) as r) =>
    if prev <? nxt then check_selectors r
    else if prev =? nxt then Some (DuplicateEntryPointSelector prev)
    else Some EntryPointsOutOfOrder
  | _ => None
  end.

Fixpoint first_some {A B} (f : A -> option B) (l : list A) : option B :=
  match l with [] => None | x :: r => match f x with Some e => Some e | None => first_some f r end end.

(* function_idx_usages: counts in an association list; error when a count exceeds 2 *)
Fixpoint bump (i : Z) (m : list (Z * Z)) : list (Z * Z) * Z :=
  match m with
  | [] => ([(i, 1)], 1)
  | (j, n) :: r =>
    if j =? i then ((j, n + 1) :: r, n + 1)
    else let (r', c) := bump i r in ((j, n) :: r', c)
  end.
Fixpoint check_usages (m : list (Z * Z)) (idxs : list Z) : option ep_err :=
  match idxs with
  | [] => None
  | i :: r =>
    let (m', c) := bump i m in
    if c >? 2 then Some (DuplicateEntryPointSierraFunction i) else check_usages m' r
  end.

(* split_last / split_last_chunk::<2> *)
Definition split_last {A} (l : list A) : option (A * list A) :=
  match rev l with [] => None | x :: r => Some (x, rev r) end.
Definition split_last2 {A} (l : list A) : option (list A * A * A) :=
  match rev l with b :: a :: r => Some (rev r, a, b) | _ => None end.

Fixpoint list_eqb {A} (eqb : A -> A -> bool) (a b : list A) : bool :=
  match a, b with
  | [], [] => true
  | x :: a', y :: b' => eqb x y && list_eqb eqb a' b'
  | _, _ => false
  end.

(* order_iter.any(|generic_id| generic_id == g): consumes the iterator up to and including the
   first match *)
Fixpoint any_consume (g : gid) (it : list gid) : bool * list gid :=
  match it with
  | [] => (false, [])
  | x :: r => if gid_eqb x g then (true, r) else any_consume g r
  end.
(* builtins.iter().all(|type_id| order_iter.any(..)) with the shared iterator *)
Fixpoint all_in_order (bs : list gid) (it : list gid) : bool :=
  match bs with
  | [] => true
  | b :: r => let (ok, it') := any_consume b it in if ok then all_in_order r it' else false
  end.

Definition contains (g : gid) (l : list gid) : bool := existsb (gid_eqb g) l.

(* first builtin whose generic id is not in ENTRY_POINT_BUILTIN_ORDER (None inside = all fine;
   outer None = panic in get_generic_id) *)
Fixpoint check_builtin_types (tt : tytab) (bs : list Z) : option (option ep_err) :=
  match bs with
  | [] => Some None
  | b :: r =>
    match nthZ tt b with
    | None => None
    | Some ti => if contains (t_gid ti) ORDER then check_builtin_types tt r
                 else Some (Some (InvalidBuiltinType b))
    end
  end.

(* validate_entry_point: Ok (entry statement, builtin names) *)
Definition validate_entry_point (tt : tytab) (funcs : list func) (e : ep)
  : res ep_err (Z * list string) :=
  match nthZ funcs (ep_fidx e) with
  | None => Err EntryPointError
  | Some f =>
    match split_last (fn_rets f) with
    | None => Err InvalidEntryPointSignature
    | Some (panic_result, output_builtins) =>
      match split_last2 output_builtins with
      | None => Err InvalidEntryPointSignature
      | Some (builtins, gas_ty, system_ty) =>
        match split_last (fn_params f) with
        | None => Err InvalidEntryPointSignatureMissingArgs
        | Some (input_span, input_builtins) =>
          if negb (list_eqb Z.eqb input_builtins output_builtins)
          then Err InvalidEntryPointSignature
          else
            match nthZ tt input_span with
            | None => Panic
            | Some tspan =>
              if negb (t_is_span tspan) then Err InvalidEntryPointSignature
              else
                match nthZ tt panic_result with
                | None => Panic
                | Some tret =>
                  if negb (t_is_ret tret) then Err InvalidEntryPointSignature
                  else
                    match check_builtin_types tt builtins with
                    | None => Panic
                    | Some (Some err) => Err err
                    | Some None =>
                      match nthZ tt system_ty, nthZ tt gas_ty, map_opt (nthZ tt) builtins with
                      | Some tsys, Some tgas, Some tbs =>
                        if negb (gid_eqb (t_gid tsys) System) || negb (gid_eqb (t_gid tgas) GasBuiltin)
                        then Err InvalidEntryPointSignatureWrongBuiltinsOrder
                        else if negb (all_in_order (map t_gid tbs) ORDER)
                        then Err InvalidEntryPointSignatureWrongBuiltinsOrder
                        else Ok (fn_entry f, map (fun t => builtin_name (t_gid t)) tbs)
                      | _, _, _ => Panic
                      end
                    end
                end
            end
        end
      end
    end
  end.

(* entry_points.iter().map(validate_entry_point).collect::<Result<Vec<_>, _>>() *)
Fixpoint validate_entry_points (tt : tytab) (funcs : list func) (es : list ep)
  : res ep_err (list (Z * list string)) :=
  match es with
  | [] => Ok []
  | e :: r =>
    match validate_entry_point tt funcs e with
    | Err x => Err x
    | Panic => Panic
    | Ok i =>
      match validate_entry_points tt funcs r with
      | Ok is => Ok (i :: is)
      | Err x => Err x
      | Panic => Panic
      end
    end
  end.

Record class_in := {
  k_major : Z; k_minor : Z;                  (* extracted_program.sierra_version *)
  k_cur_major : Z; k_cur_minor : Z;          (* current_sierra_version_id() *)
  k_constructor : list ep; k_external : list ep; k_l1_handler : list ep;
  k_types : tytab; k_funcs : list func;
}.

(* everything from_contract_class_with_debug_info checks before it compiles, in its order *)
Definition validate_class (k : class_in)
  : res ep_err (list (Z * list string) * list (Z * list string) * list (Z * list string)) :=
  if negb (version_ok (k_major k) (k_minor k) (k_cur_major k) (k_cur_minor k))
  then Err UnsupportedSierraVersion
  else if negb (constructor_ok (k_constructor k)) then Err InvalidConstructorEntryPoint
  else
    match first_some (fun l => check_selectors (map ep_selector l))
                     [k_constructor k; k_external k; k_l1_handler k] with
    | Some e => Err e
    | None =>
      match check_usages [] (map ep_fidx (k_constructor k ++ k_external k ++ k_l1_handler k)) with
      | Some e => Err e
      | None =>
        match validate_entry_points (k_types k) (k_funcs k) (k_external k) with
        | Err e => Err e | Panic => Panic
        | Ok ext =>
          match validate_entry_points (k_types k) (k_funcs k) (k_l1_handler k) with
          | Err e => Err e | Panic => Panic
          | Ok l1 =>
            match validate_entry_points (k_types k) (k_funcs k) (k_constructor k) with
            | Err e => Err e | Panic => Panic
            | Ok ctor => Ok (ext, l1, ctor)
            end
          end
        end
      end
    end.

(* as_casm_entry_points: zip_eq(entry points, infos), offset = sierra_statement_info[stmt].start_offset *)
Fixpoint as_casm_entry_points (starts : list Z) (es : list ep) (infos : list (Z * list string))
  : option (list cep) :=
  match es, infos with
  | [], [] => Some []
  | e :: es', (st, bs) :: infos' =>
    match nthZ starts st, as_casm_entry_points starts es' infos' with
    | Some off, Some r => Some ({| c_selector := ep_selector e; c_offset := off; c_builtins := bs |} :: r)
    | _, _ => None
    end
  | _, _ => None
  end.

(* the entry point tables of the resulting class (external, l1_handler, constructor), given the
   statement start offsets the compilation produced *)
Definition class_entry_points (k : class_in) (starts : list Z)
  : res ep_err (list cep * list cep * list cep) :=
  match validate_class k with
  | Err e => Err e
  | Panic => Panic
  | Ok (ext, l1, ctor) =>
    match as_casm_entry_points starts (k_external k) ext,
          as_casm_entry_points starts (k_l1_handler k) l1,
          as_casm_entry_points starts (k_constructor k) ctor with
    | Some a, Some b, Some c => Ok (a, b, c)
    | _, _, _ => Panic
    end
  end.

(* bytecode_segment_lengths is Some only from Sierra 1.5.0 on *)
Definition segmentation_enabled (maj min : Z) : bool := supports maj min 1 5.
