(* C19/CheckProofs.v -- proofs about the canonicalisation and the entry point checks of Class.v *)
From C19 Require Import Class.
From Coq Require Import Sorting.Sorted.
Ltac Zify.zify_post_hook ::= Z.div_mod_to_equations.

(* ---------------------------------------------------------------------------------------- *)
(* canon *)
Lemma canon_range w : 0 <= canon w < P.
Proof.
  unfold canon. pose proof P_pos as HP.
  pose proof (Z.mod_pos_bound (Z.abs w) P HP) as Hr.
  destruct (w <? 0); cbn [andb]; [|exact Hr].
  destruct (Z.abs w mod P =? 0) eqn:H0; cbn [negb]; [exact Hr|].
  apply Z.eqb_neq in H0. lia.
Qed.

(* it is the field representative of w *)
Lemma canon_mod w : canon w = w mod P.
Proof.
  pose proof (canon_range w) as Hrange. unfold canon in *. pose proof P_pos as HP.
  destruct (w <? 0) eqn:Hneg; cbn [andb] in *.
  - apply Z.ltb_lt in Hneg. rewrite Z.abs_neq in * by lia.
    destruct (- w mod P =? 0) eqn:H0; cbn [negb] in *.
    + apply Z.eqb_eq in H0. rewrite H0.
      apply (Z.mod_unique_pos w P (- ((- w) / P)) 0); [lia|].
      pose proof (Z.div_mod (- w) P ltac:(lia)) as Hdm. lia.
    + apply (Z.mod_unique_pos w P (- ((- w) / P) - 1) (P - (- w) mod P)); [lia|].
      pose proof (Z.div_mod (- w) P ltac:(lia)) as Hdm. lia.
  - apply Z.ltb_ge in Hneg. rewrite Z.abs_eq by lia. reflexivity.
Qed.

(* regression for the boundary that used to give P *)
Lemma canon_negative_multiples : canon (- P) = 0 /\ canon (- (2 * P)) = 0 /\ canon (- P - 1) = P - 1.
Proof. vm_compute. repeat split; reflexivity. Qed.

(* ---------------------------------------------------------------------------------------- *)
(* selectors *)
Lemma check_selectors_sorted l : check_selectors l = None -> StronglySorted Z.lt l.
Proof.
  induction l as [|a l IH]; intros H; [constructor|].
  destruct l as [|b l'].
  - constructor; constructor.
  - cbn [check_selectors] in H.
    destruct (a <? b) eqn:Hab.
    + apply Z.ltb_lt in Hab. specialize (IH H).
      constructor; [exact IH|].
      apply StronglySorted_inv in IH as [_ Hall].
      constructor; [exact Hab|].
      eapply Forall_impl; [|exact Hall]. cbv beta. intros; lia.
    + destruct (a =? b); discriminate.
Qed.

Lemma sorted_check_selectors l : StronglySorted Z.lt l -> check_selectors l = None.
Proof.
  induction l as [|a l IH]; intros H; [reflexivity|].
  apply StronglySorted_inv in H as [Hs Hall].
  destruct l as [|b l']; [reflexivity|].
  cbn [check_selectors].
  apply Forall_inv in Hall. apply Z.ltb_lt in Hall. rewrite Hall. apply IH. exact Hs.
Qed.

(* which error: the first window that is not increasing decides *)
Lemma check_selectors_dup l s :
  check_selectors l = Some (DuplicateEntryPointSelector s) ->
  exists pre post, l = pre ++ s :: s :: post /\ StronglySorted Z.lt (pre ++ [s]).
Proof.
  induction l as [|a l IH]; intros H; [discriminate|].
  destruct l as [|b l']; [discriminate|].
  cbn [check_selectors] in H.
  destruct (a <? b) eqn:Hab.
  - apply Z.ltb_lt in Hab.
    destruct (IH H) as (pre & post & Heq & Hs).
    exists (a :: pre), post. split; [rewrite Heq; reflexivity|].
    cbn [app]. constructor; [exact Hs|].
    destruct pre as [|p pre'].
    + cbn in Heq. injection Heq as -> _. constructor; [exact Hab|constructor].
    + cbn in Heq. injection Heq as -> _.
      apply StronglySorted_inv in Hs as [_ Hall].
      constructor; [exact Hab|]. eapply Forall_impl; [|exact Hall]. cbv beta; intros; lia.
  - destruct (a =? b) eqn:Heq; [|discriminate].
    apply Z.eqb_eq in Heq. subst b. injection H as <-.
    exists [], l'. split; [reflexivity|]. cbn. constructor; constructor.
Qed.

(* ---------------------------------------------------------------------------------------- *)
(* usage counts *)
Fixpoint lookupZ (m : list (Z * Z)) (i : Z) : Z :=
  match m with [] => 0 | (j, n) :: r => if j =? i then n else lookupZ r i end.

Fixpoint countZ (l : list Z) (i : Z) : Z :=
  match l with [] => 0 | x :: r => (if x =? i then 1 else 0) + countZ r i end.

Lemma bump_spec m i m' c :
  bump i m = (m', c) ->
  c = lookupZ m i + 1 /\ forall j, lookupZ m' j = lookupZ m j + (if i =? j then 1 else 0).
Proof.
  revert m' c. induction m as [|[j n] r IH]; intros m' c H.
  - cbn in H. injection H as <- <-. split; [reflexivity|].
    intros j. cbn. destruct (i =? j); lia.
  - cbn [bump] in H. destruct (j =? i) eqn:Hji.
    + injection H as <- <-. apply Z.eqb_eq in Hji. subst j.
      split; [cbn; rewrite Z.eqb_refl; reflexivity|].
      intros j. cbn. destruct (i =? j); lia.
    + destruct (bump i r) as [r' c'] eqn:Hb. injection H as <- <-.
      destruct (IH _ _ eq_refl) as [Hc Hl].
      split; [cbn; rewrite Hji; exact Hc|].
      intros k. cbn. destruct (j =? k) eqn:Hjk.
      * apply Z.eqb_eq in Hjk. subst k.
        rewrite Z.eqb_sym in Hji. rewrite Hji. lia.
      * apply Hl.
Qed.

Lemma check_usages_bound m l :
  check_usages m l = None ->
  forall i, lookupZ m i + countZ l i <= Z.max 2 (lookupZ m i).
Proof.
  revert m. induction l as [|x r IH]; intros m H i.
  - cbn. lia.
  - cbn [check_usages] in H. destruct (bump x m) as [m' c] eqn:Hb.
    destruct (bump_spec _ _ _ _ Hb) as [Hc Hl].
    destruct (c >? 2) eqn:Hgt; [discriminate|].
    assert (Hc2 : c <= 2) by (destruct (Z.gtb_spec c 2); [discriminate|lia]).
    specialize (IH _ H i). rewrite Hl in IH. cbn [countZ].
    destruct (x =? i) eqn:Hxi.
    + apply Z.eqb_eq in Hxi. subst x. lia.
    + lia.
Qed.

Lemma check_usages_at_most_two l :
  check_usages [] l = None -> forall i, countZ l i <= 2.
Proof. intros H i. pose proof (check_usages_bound [] l H i) as Hb. cbn in Hb. lia. Qed.

(* ---------------------------------------------------------------------------------------- *)
(* builtins *)
Inductive subseq {A} : list A -> list A -> Prop :=
| sub_nil l : subseq [] l
| sub_take x a b : subseq a b -> subseq (x :: a) (x :: b)
| sub_skip x a b : subseq a b -> subseq a (x :: b).

Lemma gid_eqb_eq a b : gid_eqb a b = true <-> a = b.
Proof.
  split.
  - destruct a, b; cbn; intros H; try discriminate; try reflexivity.
    apply Z.eqb_eq in H. subst. reflexivity.
  - intros <-. destruct a; cbn; try reflexivity. apply Z.eqb_refl.
Qed.

Lemma subseq_tail {A} (x : A) a b : subseq (x :: a) b -> subseq a b.
Proof.
  intros H. remember (x :: a) as xa eqn:E. revert x a E.
  induction H as [l | y a' b' H IH | y a' b' H IH]; intros x a E.
  - discriminate.
  - injection E as -> ->. apply sub_skip. exact H.
  - apply sub_skip. eapply IH. exact E.
Qed.

Lemma subseq_in {A} (a b : list A) : subseq a b -> forall x, In x a -> In x b.
Proof.
  induction 1 as [l | y a b H IH | y a b H IH]; intros x Hin.
  - destruct Hin.
  - destruct Hin as [->|Hin]; [left; reflexivity|right; apply IH; exact Hin].
  - right. apply IH. exact Hin.
Qed.

Lemma subseq_nodup {A} (a b : list A) : subseq a b -> NoDup b -> NoDup a.
Proof.
  induction 1 as [l | y a b H IH | y a b H IH]; intros Hnd.
  - constructor.
  - inversion Hnd as [|? ? Hnin Hnd']; subst. constructor; [|apply IH; exact Hnd'].
    intros Hin. apply Hnin. eapply subseq_in; eassumption.
  - inversion Hnd; subst. apply IH. assumption.
Qed.

Lemma subseq_map {A B} (f : A -> B) a b : subseq a b -> subseq (map f a) (map f b).
Proof. induction 1; cbn; constructor; assumption. Qed.

Lemma any_consume_true g it it' :
  any_consume g it = (true, it') -> exists pre, it = pre ++ g :: it' /\ ~ In g pre.
Proof.
  revert it'. induction it as [|x r IH]; intros it' H; [discriminate|].
  cbn [any_consume] in H. destruct (gid_eqb x g) eqn:Hx.
  - apply gid_eqb_eq in Hx. subst x. injection H as <-. exists []. split; [reflexivity|intros []].
  - destruct (IH _ H) as (pre & -> & Hnin). exists (x :: pre). split; [reflexivity|].
    intros [->|Hin]; [|exact (Hnin Hin)].
    assert (gid_eqb g g = true) by (apply gid_eqb_eq; reflexivity). congruence.
Qed.

Lemma subseq_app_skip {A} (pre : list A) a b : subseq a b -> subseq a (pre ++ b).
Proof. intros H. induction pre; cbn; [exact H|apply sub_skip; exact IHpre]. Qed.

Lemma all_in_order_sound bs it : all_in_order bs it = true -> subseq bs it.
Proof.
  revert it. induction bs as [|b r IH]; intros it H; [constructor|].
  cbn [all_in_order] in H. destruct (any_consume b it) as [ok it'] eqn:Hc.
  destruct ok; [|discriminate].
  destruct (any_consume_true _ _ _ Hc) as (pre & -> & _).
  apply subseq_app_skip. apply sub_take. apply IH. exact H.
Qed.

Lemma all_in_order_complete bs it : subseq bs it -> all_in_order bs it = true.
Proof.
  revert bs. induction it as [|x t IH]; intros bs H.
  - inversion H; subst. reflexivity.
  - destruct bs as [|b r]; [reflexivity|].
    cbn [all_in_order any_consume]. destruct (gid_eqb x b) eqn:Hx.
    + apply IH. apply gid_eqb_eq in Hx. subst x.
      inversion H as [|? ? ? H'|? ? ? H']; subst; [exact H'|eapply subseq_tail; exact H'].
    + change (all_in_order (b :: r) t = true). apply IH.
      inversion H as [|? ? ? H'|? ? ? H']; subst; [|exact H'].
      rewrite (proj2 (gid_eqb_eq _ _) eq_refl) in Hx. discriminate.
Qed.

Lemma ORDER_nodup : NoDup ORDER.
Proof.
  unfold ORDER.
  repeat (constructor; [cbn; intros H; repeat (destruct H as [H|H]; [discriminate|]); exact H|]).
  constructor.
Qed.

Lemma split_last_spec {A} (l : list A) x r : split_last l = Some (x, r) -> l = r ++ [x].
Proof.
  unfold split_last. intros H. destruct (rev l) as [|y t] eqn:E; [discriminate|].
  injection H as <- <-. rewrite <- (rev_involutive l), E. reflexivity.
Qed.

Lemma split_last2_spec {A} (l : list A) r a b : split_last2 l = Some (r, a, b) -> l = r ++ [a; b].
Proof.
  unfold split_last2. intros H. destruct (rev l) as [|y [|z t]] eqn:E; try discriminate.
  injection H as <- <- <-. rewrite <- (rev_involutive l), E. cbn. rewrite <- app_assoc. reflexivity.
Qed.

Lemma list_eqb_Z a b : list_eqb Z.eqb a b = true -> a = b.
Proof.
  revert b. induction a as [|x a IH]; intros [|y b] H; try discriminate; [reflexivity|].
  cbn in H. apply andb_true_iff in H as [Hxy H]. apply Z.eqb_eq in Hxy. subst. f_equal. auto.
Qed.

Lemma map_opt_spec {A B} (f : A -> option B) l l' :
  map_opt f l = Some l' -> Forall2 (fun x y => f x = Some y) l l'.
Proof.
  revert l'. induction l as [|x r IH]; intros l' H.
  - injection H as <-. constructor.
  - cbn [map_opt] in H. destruct (f x) as [y|] eqn:Hx; [|discriminate].
    destruct (map_opt f r) as [ys|]; [|discriminate]. injection H as <-.
    constructor; [exact Hx|apply IH; reflexivity].
Qed.

(* the generic ids of a list of type ids, when they all resolve *)
Definition gids_of (tt : tytab) (ids : list Z) (gs : list gid) : Prop :=
  Forall2 (fun id g => exists ti, nthZ tt id = Some ti /\ t_gid ti = g) ids gs.

(* what a validated entry point looks like *)
Definition entry_shape (tt : tytab) (f : func) (bs : list Z) (gs : list gid) : Prop :=
  exists gas sys span pr tgas tsys tspan tpr,
    fn_params f = bs ++ [gas; sys; span]
    /\ fn_rets f = bs ++ [gas; sys; pr]
    /\ nthZ tt gas = Some tgas /\ t_gid tgas = GasBuiltin
    /\ nthZ tt sys = Some tsys /\ t_gid tsys = System
    /\ nthZ tt span = Some tspan /\ t_is_span tspan = true
    /\ nthZ tt pr = Some tpr /\ t_is_ret tpr = true
    /\ gids_of tt bs gs.

Lemma validate_entry_point_ok tt funcs e st names :
  validate_entry_point tt funcs e = Ok (st, names) ->
  exists f bs gs,
    nthZ funcs (ep_fidx e) = Some f /\ st = fn_entry f
    /\ entry_shape tt f bs gs
    /\ names = map builtin_name gs
    /\ subseq gs ORDER /\ NoDup gs.
Proof.
  unfold validate_entry_point. intros H.
  destruct (nthZ funcs (ep_fidx e)) as [f|] eqn:Hf; [|discriminate].
  destruct (split_last (fn_rets f)) as [[pr outb]|] eqn:Hr; [|discriminate].
  destruct (split_last2 outb) as [[[bs gas] sys]|] eqn:Ho; [|discriminate].
  destruct (split_last (fn_params f)) as [[span inb]|] eqn:Hp; [|discriminate].
  destruct (list_eqb Z.eqb inb outb) eqn:Heq; [|discriminate]. cbn [negb] in H.
  destruct (nthZ tt span) as [tspan|] eqn:Htspan; [|discriminate].
  destruct (t_is_span tspan) eqn:Hspan; [|discriminate]. cbn [negb] in H.
  destruct (nthZ tt pr) as [tpr|] eqn:Htpr; [|discriminate].
  destruct (t_is_ret tpr) eqn:Hret; [|discriminate]. cbn [negb] in H.
  destruct (check_builtin_types tt bs) as [[err|]|] eqn:Hcb; try discriminate.
  destruct (nthZ tt sys) as [tsys|] eqn:Htsys; [|discriminate].
  destruct (nthZ tt gas) as [tgas|] eqn:Htgas; [|discriminate].
  destruct (map_opt (nthZ tt) bs) as [tbs|] eqn:Htbs; [|discriminate].
  destruct (gid_eqb (t_gid tsys) System) eqn:Hsys; [|discriminate].
  destruct (gid_eqb (t_gid tgas) GasBuiltin) eqn:Hgas; [|discriminate].
  cbn [negb orb] in H.
  destruct (all_in_order (map t_gid tbs) ORDER) eqn:Hord; [|discriminate].
  cbn [negb] in H. injection H as <- <-.
  apply split_last_spec in Hr, Hp. apply split_last2_spec in Ho. apply list_eqb_Z in Heq.
  apply gid_eqb_eq in Hsys, Hgas. subst inb outb.
  apply all_in_order_sound in Hord.
  exists f, bs, (map t_gid tbs). split; [reflexivity|]. split; [reflexivity|].
  split; [|split; [|split]].
  - exists gas, sys, span, pr, tgas, tsys, tspan, tpr.
    rewrite Hp, Hr, <- !app_assoc. cbn [app].
    repeat (split; [first [reflexivity|assumption]|]).
    apply map_opt_spec in Htbs. clear - Htbs.
    induction Htbs as [|id ti ids tis Hx _ IH]; cbn; constructor; [|exact IH].
    exists ti. split; [exact Hx|reflexivity].
  - rewrite map_map. reflexivity.
  - exact Hord.
  - eapply subseq_nodup; [exact Hord|exact ORDER_nodup].
Qed.

(* conversely, a function of that shape whose builtins are a subsequence of the protocol order is
   accepted: the check is exact *)
Lemma validate_entry_point_complete tt funcs e f bs gs :
  nthZ funcs (ep_fidx e) = Some f ->
  entry_shape tt f bs gs -> subseq gs ORDER ->
  validate_entry_point tt funcs e = Ok (fn_entry f, map builtin_name gs).
Proof.
  intros Hf (gas & sys & span & pr & tgas & tsys & tspan & tpr &
             Hp & Hr & Htgas & Hgas & Htsys & Hsys & Htspan & Hspan & Htpr & Hret & Hgs) Hsub.
  unfold validate_entry_point. rewrite Hf.
  assert (Hsl : forall (l : list Z) x, split_last (l ++ [x]) = Some (x, l)).
  { intros l x. unfold split_last. rewrite rev_app_distr. cbn. rewrite rev_involutive. reflexivity. }
  assert (Hsl2 : forall (l : list Z) a b, split_last2 (l ++ [a; b]) = Some (l, a, b)).
  { intros l a b. unfold split_last2. rewrite rev_app_distr. cbn. rewrite rev_involutive. reflexivity. }
  replace (fn_rets f) with ((bs ++ [gas; sys]) ++ [pr]) by (rewrite Hr, <- app_assoc; reflexivity).
  replace (fn_params f) with ((bs ++ [gas; sys]) ++ [span]) by (rewrite Hp, <- app_assoc; reflexivity).
  rewrite !Hsl, Hsl2.
  assert (Hrefl : forall l, list_eqb Z.eqb l l = true).
  { induction l as [|x l IH]; cbn; [reflexivity|]. rewrite Z.eqb_refl, IH. reflexivity. }
  rewrite Hrefl. cbn [negb]. rewrite Htspan, Hspan, Htpr, Hret. cbn [negb].
  assert (Hin : forall g, In g gs -> contains g ORDER = true).
  { intros g Hg. unfold contains. apply existsb_exists. exists g.
    split; [eapply subseq_in; eassumption|apply gid_eqb_eq; reflexivity]. }
  assert (Hcb : check_builtin_types tt bs = Some None).
  { clear - Hgs Hin. induction Hgs as [|id g ids gs' (ti & Hx & Hg) _ IH]; [reflexivity|].
    cbn [check_builtin_types]. rewrite Hx, Hg, (Hin g (or_introl eq_refl)).
    apply IH. intros g' Hg'. apply Hin. right. exact Hg'. }
  rewrite Hcb, Htsys, Htgas.
  assert (Hmo : exists tbs, map_opt (nthZ tt) bs = Some tbs /\ map t_gid tbs = gs).
  { clear - Hgs. induction Hgs as [|id g ids gs' (ti & Hx & Hg) _ (tbs & IH1 & IH2)].
    - exists []. split; reflexivity.
    - exists (ti :: tbs). cbn [map_opt]. rewrite Hx, IH1. split; [reflexivity|]. cbn. congruence. }
  destruct Hmo as (tbs & -> & Hmap).
  rewrite Hsys, Hgas. cbn [gid_eqb negb orb].
  rewrite Hmap, (all_in_order_complete _ _ Hsub). cbn [negb].
  rewrite <- Hmap, map_map. reflexivity.
Qed.

(* ---------------------------------------------------------------------------------------- *)
(* the class-level checks *)
Lemma validate_entry_points_ok tt funcs es infos :
  validate_entry_points tt funcs es = Ok infos ->
  Forall2 (fun e i => validate_entry_point tt funcs e = Ok i) es infos.
Proof.
  revert infos. induction es as [|e r IH]; intros infos H.
  - injection H as <-. constructor.
  - cbn [validate_entry_points] in H.
    destruct (validate_entry_point tt funcs e) as [i| |] eqn:He; try discriminate.
    destruct (validate_entry_points tt funcs r) as [is| |]; try discriminate.
    injection H as <-. constructor; [exact He|apply IH; reflexivity].
Qed.

Lemma first_some_none {A B} (f : A -> option B) l :
  first_some f l = None -> Forall (fun x => f x = None) l.
Proof.
  induction l as [|x r IH]; intros H; [constructor|].
  cbn in H. destruct (f x) eqn:Hx; [discriminate|]. constructor; auto.
Qed.

Record class_accepted (k : class_in) ext l1 ctor : Prop := {
  ca_version : version_ok (k_major k) (k_minor k) (k_cur_major k) (k_cur_minor k) = true;
  ca_constructor : constructor_ok (k_constructor k) = true;
  ca_sel_ctor : StronglySorted Z.lt (map ep_selector (k_constructor k));
  ca_sel_ext : StronglySorted Z.lt (map ep_selector (k_external k));
  ca_sel_l1 : StronglySorted Z.lt (map ep_selector (k_l1_handler k));
  ca_usages : forall i, countZ (map ep_fidx (k_constructor k ++ k_external k ++ k_l1_handler k)) i <= 2;
  ca_ext : Forall2 (fun e i => validate_entry_point (k_types k) (k_funcs k) e = Ok i) (k_external k) ext;
  ca_l1 : Forall2 (fun e i => validate_entry_point (k_types k) (k_funcs k) e = Ok i) (k_l1_handler k) l1;
  ca_ctor : Forall2 (fun e i => validate_entry_point (k_types k) (k_funcs k) e = Ok i) (k_constructor k) ctor;
}.

Lemma validate_class_ok k ext l1 ctor :
  validate_class k = Ok (ext, l1, ctor) -> class_accepted k ext l1 ctor.
Proof.
  unfold validate_class. intros H.
  destruct (version_ok _ _ _ _) eqn:Hv; [|discriminate]. cbn [negb] in H.
  destruct (constructor_ok _) eqn:Hc; [|discriminate]. cbn [negb] in H.
  destruct (first_some _ _) eqn:Hs; [discriminate|].
  destruct (check_usages _ _) eqn:Hu; [discriminate|].
  destruct (validate_entry_points _ _ (k_external k)) as [ext'| |] eqn:He; try discriminate.
  destruct (validate_entry_points _ _ (k_l1_handler k)) as [l1'| |] eqn:Hl; try discriminate.
  destruct (validate_entry_points _ _ (k_constructor k)) as [ctor'| |] eqn:Hk; try discriminate.
  injection H as <- <- <-.
  apply first_some_none in Hs.
  apply Forall_cons_iff in Hs as [Hs1 Hs]. apply Forall_cons_iff in Hs as [Hs2 Hs].
  apply Forall_cons_iff in Hs as [Hs3 _].
  constructor; try assumption.
  - apply check_selectors_sorted. exact Hs1.
  - apply check_selectors_sorted. exact Hs2.
  - apply check_selectors_sorted. exact Hs3.
  - apply check_usages_at_most_two. exact Hu.
  - apply validate_entry_points_ok. exact He.
  - apply validate_entry_points_ok. exact Hl.
  - apply validate_entry_points_ok. exact Hk.
Qed.

Lemma as_casm_entry_points_ok starts es infos r :
  as_casm_entry_points starts es infos = Some r ->
  Forall2 (fun ei c => c_selector c = ep_selector (fst ei) /\ c_builtins c = snd (snd ei)
                       /\ nthZ starts (fst (snd ei)) = Some (c_offset c))
          (combine es infos) r
  /\ length es = length infos.
Proof.
  revert infos r. induction es as [|e es IH]; intros [|[st bs] infos] r H; try discriminate.
  - injection H as <-. split; [constructor|reflexivity].
  - cbn [as_casm_entry_points] in H.
    destruct (nthZ starts st) as [off|] eqn:Hoff; [|discriminate].
    destruct (as_casm_entry_points starts es infos) as [r'|] eqn:Hr; [|discriminate].
    injection H as <-. destruct (IH _ _ Hr) as [IH1 IH2].
    split; [|cbn; f_equal; exact IH2]. cbn [combine]. constructor; [|exact IH1].
    cbn. repeat split. exact Hoff.
Qed.

(* one table of the resulting class against the entry points it was made from *)
Definition entry_rel (k : class_in) (starts : list Z) (e : ep) (c : cep) : Prop :=
  c_selector c = ep_selector e
  /\ exists f bs gs,
       nthZ (k_funcs k) (ep_fidx e) = Some f
       /\ nthZ starts (fn_entry f) = Some (c_offset c)
       /\ entry_shape (k_types k) f bs gs
       /\ c_builtins c = map builtin_name gs
       /\ subseq gs ORDER /\ NoDup gs.

Lemma entry_table_ok k starts es infos r :
  Forall2 (fun e i => validate_entry_point (k_types k) (k_funcs k) e = Ok i) es infos ->
  as_casm_entry_points starts es infos = Some r ->
  Forall2 (entry_rel k starts) es r.
Proof.
  intros Hv. revert r. induction Hv as [|e [st names] es infos He _ IH]; intros r H.
  - injection H as <-. constructor.
  - cbn [as_casm_entry_points] in H.
    destruct (nthZ starts st) as [off|] eqn:Hoff; [|discriminate].
    destruct (as_casm_entry_points starts es infos) as [r'|] eqn:Hr; [|discriminate].
    injection H as <-. constructor; [|apply IH; reflexivity].
    destruct (validate_entry_point_ok _ _ _ _ _ He) as (f & bs & gs & Hf & -> & Hshape & -> & Hsub & Hnd).
    split; [reflexivity|]. exists f, bs, gs. cbn. repeat split; assumption.
Qed.

Lemma class_entry_points_ok k starts ext l1 ctor :
  class_entry_points k starts = Ok (ext, l1, ctor) ->
  Forall2 (entry_rel k starts) (k_external k) ext
  /\ Forall2 (entry_rel k starts) (k_l1_handler k) l1
  /\ Forall2 (entry_rel k starts) (k_constructor k) ctor.
Proof.
  unfold class_entry_points. intros H.
  destruct (validate_class k) as [[[e l] c]| |] eqn:Hv; try discriminate.
  apply validate_class_ok in Hv. destruct Hv.
  destruct (as_casm_entry_points starts (k_external k) e) eqn:H1; [|discriminate].
  destruct (as_casm_entry_points starts (k_l1_handler k) l) eqn:H2; [|discriminate].
  destruct (as_casm_entry_points starts (k_constructor k) c) eqn:H3; [|discriminate].
  injection H as <- <- <-.
  repeat split; eapply entry_table_ok; eassumption.
Qed.
