(* C19/LayoutProofs.v -- proofs about segment lengths, the offsets assigned by compile/assemble,
   hint offsets and the bytecode size limit (model: Class.v) *)
From C19 Require Import Class.
From Coq Require Import Sorting.Sorted.

Definition pos (n : Z) : Prop := 0 < n.
Definition nonneg_code (c : code) : Prop := Forall (Forall (fun i => 0 <= i_size i)) c.
Definition pos_instrs (is : list minstr) : Prop := Forall (fun i => 1 <= i_size i) is.

(* ---------------------------------------------------------------------------------------- *)
(* generalities *)
Lemma sumZ_app a b : sumZ (a ++ b) = sumZ a + sumZ b.
Proof. induction a as [|x a IH]; cbn [app sumZ]; [reflexivity|rewrite IH; lia]. Qed.

Lemma instr_sizes_app a b : instr_sizes (a ++ b) = instr_sizes a + instr_sizes b.
Proof. unfold instr_sizes. rewrite map_app. apply sumZ_app. Qed.

Lemma instr_sizes_nonneg s : Forall (fun i => 0 <= i_size i) s -> 0 <= instr_sizes s.
Proof.
  unfold instr_sizes. induction 1 as [|i s Hi _ IH]; cbn [map sumZ]; lia.
Qed.

Lemma concat_sizes_nonneg c : nonneg_code c -> 0 <= instr_sizes (concat c).
Proof.
  induction 1 as [|s c Hs _ IH]; cbn [concat]; [cbn; lia|].
  rewrite instr_sizes_app. pose proof (instr_sizes_nonneg s Hs). lia.
Qed.

Lemma last_cons {A} (r : list A) : forall x d, last (x :: r) d = last r x.
Proof.
  induction r as [|y r IH]; intros x d; [reflexivity|].
  change (last (x :: y :: r) d) with (last (y :: r) d). rewrite (IH y d), (IH y x). reflexivity.
Qed.

Lemma last_le (l : list Z) : forall d len, Forall (fun x => x <= len) l -> d <= len -> last l d <= len.
Proof.
  induction l as [|x l IH]; intros d len Hall Hd; [exact Hd|].
  rewrite last_cons. apply Forall_cons_iff in Hall as [Hx Hall]. apply IH; assumption.
Qed.

(* the function scan has no panicking operation *)
Lemma visit_branches_no_panic bs : forall f idx, visit_branches f idx bs <> Panic.
Proof.
  induction bs as [|b r IH]; intros f idx; cbn [visit_branches]; [discriminate|].
  destruct (_ <? _); [discriminate|]. apply IH.
Qed.

Lemma ffs_loop_no_panic stmts : forall idx cur rest, ffs_loop stmts idx cur rest <> Panic.
Proof.
  induction stmts as [|s ss IH]; intros idx cur rest; cbn [ffs_loop]; [discriminate|].
  assert (Hstep : forall cur rest,
    match visit_statement cur idx s with
    | Ok cur' => ffs_loop ss (idx + 1) cur' rest | Err e => Err e | Panic => Panic end <> Panic).
  { intros cur0 rest0. destruct (visit_statement cur0 idx s) eqn:Hv; [apply IH|discriminate|].
    destruct s; cbn in Hv; [exfalso; eapply visit_branches_no_panic; exact Hv|discriminate]. }
  destruct rest as [|e rest']; [apply Hstep|].
  destruct (e =? idx); [|apply Hstep].
  destruct (finalize cur idx); [discriminate|apply Hstep].
Qed.

Lemma SS_le_app a b :
  StronglySorted Z.le a -> StronglySorted Z.le b ->
  (forall x y, In x a -> In y b -> x <= y) -> StronglySorted Z.le (a ++ b).
Proof.
  intros Ha Hb Hab. induction Ha as [|x a Ha IH Hall]; cbn [app]; [exact Hb|].
  constructor.
  - apply IH. intros u v Hu Hv. apply Hab; [right; exact Hu|exact Hv].
  - apply Forall_app. split; [exact Hall|].
    apply Forall_forall. intros y Hy. apply Hab; [left; reflexivity|exact Hy].
Qed.

Lemma SS_le_nth l : StronglySorted Z.le l ->
  forall i j a b, (i <= j)%nat -> nth_error l i = Some a -> nth_error l j = Some b -> a <= b.
Proof.
  induction 1 as [|x l Hs IH Hall]; intros i j a b Hij Hi Hj.
  - destruct i; discriminate.
  - destruct i as [|i], j as [|j]; cbn in Hi, Hj.
    + injection Hi as <-. injection Hj as <-. lia.
    + injection Hi as <-. apply nth_error_In in Hj.
      rewrite Forall_forall in Hall. exact (Hall _ Hj).
    + lia.
    + eapply IH; [|exact Hi|exact Hj]. lia.
Qed.

(* ---------------------------------------------------------------------------------------- *)
(* sort *)
Lemma insertZ_in x l y : In y (insertZ x l) <-> y = x \/ In y l.
Proof.
  induction l as [|z l IH]; cbn [insertZ].
  - cbn. intuition.
  - destruct (x <=? z); cbn [In]; [intuition|]. rewrite IH. intuition.
Qed.

Lemma insertZ_sorted x l : StronglySorted Z.le l -> StronglySorted Z.le (insertZ x l).
Proof.
  induction 1 as [|z l Hs IH Hall]; cbn [insertZ].
  - constructor; constructor.
  - destruct (x <=? z) eqn:Hxz.
    + apply Z.leb_le in Hxz. constructor; [constructor; assumption|].
      constructor; [exact Hxz|]. eapply Forall_impl; [|exact Hall]. cbv beta. intros; lia.
    + apply Z.leb_gt in Hxz. constructor; [exact IH|].
      apply Forall_forall. intros y Hy. apply insertZ_in in Hy as [->|Hy]; [lia|].
      rewrite Forall_forall in Hall. exact (Hall _ Hy).
Qed.

Lemma sortZ_sorted l : StronglySorted Z.le (sortZ l).
Proof. induction l; cbn [sortZ]; [constructor|apply insertZ_sorted; assumption]. Qed.

Lemma sortZ_in l y : In y (sortZ l) <-> In y l.
Proof.
  induction l as [|x l IH]; cbn [sortZ]; [reflexivity|].
  rewrite insertZ_in, IH. cbn. intuition.
Qed.

Lemma sortZ_forall (Q : Z -> Prop) l : Forall Q l -> Forall Q (sortZ l).
Proof.
  rewrite !Forall_forall. intros H y Hy. apply H. apply sortZ_in. exact Hy.
Qed.

(* ---------------------------------------------------------------------------------------- *)
(* get_segment_lengths *)
Lemma seg_diffs_ok rest : forall prev,
  StronglySorted Z.le (prev :: rest) ->
  exists ls, seg_diffs prev rest = Some ls /\ sumZ ls = last rest prev - prev /\ Forall pos ls.
Proof.
  induction rest as [|x r IH]; intros prev Hs.
  - exists []. cbn. split; [reflexivity|]. split; [lia|constructor].
  - apply StronglySorted_inv in Hs as [Hs Hall].
    pose proof (Forall_inv Hall) as Hpx. cbv beta in Hpx.
    destruct (IH x Hs) as (ls & Hls & Hsum & Hpos).
    cbn [seg_diffs]. unfold usub.
    destruct (x <? prev) eqn:Hlt; [apply Z.ltb_lt in Hlt; lia|].
    rewrite Hls. rewrite last_cons.
    destruct (0 <? x - prev) eqn:Hd.
    + apply Z.ltb_lt in Hd. eexists. split; [reflexivity|]. cbn [sumZ].
      split; [lia|]. constructor; [exact Hd|exact Hpos].
    + apply Z.ltb_ge in Hd. eexists. split; [reflexivity|]. split; [lia|exact Hpos].
Qed.

Lemma get_segment_lengths_ok o r len :
  StronglySorted Z.le (o :: r) -> last (o :: r) 0 <= len ->
  exists ls, get_segment_lengths (o :: r) len = Some ls /\ sumZ ls = len - o /\ Forall pos ls.
Proof.
  intros Hs Hlast.
  destruct (seg_diffs_ok r o Hs) as (ls & Hls & Hsum & Hpos).
  unfold get_segment_lengths. rewrite Hls. unfold usub.
  rewrite last_cons in Hlast |- *.
  destruct (len <? last r o) eqn:Hlt; [apply Z.ltb_lt in Hlt; lia|].
  destruct (0 <? len - last r o) eqn:Hd.
  - apply Z.ltb_lt in Hd. eexists. split; [reflexivity|].
    rewrite sumZ_app. cbn [sumZ]. split; [lia|].
    apply Forall_app. split; [exact Hpos|]. constructor; [exact Hd|constructor].
  - apply Z.ltb_ge in Hd. eexists. split; [reflexivity|]. split; [lia|exact Hpos].
Qed.

(* The precondition the usize subtractions rely on: start offsets are non-decreasing, begin at 0
   and do not exceed the bytecode length.  Then the lengths are positive and add up. *)
Lemma segments_sum offs len :
  StronglySorted Z.le offs -> hd_error offs = Some 0 -> last offs 0 <= len ->
  exists ls, get_segment_lengths offs len = Some ls /\ sumZ ls = len /\ Forall pos ls.
Proof.
  intros Hs Hhd Hlast. destruct offs as [|o r]; [discriminate|]. injection Hhd as ->.
  destruct (get_segment_lengths_ok 0 r len Hs Hlast) as (ls & H1 & H2 & H3).
  exists ls. split; [exact H1|]. split; [lia|exact H3].
Qed.

(* without the precondition the subtraction underflows (a panic), e.g. *)
Lemma segments_unsorted_panics : get_segment_lengths [0; 5; 3] 10 = None.
Proof. reflexivity. Qed.

Lemma leaves_node_leaf ls : leaves (Node (map Leaf ls)) = ls.
Proof.
  cbn [leaves]. induction ls as [|x ls IH]; cbn [map]; [reflexivity|].
  cbn [leaves app]. f_equal. exact IH.
Qed.

(* ---------------------------------------------------------------------------------------- *)
(* the offsets assigned by compile *)
Fixpoint infos_from (off iidx : Z) (c : code) : list sinfo :=
  match c with
  | [] => []
  | s :: r => {| s_start := off; s_end := off + instr_sizes s; s_instr_idx := iidx |}
              :: infos_from (off + instr_sizes s) (iidx + Z.of_nat (length s)) r
  end.

Fixpoint starts_from (off : Z) (c : code) : list Z :=
  match c with [] => [] | s :: r => off :: starts_from (off + instr_sizes s) r end.

Lemma starts_infos off iidx c : map s_start (infos_from off iidx c) = starts_from off c.
Proof.
  revert off iidx. induction c as [|s r IH]; intros off iidx; cbn; [reflexivity|].
  f_equal. apply IH.
Qed.

Lemma layout_loop_spec max c : forall off iidx infos fin,
  layout_loop max off iidx c = Some (infos, fin) ->
  infos = infos_from off iidx c /\ fin = off + instr_sizes (concat c)
  /\ Forall (fun i => s_start i <= max) infos.
Proof.
  induction c as [|s r IH]; intros off iidx infos fin H.
  - cbn in H. injection H as <- <-. cbn. split; [reflexivity|]. split; [lia|constructor].
  - cbn [layout_loop] in H. destruct (off >? max) eqn:Hgt; [discriminate|].
    destruct (layout_loop max (off + instr_sizes s) (iidx + Z.of_nat (length s)) r)
      as [[infos' fin']|] eqn:Hl; [|discriminate].
    injection H as <- <-. destruct (IH _ _ _ _ Hl) as (-> & -> & Hall).
    cbn [infos_from concat]. rewrite instr_sizes_app.
    split; [reflexivity|]. split; [lia|].
    constructor; [cbn; destruct (Z.gtb_spec off max); [discriminate|lia]|exact Hall].
Qed.

Lemma layout_loop_total max c : nonneg_code c -> forall off iidx,
  off + instr_sizes (concat c) <= max ->
  exists infos fin, layout_loop max off iidx c = Some (infos, fin).
Proof.
  induction 1 as [|s r Hs Hr IH]; intros off iidx Hle.
  - cbn. eauto.
  - cbn [layout_loop]. cbn [concat] in Hle. rewrite instr_sizes_app in Hle.
    pose proof (instr_sizes_nonneg s Hs) as H0.
    pose proof (concat_sizes_nonneg r Hr) as H1.
    destruct (off >? max) eqn:Hgt; [destruct (Z.gtb_spec off max); [lia|discriminate]|].
    destruct (IH (off + instr_sizes s) (iidx + Z.of_nat (length s)) ltac:(lia)) as (i & f & ->).
    eauto.
Qed.

Lemma starts_from_bounds c : nonneg_code c -> forall off,
  StronglySorted Z.le (starts_from off c)
  /\ Forall (fun x => off <= x <= off + instr_sizes (concat c)) (starts_from off c).
Proof.
  induction 1 as [|s r Hs Hr IH]; intros off; cbn [starts_from].
  - split; constructor.
  - destruct (IH (off + instr_sizes s)) as [IHs IHb].
    pose proof (instr_sizes_nonneg s Hs) as H0.
    pose proof (concat_sizes_nonneg r Hr) as H1.
    cbn [concat]. rewrite instr_sizes_app.
    split.
    + constructor; [exact IHs|]. eapply Forall_impl; [|exact IHb]. cbv beta. intros; lia.
    + constructor; [lia|]. eapply Forall_impl; [|exact IHb]. cbv beta. intros; lia.
Qed.

Lemma starts_from_length off c : length (starts_from off c) = length c.
Proof. revert off. induction c; intros; cbn; [reflexivity|f_equal; auto]. Qed.

Lemma starts_from_nth c : forall off k,
  (k < length c)%nat ->
  nth_error (starts_from off c) k = Some (off + instr_sizes (concat (firstn k c))).
Proof.
  induction c as [|s r IH]; intros off k Hk; [cbn in Hk; lia|].
  destruct k as [|k]; cbn [starts_from nth_error firstn concat].
  - f_equal. cbn. lia.
  - rewrite IH by (cbn in Hk; lia). rewrite instr_sizes_app. f_equal. lia.
Qed.

(* const segment offsets *)
Lemma const_offsets_spec lens : Forall (fun n => 0 <= n) lens -> forall acc os tot,
  const_offsets acc lens = (os, tot) ->
  tot = acc + sumZ (map (fun n => 1 + n) lens)
  /\ StronglySorted Z.le os /\ Forall (fun o => acc <= o < tot) os.
Proof.
  induction 1 as [|n r Hn Hr IH]; intros acc os tot H.
  - cbn in H. injection H as <- <-. cbn. split; [lia|]. split; constructor.
  - cbn [const_offsets] in H. destruct (const_offsets (acc + 1 + n) r) as [os' tot'] eqn:Hc.
    injection H as <- <-. destruct (IH _ _ _ Hc) as (-> & Hs & Hb).
    assert (Hsum : 0 <= sumZ (map (fun n => 1 + n) r)).
    { clear - Hr. induction Hr as [|m r Hm _ IH]; cbn [map sumZ]; lia. }
    cbn [map sumZ]. split; [lia|]. split.
    + constructor; [exact Hs|]. eapply Forall_impl; [|exact Hb]. cbv beta. intros; lia.
    + constructor; [lia|]. eapply Forall_impl; [|exact Hb]. cbv beta. intros; lia.
Qed.

Lemma compile_layout_spec max c seg_lens L :
  compile_layout max c seg_lens = Ok L ->
  l_infos L = infos_from 0 0 c
  /\ l_code_len L = instr_sizes (concat c)
  /\ const_offsets 0 seg_lens = (l_seg_offsets L, l_total_seg L)
  /\ l_code_len L + sumZ seg_lens + Z.of_nat (length seg_lens) <= max.
Proof.
  unfold compile_layout. intros H.
  destruct (layout_loop max 0 0 c) as [[infos code_len]|] eqn:Hl; [|discriminate].
  destruct (layout_loop_spec _ _ _ _ _ _ Hl) as (-> & -> & _).
  unfold usub in H. destruct (max <? 0 + instr_sizes (concat c)) eqn:Hlt; [discriminate|].
  destruct (_ >? _) eqn:Hgt; [discriminate|].
  destruct (const_offsets 0 seg_lens) as [os tot] eqn:Hc. injection H as <-. cbn.
  apply Z.ltb_ge in Hlt.
  destruct (Z.gtb_spec (sumZ seg_lens + Z.of_nat (length seg_lens)) (max - (0 + instr_sizes (concat c))));
    [discriminate|].
  repeat split; lia.
Qed.

Lemma sum_succ_map l : sumZ (map (fun n => 1 + n) l) = sumZ l + Z.of_nat (length l).
Proof. induction l as [|x l IH]; cbn [map sumZ length]; [reflexivity|]. rewrite IH. lia. Qed.

(* the size limit is exact *)
Lemma compile_layout_limit max c seg_lens L :
  compile_layout max c seg_lens = Ok L -> assembled_len c seg_lens <= max.
Proof.
  intros H. destruct (compile_layout_spec _ _ _ _ H) as (_ & Hc & _ & Hle).
  unfold assembled_len. rewrite sum_succ_map. lia.
Qed.

Lemma compile_layout_accepts max c seg_lens :
  nonneg_code c -> Forall (fun n => 0 <= n) seg_lens ->
  assembled_len c seg_lens <= max -> exists L, compile_layout max c seg_lens = Ok L.
Proof.
  intros Hc Hs Hle. unfold assembled_len in Hle. rewrite sum_succ_map in Hle.
  assert (H0 : 0 <= sumZ seg_lens).
  { clear - Hs. induction Hs; cbn [sumZ]; lia. }
  unfold compile_layout.
  destruct (layout_loop_total max c Hc 0 0 ltac:(lia)) as (infos & fin & Hl). rewrite Hl.
  destruct (layout_loop_spec _ _ _ _ _ _ Hl) as (_ & -> & _).
  unfold usub. destruct (max <? 0 + instr_sizes (concat c)) eqn:Hlt; [apply Z.ltb_lt in Hlt; lia|].
  destruct (_ >? _) eqn:Hgt.
  - destruct (Z.gtb_spec (sumZ seg_lens + Z.of_nat (length seg_lens)) (max - (0 + instr_sizes (concat c))));
      [lia|discriminate].
  - destruct (const_offsets 0 seg_lens). eauto.
Qed.

(* ---------------------------------------------------------------------------------------- *)
(* segment lengths over the layout: never a panic, and the lengths add up *)
Lemma map_opt_F2 {A B} (f : A -> option B) l l' :
  map_opt f l = Some l' -> Forall2 (fun x y => f x = Some y) l l'.
Proof.
  revert l'. induction l as [|x r IH]; intros l' H.
  - injection H as <-. constructor.
  - cbn [map_opt] in H. destruct (f x) as [y|] eqn:Hx; [|discriminate].
    destruct (map_opt f r) as [ys|]; [|discriminate]. injection H as <-.
    constructor; [exact Hx|apply IH; reflexivity].
Qed.

Lemma map_opt_total {A B} (f : A -> option B) l :
  Forall (fun x => exists y, f x = Some y) l -> exists l', map_opt f l = Some l'.
Proof.
  induction 1 as [|x r (y & Hy) _ (l' & IH)]; [exists []; reflexivity|].
  exists (y :: l'). cbn [map_opt]. rewrite Hy, IH. reflexivity.
Qed.

Lemma F2_in_r {A B} (R : A -> B -> Prop) l l' :
  Forall2 R l l' -> forall y, In y l' -> exists x, In x l /\ R x y.
Proof.
  induction 1 as [|x y l l' Hxy _ IH]; intros z Hz; [destruct Hz|].
  destruct Hz as [<-|Hz]; [exists x; split; [left; reflexivity|exact Hxy]|].
  destruct (IH _ Hz) as (x' & Hin & HR). exists x'. split; [right; exact Hin|exact HR].
Qed.

Lemma F2_sorted (R : Z -> Z -> Prop) ids fo :
  (forall i j a b, i <= j -> R i a -> R j b -> a <= b) ->
  Forall2 R ids fo -> StronglySorted Z.le ids -> StronglySorted Z.le fo.
Proof.
  intros Hmono HF. induction HF as [|i a ids fo Hia HF IH]; intros Hs; [constructor|].
  apply StronglySorted_inv in Hs as [Hs Hall]. constructor; [apply IH; exact Hs|].
  apply Forall_forall. intros y Hy. destruct (F2_in_r _ _ _ HF y Hy) as (j & Hj & Hjy).
  rewrite Forall_forall in Hall. eapply Hmono; [apply Hall; exact Hj|exact Hia|exact Hjy].
Qed.

Lemma nthZ_mono starts : StronglySorted Z.le starts ->
  forall i j a b, i <= j -> nthZ starts i = Some a -> nthZ starts j = Some b -> a <= b.
Proof.
  intros Hs i j a b Hij Hi Hj. unfold nthZ in *.
  destruct (i <? 0) eqn:Hi0; [discriminate|]. destruct (j <? 0) eqn:Hj0; [discriminate|].
  apply Z.ltb_ge in Hi0, Hj0.
  eapply (SS_le_nth _ Hs (Z.to_nat i) (Z.to_nat j)); [lia|exact Hi|exact Hj].
Qed.

Lemma nthZ_in {A} (l : list A) i a : nthZ l i = Some a -> In a l.
Proof.
  unfold nthZ. destruct (i <? 0); [discriminate|]. apply nth_error_In.
Qed.

Lemma nthZ_total {A} (l : list A) i : 0 <= i < Z.of_nat (length l) -> exists a, nthZ l i = Some a.
Proof.
  intros Hi. unfold nthZ. destruct (i <? 0) eqn:H0; [apply Z.ltb_lt in H0; lia|].
  destruct (nth_error l (Z.to_nat i)) as [a|] eqn:Ha; [eauto|].
  apply nth_error_None in Ha. lia.
Qed.

(* compute_bytecode_segment_lengths over the offsets the compilation assigns never panics, and
   when it succeeds its leaves are positive and add up to the bytecode length *)
Lemma segments_sum_layout max c seg_lens L fe stmts :
  compile_layout max c seg_lens = Ok L ->
  nonneg_code c -> Forall (fun n => 0 <= n) seg_lens ->
  Forall (fun e => 0 <= e < Z.of_nat (length c)) fe ->
  let len := assembled_len c seg_lens in
  match compute_bytecode_segment_lengths fe stmts (map s_start (l_infos L)) (l_total_seg L)
          (l_seg_offsets L) len with
  | Ok n => sumZ (leaves n) = len /\ (0 < len -> Forall pos (leaves n))
  | Err _ => True
  | Panic => False
  end.
Proof.
  intros HL Hc Hsegs Hfe len.
  destruct (compile_layout_spec _ _ _ _ HL) as (Hinfos & Hcl & Hco & _).
  rewrite Hinfos, starts_infos.
  destruct (const_offsets_spec _ Hsegs _ _ _ Hco) as (Htot & Hsos & Hbos).
  unfold compute_bytecode_segment_lengths.
  destruct (len =? 0) eqn:Hz.
  { apply Z.eqb_eq in Hz. cbn. split; [lia|lia]. }
  apply Z.eqb_neq in Hz.
  unfold find_functions_segments.
  pose proof (sortZ_sorted fe) as Hsorted.
  pose proof (sortZ_forall _ _ Hfe) as Hrange.
  destruct (sortZ fe) as [|e0 ids] eqn:Hids; [exact I|].
  destruct e0; try exact I.
  destruct (ffs_loop stmts 0 (finfo_new 0) ids) as [cur|e|] eqn:Hffs; try exact I.
  2:{ exact (ffs_loop_no_panic _ _ _ _ Hffs). }
  destruct (finalize cur (Z.of_nat (length stmts))); [exact I|].
  (* offsets of the function starts *)
  destruct (starts_from_bounds c Hc 0) as [Hss Hsb].
  assert (Htotal : exists fo, ids_to_offsets (starts_from 0 c) (0 :: ids) = Some fo).
  { apply map_opt_total. eapply Forall_impl; [|exact Hrange]. cbv beta. intros e He.
    apply nthZ_total. rewrite starts_from_length. exact He. }
  destruct Htotal as (fo & Hfo). rewrite Hfo.
  pose proof (map_opt_F2 _ _ _ Hfo) as HF2.
  pose proof (F2_sorted _ _ _ (nthZ_mono _ Hss) HF2 Hsorted) as Hfo_sorted.
  assert (Hfo_in : Forall (fun x => 0 <= x <= instr_sizes (concat c)) fo).
  { apply Forall_forall. intros y Hy. destruct (F2_in_r _ _ _ HF2 y Hy) as (j & _ & Hj).
    apply nthZ_in in Hj. rewrite Forall_forall in Hsb. apply Hsb in Hj. lia. }
  assert (Hfo_hd : exists fo', fo = 0 :: fo').
  { inversion HF2 as [|? a ? fo' H0 _]; subst. exists fo'. f_equal.
    destruct c as [|s r]; [cbn in Hrange; apply Forall_inv in Hrange; cbn in Hrange; lia|].
    cbn in H0. congruence. }
  destruct Hfo_hd as (fo' & ->).
  (* const segment offsets *)
  assert (Hlen : len = instr_sizes (concat c) + l_total_seg L).
  { unfold len, assembled_len. rewrite Htot. lia. }
  unfold consts_segments_offsets, usub.
  assert (Htot0 : 0 <= l_total_seg L).
  { rewrite Htot. rewrite sum_succ_map.
    assert (0 <= sumZ seg_lens) by (clear - Hsegs; induction Hsegs; cbn [sumZ]; lia). lia. }
  pose proof (concat_sizes_nonneg c Hc) as Hcode0.
  destruct (len <? l_total_seg L) eqn:Hlt; [apply Z.ltb_lt in Hlt; lia|].
  set (co := map (fun o => len - l_total_seg L + o) (l_seg_offsets L)).
  assert (Hco_sorted : StronglySorted Z.le co).
  { unfold co. clear - Hsos. induction Hsos as [|o os Hs IH Hall]; cbn [map]; constructor; [exact IH|].
    apply Forall_map. eapply Forall_impl; [|exact Hall]. cbv beta. intros; lia. }
  assert (Hco_b : Forall (fun x => instr_sizes (concat c) <= x < len) co).
  { unfold co. apply Forall_map. eapply Forall_impl; [|exact Hbos]. cbv beta. intros; lia. }
  assert (Hall_sorted : StronglySorted Z.le ((0 :: fo') ++ co)).
  { apply SS_le_app; [exact Hfo_sorted|exact Hco_sorted|].
    intros x y Hx Hy. rewrite Forall_forall in Hfo_in, Hco_b.
    apply Hfo_in in Hx. apply Hco_b in Hy. lia. }
  assert (Hlast : last ((0 :: fo') ++ co) 0 <= len).
  { assert (Hallb : Forall (fun x => x <= len) ((0 :: fo') ++ co)).
    { apply Forall_app. split; (eapply Forall_impl; [|eassumption]); cbv beta; intros; lia. }
    apply last_le; [exact Hallb|lia]. }
  destruct (segments_sum _ len Hall_sorted eq_refl Hlast) as (ls & Hls & Hsum & Hpos).
  rewrite Hls, leaves_node_leaf. split; [exact Hsum|intros _; exact Hpos].
Qed.

(* ---------------------------------------------------------------------------------------- *)
(* instruction starts, hints *)
Lemma instr_starts_app a : forall off b,
  instr_starts off (a ++ b) = instr_starts off a ++ instr_starts (off + instr_sizes a) b.
Proof.
  induction a as [|i a IH]; intros off b; cbn [app instr_starts].
  - f_equal. cbn. lia.
  - f_equal. rewrite IH. f_equal. f_equal. unfold instr_sizes. cbn [map sumZ]. lia.
Qed.

Lemma instr_starts_length is : forall off, length (instr_starts off is) = length is.
Proof. induction is; intros; cbn; [reflexivity|f_equal; auto]. Qed.

Lemma instr_starts_nth is : forall off m,
  (m < length is)%nat ->
  nth_error (instr_starts off is) m = Some (off + instr_sizes (firstn m is)).
Proof.
  induction is as [|i is IH]; intros off m Hm; [cbn in Hm; lia|].
  destruct m as [|m]; cbn [instr_starts nth_error firstn].
  - f_equal. cbn. lia.
  - rewrite IH by (cbn in Hm; lia). f_equal. unfold instr_sizes. cbn [map sumZ]. lia.
Qed.

Lemma assemble_hints_incl is : forall off pc,
  In pc (assemble_hints off is) -> In pc (instr_starts off is).
Proof.
  induction is as [|i is IH]; intros off pc H; [destruct H|].
  cbn [assemble_hints instr_starts] in *. apply in_app_or in H as [H|H].
  - destruct (i_hints i); [|destruct H]. destruct H as [<-|[]]. left. reflexivity.
  - right. apply IH. exact H.
Qed.

(* exactly the instructions that carry hints *)
Lemma assemble_hints_spec is : forall off pc,
  In pc (assemble_hints off is) <->
  exists m i, nth_error is m = Some i /\ i_hints i = true /\ pc = off + instr_sizes (firstn m is).
Proof.
  induction is as [|i is IH]; intros off pc.
  - split; [intros []|]. intros (m & i & H & _). destruct m; discriminate.
  - cbn [assemble_hints]. rewrite in_app_iff, IH. split.
    + intros [H|(m & j & Hm & Hj & ->)].
      * destruct (i_hints i) eqn:Hi; [|destruct H]. destruct H as [<-|[]].
        exists 0%nat, i. split; [reflexivity|]. split; [exact Hi|cbn; lia].
      * exists (S m), j. split; [exact Hm|]. split; [exact Hj|].
        cbn [firstn]. unfold instr_sizes. cbn [map sumZ]. lia.
    + intros (m & j & Hm & Hj & ->). destruct m as [|m].
      * injection Hm as ->. left. rewrite Hj. left. cbn. lia.
      * right. exists m, j. split; [exact Hm|]. split; [exact Hj|].
        cbn [firstn]. unfold instr_sizes. cbn [map sumZ]. lia.
Qed.

Lemma instr_starts_sorted is : pos_instrs is -> forall off,
  StronglySorted Z.lt (instr_starts off is)
  /\ Forall (fun x => off <= x < off + instr_sizes is) (instr_starts off is).
Proof.
  induction 1 as [|i is Hi His IH]; intros off; cbn [instr_starts]; [split; constructor|].
  destruct (IH (off + i_size i)) as [IHs IHb].
  assert (H0 : 0 <= instr_sizes is).
  { apply instr_sizes_nonneg. eapply Forall_impl; [|exact His]. cbv beta. intros; lia. }
  unfold instr_sizes in *. cbn [map sumZ]. split.
  - constructor; [exact IHs|]. eapply Forall_impl; [|exact IHb]. cbv beta. intros; lia.
  - constructor; [lia|]. eapply Forall_impl; [|exact IHb]. cbv beta. intros; lia.
Qed.

Lemma assemble_hints_sorted is : pos_instrs is -> forall off,
  StronglySorted Z.lt (assemble_hints off is)
  /\ Forall (fun x => off <= x < off + instr_sizes is) (assemble_hints off is).
Proof.
  induction 1 as [|i is Hi His IH]; intros off; cbn [assemble_hints]; [split; constructor|].
  destruct (IH (off + i_size i)) as [IHs IHb].
  assert (H0 : 0 <= instr_sizes is).
  { apply instr_sizes_nonneg. eapply Forall_impl; [|exact His]. cbv beta. intros; lia. }
  assert (Hb' : Forall (fun x => off < x < off + instr_sizes (i :: is)) (assemble_hints (off + i_size i) is)).
  { eapply Forall_impl; [|exact IHb]. unfold instr_sizes. cbn [map sumZ]. cbv beta. intros; lia. }
  destruct (i_hints i); cbn [app]; split.
  - constructor; [exact IHs|]. eapply Forall_impl; [|exact Hb']. cbv beta. intros; lia.
  - constructor; [unfold instr_sizes in *; cbn [map sumZ]; lia|].
    eapply Forall_impl; [|exact Hb']. cbv beta. intros; lia.
  - exact IHs.
  - eapply Forall_impl; [|exact Hb']. cbv beta. intros; lia.
Qed.

(* ---------------------------------------------------------------------------------------- *)
(* a statement's recorded start is where its first instruction starts *)
Lemma concat_firstn_skipn {A} (c : list (list A)) k :
  concat c = concat (firstn k c) ++ concat (skipn k c).
Proof. rewrite <- concat_app, firstn_skipn. reflexivity. Qed.

Lemma infos_from_nth c : forall off iidx k s,
  nth_error c k = Some s ->
  nth_error (infos_from off iidx c) k =
    Some {| s_start := off + instr_sizes (concat (firstn k c));
            s_end := off + instr_sizes (concat (firstn k c)) + instr_sizes s;
            s_instr_idx := iidx + Z.of_nat (length (concat (firstn k c))) |}.
Proof.
  induction c as [|s0 r IH]; intros off iidx k s Hk; [destruct k; discriminate|].
  destruct k as [|k]; cbn [infos_from nth_error firstn concat].
  - injection Hk as ->. f_equal. cbn. f_equal; lia.
  - rewrite (IH _ _ _ _ Hk). rewrite instr_sizes_app, app_length. f_equal. f_equal; lia.
Qed.

Lemma statement_start_is_instruction_start max c seg_lens L k s info :
  compile_layout max c seg_lens = Ok L ->
  nth_error c k = Some s -> nth_error (l_infos L) k = Some info ->
  s_start info = instr_sizes (concat (firstn k c))
  /\ s_end info = s_start info + instr_sizes s
  /\ s_instr_idx info = Z.of_nat (length (concat (firstn k c)))
  /\ (s <> [] ->
      nth_error (instr_starts 0 (concat c)) (Z.to_nat (s_instr_idx info)) = Some (s_start info)).
Proof.
  intros HL Hk Hinfo. destruct (compile_layout_spec _ _ _ _ HL) as (Hinfos & _).
  rewrite Hinfos, (infos_from_nth _ _ _ _ _ Hk) in Hinfo. injection Hinfo as <-. cbn.
  repeat split; try lia. intros Hne.
  rewrite Nat2Z.id.
  assert (Hm : (length (concat (firstn k c)) < length (concat c))%nat).
  { rewrite (concat_firstn_skipn c k) at 1. rewrite app_length.
    assert (Hsk : skipn k c = s :: skipn (S k) c).
    { clear - Hk. revert k Hk. induction c as [|x c IH]; intros [|k] Hk; try discriminate.
      - injection Hk as ->. reflexivity.
      - cbn. apply IH. exact Hk. }
    rewrite Hsk. cbn [concat]. rewrite app_length. destruct s; [contradiction|cbn; lia]. }
  rewrite (instr_starts_nth _ _ _ Hm). f_equal.
  rewrite (concat_firstn_skipn c k) at 1.
  rewrite firstn_app, Nat.sub_diag, firstn_all. cbn [firstn]. rewrite app_nil_r. lia.
Qed.
