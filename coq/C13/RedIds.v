(* C13/RedIds.v -- executable model of the red layer of the syntax tree:
   /repo/crates/cairo-lang-syntax/src/node/mod.rs
     SyntaxNodeId (enum, l.36-53), absolute_offset (l.86-93), new_canonical_root (l.311-318),
     get_children / red_tree / node_children (l.418-466), collect_children_into (l.469-512)
   node/green.rs (GreenNode: kind + Token text | Node children width),
   node/key_fields.rs (key_fields_range: a per-kind table, here the parameter [kr]),
   node/stable_ptr.rs / ids.rs (a stable pointer *is* the node, i.e. its id).
   No proofs in this file. *)
From Coq Require Import List NArith Bool Arith.
Import ListNotations.

(* ---- green nodes.  A GreenId is an interned GreenNode: equal ids <-> structurally equal nodes,
   so the model uses the structure itself.  Token text is abstracted to a number (the harness
   numbers distinct texts injectively); a token's width is the byte length of its text. ---- *)
Inductive green :=
| GTok (k : N) (txt : N) (w : N)
| GNode (k : N) (w : N) (cs : list green).

Definition kind (g : green) : N := match g with GTok k _ _ | GNode k _ _ => k end.
(* GreenNode::width: tokens: length of the text; nodes: the stored width *)
Definition width (g : green) : N := match g with GTok _ _ w | GNode _ w _ => w end.
(* GreenNode::children *)
Definition children (g : green) : list green :=
  match g with GTok _ _ _ => [] | GNode _ _ cs => cs end.

Fixpoint green_eqb (a b : green) {struct a} : bool :=
  match a, b with
  | GTok k t w, GTok k' t' w' => N.eqb k k' && N.eqb t t' && N.eqb w w'
  | GNode k w cs, GNode k' w' cs' =>
      N.eqb k k' && N.eqb w w' &&
      (fix go (l l' : list green) {struct l} : bool :=
         match l, l' with
         | [], [] => true
         | x :: l1, y :: l1' => green_eqb x y && go l1 l1'
         | _, _ => false
         end) cs cs'
  | _, _ => false
  end.

Fixpoint greens_eqb (l l' : list green) : bool :=
  match l, l' with
  | [], [] => true
  | x :: l1, y :: l1' => green_eqb x y && greens_eqb l1 l1'
  | _, _ => false
  end.

(* ---- key fields: key_fields_range(kind) = start..end, a slice of the green children ---- *)
Definition krange := N -> nat * nat.
Definition slice {A} (s e : nat) (l : list A) : list A := firstn (e - s) (skipn s l).
Definition key (kr : krange) (g : green) : list green :=
  slice (fst (kr (kind g))) (snd (kr (kind g))) (children g).

(* ---- SyntaxNodeId ---- *)
Inductive nid :=
| Root                                         (* SyntaxNodeId::Root(file) of the canonical tree *)
| Child (parent : nid) (k : N) (index : nat) (kf : list green).

Fixpoint nid_eqb (a b : nid) : bool :=
  match a, b with
  | Root, Root => true
  | Child p k i kf, Child p' k' i' kf' =>
      N.eqb k k' && Nat.eqb i i' && greens_eqb kf kf' && nid_eqb p p'
  | _, _ => false
  end.

(* ---- collect_children_into ---- *)
Definition kkey := (N * list green)%type.                 (* (kind, key_fields) *)
Definition kk_eqb (a b : kkey) : bool := N.eqb (fst a) (fst b) && greens_eqb (snd a) (snd b).
Definition key_map := list (kkey * nat).

(* key_map.iter_mut().find(..).map(|v| { let i = *v; *v += 1; i }).unwrap_or_else(|| push(..,1); 0) *)
Fixpoint km_bump (kk : kkey) (m : key_map) : nat * key_map :=
  match m with
  | [] => (0, [(kk, 1)])
  | (k', v) :: m' =>
      if kk_eqb k' kk then (v, (k', S v) :: m')
      else let r := km_bump kk m' in (fst r, (k', v) :: snd r)
  end.

Record rchild := mk_rchild { rc_id : nid; rc_off : N (* offset_in_parent *); rc_green : green }.

Fixpoint collect_go (kr : krange) (self : nid) (cs : list green) (off : N) (m : key_map)
  : list rchild :=
  match cs with
  | [] => []
  | c :: cs' =>
      let kk := (kind c, key kr c) in
      let r := km_bump kk m in
      mk_rchild (Child self (kind c) (fst r) (key kr c)) off c
        :: collect_go kr self cs' (off + width c) (snd r)
  end.

(* offsets of the children are relative to the node: seeded from TextOffset::START *)
Definition collect_children (kr : krange) (self : nid) (g : green) : list rchild :=
  collect_go kr self (children g) 0 [].

(* ---- nodes are addressed by positions: the list of child numbers from the root ---- *)
Definition pos := list nat.

(* (id, absolute offset, green) of the node at position p below a node (self, base, g).
   absolute_offset(node) = absolute_offset(parent) + offset_in_parent(node), 0-based at the root *)
Fixpoint locate (kr : krange) (self : nid) (base : N) (g : green) (p : pos)
  : option (nid * N * green) :=
  match p with
  | [] => Some (self, base, g)
  | i :: p' =>
      match nth_error (collect_children kr self g) i with
      | Some c => locate kr (rc_id c) (base + rc_off c)%N (rc_green c) p'
      | None => None
      end
  end.

Definition node_at (kr : krange) (g : green) (p : pos) := locate kr Root 0 g p.
Definition id_at (kr : krange) (g : green) (p : pos) : option nid :=
  option_map (fun x => fst (fst x)) (node_at kr g p).
Definition offset_at (kr : krange) (g : green) (p : pos) : option N :=
  option_map (fun x => snd (fst x)) (node_at kr g p).
Definition green_at (kr : krange) (g : green) (p : pos) : option green :=
  option_map snd (node_at kr g p).

(* ---- the text before a node, defined on the green tree alone (independent of collect_go) ---- *)
Fixpoint tokens (g : green) : list N :=
  match g with
  | GTok _ _ w => [w]
  | GNode _ _ cs => (fix go (l : list green) : list N :=
                       match l with [] => [] | c :: l' => tokens c ++ go l' end) cs
  end.
Fixpoint tokens_list (l : list green) : list N :=
  match l with [] => [] | c :: l' => tokens c ++ tokens_list l' end.
Definition sumN (l : list N) : N := fold_right N.add 0%N l.

(* widths of all tokens that precede (in document order) the node at position p *)
Fixpoint tokens_before (g : green) (p : pos) : list N :=
  match p with
  | [] => []
  | i :: p' =>
      tokens_list (firstn i (children g)) ++
      match nth_error (children g) i with Some c => tokens_before c p' | None => [] end
  end.

(* a node's stored width is the sum of the widths of its children (checked on real trees by Corr) *)
Fixpoint wf_green (g : green) : bool :=
  match g with
  | GTok _ _ _ => true
  | GNode _ w cs =>
      N.eqb w (sumN (map width cs)) &&
      (fix go (l : list green) : bool :=
         match l with [] => true | c :: l' => wf_green c && go l' end) cs
  end.

(* ---- replacing the subtree at a position; widths of the ancestors are recomputed ---- *)
Fixpoint replace_nth {A} (n : nat) (x : A) (l : list A) : list A :=
  match l, n with
  | [], _ => []
  | _ :: l', O => x :: l'
  | y :: l', S n' => y :: replace_nth n' x l'
  end.

Fixpoint replace_at (g : green) (p : pos) (g' : green) : option green :=
  match p with
  | [] => Some g'
  | i :: p' =>
      match g with
      | GTok _ _ _ => None
      | GNode k w cs =>
          match nth_error cs i with
          | None => None
          | Some c =>
              match replace_at c p' g' with
              | None => None
              | Some c' => let cs' := replace_nth i c' cs in
                           Some (GNode k (sumN (map width cs')) cs')
              end
          end
      end
  end.

(* the position does not run through a key field of any of its ancestors *)
Fixpoint avoids_keys (kr : krange) (g : green) (p : pos) : bool :=
  match p with
  | [] => true
  | i :: p' =>
      negb (Nat.leb (fst (kr (kind g))) i && Nat.ltb i (snd (kr (kind g)))) &&
      match nth_error (children g) i with
      | Some c => avoids_keys kr c p'
      | None => false
      end
  end.

(* q lies strictly inside the subtree at p *)
Definition strictly_inside (p q : pos) : Prop := exists r, r <> [] /\ q = p ++ r.

(* ---- the whole red tree in preorder, as the harness prints it ---- *)
Record inode := mk_inode {
  in_parent : option nat;      (* preorder number of the parent *)
  in_kind : N; in_index : nat; in_key : list green;
  in_off : N;                  (* SyntaxNode::offset *)
  in_width : N }.

Fixpoint height (g : green) : nat :=
  match g with
  | GTok _ _ _ => 1
  | GNode _ _ cs => S ((fix go (l : list green) : nat :=
                          match l with [] => 0 | c :: l' => Nat.max (height c) (go l') end) cs)
  end.

Definition inode_of (parent : option nat) (self : nid) (abs : N) (g : green) : inode :=
  match self with
  | Root => mk_inode parent (kind g) 0 [] abs (width g)
  | Child _ k i kf => mk_inode parent k i kf abs (width g)
  end.

(* returns the nodes of the subtree in preorder (with their ids) ; [me] = preorder number of this node *)
Fixpoint walk (fuel : nat) (kr : krange) (parent : option nat) (self : nid) (abs : N) (g : green)
  (me : nat) : list (nid * inode) :=
  match fuel with
  | O => []
  | S f =>
      (self, inode_of parent self abs g) ::
      (fix go (cs : list rchild) (next : nat) : list (nid * inode) :=
         match cs with
         | [] => []
         | c :: cs' =>
             let sub := walk f kr (Some me) (rc_id c) (abs + rc_off c)%N (rc_green c) next in
             sub ++ go cs' (next + length sub)
         end) (collect_children kr self g) (S me)
  end.

Definition red_nodes (kr : krange) (g : green) : list (nid * inode) :=
  walk (height g) kr None Root 0 g 0.

(* ---- is an id the id of some node of the tree?  (descend along the id's path) ---- *)
Fixpoint nid_steps (n : nid) (acc : list (N * nat * list green)) : list (N * nat * list green) :=
  match n with
  | Root => acc
  | Child p k i kf => nid_steps p ((k, i, kf) :: acc)
  end.

Fixpoint descend (kr : krange) (self : nid) (g : green) (steps : list (N * nat * list green))
  : bool :=
  match steps with
  | [] => true
  | (k, i, kf) :: rest =>
      match find (fun c => nid_eqb (rc_id c) (Child self k i kf)) (collect_children kr self g) with
      | Some c => descend kr (rc_id c) (rc_green c) rest
      | None => false
      end
  end.
Definition id_member (kr : krange) (g : green) (n : nid) : bool :=
  descend kr Root g (nid_steps n []).
