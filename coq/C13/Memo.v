(* C13/Memo.v -- executable model of a verifying-trace memo engine, the algorithm salsa documents and
   implements in salsa-0.28 src/function/{fetch,maybe_changed_after,execute,backdate}.rs:
     * inputs carry (value, changed_at); setting an input starts a new revision;
     * a derived query is a pure program that reads other keys through a tracked `get`;
     * a memo stores value, verified_at, changed_at and the keys read, in order;
     * fetch: memo verified in the current revision -> reuse; otherwise deep-verify the recorded
       dependencies in order with maybe_changed_after(dep, verified_at); all unchanged -> mark verified;
       else re-execute; changed_at = max of the changed_at of what was read; if the new value equals
       the old one the memo is back-dated to the old changed_at;
     * maybe_changed_after(key, rev): inputs: changed_at > rev; queries: no memo -> changed; verified
       now -> changed_at > rev; else deep-verify / re-execute as above, then compare.
   Not modelled: durabilities, cycle recovery, provisional memos, tracked-struct outputs,
   accumulators, threads and cancellation, LRU eviction.  salsa is an external crate: this model is
   tied to it only through the differential runs of harness/h13.
   The fields [hist] and [log] of the state are instrumentation (history of input snapshots, log of
   (query, revision) verification events): no function below reads them. No proofs in this file. *)
From Coq Require Import List Arith Bool.
Import ListNotations.

Section Engine.
  Variable V : Type.
  Variable veq : V -> V -> bool.            (* C::values_equal, used for back-dating *)

  Inductive key := KIn (i : nat) | KQ (q : nat).
  (* a query body: a pure function of what it reads *)
  Inductive prog := Ret (v : V) | Get (k : key) (c : V -> prog).
  Variable body : nat -> prog.

  Record memo := mk_memo { m_val : V; m_verified : nat; m_changed : nat; m_deps : list key }.

  Record state := mk_state {
    rev : nat;                               (* current revision *)
    inputs : nat -> V * nat;                 (* value, changed_at *)
    memos : nat -> option memo;
    hist : nat -> nat -> V;                  (* instrumentation: inputs at every revision *)
    log : list (nat * nat) }.                (* instrumentation: (q, r): q was verified at r *)

  Definition set_memo (st : state) (q : nat) (m : memo) : state :=
    mk_state (rev st) (inputs st) (fun q' => if Nat.eqb q' q then Some m else memos st q')
             (hist st) ((q, m_verified m) :: log st).

  Definition backdate (old : option memo) (v : V) (chg : nat) : nat :=
    match old with
    | Some m => if veq (m_val m) v then m_changed m else chg
    | None => chg
    end.

  (* fuel bounds the depth of the call tree; None = out of fuel (e.g. a cyclic query) *)
  Fixpoint fetch (fuel : nat) (st : state) (k : key) {struct fuel} : option (V * nat * state) :=
    match fuel with
    | O => None
    | S f =>
        match k with
        | KIn i => Some (fst (inputs st i), snd (inputs st i), st)
        | KQ q =>
            match memos st q with
            | Some m =>
                if Nat.eqb (m_verified m) (rev st) then Some (m_val m, m_changed m, st)
                else
                  match verify_deps f st (m_deps m) (m_verified m) with
                  | None => None
                  | Some (true, st1) =>
                      Some (m_val m, m_changed m,
                            set_memo st1 q (mk_memo (m_val m) (rev st1) (m_changed m) (m_deps m)))
                  | Some (false, st1) => execute f st1 q (Some m)
                  end
            | None => execute f st q None
            end
        end
    end
  with execute (fuel : nat) (st : state) (q : nat) (old : option memo) {struct fuel}
    : option (V * nat * state) :=
    match fuel with
    | O => None
    | S f =>
        match run f st (body q) [] 0 with
        | None => None
        | Some (v, deps, chg, st1) =>
            let c := backdate old v chg in
            Some (v, c, set_memo st1 q (mk_memo v (rev st1) c (List.rev deps)))
        end
    end
  (* runs a program, recording the keys read (most recent first) and the max changed_at *)
  with run (fuel : nat) (st : state) (p : prog) (deps : list key) (chg : nat) {struct fuel}
    : option (V * list key * nat * state) :=
    match fuel with
    | O => None
    | S f =>
        match p with
        | Ret v => Some (v, deps, chg, st)
        | Get k c =>
            match fetch f st k with
            | None => None
            | Some (v, ch, st1) => run f st1 (c v) (k :: deps) (Nat.max chg ch)
            end
        end
    end
  (* deep_verify_edges: true = every dependency unchanged since r *)
  with verify_deps (fuel : nat) (st : state) (deps : list key) (r : nat) {struct fuel}
    : option (bool * state) :=
    match fuel with
    | O => None
    | S f =>
        match deps with
        | [] => Some (true, st)
        | d :: ds =>
            match maybe_changed_after f st d r with
            | None => None
            | Some (true, st1) => Some (false, st1)
            | Some (false, st1) => verify_deps f st1 ds r
            end
        end
    end
  (* true = may have changed after revision r *)
  with maybe_changed_after (fuel : nat) (st : state) (k : key) (r : nat) {struct fuel}
    : option (bool * state) :=
    match fuel with
    | O => None
    | S f =>
        match k with
        | KIn i => Some (Nat.ltb r (snd (inputs st i)), st)
        | KQ q =>
            match memos st q with
            | None => Some (true, st)
            | Some m =>
                if Nat.eqb (m_verified m) (rev st) then Some (Nat.ltb r (m_changed m), st)
                else
                  match verify_deps f st (m_deps m) (m_verified m) with
                  | None => None
                  | Some (true, st1) =>
                      Some (Nat.ltb r (m_changed m),
                            set_memo st1 q (mk_memo (m_val m) (rev st1) (m_changed m) (m_deps m)))
                  | Some (false, st1) =>
                      match execute f st1 q (Some m) with
                      | None => None
                      | Some (_, c, st2) => Some (Nat.ltb r c, st2)
                      end
                  end
            end
        end
    end.

  (* ---- histories: input sets and queries, in any order ---- *)
  Inductive op := OSet (i : nat) (v : V) | OGet (k : key).

  Definition set_input (st : state) (i : nat) (v : V) : state :=
    let r := S (rev st) in
    let inp := fun j => if Nat.eqb j i then (v, r) else inputs st j in
    mk_state r inp (memos st)
             (fun r' j => if Nat.eqb r' r then fst (inp j) else hist st r' j) (log st).

  Definition cur_env (st : state) : nat -> V := fun i => fst (inputs st i).

  (* the answers, each with the inputs that were current when the query was asked *)
  Fixpoint run_ops (fuel : nat) (st : state) (ops : list op) : option (list ((nat -> V) * key * V)) :=
    match ops with
    | [] => Some []
    | OSet i v :: t => run_ops fuel (set_input st i v) t
    | OGet k :: t =>
        match fetch fuel st k with
        | None => None
        | Some (v, _, st') => option_map (cons (cur_env st, k, v)) (run_ops fuel st' t)
        end
    end.

  Definition init (d : V) : state := mk_state 0 (fun _ => (d, 0)) (fun _ => None) (fun _ _ => d) [].

  (* ---- from scratch: the value of a key under given inputs (big-step, no memo) ---- *)
  Inductive Run (env : nat -> V) : prog -> V -> Prop :=
  | RRet : forall v, Run env (Ret v) v
  | RGetIn : forall i c v, Run env (c (env i)) v -> Run env (Get (KIn i) c) v
  | RGetQ : forall q c x v, Run env (body q) x -> Run env (c x) v -> Run env (Get (KQ q) c) v.

  Definition Eval (env : nat -> V) (k : key) (v : V) : Prop :=
    match k with KIn i => v = env i | KQ q => Run env (body q) v end.
End Engine.

Arguments Ret {V}. Arguments Get {V}.
Arguments m_val {V}. Arguments m_verified {V}. Arguments m_changed {V}. Arguments m_deps {V}.
Arguments rev {V}. Arguments inputs {V}. Arguments memos {V}. Arguments hist {V}. Arguments log {V}.
Arguments OSet {V}. Arguments OGet {V}.
