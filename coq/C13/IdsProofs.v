(* C13/IdsProofs.v -- theorems about the model RedIds.v: ids are injective within a tree, ids of
   nodes outside a replaced subtree are unchanged when key fields are preserved, and offsets are
   the width of the text before the node in the current tree. *)
From Coq Require Import List NArith Bool Arith Lia.
From C13 Require Import RedIds.
Import ListNotations.

(* ------------------------------------------------------------------------------------------ *)
(* induction principle for the nested type                                                     *)
Section green_ind.
  Variable P : green -> Prop.
  Hypothesis Htok : forall k t w, P (GTok k t w).
  Hypothesis Hnode : forall k w cs, Forall P cs -> P (GNode k w cs).
  Fixpoint green_ind' (g : green) : P g :=
    match g with
    | GTok k t w => Htok k t w
    | GNode k w cs =>
        Hnode k w cs ((fix go (l : list green) : Forall P l :=
                         match l with
                         | [] => Forall_nil P
                         | c :: l' => Forall_cons c (green_ind' c) (go l')
                         end) cs)
    end.
End green_ind.

Lemma green_eqb_node : forall k w cs k' w' cs',
  green_eqb (GNode k w cs) (GNode k' w' cs') = N.eqb k k' && N.eqb w w' && greens_eqb cs cs'.
Proof.
  intros. reflexivity.
Qed.

Lemma green_eqb_eq : forall a b, green_eqb a b = true <-> a = b.
Proof.
  induction a as [k t w|k w cs IH] using green_ind'; destruct b as [k' t' w'|k' w' cs'].
  - cbn. rewrite !andb_true_iff, !N.eqb_eq. split; [intros [[-> ->] ->]; auto | now inversion 1].
  - cbn. split; discriminate.
  - cbn. split; discriminate.
  - rewrite green_eqb_node, !andb_true_iff, !N.eqb_eq.
    assert (H : greens_eqb cs cs' = true <-> cs = cs').
    { revert cs'. induction IH as [|x l Hx _ IHl]; destruct cs' as [|y l']; cbn;
        try (split; [discriminate || auto | discriminate || auto]; fail).
      rewrite andb_true_iff, Hx, IHl. split; [intros [-> ->]; auto | now inversion 1]. }
    rewrite H. split; [intros [[-> ->] ->]; auto | now inversion 1].
Qed.

Lemma greens_eqb_eq : forall l l', greens_eqb l l' = true <-> l = l'.
Proof.
  induction l as [|x l IH]; destruct l' as [|y l']; cbn; try (split; auto; discriminate).
  rewrite andb_true_iff, green_eqb_eq, IH. split; [intros [-> ->]; auto | now inversion 1].
Qed.

Lemma kk_eqb_eq : forall a b : kkey, kk_eqb a b = true <-> a = b.
Proof.
  intros [k l] [k' l']. unfold kk_eqb. cbn. rewrite andb_true_iff, N.eqb_eq, greens_eqb_eq.
  split; [intros [-> ->]; auto | now inversion 1].
Qed.

Lemma kk_eqb_refl : forall a, kk_eqb a a = true.
Proof. intros. now apply kk_eqb_eq. Qed.

Lemma nid_eqb_eq : forall a b, nid_eqb a b = true <-> a = b.
Proof.
  induction a as [|p IH k i kf]; destruct b as [|p' k' i' kf']; cbn; try (split; auto; discriminate).
  rewrite !andb_true_iff, N.eqb_eq, Nat.eqb_eq, greens_eqb_eq, IH.
  split; [intros [[[-> ->] ->] ->]; auto | now inversion 1].
Qed.

(* ------------------------------------------------------------------------------------------ *)
(* the key map counts earlier siblings with an equal (kind, key fields)                         *)
Definition kk_of (kr : krange) (c : green) : kkey := (kind c, key kr c).

Definition km_get (kk : kkey) (m : key_map) : nat :=
  match find (fun e => kk_eqb (fst e) kk) m with Some e => snd e | None => 0 end.

Lemma km_bump_spec : forall kk m,
  fst (km_bump kk m) = km_get kk m /\
  forall kk', km_get kk' (snd (km_bump kk m)) =
              if kk_eqb kk kk' then S (km_get kk m) else km_get kk' m.
Proof.
  intros kk m. induction m as [|[k' v] m IH].
  - cbn. split; [reflexivity|]. intro kk'. unfold km_get. cbn. destruct (kk_eqb kk kk'); reflexivity.
  - cbn [km_bump]. destruct (kk_eqb k' kk) eqn:E.
    + apply kk_eqb_eq in E. subst k'. cbn. unfold km_get at 1. cbn. rewrite kk_eqb_refl. cbn.
      split; [reflexivity|]. intro kk'. unfold km_get. cbn. rewrite kk_eqb_refl.
      destruct (kk_eqb kk kk'); reflexivity.
    + destruct IH as [IH1 IH2]. cbn. split.
      * unfold km_get at 1. cbn. rewrite E. exact IH1.
      * intro kk'. unfold km_get at 1. cbn. destruct (kk_eqb k' kk') eqn:E'.
        -- apply kk_eqb_eq in E'. subst kk'.
           assert (kk_eqb kk k' = false) as ->.
           { destruct (kk_eqb kk k') eqn:E2; [|reflexivity]. apply kk_eqb_eq in E2. subst.
             now rewrite kk_eqb_refl in E. }
           unfold km_get. cbn. now rewrite kk_eqb_refl.
        -- fold (km_get kk' (snd (km_bump kk m))). rewrite IH2.
           destruct (kk_eqb kk kk'); [|unfold km_get at 2; cbn; now rewrite E'].
           f_equal. unfold km_get at 2. cbn. now rewrite E.
Qed.

(* number of elements of l with the given (kind, key fields) *)
Definition occ (kr : krange) (kk : kkey) (l : list green) : nat :=
  length (filter (fun c => kk_eqb (kk_of kr c) kk) l).

Lemma occ_app : forall kr kk l l', occ kr kk (l ++ l') = occ kr kk l + occ kr kk l'.
Proof. intros. unfold occ. now rewrite filter_app, app_length. Qed.

Lemma collect_go_nth : forall kr self cs off m i,
  nth_error (collect_go kr self cs off m) i =
  match nth_error cs i with
  | Some c => Some (mk_rchild
                      (Child self (kind c)
                             (km_get (kk_of kr c) m + occ kr (kk_of kr c) (firstn i cs)) (key kr c))
                      (off + sumN (map width (firstn i cs)))%N c)
  | None => None
  end.
Proof.
  intros kr self cs. induction cs as [|c cs IH]; intros off m i.
  - destruct i; reflexivity.
  - cbn [collect_go]. destruct (km_bump_spec (kind c, key kr c) m) as [B1 B2].
    destruct i as [|i].
    + cbn. rewrite B1. unfold kk_of, occ. cbn. now rewrite Nat.add_0_r, N.add_0_r.
    + cbn [nth_error]. rewrite IH. destruct (nth_error cs i) as [d|]; [|reflexivity].
      change (kind c, key kr c) with (kk_of kr c) in *.
      assert (A1 : km_get (kk_of kr d) (snd (km_bump (kk_of kr c) m)) + occ kr (kk_of kr d) (firstn i cs)
                   = km_get (kk_of kr d) m + occ kr (kk_of kr d) (firstn (S i) (c :: cs))).
      { rewrite B2. cbn [firstn].
        assert (O : occ kr (kk_of kr d) (c :: firstn i cs) =
                    (if kk_eqb (kk_of kr c) (kk_of kr d) then 1 else 0) + occ kr (kk_of kr d) (firstn i cs)).
        { unfold occ. cbn [filter]. destruct (kk_eqb (kk_of kr c) (kk_of kr d)); reflexivity. }
        rewrite O. destruct (kk_eqb (kk_of kr c) (kk_of kr d)) eqn:E; [|reflexivity].
        apply kk_eqb_eq in E. rewrite E. lia. }
      assert (A2 : (off + width c + sumN (map width (firstn i cs)) =
                    off + sumN (map width (firstn (S i) (c :: cs))))%N).
      { cbn [firstn map sumN fold_right]. fold (sumN (map width (firstn i cs))). lia. }
      rewrite A1, A2. reflexivity.
Qed.

Lemma collect_children_nth : forall kr self g i,
  nth_error (collect_children kr self g) i =
  match nth_error (children g) i with
  | Some c => Some (mk_rchild
                      (Child self (kind c) (occ kr (kk_of kr c) (firstn i (children g))) (key kr c))
                      (sumN (map width (firstn i (children g)))) c)
  | None => None
  end.
Proof.
  intros. unfold collect_children. rewrite collect_go_nth.
  destruct (nth_error (children g) i); [|reflexivity]. reflexivity.
Qed.

(* the index is what the Rust comment says: the chronological index among the siblings with the
   same (kind, key fields) *)
Lemma firstn_nth_split : forall (A : Type) (l : list A) i j c,
  i < j -> nth_error l i = Some c -> exists t, firstn j l = firstn i l ++ c :: t.
Proof.
  intros A l. induction l as [|x l IH]; intros i j c Hij Hn.
  - destruct i; discriminate.
  - destruct j as [|j]; [lia|]. destruct i as [|i].
    + cbn in Hn. inversion Hn. subst. cbn. eauto.
    + cbn in Hn. destruct (IH i j c ltac:(lia) Hn) as [t Ht]. exists t. cbn. now rewrite Ht.
Qed.

Lemma siblings_distinct : forall kr cs i j c d,
  nth_error cs i = Some c -> nth_error cs j = Some d ->
  kk_of kr c = kk_of kr d ->
  occ kr (kk_of kr c) (firstn i cs) = occ kr (kk_of kr d) (firstn j cs) -> i = j.
Proof.
  intros kr cs i j c d Hi Hj Hk Ho.
  destruct (Nat.lt_trichotomy i j) as [L|[E|L]]; [|exact E|]; exfalso.
  - destruct (firstn_nth_split _ cs i j c L Hi) as [t Ht]. rewrite Ht, occ_app in Ho.
    unfold occ at 3 in Ho. cbn [filter] in Ho. rewrite <- Hk, kk_eqb_refl in Ho. cbn in Ho. lia.
  - destruct (firstn_nth_split _ cs j i d L Hj) as [t Ht]. rewrite Ht, occ_app in Ho.
    unfold occ at 2 in Ho. cbn [filter] in Ho. rewrite Hk, kk_eqb_refl in Ho. cbn in Ho. lia.
Qed.

(* ------------------------------------------------------------------------------------------ *)
(* ids are injective                                                                            *)
Fixpoint depth (n : nid) : nat := match n with Root => 0 | Child p _ _ _ => S (depth p) end.
Fixpoint anc (n : nat) (i : nid) : nid :=
  match n, i with
  | O, _ => i
  | S n', Child p _ _ _ => anc n' p
  | S _, Root => Root
  end.

Lemma locate_depth_anc : forall kr p self base g i o s,
  locate kr self base g p = Some (i, o, s) ->
  depth i = depth self + length p /\ anc (length p) i = self.
Proof.
  intros kr p. induction p as [|a p IH]; intros self base g i o s H.
  - cbn in H. inversion H. subst. cbn. split; [lia|reflexivity].
  - cbn [locate] in H. rewrite collect_children_nth in H.
    destruct (nth_error (children g) a) as [c|]; [|discriminate]. cbn [rc_id rc_off rc_green] in H.
    apply IH in H. destruct H as [H1 H2]. cbn [depth] in H1. cbn [length]. split; [lia|].
    assert (G : forall n x, anc (S n) x = match anc n x with Child q _ _ _ => q | Root => Root end).
    { induction n as [|n IHn]; intro x.
      - destruct x; reflexivity.
      - destruct x as [|q k ix kf]; [reflexivity|]. cbn [anc]. rewrite <- IHn. reflexivity. }
    rewrite G, H2. reflexivity.
Qed.

Lemma locate_injective : forall kr p g q self base base' i o o' s s',
  locate kr self base g p = Some (i, o, s) -> locate kr self base' g q = Some (i, o', s') -> p = q.
Proof.
  intros kr p. induction p as [|a p IH]; intros g q self base base' i o o' s s' E1 E2.
  - cbn in E1. inversion E1. subst. destruct q as [|b q]; [reflexivity|].
    apply locate_depth_anc in E2. cbn in E2. lia.
  - destruct q as [|b q].
    + cbn in E2. inversion E2. subst. apply locate_depth_anc in E1. cbn in E1. lia.
    + pose proof (locate_depth_anc _ _ _ _ _ _ _ _ E1) as [D1 _].
      pose proof (locate_depth_anc _ _ _ _ _ _ _ _ E2) as [D2 _].
      cbn [length] in D1, D2. assert (L : length p = length q) by lia.
      cbn [locate] in E1, E2. rewrite collect_children_nth in E1, E2.
      destruct (nth_error (children g) a) as [c|] eqn:Ea; [|discriminate].
      destruct (nth_error (children g) b) as [d|] eqn:Eb; [|discriminate].
      cbn [rc_id rc_off rc_green] in E1, E2.
      pose proof (locate_depth_anc _ _ _ _ _ _ _ _ E1) as [_ A1].
      pose proof (locate_depth_anc _ _ _ _ _ _ _ _ E2) as [_ A2].
      rewrite L in A1. rewrite A1 in A2. inversion A2 as [[Hk Ho Hkey]].
      assert (a = b).
      { eapply (siblings_distinct kr); eauto. unfold kk_of. now rewrite Hk, Hkey. }
      subst b. rewrite Ea in Eb. inversion Eb. subst d. f_equal.
      eapply IH; [exact E1|exact E2].
Qed.

Theorem ids_injective : forall kr g p q i,
  id_at kr g p = Some i -> id_at kr g q = Some i -> p = q.
Proof.
  intros kr g p q i. unfold id_at, node_at. intros Hp Hq.
  destruct (locate kr Root 0 g p) as [[[i1 o1] s1]|] eqn:E1; [|discriminate].
  destruct (locate kr Root 0 g q) as [[[i2 o2] s2]|] eqn:E2; [|discriminate].
  cbn in Hp, Hq. inversion Hp. inversion Hq. subst. eapply locate_injective; eauto.
Qed.

(* ------------------------------------------------------------------------------------------ *)
(* stability of ids under an edit                                                              *)
Definition same_kk (kr : krange) (c d : green) : Prop := kind c = kind d /\ key kr c = key kr d.

Lemma collect_go_ids_same : forall kr self cs ds off off' m,
  Forall2 (same_kk kr) cs ds ->
  map rc_id (collect_go kr self cs off m) = map rc_id (collect_go kr self ds off' m).
Proof.
  intros kr self cs ds off off' m H. revert off off' m.
  induction H as [|c d cs ds [Hk Hkey] _ IH]; intros off off' m; [reflexivity|].
  cbn [collect_go map rc_id]. rewrite Hk, Hkey. f_equal. apply IH.
Qed.

(* the two trees differ at most inside position p, and no (kind, key fields) on the way changed *)
Inductive agree_outside (kr : krange) : pos -> green -> green -> Prop :=
| AO_here : forall g g', same_kk kr g g' -> agree_outside kr [] g g'
| AO_down : forall i p g g' c c',
    same_kk kr g g' ->
    nth_error (children g) i = Some c -> nth_error (children g') i = Some c' ->
    (forall j, j <> i -> nth_error (children g) j = nth_error (children g') j) ->
    agree_outside kr p c c' ->
    agree_outside kr (i :: p) g g'.

Lemma agree_outside_same_kk : forall kr p g g', agree_outside kr p g g' -> same_kk kr g g'.
Proof. intros kr p g g' H. destruct H; assumption. Qed.

Lemma Forall2_nth_error : forall (A : Type) (R : A -> A -> Prop) (l l' : list A),
  (forall j, match nth_error l j, nth_error l' j with
             | Some x, Some y => R x y | None, None => True | _, _ => False end) ->
  Forall2 R l l'.
Proof.
  intros A R l. induction l as [|x l IH]; intros l' H.
  - destruct l' as [|y l']; [constructor|]. specialize (H 0). cbn in H. contradiction.
  - destruct l' as [|y l']; [specialize (H 0); cbn in H; contradiction|].
    constructor; [exact (H 0)|]. apply IH. intro j. exact (H (S j)).
Qed.

Lemma locate_id_base : forall kr p self base base' g,
  option_map (fun x => (fst (fst x), snd x)) (locate kr self base g p) =
  option_map (fun x => (fst (fst x), snd x)) (locate kr self base' g p).
Proof.
  intros kr p. induction p as [|a p IH]; intros self base base' g; [reflexivity|].
  cbn [locate]. destruct (nth_error (collect_children kr self g) a); [apply IH|reflexivity].
Qed.

Lemma same_kk_refl : forall kr g, same_kk kr g g.
Proof. split; reflexivity. Qed.

Lemma agree_children_ids : forall kr self i p g g' c c',
  nth_error (children g) i = Some c -> nth_error (children g') i = Some c' ->
  (forall j, j <> i -> nth_error (children g) j = nth_error (children g') j) ->
  agree_outside kr p c c' ->
  map rc_id (collect_children kr self g) = map rc_id (collect_children kr self g').
Proof.
  intros kr self i p g g' c c' Hc Hc' Hrest Hin. unfold collect_children.
  apply collect_go_ids_same. apply Forall2_nth_error. intro j.
  destruct (Nat.eq_dec j i) as [->|Hne].
  - rewrite Hc, Hc'. eapply agree_outside_same_kk; eauto.
  - rewrite (Hrest j Hne). destruct (nth_error (children g') j); [apply same_kk_refl|exact I].
Qed.

Lemma nth_error_map_eq : forall (A B : Type) (f : A -> B) l l' j,
  map f l = map f l' -> option_map f (nth_error l j) = option_map f (nth_error l' j).
Proof. intros. rewrite <- !nth_error_map. now rewrite H. Qed.

Theorem ids_agree_outside : forall kr p g g',
  agree_outside kr p g g' ->
  forall self base base' q, ~ strictly_inside p q ->
  option_map (fun x => fst (fst x)) (locate kr self base g q) =
  option_map (fun x => fst (fst x)) (locate kr self base' g' q).
Proof.
  intros kr p g g' H. induction H as [g g' Hk|i p g g' c c' Hk Hc Hc' Hrest Hin IH];
    intros self base base' q Hq.
  - destruct q as [|b q]; [reflexivity|]. exfalso. apply Hq. exists (b :: q). split; [discriminate|reflexivity].
  - destruct q as [|b q]; [reflexivity|]. cbn [locate].
    pose proof (agree_children_ids kr self i p g g' c c' Hc Hc' Hrest Hin) as Hids.
    pose proof (nth_error_map_eq _ _ rc_id _ _ b Hids) as Hb.
    rewrite !collect_children_nth in *.
    destruct (Nat.eq_dec b i) as [->|Hne].
    + rewrite Hc, Hc' in *. cbn [rc_id rc_off rc_green option_map] in *. injection Hb as Hk1 Hid Hk2.
      rewrite Hk1, Hid, Hk2. apply IH. intros [r [Hr Hqr]]. apply Hq. exists r. split; [exact Hr|]. cbn. now rewrite Hqr.
    + rewrite <- (Hrest b Hne) in *. destruct (nth_error (children g) b) as [d|]; [|reflexivity].
      cbn [rc_id rc_off rc_green option_map] in *. injection Hb as Hid. rewrite <- Hid.
      match goal with
      | |- option_map _ (locate kr ?c ?b1 d q) = option_map _ (locate kr ?c ?b2 d q) =>
          pose proof (locate_id_base kr q c b1 b2 d) as E;
          destruct (locate kr c b1 d q) as [[[x1 y1] z1]|];
          destruct (locate kr c b2 d q) as [[[x2 y2] z2]|]; cbn in E |- *; congruence
      end.
Qed.

(* replace_at produces such a pair of trees *)
Fixpoint subtree (g : green) (p : pos) : option green :=
  match p with
  | [] => Some g
  | i :: p' => match nth_error (children g) i with Some c => subtree c p' | None => None end
  end.

Lemma nth_error_replace_nth : forall (A : Type) (l : list A) i x j,
  nth_error (replace_nth i x l) j =
  if Nat.eqb j i then (match nth_error l i with Some _ => Some x | None => None end)
  else nth_error l j.
Proof.
  intros A l. induction l as [|y l IH]; intros i x j.
  - cbn. destruct (Nat.eqb j i); destruct i, j; reflexivity.
  - destruct i as [|i], j as [|j]; cbn; try reflexivity. apply IH.
Qed.

Lemma list_ext_nth_error : forall (A : Type) (l l' : list A),
  (forall j, nth_error l j = nth_error l' j) -> l = l'.
Proof.
  intros A l. induction l as [|x l IH]; intros l' H.
  - destruct l'; [reflexivity|]. specialize (H 0). discriminate.
  - destruct l' as [|y l']; [specialize (H 0); discriminate|].
    pose proof (H 0) as H0. cbn in H0. inversion H0. subst. f_equal. apply IH. intro j. exact (H (S j)).
Qed.

Lemma nth_error_skipn : forall (A : Type) s (l : list A) j,
  nth_error (skipn s l) j = nth_error l (s + j).
Proof.
  intros A s. induction s as [|s IH]; intros l j; [reflexivity|].
  destruct l as [|x l]; [destruct j; reflexivity|]. cbn. apply IH.
Qed.

Lemma nth_error_firstn : forall (A : Type) n (l : list A) j,
  nth_error (firstn n l) j = if Nat.ltb j n then nth_error l j else None.
Proof.
  intros A n. induction n as [|n IH]; intros l j.
  - cbn. destruct j; reflexivity.
  - destruct l as [|x l].
    + cbn [firstn]. destruct j as [|j]; cbn [nth_error]; [reflexivity|]. destruct (Nat.ltb (S j) (S n)); reflexivity.
    + destruct j as [|j]; [reflexivity|]. cbn [firstn nth_error]. rewrite IH.
      change (S j <? S n) with (j <? n). reflexivity.
Qed.

Lemma slice_replace_outside : forall (A : Type) s e i (x : A) l,
  ~ (s <= i < e) -> slice s e (replace_nth i x l) = slice s e l.
Proof.
  intros A s e i x l H. unfold slice. apply list_ext_nth_error. intro j.
  rewrite !nth_error_firstn, !nth_error_skipn, nth_error_replace_nth.
  destruct (Nat.ltb j (e - s)) eqn:L; [|reflexivity].
  apply Nat.ltb_lt in L. destruct (Nat.eqb (s + j) i) eqn:E; [|reflexivity].
  apply Nat.eqb_eq in E. lia.
Qed.

Lemma replace_at_agree : forall kr p g g' g2 old,
  subtree g p = Some old -> same_kk kr old g' -> avoids_keys kr g p = true ->
  replace_at g p g' = Some g2 -> agree_outside kr p g g2.
Proof.
  intros kr p. induction p as [|i p IH]; intros g g' g2 old Hs Hk Ha Hr.
  - cbn in Hs, Hr. inversion Hs. inversion Hr. subst. now constructor.
  - destruct g as [k t w|k w cs]; [discriminate|]. cbn [replace_at] in Hr. cbn [subtree children] in Hs.
    cbn [avoids_keys children kind] in Ha.
    destruct (nth_error cs i) as [c|] eqn:Ec; [|discriminate].
    destruct (replace_at c p g') as [c'|] eqn:Er; [|discriminate]. inversion Hr. subst g2. clear Hr.
    apply andb_true_iff in Ha. destruct Ha as [Hrange Ha].
    eapply (AO_down kr i p _ _ c c').
    + split; [reflexivity|]. unfold key. cbn [kind children]. symmetry. apply slice_replace_outside.
      apply negb_true_iff in Hrange. intros [L1 L2]. apply Nat.leb_le in L1. apply Nat.ltb_lt in L2.
      rewrite L1, L2 in Hrange. discriminate.
    + exact Ec.
    + cbn [children]. rewrite nth_error_replace_nth, Nat.eqb_refl, Ec. reflexivity.
    + intros j Hj. cbn [children]. rewrite nth_error_replace_nth.
      apply Nat.eqb_neq in Hj. now rewrite Hj.
    + eapply IH; eauto.
Qed.

Theorem ids_edit_stable : forall kr g p g' old g2,
  subtree g p = Some old ->
  kind g' = kind old -> key kr g' = key kr old ->
  avoids_keys kr g p = true ->
  replace_at g p g' = Some g2 ->
  forall q, ~ strictly_inside p q -> id_at kr g2 q = id_at kr g q.
Proof.
  intros kr g p g' old g2 Hs Hk Hkey Ha Hr q Hq. unfold id_at, node_at. symmetry.
  eapply ids_agree_outside; [|exact Hq].
  eapply replace_at_agree; eauto. split; congruence.
Qed.

(* ------------------------------------------------------------------------------------------ *)
(* offsets                                                                                      *)
Lemma tokens_node : forall k w cs, tokens (GNode k w cs) = tokens_list cs.
Proof. intros. cbn. induction cs as [|c cs IH]; [reflexivity|]. cbn. now rewrite IH. Qed.

Lemma wf_node : forall k w cs,
  wf_green (GNode k w cs) = N.eqb w (sumN (map width cs)) && forallb wf_green cs.
Proof. intros. reflexivity. Qed.

Lemma sumN_app : forall l l', sumN (l ++ l') = (sumN l + sumN l')%N.
Proof.
  induction l as [|x l IH]; intro l'; [reflexivity|].
  change (sumN ((x :: l) ++ l')) with (x + sumN (l ++ l'))%N.
  change (sumN (x :: l)) with (x + sumN l)%N. rewrite IH. lia.
Qed.

Lemma wf_widths_list : forall cs,
  Forall (fun g => wf_green g = true -> width g = sumN (tokens g)) cs ->
  forallb wf_green cs = true -> sumN (map width cs) = sumN (tokens_list cs).
Proof.
  intros cs IH. induction IH as [|c cs Hc _ IHcs]; intro Hcs; [reflexivity|].
  cbn [forallb] in Hcs. apply andb_true_iff in Hcs. destruct Hcs as [H1 H2].
  cbn [map tokens_list]. rewrite sumN_app, <- (Hc H1), <- (IHcs H2). reflexivity.
Qed.

Lemma wf_width : forall g, wf_green g = true -> width g = sumN (tokens g).
Proof.
  induction g as [k t w|k w cs IH] using green_ind'; intro H.
  - cbn. lia.
  - rewrite wf_node in H. apply andb_true_iff in H. destruct H as [Hw Hcs]. apply N.eqb_eq in Hw.
    rewrite tokens_node. cbn [width]. rewrite Hw. now apply wf_widths_list.
Qed.

Lemma wf_children : forall g c i,
  wf_green g = true -> nth_error (children g) i = Some c -> wf_green c = true.
Proof.
  intros [k t w|k w cs] c i H Hn; [destruct i; discriminate|].
  rewrite wf_node in H. apply andb_true_iff in H. destruct H as [_ H]. cbn in Hn.
  rewrite forallb_forall in H. apply H. eapply nth_error_In; eauto.
Qed.

Lemma widths_firstn : forall cs i,
  forallb wf_green cs = true ->
  sumN (map width (firstn i cs)) = sumN (tokens_list (firstn i cs)).
Proof.
  induction cs as [|c cs IH]; intros i H; [destruct i; reflexivity|].
  destruct i as [|i]; [reflexivity|]. cbn [forallb] in H. apply andb_true_iff in H. destruct H as [H1 H2].
  cbn [firstn map tokens_list]. rewrite sumN_app, <- (wf_width c H1), <- (IH i H2). reflexivity.
Qed.

Lemma wf_forallb_children : forall g, wf_green g = true -> forallb wf_green (children g) = true.
Proof.
  intros [k t w|k w cs] H; [reflexivity|]. rewrite wf_node in H. apply andb_true_iff in H. tauto.
Qed.

Lemma locate_offset : forall kr p self base g i o s,
  wf_green g = true -> locate kr self base g p = Some (i, o, s) ->
  o = (base + sumN (tokens_before g p))%N /\ subtree g p = Some s /\ wf_green s = true.
Proof.
  intros kr p. induction p as [|a p IH]; intros self base g i o s W H.
  - cbn in H. inversion H. subst. cbn. split; [lia|]. auto.
  - cbn [locate] in H. rewrite collect_children_nth in H. cbn [tokens_before subtree].
    destruct (nth_error (children g) a) as [c|] eqn:Ec; [|discriminate].
    cbn [rc_id rc_off rc_green] in H. apply IH in H; [|eapply wf_children; eauto].
    destruct H as [H1 [H2 H3]]. split; [|auto].
    rewrite H1, sumN_app, (widths_firstn _ _ (wf_forallb_children g W)). lia.
Qed.

Theorem offsets_current : forall kr g p i o s,
  wf_green g = true -> node_at kr g p = Some (i, o, s) ->
  o = sumN (tokens_before g p) /\ width s = sumN (tokens s) /\ subtree g p = Some s.
Proof.
  intros kr g p i o s W H. apply locate_offset in H; [|exact W]. destruct H as [H1 [H2 H3]].
  split; [rewrite H1; lia|]. split; [now apply wf_width|exact H2].
Qed.
