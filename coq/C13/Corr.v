(* C13/Corr.v -- executable comparison of the model (RedIds.v) with what harness/h13 observed on
   the real implementation.  Each check returns the list of disagreements; the driver expects []. *)
From Coq Require Import List NArith Bool Arith FMapPositive.
From C13 Require Import RedIds.
Import ListNotations.

Definition kr_of (tab : list (N * (nat * nat))) : krange :=
  let m := fold_left (fun m r => PositiveMap.add (N.succ_pos (fst r)) (snd r) m) tab
                     (PositiveMap.empty (nat * nat)) in
  fun k => match PositiveMap.find (N.succ_pos k) m with Some r => r | None => (0, 0)%nat end.

Definition opt_nat_eqb (a b : option nat) : bool :=
  match a, b with Some x, Some y => Nat.eqb x y | None, None => true | _, _ => false end.

Definition inode_eqb (a b : inode) : bool :=
  opt_nat_eqb (in_parent a) (in_parent b) && N.eqb (in_kind a) (in_kind b)
  && Nat.eqb (in_index a) (in_index b) && greens_eqb (in_key a) (in_key b)
  && N.eqb (in_off a) (in_off b) && N.eqb (in_width a) (in_width b).

Fixpoint first_mismatch (n : nat) (model impl : list inode) : option (nat * option inode) :=
  match model, impl with
  | [], [] => None
  | m :: model', i :: impl' =>
      if inode_eqb m i then first_mismatch (S n) model' impl' else Some (n, Some m)
  | m :: _, [] => Some (n, Some m)
  | [], _ :: _ => Some (n, None)
  end.

(* ---- leg ids ---- *)
Record id_case := mk_case { ic_no : nat; ic_tree : green; ic_nodes : list inode }.

(* a disagreement: (case number, reason, preorder number, the model's node there) with reason
   1 = stored widths are not the sums of the children's widths, 2 = node data differ *)
Definition check_id_case (kr : krange) (c : id_case) : list (nat * nat * nat * option inode) :=
  (if wf_green (ic_tree c) then [] else [(ic_no c, 1, 0, None)]%nat) ++
  match first_mismatch 0 (map snd (red_nodes kr (ic_tree c))) (ic_nodes c) with
  | None => []
  | Some (n, m) => [(ic_no c, 2, n, m)]%nat
  end.

Definition check_ids (tab : list (N * (nat * nat))) (cases : list id_case) :=
  let kr := kr_of tab in flat_map (check_id_case kr) cases.

(* ---- leg reid: two trees of one file in one live database, with the identity (salsa id of the
   tracked struct) of every node.  The model says a node of the second tree keeps an identity iff
   its id is the id of a node of the first tree. ---- *)
Record re_case := mk_recase {
  rc_no : nat; rc_t1 : green; rc_n1 : list (inode * N); rc_t2 : green; rc_n2 : list (inode * N) }.

Definition ident_map (ids : list nid) (idents : list N) : PositiveMap.t nid * bool :=
  fold_left (fun (acc : PositiveMap.t nid * bool) (x : nid * N) =>
               let key := N.succ_pos (snd x) in
               match PositiveMap.find key (fst acc) with
               | Some _ => (fst acc, false)                  (* identity used twice in one tree *)
               | None => (PositiveMap.add key (fst x) (fst acc), snd acc)
               end)
            (combine ids idents) (PositiveMap.empty nid, true).

Definition opt_nid_eqb (a b : option nid) : bool :=
  match a, b with Some x, Some y => nid_eqb x y | None, None => true | _, _ => false end.

Fixpoint reid_mismatch (kr : krange) (t1 : green) (m1 : PositiveMap.t nid) (n : nat)
  (l : list (nid * N)) : option nat :=
  match l with
  | [] => None
  | (id2, ident2) :: l' =>
      let impl := PositiveMap.find (N.succ_pos ident2) m1 in
      let model := if id_member kr t1 id2 then Some id2 else None in
      if opt_nid_eqb impl model then reid_mismatch kr t1 m1 (S n) l' else Some n
  end.

(* reasons: 1/2 = static data of tree 1/2 differ from the model, 3/4 = identity not unique in tree
   1/2, 5 = identity kept/not kept differently from the model (at preorder number n of tree 2) *)
Definition check_re_case (kr : krange) (c : re_case) : list (nat * nat * nat) :=
  let r1 := red_nodes kr (rc_t1 c) in
  let r2 := red_nodes kr (rc_t2 c) in
  (match first_mismatch 0 (map snd r1) (map fst (rc_n1 c)) with
   | None => [] | Some (n, _) => [(rc_no c, 1, n)]%nat end) ++
  (match first_mismatch 0 (map snd r2) (map fst (rc_n2 c)) with
   | None => [] | Some (n, _) => [(rc_no c, 2, n)]%nat end) ++
  let m1 := ident_map (map fst r1) (map snd (rc_n1 c)) in
  let m2 := ident_map (map fst r2) (map snd (rc_n2 c)) in
  (if snd m1 then [] else [(rc_no c, 3, 0)]%nat) ++
  (if snd m2 then [] else [(rc_no c, 4, 0)]%nat) ++
  match reid_mismatch kr (rc_t1 c) (fst m1) 0 (combine (map fst r2) (map snd (rc_n2 c))) with
  | None => []
  | Some n => [(rc_no c, 5, n)]%nat
  end.

Definition check_reid (tab : list (N * (nat * nat))) (cases : list re_case) :=
  let kr := kr_of tab in flat_map (check_re_case kr) cases.
