(* C13/MemoProofs.v -- the memo engine of Memo.v answers every query with the from-scratch value of
   the current inputs, for every history of input changes and queries. *)
From Coq Require Import List Arith Bool Lia.
From C13 Require Import Memo.
Import ListNotations.

Section Proofs.
  Variable V : Type.
  Variable veq : V -> V -> bool.
  Variable body : nat -> prog V.
  Hypothesis veq_sound : forall a b, veq a b = true -> a = b.

  Notation Run' := (Run V body).
  Notation Eval' := (Eval V body).
  Notation state' := (state V).
  Notation memo' := (memo V).

  (* ------------------------------------------------------------------------------------------ *)
  (* from-scratch evaluation is deterministic and depends on the inputs pointwise               *)
  Lemma Run_det : forall env p v1, Run' env p v1 -> forall v2, Run' env p v2 -> v1 = v2.
  Proof.
    intros env p v1 H. induction H as [v|i c v H IH|q c x v Hq IHq Hc IHc]; intros v2 H2.
    - inversion H2. reflexivity.
    - inversion H2. subst. now apply IH.
    - inversion H2 as [| |q' c' x' v' Hq' Hc']. subst. apply IHq in Hq'. subst. now apply IHc.
  Qed.

  Lemma Eval_det : forall env k v1 v2, Eval' env k v1 -> Eval' env k v2 -> v1 = v2.
  Proof.
    intros env [i|q] v1 v2 H1 H2; cbn in *.
    - congruence.
    - eapply Run_det; eauto.
  Qed.

  Lemma Run_ext : forall e1 e2, (forall i, e1 i = e2 i) -> forall p v, Run' e1 p v -> Run' e2 p v.
  Proof.
    intros e1 e2 He p v H. induction H as [v|i c v H IH|q c x v Hq IHq Hc IHc].
    - constructor.
    - constructor. rewrite <- He. exact IH.
    - econstructor; eauto.
  Qed.

  Lemma Eval_ext : forall e1 e2, (forall i, e1 i = e2 i) -> forall k v, Eval' e1 k v -> Eval' e2 k v.
  Proof.
    intros e1 e2 He [i|q] v H; cbn in *.
    - now rewrite <- He.
    - eapply Run_ext; eauto.
  Qed.

  (* the trace of a program: the keys it reads, in order, with the values read *)
  Inductive Trace (env : nat -> V) : prog V -> list (key * V) -> V -> Prop :=
  | TRet : forall v, Trace env (Ret v) [] v
  | TGet : forall k c x t v, Eval' env k x -> Trace env (c x) t v -> Trace env (Get k c) ((k, x) :: t) v.

  Lemma Trace_Run : forall env p t v, Trace env p t v -> Run' env p v.
  Proof.
    intros env p t v H. induction H as [v|k c x t v He Ht IH].
    - constructor.
    - destruct k as [i|q]; cbn in He.
      + subst. now constructor.
      + econstructor; eauto.
  Qed.

  Lemma Trace_det : forall env p t1 v1, Trace env p t1 v1 ->
    forall t2 v2, Trace env p t2 v2 -> t1 = t2 /\ v1 = v2.
  Proof.
    intros env p t1 v1 H. induction H as [v|k c x t v He Ht IH]; intros t2 v2 H2.
    - inversion H2. auto.
    - inversion H2 as [|k' c' x' t' v' He' Ht']. subst.
      assert (x = x') by (eapply Eval_det; eauto). subst x'.
      destruct (IH _ _ Ht') as [-> ->]. auto.
  Qed.

  Lemma Trace_In_Eval : forall env p t v, Trace env p t v -> forall d x, In (d, x) t -> Eval' env d x.
  Proof.
    intros env p t v H. induction H as [v|k c x t v He Ht IH]; intros d y Hin.
    - destruct Hin.
    - destruct Hin as [E|Hin]; [inversion E; subst; exact He|eauto].
  Qed.

  Lemma Trace_transfer : forall e1 e2 p t v, Trace e1 p t v ->
    (forall d x, In (d, x) t -> Eval' e2 d x) -> Trace e2 p t v.
  Proof.
    intros e1 e2 p t v H. induction H as [v|k c x t v He Ht IH]; intro Hall.
    - constructor.
    - constructor; [apply Hall; now left|]. apply IH. intros d y Hin. apply Hall. now right.
  Qed.

  Lemma Trace_ext : forall e1 e2, (forall i, e1 i = e2 i) -> forall p t v, Trace e1 p t v -> Trace e2 p t v.
  Proof.
    intros e1 e2 He p t v H. eapply Trace_transfer; [exact H|].
    intros d x Hin. eapply Eval_ext; [exact He|]. eapply Trace_In_Eval; eauto.
  Qed.

  (* ------------------------------------------------------------------------------------------ *)
  (* the invariant                                                                              *)
  Definition seen (st : state') (q r : nat) : Prop := In (q, r) (log st).
  Definition seenk (st : state') (k : key) (r : nat) : Prop :=
    match k with KIn _ => True | KQ q => seen st q r end.

  (* st' is a later state of the same revision *)
  Definition ext (st st' : state') : Prop :=
    rev st' = rev st /\ inputs st' = inputs st /\ hist st' = hist st /\
    (forall q r, seen st q r -> seen st' q r) /\
    (forall q r, seen st' q r -> seen st q r \/ r = rev st).

  Lemma ext_refl : forall st, ext st st.
  Proof. intro st. repeat split; auto. Qed.

  Lemma ext_trans : forall a b c, ext a b -> ext b c -> ext a c.
  Proof.
    intros a b c (R1 & I1 & H1 & S1 & N1) (R2 & I2 & H2 & S2 & N2). repeat split; try congruence.
    - auto.
    - intros q r Hs. destruct (N2 q r Hs) as [Hb|Hb]; [auto|right; congruence].
  Qed.

  Lemma seenk_ext : forall st st' k r, ext st st' -> seenk st k r -> seenk st' k r.
  Proof. intros st st' [i|q] r (_ & _ & _ & S & _) H; cbn in *; auto. Qed.

  Lemma seenk_ext_back : forall st st' k r, ext st st' -> seenk st' k r -> seenk st k r \/ r = rev st.
  Proof. intros st st' [i|q] r (_ & _ & _ & _ & N) H; cbn in *; auto. Qed.

  (* the value x of key k has been the value at every revision in [c, now] at which k was verified *)
  Definition holds_since (st : state') (k : key) (x : V) (c : nat) : Prop :=
    forall r, c <= r -> r <= rev st -> seenk st k r -> Eval' (hist st r) k x.

  Lemma holds_since_ext : forall st st' k x c,
    ext st st' -> Eval' (hist st (rev st)) k x -> holds_since st k x c -> holds_since st' k x c.
  Proof.
    intros st st' k x c He Hnow H r Hc Hr Hs. pose proof He as (R & _ & Hh & _ & _). rewrite Hh.
    destruct (seenk_ext_back _ _ _ _ He Hs) as [Hs' | -> ]; [|exact Hnow].
    apply H; auto. now rewrite <- R.
  Qed.

  Lemma holds_since_mono : forall st k x c c', c <= c' -> holds_since st k x c -> holds_since st k x c'.
  Proof. intros st k x c c' Hle H r Hc Hr Hs. apply H; auto. lia. Qed.

  Record memo_ok (st : state') (q : nat) (m : memo') : Prop := {
    mo_cv : m_changed m <= m_verified m;
    mo_vr : m_verified m <= rev st;
    mo_trace : exists t, map fst t = m_deps m /\ Trace (hist st (m_verified m)) (body q) t (m_val m);
    mo_B : forall r, m_changed m <= r -> r <= m_verified m -> seen st q r ->
                     Run' (hist st r) (body q) (m_val m);
    mo_S : seen st q (m_verified m) }.

  Record Inv (st : state') : Prop := {
    inv_H1 : forall i, hist st (rev st) i = fst (inputs st i);
    inv_H2 : forall i, snd (inputs st i) <= rev st /\
                       forall r, snd (inputs st i) <= r -> r <= rev st -> hist st r i = fst (inputs st i);
    inv_M : forall q m, memos st q = Some m -> memo_ok st q m;
    inv_E : forall q r, seen st q r -> r <= rev st /\ exists m, memos st q = Some m /\ r <= m_verified m;
    inv_CF : forall q r, seen st q r ->
               exists t v, Trace (hist st r) (body q) t v /\ forall d x, In (d, x) t -> seenk st d r }.

  (* writing a memo that is verified now *)
  Lemma Inv_set_memo : forall st q m,
    Inv st -> m_verified m = rev st -> m_changed m <= rev st ->
    (exists t, map fst t = m_deps m /\ Trace (hist st (rev st)) (body q) t (m_val m) /\
               forall d x, In (d, x) t -> seenk st d (rev st)) ->
    (forall r, m_changed m <= r -> r < rev st -> seen st q r -> Run' (hist st r) (body q) (m_val m)) ->
    Inv (set_memo V st q m) /\ ext st (set_memo V st q m) /\ memo_ok (set_memo V st q m) q m.
  Proof.
    intros st q m I Hv Hc (t & Hdeps & Ht & Hseen) HB.
    assert (Hext : ext st (set_memo V st q m)).
    { unfold ext, seen. cbn. repeat split; auto.
      intros q' r [E|H]; [inversion E; right; congruence|now left]. }
    assert (Hmq : memo_ok (set_memo V st q m) q m).
    { constructor; cbn.
      - lia.
      - lia.
      - exists t. rewrite Hv. auto.
      - intros r H1 H2 [E|Hs].
        + inversion E. subst r. rewrite Hv. eapply Trace_Run; eauto.
        + destruct (Nat.eq_dec r (rev st)) as [->|Hne]; [eapply Trace_Run; eauto|]. apply HB; auto. lia.
      - left. reflexivity. }
    split; [|split; [exact Hext|exact Hmq]].
    constructor; cbn.
    - apply (inv_H1 _ I).
    - apply (inv_H2 _ I).
    - intros q' m' Hm. destruct (Nat.eqb q' q) eqn:E.
      + apply Nat.eqb_eq in E. subst q'. inversion Hm. subst m'. exact Hmq.
      + apply Nat.eqb_neq in E. pose proof (inv_M _ I _ _ Hm) as [A B C D S].
        constructor; auto.
        * intros r H1 H2 [E'|Hs]; [inversion E'; congruence|cbn; apply D; auto].
        * right. exact S.
    - intros q' r [E|Hs].
      + inversion E. subst q' r. split; [lia|]. exists m. rewrite Nat.eqb_refl. split; [reflexivity|lia].
      + destruct (inv_E _ I _ _ Hs) as [Hr (m0 & Hm0 & Hle)]. split; [exact Hr|].
        destruct (Nat.eqb q' q) eqn:E.
        * exists m. split; [reflexivity|lia].
        * exists m0. auto.
    - intros q' r [E|Hs].
      + inversion E. subst q' r. exists t, (m_val m). rewrite Hv. split; [exact Ht|].
        intros d x Hin. eapply seenk_ext; [exact Hext|]. eauto.
      + destruct (inv_CF _ I _ _ Hs) as (t' & v' & Ht' & Hs'). exists t', v'. split; [exact Ht'|].
        intros d x Hin. eapply seenk_ext; [exact Hext|]. eauto.
  Qed.

  (* what is known about the memo that is being replaced *)
  Definition old_ok (st : state') (q : nat) (m : memo') : Prop :=
    m_changed m <= m_verified m /\ m_verified m < rev st /\
    (forall r, m_changed m <= r -> r <= m_verified m -> seen st q r -> Run' (hist st r) (body q) (m_val m)) /\
    (forall r, m_verified m < r -> r < rev st -> ~ seen st q r).

  Lemma old_ok_ext : forall st st' q m, ext st st' -> old_ok st q m -> old_ok st' q m.
  Proof.
    intros st st' q m He (A & B & C & D). pose proof He as (R & _ & Hh & _ & N).
    repeat split; try lia.
    - intros r H1 H2 Hs. rewrite Hh. destruct (N _ _ Hs) as [Hs' | -> ]; [auto|lia].
    - intros r H1 H2 Hs. destruct (N _ _ Hs) as [Hs' | -> ]; [|lia]. apply (D r); auto. lia.
  Qed.

  Lemma old_ok_of_memo : forall st st1 q m,
    Inv st -> memos st q = Some m -> m_verified m <> rev st -> ext st st1 -> old_ok st1 q m.
  Proof.
    intros st st1 q m I Hm Hne He. eapply old_ok_ext; [exact He|].
    pose proof (inv_M _ I _ _ Hm) as [A B C D S]. repeat split; auto; try lia.
    intros r H1 H2 Hs. destruct (inv_E _ I _ _ Hs) as [_ (m0 & Hm0 & Hle)].
    rewrite Hm in Hm0. inversion Hm0. subst m0. lia.
  Qed.

  (* the value computed now was also the value at every earlier revision r >= chg at which the query
     was verified, because everything it reads has held since chg *)
  Lemma lockstep : forall st r chg p t v,
    Trace (hist st (rev st)) p t v ->
    (forall d x, In (d, x) t -> holds_since st d x chg) -> chg <= r -> r <= rev st ->
    forall t' v', Trace (hist st r) p t' v' -> (forall d x, In (d, x) t' -> seenk st d r) -> v' = v.
  Proof.
    intros st r chg p t v H. induction H as [v|k c x t v He Ht IH]; intros Hall Hc Hr t' v' H' Hs'.
    - inversion H'. reflexivity.
    - inversion H' as [|k' c' y t'' v'' He' Ht']. subst.
      assert (Eval' (hist st r) k x).
      { apply (Hall k x); [now left|auto|auto|]. apply (Hs' k y). now left. }
      assert (y = x) by (eapply Eval_det; eauto). subst y.
      eapply IH; eauto.
      + intros d z Hin. apply Hall. now right.
      + intros d z Hin. apply (Hs' d z). now right.
  Qed.

  (* ------------------------------------------------------------------------------------------ *)
  (* specifications of the five functions, by fuel                                              *)
  Notation fetch' := (fetch V veq body).
  Notation execute' := (execute V veq body).
  Notation run' := (run V veq body).
  Notation verify' := (verify_deps V veq body).
  Notation mca' := (maybe_changed_after V veq body).

  (* unfolding equations of the mutual fixpoint *)
  Lemma fetch_S : forall f st k, fetch' (S f) st k =
    match k with
    | KIn i => Some (fst (inputs st i), snd (inputs st i), st)
    | KQ q =>
        match memos st q with
        | Some m =>
            if Nat.eqb (m_verified m) (rev st) then Some (m_val m, m_changed m, st)
            else
              match verify' f st (m_deps m) (m_verified m) with
              | None => None
              | Some (true, st1) =>
                  Some (m_val m, m_changed m,
                        set_memo V st1 q (mk_memo V (m_val m) (rev st1) (m_changed m) (m_deps m)))
              | Some (false, st1) => execute' f st1 q (Some m)
              end
        | None => execute' f st q None
        end
    end.
  Proof. reflexivity. Qed.

  Lemma execute_S : forall f st q old, execute' (S f) st q old =
    match run' f st (body q) [] 0 with
    | None => None
    | Some (v, deps, chg, st1) =>
        let c := backdate V veq old v chg in
        Some (v, c, set_memo V st1 q (mk_memo V v (rev st1) c (List.rev deps)))
    end.
  Proof. reflexivity. Qed.

  Lemma run_S : forall f st p deps chg, run' (S f) st p deps chg =
    match p with
    | Ret v => Some (v, deps, chg, st)
    | Get k c =>
        match fetch' f st k with
        | None => None
        | Some (v, ch, st1) => run' f st1 (c v) (k :: deps) (Nat.max chg ch)
        end
    end.
  Proof. reflexivity. Qed.

  Lemma verify_S : forall f st deps r, verify' (S f) st deps r =
    match deps with
    | [] => Some (true, st)
    | d :: ds =>
        match mca' f st d r with
        | None => None
        | Some (true, st1) => Some (false, st1)
        | Some (false, st1) => verify' f st1 ds r
        end
    end.
  Proof. reflexivity. Qed.

  Lemma mca_S : forall f st k r, mca' (S f) st k r =
    match k with
    | KIn i => Some (Nat.ltb r (snd (inputs st i)), st)
    | KQ q =>
        match memos st q with
        | None => Some (true, st)
        | Some m =>
            if Nat.eqb (m_verified m) (rev st) then Some (Nat.ltb r (m_changed m), st)
            else
              match verify' f st (m_deps m) (m_verified m) with
              | None => None
              | Some (true, st1) =>
                  Some (Nat.ltb r (m_changed m),
                        set_memo V st1 q (mk_memo V (m_val m) (rev st1) (m_changed m) (m_deps m)))
              | Some (false, st1) =>
                  match execute' f st1 q (Some m) with
                  | None => None
                  | Some (_, c, st2) => Some (Nat.ltb r c, st2)
                  end
              end
        end
    end.
  Proof. reflexivity. Qed.

  Definition fetch_spec (f : nat) : Prop := forall st k v ch st',
    Inv st -> fetch' f st k = Some (v, ch, st') ->
    Inv st' /\ ext st st' /\ Eval' (hist st (rev st)) k v /\ seenk st' k (rev st) /\
    ch <= rev st /\ holds_since st' k v ch.

  Definition execute_spec (f : nat) : Prop := forall st q old v c st',
    Inv st -> (forall m, old = Some m -> old_ok st q m) ->
    execute' f st q old = Some (v, c, st') ->
    Inv st' /\ ext st st' /\ Run' (hist st (rev st)) (body q) v /\ seen st' q (rev st) /\
    c <= rev st /\ holds_since st' (KQ q) v c.

  Definition run_spec (f : nat) : Prop := forall st p deps chg v deps' chg' st',
    Inv st -> chg <= rev st -> run' f st p deps chg = Some (v, deps', chg', st') ->
    Inv st' /\ ext st st' /\ chg' <= rev st /\
    exists t, deps' = List.rev (map fst t) ++ deps /\ Trace (hist st (rev st)) p t v /\
              forall d x, In (d, x) t -> seenk st' d (rev st) /\ holds_since st' d x chg'.

  Definition unchanged_since (st st' : state') (k : key) (r0 : nat) : Prop :=
    seenk st' k (rev st) /\
    (seenk st' k r0 -> r0 <= rev st -> forall x, Eval' (hist st r0) k x -> Eval' (hist st (rev st)) k x).

  Definition verify_spec (f : nat) : Prop := forall st ds r0 b st',
    Inv st -> verify' f st ds r0 = Some (b, st') ->
    Inv st' /\ ext st st' /\ (b = true -> forall d, In d ds -> unchanged_since st st' d r0).

  Definition mca_spec (f : nat) : Prop := forall st k r0 b st',
    Inv st -> mca' f st k r0 = Some (b, st') ->
    Inv st' /\ ext st st' /\ (b = false -> unchanged_since st st' k r0).

  Lemma unchanged_since_ext : forall st st1 st2 k r0,
    ext st st1 -> ext st1 st2 -> unchanged_since st st1 k r0 -> unchanged_since st st2 k r0.
  Proof.
    intros st st1 st2 k r0 H01 H12 [A B]. pose proof H01 as (R1 & _ & _ & _ & _). split.
    - eapply seenk_ext; eauto.
    - intros Hs Hr x Hx. destruct (seenk_ext_back _ _ _ _ H12 Hs) as [Hs'|E]; [auto|].
      rewrite R1 in E. subst r0. exact Hx.
  Qed.

  (* a memo whose recorded dependencies are all unchanged is valid now *)
  Lemma reverify : forall st st1 q m,
    Inv st -> memos st q = Some m -> m_verified m <> rev st ->
    Inv st1 -> ext st st1 ->
    (forall d, In d (m_deps m) -> unchanged_since st st1 d (m_verified m)) ->
    let m' := mk_memo V (m_val m) (rev st1) (m_changed m) (m_deps m) in
    Inv (set_memo V st1 q m') /\ ext st (set_memo V st1 q m') /\ memo_ok (set_memo V st1 q m') q m' /\
    Run' (hist st (rev st)) (body q) (m_val m).
  Proof.
    intros st st1 q m I Hm Hne I1 He Hdeps m'.
    pose proof He as (R1 & _ & Hh1 & S1 & N1).
    pose proof (inv_M _ I _ _ Hm) as [A B (t & Hdt & Ht) D S].
    (* the recorded dependencies were verified when the memo was *)
    destruct (inv_CF _ I _ _ S) as (t0 & v0 & Ht0 & Hs0).
    destruct (Trace_det _ _ _ _ Ht _ _ Ht0) as [<- <-].
    assert (HtR : Trace (hist st (rev st)) (body q) t (m_val m)).
    { eapply Trace_transfer; [exact Ht|]. intros d x Hin.
      assert (Hd : In d (m_deps m)). { rewrite <- Hdt. change d with (fst (d, x)). now apply in_map. }
      destruct (Hdeps d Hd) as [_ U]. apply U.
      - eapply seenk_ext; [exact He|]. eauto.
      - lia.
      - eapply Trace_In_Eval; eauto. }
    assert (G : Inv (set_memo V st1 q m') /\ ext st1 (set_memo V st1 q m') /\ memo_ok (set_memo V st1 q m') q m').
    { apply Inv_set_memo; auto.
      - cbn. lia.
      - exists t. cbn. rewrite Hh1, R1. split; [exact Hdt|]. split; [exact HtR|].
        intros d x Hin. assert (Hd : In d (m_deps m)). { rewrite <- Hdt. change d with (fst (d, x)). now apply in_map. }
        destruct (Hdeps d Hd) as [Sd _]. first [exact Sd | now rewrite R1 | now rewrite <- R1].
      - cbn. intros r H1 H2 Hs. rewrite Hh1. rewrite R1 in H2.
        destruct (N1 _ _ Hs) as [Hs' | -> ]; [|lia].
        destruct (le_lt_dec r (m_verified m)) as [Hle|Hgt]; [now apply D|].
        destruct (inv_E _ I _ _ Hs') as [_ (m0 & Hm0 & Hle)]. rewrite Hm in Hm0. inversion Hm0. subst m0. lia. }
    destruct G as (G1 & G2 & G3).
    split; [exact G1|]. split; [eapply ext_trans; eauto|]. split; [exact G3|]. eapply Trace_Run; eauto.
  Qed.

  Lemma fetch_step : forall f, execute_spec f -> verify_spec f -> fetch_spec (S f).
  Proof.
    intros f Hex Hve st k v ch st' I H. rewrite fetch_S in H. destruct k as [i|q].
    - inversion H. subst. split; [exact I|]. split; [apply ext_refl|]. split; [cbn; now rewrite (inv_H1 _ I)|].
      split; [exact Logic.I|]. split; [apply (inv_H2 _ I)|].
      intros r Hc Hr _. cbn. symmetry. now apply (inv_H2 _ I).
    - destruct (memos st q) as [m|] eqn:Hm.
      + destruct (Nat.eqb (m_verified m) (rev st)) eqn:Ev.
        * apply Nat.eqb_eq in Ev. inversion H. subst. clear H.
          pose proof (inv_M _ I _ _ Hm) as [A B (t & Hdt & Ht) D S].
          split; [exact I|]. split; [apply ext_refl|]. rewrite Ev in *.
          split; [cbn; eapply Trace_Run; eauto|]. split; [exact S|]. split; [exact A|].
          intros r Hc Hr Hs. cbn. apply D; auto.
        * apply Nat.eqb_neq in Ev.
          destruct (verify' f st (m_deps m) (m_verified m)) as [[b st1]|] eqn:Hv; [|cbv beta iota in H; discriminate]. cbv beta iota in H.
          destruct (Hve _ _ _ _ _ I Hv) as (I1 & E1 & U).
          destruct b; cbv beta iota in H.
          -- inversion H. subst. clear H.
             destruct (reverify st st1 q m I Hm Ev I1 E1 (U eq_refl)) as (G1 & G2 & G3 & G4).
             pose proof E1 as (R1 & _ & _ & _ & _).
             split; [exact G1|]. split; [exact G2|]. split; [exact G4|].
             split; [cbn; left; now rewrite R1|].
             pose proof (inv_M _ I _ _ Hm) as [A B _ _ _]. split; [lia|].
             intros r Hc Hr Hs. cbn. destruct G3 as [_ _ _ D' _]. cbn in D', Hr. apply D'; auto.
          -- assert (Hold : forall m0, Some m = Some m0 -> old_ok st1 q m0).
             { intros m0 E. inversion E. subst m0. exact (old_ok_of_memo st st1 q m I Hm Ev E1). }
             destruct (Hex _ _ _ _ _ _ I1 Hold H) as (I2 & E2 & Rv & S2 & Cc & HS).
             pose proof E1 as (R1 & _ & Hh1 & _ & _). rewrite Hh1, R1 in *.
             split; [exact I2|]. split; [eapply ext_trans; eauto|]. split; [exact Rv|]. auto.
      + assert (Hold : forall m0, @None memo' = Some m0 -> old_ok st q m0) by (intros m0 E; discriminate).
        destruct (Hex _ _ _ _ _ _ I Hold H) as (I2 & E2 & Rv & S2 & Cc & HS). auto 10.
  Qed.

  Lemma execute_step : forall f, run_spec f -> execute_spec (S f).
  Proof.
    intros f Hrun st q old v c st' I Hold H. rewrite execute_S in H.
    destruct (run' f st (body q) [] 0) as [[[[v1 deps] chg] st1]|] eqn:Hr; [|cbv beta iota in H; discriminate]. cbv beta iota in H.
    inversion H. subst v1 c st'. clear H.
    destruct (Hrun _ _ _ _ _ _ _ _ I (Nat.le_0_l _) Hr) as (I1 & E1 & Cb & t & Hd & Ht & Hall).
    pose proof E1 as (R1 & _ & Hh1 & S1 & N1).
    set (c := backdate V veq old v chg).
    set (m := mk_memo V v (rev st1) c (List.rev deps)).
    assert (Hdeps : List.rev deps = map fst t).
    { rewrite Hd, app_nil_r. apply rev_involutive. }
    assert (Hc : c <= rev st).
    { unfold c, backdate. destruct old as [m0|]; [|exact Cb].
      destruct (veq (m_val m0) v); [|exact Cb]. destruct (Hold m0 eq_refl) as (A & B & _). lia. }
    assert (G : Inv (set_memo V st1 q m) /\ ext st1 (set_memo V st1 q m) /\ memo_ok (set_memo V st1 q m) q m).
    { apply Inv_set_memo; auto.
      - cbn. lia.
      - exists t. cbn. rewrite Hh1, R1. split; [auto|]. split; [exact Ht|].
        intros d x Hin. now destruct (Hall d x Hin).
      - cbn. intros r H1 H2 Hs. rewrite Hh1. rewrite R1 in H2.
        (* either back-dated to the old memo, or everything read has held since chg *)
        assert (Hcase : (exists m0, old = Some m0 /\ veq (m_val m0) v = true /\ c = m_changed m0) \/ c = chg).
        { unfold c, backdate. destruct old as [m0|]; [|now right].
          destruct (veq (m_val m0) v) eqn:Eq; [left; eauto|now right]. }
        destruct Hcase as [(m0 & -> & Eq & Ec)|Ec].
        + apply veq_sound in Eq. pose proof (old_ok_ext _ _ _ _ E1 (Hold m0 eq_refl)) as (A & B & C & D).
          rewrite Hh1 in C. rewrite <- Eq.
          destruct (le_lt_dec r (m_verified m0)) as [Hle|Hgt]; [apply C; auto; lia|].
          exfalso. apply (D r); auto. lia.
        + destruct (inv_CF _ I1 _ _ Hs) as (t' & v' & Ht' & Hs'). rewrite Hh1 in Ht'.
          assert (v' = v).
          { eapply (lockstep st1 r chg (body q) t v); eauto.
            - now rewrite Hh1, R1.
            - intros d x Hin. now destruct (Hall d x Hin).
            - lia.
            - lia.
            - now rewrite Hh1. }
          subst v'. eapply Trace_Run; eauto. }
    destruct G as (G1 & G2 & G3).
    split; [exact G1|]. split; [eapply ext_trans; eauto|]. split; [eapply Trace_Run; eauto|].
    split; [cbn; left; now rewrite R1|]. split; [exact Hc|].
    intros r H1 H2 Hs. cbn. destruct G3 as [_ _ _ D' _]. cbn in D', H2. apply D'; auto; lia.
  Qed.

  Lemma run_chg_mono : forall f0 st0 p0 d0 c0 v1 d1 c1 s1,
    run' f0 st0 p0 d0 c0 = Some (v1, d1, c1, s1) -> c0 <= c1.
  Proof.
    induction f0 as [|f0 IH]; intros st0 p0 d0 c0 v1 d1 c1 s1 Hr; [discriminate|].
    rewrite run_S in Hr. destruct p0 as [v2|k2 c2]; [inversion Hr; lia|].
    destruct (fetch' f0 st0 k2) as [[[x2 ch2] st2]|]; [|discriminate].
    apply IH in Hr. lia.
  Qed.

  Lemma run_step : forall f, fetch_spec f -> run_spec f -> run_spec (S f).
  Proof.
    intros f Hfe Hrun st p deps chg v deps' chg' st' I Hc H. rewrite run_S in H. destruct p as [v0|k c].
    - inversion H. subst. split; [exact I|]. split; [apply ext_refl|]. split; [exact Hc|].
      exists []. cbn. split; [reflexivity|]. split; [constructor|]. intros d x [].
    - destruct (fetch' f st k) as [[[x ch] st1]|] eqn:Hf; [|cbv beta iota in H; discriminate]. cbv beta iota in H.
      destruct (Hfe _ _ _ _ _ I Hf) as (I1 & E1 & Ex & Sx & Cx & HSx).
      pose proof E1 as (R1 & _ & Hh1 & _ & _).
      assert (Hm : Nat.max chg ch <= rev st1) by (rewrite R1; lia).
      destruct (Hrun _ _ _ _ _ _ _ _ I1 Hm H) as (I2 & E2 & Cb & t & Hd & Ht & Hall).
      rewrite Hh1, R1 in *.
      split; [exact I2|]. split; [eapply ext_trans; eauto|]. split; [exact Cb|].
      exists ((k, x) :: t). split; [|split].
      + rewrite Hd. cbn. now rewrite <- app_assoc.
      + constructor; auto.
      + intros d y [E|Hin]; [|auto]. inversion E. subst d y. split; [eapply seenk_ext; eauto|].
        (* the bound chg' is not smaller than ch: it is at least max chg ch *)
        assert (Hle : ch <= chg') by (apply run_chg_mono in H; lia).
        eapply holds_since_mono; [exact Hle|]. eapply holds_since_ext; [exact E2| |exact HSx].
        now rewrite Hh1, R1.
  Qed.

  Lemma verify_step : forall f, mca_spec f -> verify_spec f -> verify_spec (S f).
  Proof.
    intros f Hm Hv st ds r0 b st' I H. rewrite verify_S in H. destruct ds as [|d ds].
    - inversion H. subst. split; [exact I|]. split; [apply ext_refl|]. intros _ d [].
    - destruct (mca' f st d r0) as [[bd st1]|] eqn:Hd; [|cbv beta iota in H; discriminate]. cbv beta iota in H.
      destruct (Hm _ _ _ _ _ I Hd) as (I1 & E1 & U1). destruct bd; cbv beta iota in H.
      + inversion H. subst. split; [exact I1|]. split; [exact E1|]. discriminate.
      + destruct (Hv _ _ _ _ _ I1 H) as (I2 & E2 & U2).
        pose proof E1 as (R1 & _ & Hh1 & _ & _).
        split; [exact I2|]. split; [eapply ext_trans; eauto|]. intros Hb d' [<-|Hin].
        * eapply unchanged_since_ext; eauto.
        * destruct (U2 Hb d' Hin) as [A B]. rewrite Hh1, R1 in *. split; auto.
  Qed.

  Lemma mca_step : forall f, execute_spec f -> verify_spec f -> mca_spec (S f).
  Proof.
    intros f Hex Hve st k r0 b st' I H. rewrite mca_S in H. destruct k as [i|q].
    - inversion H. subst. split; [exact I|]. split; [apply ext_refl|]. intro Hb.
      apply Nat.ltb_ge in Hb. split; [exact Logic.I|]. intros _ Hr x Hx. cbn in *.
      destruct (inv_H2 _ I i) as [_ Hh]. rewrite Hx, (Hh r0 Hb Hr). symmetry. apply (inv_H1 _ I).
    - destruct (memos st q) as [m|] eqn:Hm.
      + destruct (Nat.eqb (m_verified m) (rev st)) eqn:Ev.
        * apply Nat.eqb_eq in Ev. inversion H. subst. clear H.
          split; [exact I|]. split; [apply ext_refl|]. intro Hb. apply Nat.ltb_ge in Hb.
          pose proof (inv_M _ I _ _ Hm) as [A B (t & Hdt & Ht) D S]. rewrite Ev in *.
          split; [exact S|]. intros Hs Hr x Hx. cbn in *.
          assert (x = m_val m) by (eapply Run_det; [exact Hx|apply D; auto]). subst x.
          eapply Trace_Run; eauto.
        * apply Nat.eqb_neq in Ev.
          destruct (verify' f st (m_deps m) (m_verified m)) as [[bv st1]|] eqn:Hv; [|cbv beta iota in H; discriminate]. cbv beta iota in H.
          destruct (Hve _ _ _ _ _ I Hv) as (I1 & E1 & U).
          pose proof E1 as (R1 & _ & Hh1 & _ & _).
          destruct bv; cbv beta iota in H.
          -- inversion H. subst. clear H.
             destruct (reverify st st1 q m I Hm Ev I1 E1 (U eq_refl)) as (G1 & G2 & G3 & G4).
             split; [exact G1|]. split; [exact G2|]. intro Hb. apply Nat.ltb_ge in Hb.
             split; [cbn; left; now rewrite R1|]. intros Hs Hr x Hx. cbn in Hx |- *.
             destruct G3 as [_ _ _ D' _]. cbn in D'. rewrite Hh1 in D'.
             assert (x = m_val m) by (eapply Run_det; [exact Hx|apply D'; auto; lia]). subst x. exact G4.
          -- destruct (execute' f st1 q (Some m)) as [[[v c] st2]|] eqn:He; [|cbv beta iota in H; discriminate]. cbv beta iota in H.
             inversion H. subst. clear H.
             assert (Hold : forall m0, Some m = Some m0 -> old_ok st1 q m0).
             { intros m0 E. inversion E. subst m0. exact (old_ok_of_memo st st1 q m I Hm Ev E1). }
             destruct (Hex _ _ _ _ _ _ I1 Hold He) as (I2 & E2 & Rv & S2 & Cc & HS).
             rewrite Hh1, R1 in *.
             split; [exact I2|]. split; [eapply ext_trans; eauto|]. intro Hb. apply Nat.ltb_ge in Hb.
             split; [exact S2|]. intros Hs Hr x Hx. cbn in Hx |- *.
             pose proof E2 as (R2 & _ & Hh2 & _ & _).
             assert (Hx' : Run' (hist st r0) (body q) v).
             { specialize (HS r0 Hb). rewrite R2, R1, Hh2, Hh1 in HS. apply HS; auto. }
             assert (x = v) by (eapply Run_det; eauto). subst x. exact Rv.
      + inversion H. subst. split; [exact I|]. split; [apply ext_refl|]. discriminate.
  Qed.

  Theorem all_specs : forall f,
    fetch_spec f /\ execute_spec f /\ run_spec f /\ verify_spec f /\ mca_spec f.
  Proof.
    induction f as [|f (Hf & He & Hr & Hv & Hm)].
    - repeat split; repeat intro; discriminate.
    - split; [apply fetch_step; auto|]. split; [apply execute_step; auto|].
      split; [apply run_step; auto|]. split; [apply verify_step; auto|]. apply mca_step; auto.
  Qed.

  (* ------------------------------------------------------------------------------------------ *)
  (* histories                                                                                  *)
  Lemma Inv_init : forall d, Inv (init V d).
  Proof.
    intro d. constructor.
    - intro i. reflexivity.
    - intro i. cbn. split; [lia|]. auto.
    - intros q m H. discriminate.
    - intros q r [].
    - intros q r [].
  Qed.

  Lemma hist_set_input_old : forall st i v r j,
    r <= rev st -> hist (set_input V st i v) r j = hist st r j.
  Proof.
    intros st i v r j Hr. cbn. destruct (Nat.eqb r (S (rev st))) eqn:E; [|reflexivity].
    apply Nat.eqb_eq in E. lia.
  Qed.

  Lemma Inv_set_input : forall st i v, Inv st -> Inv (set_input V st i v).
  Proof.
    intros st i v I. constructor.
    - intro j. cbn. now rewrite Nat.eqb_refl.
    - intro j. cbn [set_input inputs rev]. destruct (Nat.eqb j i) eqn:E.
      + cbn. split; [lia|]. intros r H1 H2. assert (r = S (rev st)) by lia. subst r.
        rewrite Nat.eqb_refl, E. reflexivity.
      + destruct (inv_H2 _ I j) as [Hc Hh]. split; [lia|]. intros r H1 H2. cbn.
        destruct (Nat.eqb r (S (rev st))) eqn:Er.
        * now rewrite E.
        * apply Nat.eqb_neq in Er. apply Hh; auto. lia.
    - intros q m Hm. cbn in Hm. pose proof (inv_M _ I _ _ Hm) as [A B (t & Hdt & Ht) D S].
      constructor; cbn [rev set_input]; auto.
      + exists t. split; [exact Hdt|]. apply Trace_ext with (e1 := hist st (m_verified m)); [|exact Ht].
        intro j. symmetry. now apply hist_set_input_old.
      + intros r H1 H2 Hs. apply Run_ext with (e1 := hist st r).
        * intro j. symmetry. apply hist_set_input_old. lia.
        * apply D; auto.
    - intros q r Hs. cbn in Hs. destruct (inv_E _ I _ _ Hs) as [Hr Hm]. cbn [rev set_input memos].
      split; [lia|exact Hm].
    - intros q r Hs. cbn in Hs. destruct (inv_E _ I _ _ Hs) as [Hr _].
      destruct (inv_CF _ I _ _ Hs) as (t & v0 & Ht & Hall). exists t, v0. split.
      + apply Trace_ext with (e1 := hist st r); [|exact Ht]. intro j. symmetry. now apply hist_set_input_old.
      + intros d x Hin. specialize (Hall d x Hin). destruct d; cbn in *; auto.
  Qed.

  Theorem memo_correct_from : forall fuel ops st outs,
    Inv st -> run_ops V veq body fuel st ops = Some outs ->
    Forall (fun o => Eval' (fst (fst o)) (snd (fst o)) (snd o)) outs.
  Proof.
    intros fuel ops. induction ops as [|o ops IH]; intros st outs I H.
    - inversion H. constructor.
    - destruct o as [i v|k]; cbn [run_ops] in H.
      + eapply IH; [|exact H]. now apply Inv_set_input.
      + destruct (fetch' fuel st k) as [[[v ch] st']|] eqn:Hf; [|cbv beta iota in H; discriminate]. cbv beta iota in H.
        destruct (run_ops V veq body fuel st' ops) as [outs'|] eqn:Hr; [|discriminate].
        inversion H. subst. clear H.
        destruct (all_specs fuel) as (Hfs & _). destruct (Hfs _ _ _ _ _ I Hf) as (I' & _ & Ev & _).
        constructor; [|eapply IH; eauto]. cbn.
        eapply Eval_ext; [|exact Ev]. intro j. unfold cur_env. apply (inv_H1 _ I).
  Qed.

  Theorem memo_correct : forall d fuel ops outs,
    run_ops V veq body fuel (init V d) ops = Some outs ->
    Forall (fun o => Eval' (fst (fst o)) (snd (fst o)) (snd o)) outs.
  Proof. intros d fuel ops outs H. eapply memo_correct_from; [apply Inv_init|exact H]. Qed.
End Proofs.
