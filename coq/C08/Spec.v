(* C08/Spec.v -- declarative ownership semantics of a lowered function, independent of the demand
   machinery: forward execution along a path with a store of *values*.

   * Introducing a variable (statement output, match-arm variable, parameter) creates a fresh value
     bound to that name, status Unused.
   * A remapping entry dst <- src of a Goto makes dst a second name of the value of src (entries in
     order).  It is not a use.
   * Using a variable x: if x is not copyable the value is moved - a second move of the same value
     (through any of its names) is the violation `BadMoved x`; if x is copyable the value is only
     marked used.
   * A path ends at a Return, at a Panic, or at a panicable call that panics (the IR the checker
     sees has no explicit panic edges for calls yet).  At the end every value that was never used
     must be droppable: Drop, or Destruct, or - when the path ends in a panic (or the function is
     a panic_destruct function) - PanicDestruct; else `BadNotDropped origin`.

   Several outputs of one statement are bound last-to-first (they are simultaneous; the order only
   matters if the list has duplicates, which a lowering never has).
   No proofs in this file. *)
From Coq Require Import List Bool Arith.
From C08 Require Import Lowered.
Import ListNotations.

Inductive vstatus := Unused | Used | Moved.

(* a value: the variable that introduced it, and what happened to it *)
Definition value := (var * vstatus)%type.
Record fstate := FS { env : list (var * nat); vals : list value }.
Definition empty_state : fstate := FS [] [].

Fixpoint elookup (x : var) (e : list (var * nat)) : option nat :=
  match e with
  | [] => None
  | (y, i) :: e' => if Nat.eqb x y then Some i else elookup x e'
  end.

Fixpoint lset {A} (l : list A) (i : nat) (a : A) : list A :=
  match l, i with
  | [], _ => []
  | _ :: l', 0 => a :: l'
  | b :: l', S i' => b :: lset l' i' a
  end.

Inductive path_end :=
| PEnd                      (* the last block runs to its Return / Panic *)
| PCallPanics (i : nat).    (* statement i of the last block, a panicable call, panics *)

(* the blocks visited after the root block, and how the path ends *)
Record path := Path { p_blocks : list blockid; p_end : path_end }.

Inductive verdict := NotAPath | Good | BadMoved (x : var) | BadNotDropped (x : var).

Section Sem.
Variable L : lowered.

Definition droppable_for (x : var) (panicky : bool) : bool :=
  let i := vinfo L x in
  v_droppable i || v_destruct i || (panicky && v_panic_destruct i).

Definition bind (x : var) (s : fstate) : fstate :=
  FS ((x, length (vals s)) :: env s) (vals s ++ [(x, Unused)]).
Definition intro_all (xs : list var) (s : fstate) : fstate := fold_right bind s xs.

Definition alias (e : var * usage) (s : fstate) : fstate :=
  let '(dst, (src, _)) := e in
  match elookup src (env s) with
  | Some i => FS ((dst, i) :: env s) (vals s)
  | None => s
  end.
Definition alias_all (r : list (var * usage)) (s : fstate) : fstate := fold_left (fun s e => alias e s) r s.

(* inr x: x is used after its value was moved *)
Definition use (u : usage) (s : fstate) : fstate + var :=
  let x := fst u in
  match elookup x (env s) with
  | None => inl s
  | Some i =>
      match nth_error (vals s) i with
      | None => inl s
      | Some (o, st) =>
          if copyable L x
          then inl (FS (env s) (lset (vals s) i (o, match st with Unused => Used | _ => st end)))
          else match st with
               | Moved => inr x
               | _ => inl (FS (env s) (lset (vals s) i (o, Moved)))
               end
      end
  end.
Fixpoint use_all (us : list usage) (s : fstate) : fstate + var :=
  match us with
  | [] => inl s
  | u :: us' => match use u s with inl s' => use_all us' s' | inr x => inr x end
  end.

Definition run_stmt (st : stmt) (s : fstate) : fstate + var :=
  match use_all (stmt_inputs st) s with
  | inl s' => inl (intro_all (stmt_outputs st) s')
  | inr x => inr x
  end.
Fixpoint run_stmts (ss : list stmt) (s : fstate) : fstate + var :=
  match ss with
  | [] => inl s
  | st :: ss' => match run_stmt st s with inl s' => run_stmts ss' s' | inr x => inr x end
  end.

(* the first never-used value that cannot be dropped *)
Definition end_verdict (s : fstate) (panicky : bool) : verdict :=
  match find (fun v => match snd v with Unused => negb (droppable_for (fst v) panicky) | _ => false end)
             (vals s) with
  | Some v => BadNotDropped (fst v)
  | None => Good
  end.

Definition uses_then_end (us : list usage) (s : fstate) (panicky : bool) : verdict :=
  match use_all us s with
  | inl s' => end_verdict s' panicky
  | inr x => BadMoved x
  end.

Definition exec_last (blk : block) (pe : path_end) (s : fstate) : verdict :=
  match pe with
  | PEnd =>
      match run_stmts (b_stmts blk) s with
      | inr x => BadMoved x
      | inl s' =>
          match b_end blk with
          | EReturn vs => uses_then_end vs s' (l_is_panic_destruct_fn L)
          | EPanic u => uses_then_end [u] s' true
          | _ => NotAPath
          end
      end
  | PCallPanics i =>
      match run_stmts (firstn i (b_stmts blk)) s with
      | inr x => BadMoved x
      | inl s' =>
          match nth_error (b_stmts blk) i with
          | Some (SCall true _ ins _) => uses_then_end ins s' true
          | _ => NotAPath
          end
      end
  end.

Fixpoint exec_from (cur : blockid) (rest : list blockid) (pe : path_end) (s : fstate) : verdict :=
  match get_block L cur with
  | None => NotAPath
  | Some blk =>
      match rest with
      | [] => exec_last blk pe s
      | nxt :: rest' =>
          match run_stmts (b_stmts blk) s with
          | inr x => BadMoved x
          | inl s' =>
              match b_end blk with
              | EGoto target r =>
                  if Nat.eqb target nxt then exec_from nxt rest' pe (alias_all r s') else NotAPath
              | EMatch _ ins arms =>
                  match use_all ins s' with
                  | inr x => BadMoved x
                  | inl s'' =>
                      match find (fun a => Nat.eqb (fst a) nxt) arms with
                      | Some a => exec_from nxt rest' pe (intro_all (snd a) s'')
                      | None => NotAPath
                      end
                  end
              | _ => NotAPath
              end
          end
      end
  end.

Definition exec_path (p : path) : verdict :=
  exec_from 0 (p_blocks p) (p_end p) (intro_all (l_params L) empty_state).

Definition is_bad (v : verdict) : Prop :=
  match v with BadMoved _ | BadNotDropped _ => True | _ => False end.

(* a path of L on which a non-copyable value is used after it was moved, or a value goes out of
   scope unused although it can be neither dropped nor destructed *)
Definition bad (p : path) : Prop := is_bad (exec_path p).

End Sem.

(* hypothesis of the soundness theorem, checked on every translated function by the tie: the two
   sides of a remapping entry have the same capabilities (in the compiler they have the same type) *)
Definition same_flags (L : lowered) (a b : var) : bool :=
  let x := vinfo L a in let y := vinfo L b in
  Bool.eqb (v_copyable x) (v_copyable y) && Bool.eqb (v_droppable x) (v_droppable y)
  && Bool.eqb (v_destruct x) (v_destruct y) && Bool.eqb (v_panic_destruct x) (v_panic_destruct y).
Definition remap_flags_ok (L : lowered) : bool :=
  forallb (fun blk => match b_end blk with
                      | EGoto _ r => forallb (fun e => same_flags L (fst e) (fst (snd e))) r
                      | _ => true
                      end) (l_blocks L).
