(* C08/Borrow.v -- executable model of the borrow checker of cairo-lang-lowering, transcribed from
     crates/cairo-lang-lowering/src/borrow_check/demand.rs   (Demand: lines 33-141)
     crates/cairo-lang-lowering/src/borrow_check/mod.rs      (PanicState 41-57, DemandReporter
                                                              86-173, Analyzer 175-284,
                                                              borrow_check 300-341)
     crates/cairo-lang-lowering/src/analysis/backward.rs     (BackAnalysis 8-102)
   Diagnostics are accumulated in emission order.  The only abstraction: `Demand.vars` is an
   OrderedHashMap; it is modelled as an association list with distinct keys where `insert` replaces
   in place or appends (as the real one) and `swap_remove` is an order-preserving removal - the
   order of the map only influences the order in which `merge_demands` emits diagnostics, and the
   tie compares diagnostics as multisets.
   A Rust panic (`unwrap` of a missing block info, `unreachable!()`, index out of range, the
   `finalize` assert) or non-termination of the DFS is the diagnostic `InternalError`.
   No proofs in this file. *)
From Coq Require Import List Bool Arith.
From C08 Require Import Lowered.
Import ListNotations.

(* the LoweringDiagnosticKinds the borrow checker reports (diagnostic.rs:207-221), with the variable
   and the location the diagnostic is reported at *)
Inductive diag :=
| VariableMoved (v : var) (at_loc : loc)                 (* at the *next* usage position *)
| VariableNotDropped (v : var) (at_loc : loc)            (* at the variable's location *)
| DesnappingANonCopyableType (v : var) (at_loc : loc)    (* at the output variable's location *)
| InternalError (what : nat).                            (* 0: panic / no termination in the analysis,
                                                            1: the `finalize` assert *)

(* mod.rs:41-57 *)
Inductive panic_state := EndsWithPanic | Otherwise.
Definition is_ewp (a : panic_state) : bool := match a with EndsWithPanic => true | Otherwise => false end.
(* AuxCombine::merge: iter.all(EndsWithPanic) (true on the empty iterator) *)
Definition aux_merge (l : list panic_state) : panic_state :=
  if forallb is_ewp l then EndsWithPanic else Otherwise.

(* demand.rs:33-36 *)
Record demand := Dem { d_vars : list (var * loc); d_aux : panic_state }.
Definition dem_default : demand := Dem [] Otherwise.

Fixpoint dlookup (k : var) (m : list (var * loc)) : option loc :=
  match m with
  | [] => None
  | (k', p) :: m' => if Nat.eqb k k' then Some p else dlookup k m'
  end.
Definition dmem (k : var) (m : list (var * loc)) : bool :=
  match dlookup k m with Some _ => true | None => false end.
(* OrderedHashMap::insert: returns the previous value *)
Fixpoint dset (k : var) (p : loc) (m : list (var * loc)) : list (var * loc) :=
  match m with
  | [] => [(k, p)]
  | (k', p') :: m' => if Nat.eqb k k' then (k, p) :: m' else (k', p') :: dset k p m'
  end.
Definition dinsert (k : var) (p : loc) (m : list (var * loc)) : list (var * loc) * option loc :=
  (dset k p m, dlookup k m).
(* OrderedHashMap::swap_remove (order abstracted) *)
Definition ddel (k : var) (m : list (var * loc)) : list (var * loc) :=
  filter (fun e => negb (Nat.eqb k (fst e))) m.
Definition dremove (k : var) (m : list (var * loc)) : list (var * loc) * option loc :=
  (ddel k m, dlookup k m).

Section Checker.
Variable L : lowered.

(* ---- DemandReporter for BorrowChecker, mod.rs:86-173 ---- *)
(* drop_aux: nothing to report if droppable, or destruct_impl, or (EndsWithPanic and
   panic_destruct_impl); else VariableNotDropped at var.location *)
Definition drop_aux (v : var) (a : panic_state) : list diag :=
  let i := vinfo L v in
  if v_droppable i then []
  else if v_destruct i then []
  else if is_ewp a && v_panic_destruct i then []
  else [VariableNotDropped v (v_loc i)].

(* dup(position, var, next_usage_position) *)
Definition dup (v : var) (next_usage_position : loc) : list diag :=
  if v_copyable (vinfo L v) then [] else [VariableMoved v next_usage_position].

(* ---- Demand, demand.rs ---- *)
(* variables_used (82-101): in reverse order *)
Definition use1 (u : usage) (acc : demand * list diag) : demand * list diag :=
  let '(d, ds) := acc in
  let '(v, pos) := u in
  let '(m, old) := dinsert v pos (d_vars d) in
  (Dem m (d_aux d), ds ++ match old with Some nxt => dup v nxt | None => [] end).
Definition variables_used (us : list usage) (d : demand) : demand * list diag :=
  fold_right use1 (d, []) us.

(* variables_introduced (104-116): in order *)
Definition intro1 (acc : demand * list diag) (v : var) : demand * list diag :=
  let '(d, ds) := acc in
  let '(m, old) := dremove v (d_vars d) in
  match old with
  | Some _ => (Dem m (d_aux d), ds)
  | None => (d, ds ++ drop_aux v (d_aux d))
  end.
Definition variables_introduced (vs : list var) (d : demand) : demand * list diag :=
  fold_left intro1 vs (d, []).

(* apply_remapping (54-79): in reverse order; unused_mapped_var is a no-op for the borrow checker *)
Definition remap1 (e : var * usage) (acc : demand * list diag) : demand * list diag :=
  let '(d, ds) := acc in
  let '(dst, (src, pos)) := e in
  let '(m, old) := dremove dst (d_vars d) in
  match old with
  | Some dest_next =>
      let '(m', old') := dinsert src dest_next m in
      (Dem m' (d_aux d), ds ++ match old' with Some nxt => dup src nxt | None => [] end)
  | None => (d, ds)
  end.
Definition apply_remapping (r : list (var * usage)) (d : demand) : demand * list diag :=
  fold_right remap1 (d, []) r.

(* merge_demands (119-140) *)
Definition extend (m : list (var * loc)) (arm : list (var * loc)) : list (var * loc) :=
  fold_left (fun acc e => dset (fst e) (snd e) acc) arm m.
Definition merge_demands (ds : list demand) : demand * list diag :=
  let vars := fold_left (fun acc d => extend acc (d_vars d)) ds [] in
  let aux := aux_merge (map d_aux ds) in
  (Dem vars aux,
   flat_map (fun e =>
     flat_map (fun d => if dmem (fst e) (d_vars d) then [] else drop_aux (fst e) (d_aux d)) ds) vars).

(* ---- Analyzer for BorrowChecker, mod.rs:175-284 ---- *)
Definition visit_stmt (s : stmt) (acc : demand * list diag) : demand * list diag :=
  let '(d0, ds0) := acc in
  let '(d1, e1) := variables_introduced (stmt_outputs s) d0 in
  let '(d2, e2) :=
    match s with
    | SCall true _ _ _ => merge_demands [Dem [] EndsWithPanic; d1]
    | SDesnap _ out =>
        (d1, if v_copyable (vinfo L out) then []
             else [DesnappingANonCopyableType out (v_loc (vinfo L out))])
    | _ => (d1, [])
    end in
  let '(d3, e3) := variables_used (stmt_inputs s) d2 in
  (d3, ds0 ++ e1 ++ e2 ++ e3).

Definition visit_goto (r : list (var * usage)) (d : demand) : demand * list diag :=
  apply_remapping r d.

Definition merge_match (ins : list usage) (arms : list (blockid * list var)) (infos : list demand)
  : demand * list diag :=
  let armres := map (fun p => variables_introduced (snd (fst p)) (snd p)) (combine arms infos) in
  let '(d, e2) := merge_demands (map fst armres) in
  let '(d', e3) := variables_used ins d in
  (d', flat_map snd armres ++ e2 ++ e3).

Definition info_from_return (vs : list usage) : demand * list diag :=
  variables_used vs (Dem [] (if l_is_panic_destruct_fn L then EndsWithPanic else Otherwise)).

Definition info_from_panic (u : usage) : demand * list diag :=
  variables_used [u] (Dem [] EndsWithPanic).

(* ---- BackAnalysis, backward.rs ---- *)
Definition table := list (option demand).   (* block_info: Vec<Option<Info>> *)

Fixpoint tset (t : table) (b : blockid) (x : option demand) : table :=
  match t, b with
  | [], _ => []
  | _ :: t', 0 => x :: t'
  | y :: t', S b' => y :: tset t' b' x
  end.

(* block_info[arm.block_id].take().unwrap() for every arm, in order *)
Fixpoint take_arms (arms : list (blockid * list var)) (t : table) : option (list demand * table) :=
  match arms with
  | [] => Some ([], t)
  | (b, _) :: arms' =>
      match nth_error t b with
      | Some (Some d) =>
          match take_arms arms' (tset t b None) with
          | Some (ds, t') => Some (d :: ds, t')
          | None => None
          end
      | _ => None
      end
  end.

(* get_end_info (75-101) *)
Definition get_end_info (e : block_end) (t : table) : option (demand * list diag * table) :=
  match e with
  | ENotSet => None
  | EGoto target r =>
      match nth_error t target with
      | Some (Some d) => Some (visit_goto r d, t)
      | _ => None
      end
  | EReturn vs => Some (info_from_return vs, t)
  | EPanic u => Some (info_from_panic u, t)
  | EMatch _ ins arms =>
      match take_arms arms t with
      | Some (infos, t') => Some (merge_match ins arms infos, t')
      | None => None
      end
  end.

(* calc_block_info (32-45): statements backwards *)
Definition calc_block_info (b : blockid) (blk : block) (t : table) : option (table * list diag) :=
  match get_end_info (b_end blk) t with
  | Some (info, t') =>
      let '(d, ds) := fold_right visit_stmt info (b_stmts blk) in
      Some (tset t' b (Some d), ds)
  | None => None
  end.

(* add_missing_dependency_blocks (49-72): the blocks to push, in push order *)
Definition is_missing (t : table) (b : blockid) : option bool :=
  match nth_error t b with
  | Some None => Some true
  | Some (Some _) => Some false
  | None => None
  end.
Fixpoint missing_arms (t : table) (arms : list (blockid * list var)) : option (list blockid) :=
  match arms with
  | [] => Some []
  | (b, _) :: arms' =>
      match is_missing t b, missing_arms t arms' with
      | Some true, Some l => Some (b :: l)
      | Some false, Some l => Some l
      | _, _ => None
      end
  end.
Definition missing_deps (t : table) (e : block_end) : option (list blockid) :=
  match e with
  | ENotSet => None
  | EGoto target _ =>
      match is_missing t target with
      | Some true => Some [target]
      | Some false => Some []
      | None => None
      end
  | EReturn _ | EPanic _ => Some []
  | EMatch _ _ arms => missing_arms t arms
  end.

(* get_root_info (19-29): the `while let Some(block_id) = dfs_stack.last()` loop; the head of
   `stack` is the top of the Rust stack *)
Fixpoint dfs (fuel : nat) (stack : list blockid) (t : table) (ds : list diag)
  : option (table * list diag) :=
  match fuel with
  | 0 => None
  | S fuel' =>
      match stack with
      | [] => Some (t, ds)
      | b :: rest =>
          match get_block L b with
          | None => None
          | Some blk =>
              match missing_deps t (b_end blk) with
              | None => None
              | Some [] =>
                  match calc_block_info b blk t with
                  | Some (t', ds') => dfs fuel' rest t' (ds ++ ds')
                  | None => None
                  end
              | Some ms => dfs fuel' (rev ms ++ stack) t ds
              end
          end
      end
  end.

(* every iteration pushes or pops; a block is popped once per computation of its info, and is
   computed at most once per predecessor edge on a well-formed function *)
Definition dfs_fuel : nat := 4 * (length (l_blocks L) + 1) * (length (l_blocks L) + 1).

(* borrow_check (300-341): root demand, parameters introduced, finalize *)
Definition borrow_check_full : list diag * bool :=
  match l_blocks L with
  | [] => ([], true)                               (* has_root().is_err() *)
  | _ =>
      match dfs dfs_fuel [0] (map (fun _ => None) (l_blocks L)) [] with
      | Some (t, ds) =>
          match nth_error t 0 with
          | Some (Some root) =>
              let '(d, e) := variables_introduced (l_params L) root in
              (ds ++ e, match d_vars d with [] => true | _ => false end)
          | _ => ([InternalError 0], true)
          end
      | None => ([InternalError 0], true)
      end
  end.

(* the assert on finalize (skipped by the real code when the lowering itself reported errors) is
   an internal error *)
Definition borrow_check : list diag :=
  let '(ds, fin) := borrow_check_full in
  if fin then ds else ds ++ [InternalError 1].

(* borrow_check_possible_withdraw_gas (mod.rs:344-371), run by function_with_body_lowering_diagnostics
   (db.rs:668-690) on functions that lie on a Cost cycle when withdraw_gas is added automatically:
   the added withdraw_gas may panic at function entry, so every parameter is dropped with
   PanicState::EndsWithPanic *)
Definition borrow_check_possible_withdraw_gas : list diag :=
  flat_map (fun p => drop_aux p EndsWithPanic) (l_params L).

End Checker.
