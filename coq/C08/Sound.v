(* C08/Sound.v -- soundness of the modelled borrow checker (Borrow.v) for the declarative ownership
   semantics (Spec.v): no diagnostic => no bad path.

   The proof relates the backward demand d at a program point to every forward state s that can
   reach the point, by the invariant [inv d s]:
     - every demanded variable is bound to a value; if the variable is not copyable the value has
       not been moved; the variable and the value's origin have the same drop capabilities;
     - two distinct demanded non-copyable variables are never two names of one value;
     - every value that is still Unused is either the value of a demanded variable (it will be
       used) or droppable in the panic state of the point;
     - bound value ids are allocated.
   Each backward operation of Demand that emits no diagnostic is matched with the forward
   operation of Spec it mirrors (use / bind / alias), then statements, blocks, and the DFS. *)
From Coq Require Import List Bool Arith Lia.
From C08 Require Import Lowered Borrow Spec.
Import ListNotations.

(* ---------- association lists ---------- *)
Lemma dlookup_dset_same k p m : dlookup k (dset k p m) = Some p.
Proof.
  induction m as [|[k' p'] m IH]; cbn.
  - now rewrite Nat.eqb_refl.
  - destruct (Nat.eqb k k') eqn:E; cbn; rewrite ?Nat.eqb_refl, ?E; auto.
Qed.
Lemma dlookup_dset_other k k' p m : k <> k' -> dlookup k' (dset k p m) = dlookup k' m.
Proof.
  intros Hne. induction m as [|[k2 p2] m IH]; cbn.
  - destruct (Nat.eqb k' k) eqn:E; auto. apply Nat.eqb_eq in E. congruence.
  - destruct (Nat.eqb k k2) eqn:E; cbn.
    + apply Nat.eqb_eq in E. subst k2.
      destruct (Nat.eqb k' k) eqn:E2; auto. apply Nat.eqb_eq in E2. congruence.
    + destruct (Nat.eqb k' k2); auto.
Qed.
Lemma dlookup_ddel_same k m : dlookup k (ddel k m) = None.
Proof.
  unfold ddel. induction m as [|[k' p'] m IH]; cbn; auto.
  destruct (Nat.eqb k k') eqn:E; cbn; auto. now rewrite E.
Qed.
Lemma dlookup_ddel_other k k' m : k <> k' -> dlookup k' (ddel k m) = dlookup k' m.
Proof.
  intros Hne. unfold ddel. induction m as [|[k2 p2] m IH]; cbn; auto.
  destruct (Nat.eqb k k2) eqn:E; cbn.
  - apply Nat.eqb_eq in E. subst k2.
    destruct (Nat.eqb k' k) eqn:E2; auto. apply Nat.eqb_eq in E2. congruence.
  - destruct (Nat.eqb k' k2); auto.
Qed.
Lemma dlookup_In k p m : dlookup k m = Some p -> In (k, p) m.
Proof.
  induction m as [|[k' p'] m IH]; cbn; [discriminate|].
  destruct (Nat.eqb k k') eqn:E.
  - apply Nat.eqb_eq in E. intros [= ->]. subst. now left.
  - intros H. right. auto.
Qed.

Lemma eqb_case x v : (x = v /\ Nat.eqb x v = true) \/ (x <> v /\ Nat.eqb x v = false).
Proof.
  destruct (Nat.eq_dec x v) as [->|H].
  - left. split; auto. apply Nat.eqb_refl.
  - right. split; auto. now apply Nat.eqb_neq.
Qed.

Definition dem (d : demand) (x : var) : Prop := dlookup x (d_vars d) <> None.
Lemma dem_dec d x : dem d x \/ ~ dem d x.
Proof. unfold dem. destruct (dlookup x (d_vars d)); [left; discriminate | right; auto]. Qed.

Lemma flat_map_nil {A B} (f : A -> list B) l : flat_map f l = [] -> forall x, In x l -> f x = [].
Proof.
  induction l as [|a l IH]; cbn; [contradiction|].
  intros H x [->|Hin]; apply app_eq_nil in H; destruct H; auto.
Qed.

(* ---------- lists with update ---------- *)
Lemma nth_lset_same {A} (l : list A) i a : i < length l -> nth_error (lset l i a) i = Some a.
Proof. revert i. induction l; intros [|i] H; cbn in *; try lia; auto. apply IHl. lia. Qed.
Lemma nth_lset_other {A} (l : list A) i j a : i <> j -> nth_error (lset l i a) j = nth_error l j.
Proof.
  revert i j. induction l; intros [|i] [|j] H; cbn; auto; try congruence; try (apply IHl; congruence).
Qed.
Lemma length_lset {A} (l : list A) i a : length (lset l i a) = length l.
Proof. revert i. induction l; intros [|i]; cbn; auto. Qed.

Lemma tset_same t b x y : nth_error (tset t b x) b = Some y -> y = x.
Proof.
  revert b. induction t; intros [|b]; cbn; intros H; try discriminate.
  - congruence.
  - eauto.
Qed.
Lemma tset_other t b b' x : b <> b' -> nth_error (tset t b x) b' = nth_error t b'.
Proof.
  revert b b'. induction t; intros [|b] [|b'] H; cbn; auto; try congruence; try (apply IHt; congruence).
Qed.

Section Sound.
Variable L : lowered.
Hypothesis Hflags : remap_flags_ok L = true.

Notation dfl := (droppable_for L).

Lemma dfl_mono o b b' : (b = true -> b' = true) -> dfl o b = true -> dfl o b' = true.
Proof.
  unfold droppable_for. intros Hb H.
  destruct (v_droppable (vinfo L o)), (v_destruct (vinfo L o)); cbn in *; auto.
  apply andb_true_iff in H. destruct H as [H1 H2]. rewrite (Hb H1), H2. reflexivity.
Qed.

Lemma drop_aux_nil x a : drop_aux L x a = [] -> dfl x (is_ewp a) = true.
Proof.
  unfold drop_aux, droppable_for.
  destruct (v_droppable (vinfo L x)); cbn; auto.
  destruct (v_destruct (vinfo L x)); cbn; auto.
  destruct (is_ewp a && v_panic_destruct (vinfo L x)); auto. discriminate.
Qed.
Lemma dup_nil x p : dup L x p = [] -> copyable L x = true.
Proof. unfold dup, copyable. destruct (v_copyable (vinfo L x)); auto. discriminate. Qed.

(* ---------- the invariant ---------- *)
Record inv (d : demand) (s : fstate) : Prop := {
  i_bound : forall x, dem d x ->
      exists i o st, elookup x (env s) = Some i /\ nth_error (vals s) i = Some (o, st)
                     /\ (copyable L x = false -> st <> Moved) /\ (forall pk, dfl x pk = dfl o pk);
  i_sep : forall x y i, dem d x -> dem d y -> x <> y -> copyable L x = false -> copyable L y = false ->
      elookup x (env s) = Some i -> elookup y (env s) = Some i -> False;
  i_drop : forall i o, nth_error (vals s) i = Some (o, Unused) ->
      (exists x, dem d x /\ elookup x (env s) = Some i) \/ dfl o (is_ewp (d_aux d)) = true;
  i_wf : forall x i, elookup x (env s) = Some i -> i < length (vals s) }.

Lemma inv_weaken D d s :
  inv D s ->
  (forall x, dem d x -> dem D x) ->
  (forall x, dem D x -> ~ dem d x -> dfl x (is_ewp (d_aux d)) = true) ->
  (is_ewp (d_aux D) = true -> is_ewp (d_aux d) = true) ->
  inv d s.
Proof.
  intros [Hb Hs Hd Hw] Hsub Hdrop Haux. constructor; auto.
  - intros x y i Hx Hy. apply Hs; auto.
  - intros i o Hn. destruct (Hd i o Hn) as [[x [Hx He]]|Hdf].
    + destruct (dem_dec d x) as [Hdx|Hndx]; [left; eauto|].
      right. destruct (Hb x Hx) as (i' & o' & st' & He' & Hn' & _ & Hfl).
      rewrite He in He'. injection He' as <-. rewrite Hn in Hn'. injection Hn' as <- <-.
      rewrite <- Hfl. auto.
    + right. eapply dfl_mono; eauto.
Qed.

(* ---------- use ---------- *)
Lemma use1_nil u dm em d' : use1 L u (dm, em) = (d', []) -> em = [] /\ use1 L u (dm, []) = (d', []).
Proof.
  unfold use1. destruct u as [v pos]. cbn. intros [= <- H].
  apply app_eq_nil in H. destruct H as [-> H]. split; auto. cbn. now rewrite H.
Qed.

Lemma use_step u d d' : use1 L u (d, []) = (d', []) ->
  forall s, inv d' s -> exists s', use L u s = inl s' /\ inv d s'.
Proof.
  destruct u as [v pos]. unfold use1. cbn. intros [= <- Hdup] s [Hb Hs Hd Hw].
  assert (Hdv : dem (Dem (dset v pos (d_vars d)) (d_aux d)) v).
  { unfold dem. cbn. rewrite dlookup_dset_same. discriminate. }
  assert (Hsub : forall y, dem d y -> dem (Dem (dset v pos (d_vars d)) (d_aux d)) y).
  { intros y Hy. unfold dem in *. cbn. destruct (Nat.eq_dec v y) as [->|Hne].
    - rewrite dlookup_dset_same. discriminate.
    - rewrite dlookup_dset_other; auto. }
  assert (Hback : forall y, y <> v -> dem (Dem (dset v pos (d_vars d)) (d_aux d)) y -> dem d y).
  { intros y Hne Hy. unfold dem in *. cbn in Hy. rewrite dlookup_dset_other in Hy; auto. }
  destruct (Hb v Hdv) as (i & o & st & He & Hn & Hmv & Hfl).
  assert (Hi : i < length (vals s)) by (eapply Hw; eauto).
  unfold use. cbn [fst]. rewrite He, Hn.
  destruct (copyable L v) eqn:Hc.
  - (* copy: the value is marked used *)
    eexists. split; [reflexivity|]. constructor; cbn.
    + intros y Hy. destruct (Hb y (Hsub y Hy)) as (j & o' & st' & He' & Hn' & Hmv' & Hfl').
      destruct (Nat.eq_dec i j) as [<-|Hij].
      * rewrite Hn in Hn'. injection Hn' as <- <-.
        exists i, o, (match st with Unused => Used | _ => st end). repeat split; auto.
        -- now apply nth_lset_same.
        -- intros Hcy. specialize (Hmv' Hcy). destruct st; congruence.
      * exists j, o', st'. repeat split; auto. now rewrite nth_lset_other.
    + intros x y j Hx Hy. apply Hs; auto.
    + intros j o' Hn'. destruct (Nat.eq_dec i j) as [<-|Hij].
      * rewrite nth_lset_same in Hn' by auto. destruct st; discriminate.
      * rewrite nth_lset_other in Hn' by auto.
        destruct (Hd j o' Hn') as [[x [Hx Hex]]|Hdf]; [|right; auto].
        left. exists x. split; auto. apply Hback; auto. intros ->. congruence.
    + intros x j Hex. rewrite length_lset. eauto.
  - (* move *)
    assert (Hnd : dlookup v (d_vars d) = None).
    { destruct (dlookup v (d_vars d)) eqn:E; auto. apply dup_nil in Hdup. congruence. }
    specialize (Hmv eq_refl).
    assert (exists s', (match st with Moved => inr v | _ => inl (FS (env s) (lset (vals s) i (o, Moved))) end)
                       = inl s' /\ s' = FS (env s) (lset (vals s) i (o, Moved))) as (s' & -> & ->).
    { destruct st; try congruence; eauto. }
    eexists. split; [reflexivity|]. constructor; cbn.
    + intros y Hy. destruct (Hb y (Hsub y Hy)) as (j & o' & st' & He' & Hn' & Hmv' & Hfl').
      destruct (Nat.eq_dec i j) as [<-|Hij].
      * (* y is another name of the moved value: y must be copyable *)
        assert (Hyv : y <> v) by (intros ->; apply Hy; auto).
        rewrite Hn in Hn'. injection Hn' as <- <-.
        exists i, o, Moved. repeat split; auto.
        -- now apply nth_lset_same.
        -- intros Hcy. exfalso. eapply (Hs v y i); eauto.
      * exists j, o', st'. repeat split; auto. now rewrite nth_lset_other.
    + intros x y j Hx Hy. apply Hs; auto.
    + intros j o' Hn'. destruct (Nat.eq_dec i j) as [<-|Hij].
      * rewrite nth_lset_same in Hn' by auto. discriminate.
      * rewrite nth_lset_other in Hn' by auto.
        destruct (Hd j o' Hn') as [[x [Hx Hex]]|Hdf]; [|right; auto].
        left. exists x. split; auto. apply Hback; auto. intros ->. congruence.
    + intros x j Hex. rewrite length_lset. eauto.
Qed.

Lemma uses_ok us : forall d d', variables_used L us d = (d', []) ->
  forall s, inv d' s -> exists s', use_all L us s = inl s' /\ inv d s'.
Proof.
  unfold variables_used. induction us as [|u us IH]; cbn; intros d d' H s Hinv.
  - injection H as <-. eauto.
  - destruct (fold_right (use1 L) (d, []) us) as [dm em] eqn:E.
    apply use1_nil in H. destruct H as [-> H].
    destruct (use_step _ _ _ H s Hinv) as (s1 & -> & Hinv1).
    apply (IH d dm E s1 Hinv1).
Qed.

(* ---------- introduction ---------- *)
Lemma intro1_acc vs : forall d e,
  fold_left (intro1 L) vs (d, e) =
  (fst (fold_left (intro1 L) vs (d, [])), e ++ snd (fold_left (intro1 L) vs (d, []))).
Proof.
  induction vs as [|v vs IH]; intros d e; cbn.
  - now rewrite app_nil_r.
  - unfold dremove. destruct (dlookup v (d_vars d)) eqn:E; cbn.
    + apply IH.
    + rewrite IH. rewrite (IH d (drop_aux L v (d_aux d))). cbn. now rewrite app_assoc.
Qed.

Lemma intro_step d v d' : intro1 L (d, []) v = (d', []) ->
  forall s, inv d' s -> inv d (bind v s).
Proof.
  unfold intro1, dremove. intros H s [Hb Hs Hd Hw].
  assert (Hother : forall y, y <> v -> dem d y -> dem d' y).
  { intros y Hne Hy. destruct (dlookup v (d_vars d)) eqn:E.
    - injection H as <-. unfold dem in *. cbn. rewrite dlookup_ddel_other; auto.
    - now injection H as <- _. }
  assert (Hback : forall y, dem d' y -> y <> v /\ dem d y).
  { intros y Hy. destruct (dlookup v (d_vars d)) eqn:E.
    - injection H as <-. unfold dem in *. cbn in Hy. destruct (Nat.eq_dec v y) as [->|Hne].
      + now rewrite dlookup_ddel_same in Hy.
      + rewrite dlookup_ddel_other in Hy; auto.
    - injection H as <- _. split; auto. intros ->. apply Hy. exact E. }
  assert (Haux : d_aux d' = d_aux d).
  { destruct (dlookup v (d_vars d)); [now injection H as <- | now injection H as <- _]. }
  assert (Hnew : ~ dem d v -> dfl v (is_ewp (d_aux d)) = true).
  { intros Hnv. destruct (dlookup v (d_vars d)) eqn:E.
    - exfalso. apply Hnv. unfold dem. rewrite E. discriminate.
    - injection H as _ H. now apply drop_aux_nil. }
  assert (Hnth : forall j, j < length (vals s) ->
            nth_error (vals s ++ [(v, Unused)]) j = nth_error (vals s) j).
  { intros j Hj. now rewrite nth_error_app1. }
  unfold bind. constructor; cbn.
  - intros y Hy. destruct (Nat.eqb y v) eqn:Eyv.
    + apply Nat.eqb_eq in Eyv. subst y. exists (length (vals s)), v, Unused. repeat split; auto.
      * rewrite nth_error_app2 by lia. now rewrite Nat.sub_diag.
      * discriminate.
    + apply Nat.eqb_neq in Eyv.
      destruct (Hb y (Hother y Eyv Hy)) as (j & o' & st' & He' & Hn' & Hmv' & Hfl').
      exists j, o', st'. repeat split; auto. rewrite Hnth; eauto.
  - intros x y j Hx Hy Hxy Hcx Hcy.
    destruct (eqb_case x v) as [[Exv ->]|[Exv ->]]; destruct (eqb_case y v) as [[Eyv ->]|[Eyv ->]];
      intros Hex Hey.
    + congruence.
    + injection Hex as <-. apply Hw in Hey. lia.
    + injection Hey as <-. apply Hw in Hex. lia.
    + eapply (Hs x y j); eauto.
  - intros j o' Hn'. destruct (Nat.lt_ge_cases j (length (vals s))) as [Hj|Hj].
    + rewrite Hnth in Hn' by auto. rewrite <- Haux.
      destruct (Hd j o' Hn') as [[x [Hx Hex]]|Hdf]; [|right; auto].
      left. destruct (Hback x Hx) as [Hne Hdx]. exists x. split; auto.
      apply Nat.eqb_neq in Hne. now rewrite Hne.
    + rewrite nth_error_app2 in Hn' by lia.
      destruct (j - length (vals s)) as [|k] eqn:Ek; cbn in Hn'; [|destruct k; discriminate].
      injection Hn' as <-. assert (j = length (vals s)) by lia. subst j.
      destruct (dem_dec d v) as [Hdv|Hndv].
      * left. exists v. split; auto. now rewrite Nat.eqb_refl.
      * right. auto.
  - intros x j. rewrite app_length. cbn. destruct (Nat.eqb x v).
    + intros [= <-]. lia.
    + intros Hex. apply Hw in Hex. lia.
Qed.

Lemma intros_ok vs : forall d d', variables_introduced L vs d = (d', []) ->
  forall s, inv d' s -> inv d (intro_all vs s).
Proof.
  unfold variables_introduced. induction vs as [|v vs IH]; intros d d' H s Hinv.
  - cbn in H. now injection H as <-.
  - change (fold_left (intro1 L) vs (intro1 L (d, []) v) = (d', [])) in H.
    destruct (intro1 L (d, []) v) as [d1 e1] eqn:E1. rewrite intro1_acc in H.
    injection H as H1 H2. apply app_eq_nil in H2. destruct H2 as [-> H2].
    change (intro_all (v :: vs) s) with (bind v (intro_all vs s)).
    eapply intro_step; eauto. eapply (IH d1 d'); eauto.
    destruct (fold_left (intro1 L) vs (d1, [])); cbn in *. congruence.
Qed.

(* ---------- remapping ---------- *)
Lemma same_flags_spec a b : same_flags L a b = true ->
  copyable L a = copyable L b /\ forall pk, dfl a pk = dfl b pk.
Proof.
  unfold same_flags, copyable, droppable_for. intros H.
  repeat (apply andb_true_iff in H; destruct H as [H ?]).
  repeat match goal with H : Bool.eqb _ _ = true |- _ => apply eqb_prop in H end.
  split; [auto|]. intros pk. congruence.
Qed.

Lemma remap1_nil e dm em d' : remap1 L e (dm, em) = (d', []) -> em = [] /\ remap1 L e (dm, []) = (d', []).
Proof.
  unfold remap1. destruct e as [dst [src pos]]. unfold dremove, dinsert.
  destruct (dlookup dst (d_vars dm)); cbn.
  - intros [= <- H]. apply app_eq_nil in H. destruct H as [-> H]. split; auto. now rewrite H.
  - intros [= <- ->]. auto.
Qed.

Lemma remap_step e d d' : same_flags L (fst e) (fst (snd e)) = true ->
  remap1 L e (d, []) = (d', []) -> forall s, inv d' s -> inv d (alias e s).
Proof.
  destruct e as [dst [src pos]]. cbn [fst snd]. intros Hfl H s Hinv.
  apply same_flags_spec in Hfl. destruct Hfl as [Hcp Hdf].
  unfold remap1, dremove, dinsert in H. unfold alias.
  destruct (dlookup dst (d_vars d)) as [dn|] eqn:Edst.
  - (* dst is demanded: src takes over its demand *)
    cbn in H. injection H as <- Hdup.
    set (m := ddel dst (d_vars d)) in *.
    set (d' := Dem (dset src dn m) (d_aux d)).
    assert (Hsrc : dem d' src).
    { unfold dem, d'. cbn. rewrite dlookup_dset_same. discriminate. }
    assert (Hother : forall y, y <> dst -> dem d y -> dem d' y).
    { intros y Hne Hy. unfold dem, d' in *. cbn. destruct (Nat.eq_dec src y) as [->|Hsy].
      - rewrite dlookup_dset_same. discriminate.
      - rewrite dlookup_dset_other by auto. unfold m. rewrite dlookup_ddel_other; auto. }
    assert (Hback : forall y, dem d' y -> y <> src -> y <> dst /\ dem d y).
    { intros y Hy Hne. unfold dem, d' in *. cbn in Hy. rewrite dlookup_dset_other in Hy by auto.
      unfold m in Hy. destruct (Nat.eq_dec dst y) as [->|Hdy].
      - now rewrite dlookup_ddel_same in Hy.
      - rewrite dlookup_ddel_other in Hy; auto. }
    assert (Hsrc_dem : dem d src -> src <> dst -> copyable L src = true).
    { intros Hds Hne. unfold dem in Hds.
      destruct (dlookup src m) eqn:E.
      - now apply dup_nil in Hdup.
      - unfold m in E. rewrite dlookup_ddel_other in E by auto. congruence. }
    destruct Hinv as [Hb Hs Hd Hw].
    destruct (Hb src Hsrc) as (i & o & st & He & Hn & Hmv & Hfl).
    rewrite He. constructor; cbn.
    + intros y Hy. destruct (Nat.eqb y dst) eqn:Eyd.
      * apply Nat.eqb_eq in Eyd. subst y. exists i, o, st. repeat split; auto.
        -- rewrite Hcp. auto.
        -- intros pk. rewrite Hdf. auto.
      * apply Nat.eqb_neq in Eyd. apply (Hb y (Hother y Eyd Hy)).
    + intros x y j Hx Hy Hxy Hcx Hcy.
      destruct (eqb_case x dst) as [[Exd ->]|[Exd ->]]; destruct (eqb_case y dst) as [[Eyd ->]|[Eyd ->]];
        intros Hex Hey.
      * congruence.
      * subst x. injection Hex as <-.
        destruct (Nat.eq_dec y src) as [->|Hys].
        -- rewrite (Hsrc_dem Hy) in Hcy; auto. discriminate.
        -- eapply (Hs src y i); eauto; congruence.
      * subst y. injection Hey as <-.
        destruct (Nat.eq_dec x src) as [->|Hxs].
        -- rewrite (Hsrc_dem Hx) in Hcx; auto. discriminate.
        -- eapply (Hs src x i); eauto; congruence.
      * eapply (Hs x y j); eauto.
    + intros j o' Hn'. destruct (Hd j o' Hn') as [[x [Hx Hex]]|Hdrop]; [|right; auto].
      left. destruct (Nat.eq_dec x src) as [->|Hxs].
      * exists dst. split.
        -- unfold dem. rewrite Edst. discriminate.
        -- rewrite Nat.eqb_refl. congruence.
      * destruct (Hback x Hx Hxs) as [Hxd Hdx]. exists x. split; auto.
        apply Nat.eqb_neq in Hxd. now rewrite Hxd.
    + intros x j. destruct (Nat.eqb x dst).
      * intros [= <-]. eauto.
      * eauto.
  - (* dst is not demanded: the entry changes nothing that is looked at *)
    cbn in H. injection H as <-.
    destruct (elookup src (env s)) as [i|] eqn:Esrc; auto.
    destruct Hinv as [Hb Hs Hd Hw].
    assert (Hne : forall y, dem d y -> Nat.eqb y dst = false).
    { intros y Hy. apply Nat.eqb_neq. intros ->. apply Hy. exact Edst. }
    constructor; cbn.
    + intros y Hy. rewrite (Hne y Hy). auto.
    + intros x y j Hx Hy. rewrite (Hne x Hx), (Hne y Hy). eauto.
    + intros j o' Hn'. destruct (Hd j o' Hn') as [[x [Hx Hex]]|Hdrop]; [|right; auto].
      left. exists x. split; auto. now rewrite (Hne x Hx).
    + intros x j. destruct (Nat.eqb x dst).
      * intros [= <-]. eauto.
      * eauto.
Qed.

Lemma remaps_ok r : Forall (fun e => same_flags L (fst e) (fst (snd e)) = true) r ->
  forall d d', apply_remapping L r d = (d', []) -> forall s, inv d' s -> inv d (alias_all r s).
Proof.
  unfold apply_remapping, alias_all. induction 1 as [|e r He Hr IH]; cbn; intros d d' H s Hinv.
  - now injection H as <-.
  - destruct (fold_right (remap1 L) (d, []) r) as [dm em] eqn:E.
    apply remap1_nil in H. destruct H as [-> H].
    eapply IH; eauto. eapply remap_step; eauto.
Qed.

(* ---------- merge ---------- *)
Lemma extend_dem x arm : forall m,
  dlookup x (extend m arm) <> None <-> (dlookup x m <> None \/ dlookup x arm <> None).
Proof.
  unfold extend. induction arm as [|[k p] arm IH]; intros m; cbn.
  - split; [auto|]. intros [H|H]; auto; congruence.
  - rewrite IH. destruct (Nat.eqb x k) eqn:E.
    + apply Nat.eqb_eq in E. subst k. rewrite dlookup_dset_same. split; intros _; [right|left]; discriminate.
    + apply Nat.eqb_neq in E. rewrite dlookup_dset_other by auto. tauto.
Qed.

Lemma merge_vars_dem x ds : forall m,
  dlookup x (fold_left (fun acc d => extend acc (d_vars d)) ds m) <> None <->
  (dlookup x m <> None \/ exists d, In d ds /\ dem d x).
Proof.
  induction ds as [|d ds IH]; intros m; cbn.
  - split; [auto|]. intros [H|[d [[] _]]]; auto.
  - rewrite IH, extend_dem. split.
    + intros [[H|H]|[d' [Hin H]]]; eauto.
    + intros [H|[d' [[->|Hin] H]]]; eauto.
Qed.

Lemma is_ewp_merge l : is_ewp (aux_merge l) = forallb is_ewp l.
Proof. unfold aux_merge. destruct (forallb is_ewp l); reflexivity. Qed.

Lemma merge_ok ds D : merge_demands L ds = (D, []) ->
  (forall x, dem D x <-> exists d, In d ds /\ dem d x) /\
  (forall d, In d ds -> forall x, dem D x -> ~ dem d x -> dfl x (is_ewp (d_aux d)) = true) /\
  (is_ewp (d_aux D) = true -> forall d, In d ds -> is_ewp (d_aux d) = true).
Proof.
  unfold merge_demands. intros [= <- Hnil]. repeat split.
  - unfold dem at 1. cbn. rewrite merge_vars_dem. cbn. intros [H|H]; auto. congruence.
  - unfold dem at 1. cbn. intros H. apply merge_vars_dem. auto.
  - intros d Hin x Hx Hnx. unfold dem in Hx. cbn in Hx.
    destruct (dlookup x _) as [p|] eqn:E; [|congruence]. apply dlookup_In in E.
    pose proof (flat_map_nil _ _ Hnil _ E) as H1. cbn in H1.
    pose proof (flat_map_nil _ _ H1 _ Hin) as H2. cbn in H2.
    unfold dmem in H2. unfold dem in Hnx.
    destruct (dlookup x (d_vars d)); [exfalso; apply Hnx; discriminate|].
    now apply drop_aux_nil.
  - cbn. rewrite is_ewp_merge. intros H d Hin.
    rewrite forallb_forall in H. apply H. now apply in_map.
Qed.

(* ---------- end of path ---------- *)
Lemma end_good s pk :
  (forall i o, nth_error (vals s) i = Some (o, Unused) -> dfl o pk = true) -> end_verdict L s pk = Good.
Proof.
  intros H. unfold end_verdict.
  match goal with |- context [find ?f (vals s)] => destruct (find f (vals s)) as [[o st]|] eqn:E end; auto.
  apply find_some in E. destruct E as [Hin Hp]. cbn in Hp.
  apply In_nth_error in Hin. destruct Hin as [i Hi].
  destruct st; try discriminate. rewrite (H i o Hi) in Hp. discriminate.
Qed.

Lemma end_ok vs aux d : variables_used L vs (Dem [] aux) = (d, []) ->
  forall s, inv d s -> uses_then_end L vs s (is_ewp aux) = Good.
Proof.
  intros H s Hinv. destruct (uses_ok _ _ _ H s Hinv) as (s' & Hu & [Hb Hs Hd Hw]).
  unfold uses_then_end. rewrite Hu. apply end_good. intros i o Hn.
  destruct (Hd i o Hn) as [[x [Hx _]]|Hdf]; [exfalso; apply Hx; reflexivity | auto].
Qed.

(* ---------- statements ---------- *)
Lemma visit_stmt_nil st dm em d' :
  visit_stmt L st (dm, em) = (d', []) -> em = [] /\ visit_stmt L st (dm, []) = (d', []).
Proof.
  unfold visit_stmt.
  destruct (variables_introduced L (stmt_outputs st) dm) as [d1 e1].
  destruct (match st with
            | SCall true _ _ _ => merge_demands L [Dem [] EndsWithPanic; d1]
            | SDesnap _ out => (d1, if v_copyable (vinfo L out) then []
                                    else [DesnappingANonCopyableType out (v_loc (vinfo L out))])
            | _ => (d1, [])
            end) as [d2 e2].
  destruct (variables_used L (stmt_inputs st) d2) as [d3 e3].
  intros [= <- H]. apply app_eq_nil in H. destruct H as [-> H]. split; auto. now rewrite H.
Qed.

Lemma stmt_ok st d0 d3 : visit_stmt L st (d0, []) = (d3, []) ->
  forall s, inv d3 s ->
    (exists s', run_stmt L st s = inl s' /\ inv d0 s') /\
    (forall cl ins outs, st = SCall true cl ins outs -> uses_then_end L ins s true = Good).
Proof.
  unfold visit_stmt.
  destruct (variables_introduced L (stmt_outputs st) d0) as [d1 e1] eqn:E1.
  destruct (match st with
            | SCall true _ _ _ => merge_demands L [Dem [] EndsWithPanic; d1]
            | SDesnap _ out => (d1, if v_copyable (vinfo L out) then []
                                    else [DesnappingANonCopyableType out (v_loc (vinfo L out))])
            | _ => (d1, [])
            end) as [d2 e2] eqn:E2.
  destruct (variables_used L (stmt_inputs st) d2) as [d3' e3] eqn:E3.
  cbn. intros [= <- H] s Hinv.
  apply app_eq_nil in H. destruct H as [-> H]. apply app_eq_nil in H. destruct H as [-> ->].
  destruct (uses_ok _ _ _ E3 s Hinv) as (s1 & Hu & Hinv2).
  assert (Hinv1 : inv d1 s1 /\
          (forall cl ins outs, st = SCall true cl ins outs ->
             forall i o, nth_error (vals s1) i = Some (o, Unused) -> dfl o true = true)).
  { destruct st as [| [|] cl ins outs | | | | | | |]; try (assert (d2 = d1) by (inversion E2; auto); subst d2; split; [auto|discriminate]).
    apply merge_ok in E2. destruct E2 as (Hdem & Hdrop & Haux).
    assert (Heq : forall x, dem d2 x <-> dem d1 x).
    { intros x. rewrite Hdem. split.
      - intros [d [[<-|[<-|[]]] H]]; auto. exfalso. apply H. reflexivity.
      - intros H. exists d1. cbn. auto. }
    split.
    - eapply inv_weaken; eauto.
      + intros x. apply Heq.
      + intros x Hx Hnx. exfalso. apply Hnx. now apply Heq.
      + intros Ha. apply (Haux Ha). cbn. auto.
    - intros _ _ _ _ i o Hn. destruct Hinv2 as [Hb Hs Hd Hw].
      destruct (Hd i o Hn) as [[x [Hx Hex]]|Hdf].
      + destruct (Hb x Hx) as (i' & o' & st' & He' & Hn' & _ & Hfl).
        rewrite Hex in He'. injection He' as <-. rewrite Hn in Hn'. injection Hn' as <- <-.
        rewrite <- Hfl. apply (Hdrop (Dem [] EndsWithPanic)); cbn; auto;
          intros Hc; apply Hc; reflexivity.
      + apply (dfl_mono o (is_ewp (d_aux d2)) true); auto. }
  destruct Hinv1 as [Hinv1 Hpanic]. split.
  - unfold run_stmt. rewrite Hu. eexists. split; [reflexivity|].
    eapply intros_ok; eauto.
  - intros cl ins outs ->. cbn in Hu. unfold uses_then_end. rewrite Hu.
    apply end_good. eapply Hpanic; eauto.
Qed.

Lemma stmts_ok ss : forall info d, fold_right (visit_stmt L) info ss = (d, []) ->
  snd info = [] /\
  forall s, inv d s ->
    (exists s', run_stmts L ss s = inl s' /\ inv (fst info) s') /\
    (forall i, exists s', run_stmts L (firstn i ss) s = inl s' /\
        forall cl ins outs, nth_error ss i = Some (SCall true cl ins outs) ->
          uses_then_end L ins s' true = Good).
Proof.
  induction ss as [|st ss IH]; cbn; intros info d H.
  - subst info. split; auto. intros s Hinv. split; [eauto|].
    intros i. exists s. split; [now destruct i|]. intros ? ? ?. destruct i; discriminate.
  - destruct (fold_right (visit_stmt L) info ss) as [dm em] eqn:E.
    apply visit_stmt_nil in H. destruct H as [-> H].
    destruct (IH info dm E) as [Hinfo IH']. split; auto.
    intros s Hinv. destruct (stmt_ok _ _ _ H s Hinv) as [(s1 & Hr & Hinv1) Hp].
    destruct (IH' s1 Hinv1) as [(s' & Hrs & Hinv') Hpre]. split.
    + rewrite Hr. eauto.
    + intros [|i]; cbn.
      * exists s. split; auto. intros cl ins outs [= ->]. eapply Hp; eauto.
      * rewrite Hr. apply Hpre.
Qed.

(* ---------- blocks ---------- *)
Definition block_ok (b : blockid) (d : demand) : Prop :=
  forall s, inv d s -> forall rest pe, ~ is_bad (exec_from L b rest pe s).
Definition table_ok (t : table) : Prop :=
  forall b d, nth_error t b = Some (Some d) -> block_ok b d.

Lemma take_arms_spec arms : forall t infos t', take_arms arms t = Some (infos, t') ->
  length arms = length infos /\
  (forall a dk, In (a, dk) (combine arms infos) -> nth_error t (fst a) = Some (Some dk)) /\
  (forall b d, nth_error t' b = Some (Some d) -> nth_error t b = Some (Some d)).
Proof.
  induction arms as [|[b vs] arms IH]; cbn; intros t infos t' H.
  - injection H as <- <-. cbn. repeat split; auto. contradiction.
  - destruct (nth_error t b) as [[d|]|] eqn:E; try discriminate.
    destruct (take_arms arms (tset t b None)) as [[ds t1]|] eqn:E1; try discriminate.
    injection H as <- <-. destruct (IH _ _ _ E1) as (Hlen & Hin & Ht).
    assert (Hup : forall b' d', nth_error (tset t b None) b' = Some (Some d') ->
                                nth_error t b' = Some (Some d')).
    { intros b' d' H'. destruct (Nat.eq_dec b b') as [<-|Hne].
      - apply tset_same in H'. discriminate.
      - now rewrite tset_other in H'. }
    cbn. split; [auto|split].
    + intros a dk [[= <- <-]|H']; cbn; auto.
    + intros b' d' H'. auto.
Qed.

Lemma in_combine_exists {A B} (l : list A) (l' : list B) a :
  length l = length l' -> In a l -> exists b, In (a, b) (combine l l').
Proof.
  revert l'. induction l as [|x l IH]; intros [|y l'] Hlen; cbn in *; try discriminate; try contradiction.
  intros [->|Hin]; eauto. destruct (IH l' ltac:(lia) Hin) as [b Hb]. eauto.
Qed.

Lemma block_flags b blk target r : get_block L b = Some blk -> b_end blk = EGoto target r ->
  Forall (fun e => same_flags L (fst e) (fst (snd e)) = true) r.
Proof.
  intros Hg He. unfold remap_flags_ok in Hflags. rewrite forallb_forall in Hflags.
  apply nth_error_In in Hg. specialize (Hflags blk Hg). rewrite He in Hflags.
  rewrite forallb_forall in Hflags. apply Forall_forall. auto.
Qed.

Lemma calc_ok b blk t t' : get_block L b = Some blk -> table_ok t ->
  calc_block_info L b blk t = Some (t', []) -> table_ok t'.
Proof.
  intros Hg Ht. unfold calc_block_info.
  destruct (get_end_info L (b_end blk) t) as [[info t1]|] eqn:Eend; try discriminate.
  destruct (fold_right (visit_stmt L) info (b_stmts blk)) as [d ds] eqn:Efold.
  intros [= <- ->].
  destruct (stmts_ok _ _ _ Efold) as [Hinfo Hss].
  destruct info as [de ee]. cbn in Hinfo. subst ee. cbn [fst] in Hss.
  assert (Ht1 : table_ok t1).
  { unfold get_end_info in Eend. destruct (b_end blk) as [|vs|u|target r|ml ins arms]; try discriminate.
    - now injection Eend as _ <-.
    - now injection Eend as _ <-.
    - destruct (nth_error t target) as [[dt|]|]; try discriminate. now injection Eend as _ <-.
    - destruct (take_arms arms t) as [[infos t2]|] eqn:Et; try discriminate.
      injection Eend as _ <-. apply take_arms_spec in Et. destruct Et as (_ & _ & Hsub).
      intros b' d' H'. apply Ht. auto. }
  intros b' d' H'. destruct (Nat.eq_dec b b') as [<-|Hne]; [|rewrite tset_other in H' by auto; auto].
  apply tset_same in H'. injection H' as <-.
  (* the block itself *)
  intros s Hinv rest pe. destruct (Hss s Hinv) as [(s' & Hrun & Hinv') Hpre].
  destruct rest as [|nxt rest]; cbn; rewrite Hg.
  - (* last block of the path *)
    unfold exec_last. destruct pe as [|i].
    + rewrite Hrun. unfold get_end_info in Eend.
      destruct (b_end blk) as [|vs|u|target r|ml ins arms]; [cbn; auto| | |cbn; auto|cbn; auto].
      * injection Eend as Hi _. unfold info_from_return in Hi.
        pose proof (end_ok vs _ de Hi s' Hinv') as Hg'.
        assert (Hpk : is_ewp (if l_is_panic_destruct_fn L then EndsWithPanic else Otherwise)
                      = l_is_panic_destruct_fn L) by (destruct (l_is_panic_destruct_fn L); reflexivity).
        rewrite Hpk in Hg'. rewrite Hg'. cbn. auto.
      * injection Eend as Hi _. unfold info_from_panic in Hi.
        pose proof (end_ok [u] EndsWithPanic de Hi s' Hinv') as Hg'. cbn [is_ewp] in Hg'.
        rewrite Hg'. cbn. auto.
    + destruct (Hpre i) as (sp & -> & Hp).
      destruct (nth_error (b_stmts blk) i) as [[| [|] cl ins outs | | | | | | |]|]; cbn; auto.
      rewrite (Hp cl ins outs eq_refl). cbn. auto.
  - (* the path continues in nxt *)
    rewrite Hrun. unfold get_end_info in Eend.
    destruct (b_end blk) as [|vs|u|target r|ml ins arms] eqn:Ebe; cbn; auto.
    + destruct (nth_error t target) as [[dt|]|] eqn:Etg; try discriminate.
      injection Eend as Hi _. unfold visit_goto in Hi.
      destruct (Nat.eqb target nxt) eqn:Etn; cbn; auto.
      apply Nat.eqb_eq in Etn. subst nxt.
      apply (Ht target dt Etg). eapply remaps_ok; eauto. eapply block_flags; eauto.
    + destruct (take_arms arms t) as [[infos t2]|] eqn:Et; try discriminate.
      injection Eend as Hi _. apply take_arms_spec in Et. destruct Et as (Hlen & Hin & _).
      unfold merge_match in Hi.
      set (armres := map (fun p : blockid * list var * demand =>
                            variables_introduced L (snd (fst p)) (snd p)) (combine arms infos)) in *.
      destruct (merge_demands L (map fst armres)) as [D e2] eqn:Em.
      destruct (variables_used L ins D) as [de' e3] eqn:Eu.
      injection Hi as <- Hnil.
      apply app_eq_nil in Hnil. destruct Hnil as [Hn1 Hnil].
      apply app_eq_nil in Hnil. destruct Hnil as [-> ->].
      destruct (uses_ok _ _ _ Eu s' Hinv') as (s2 & -> & HinvD).
      destruct (find (fun a => Nat.eqb (fst a) nxt) arms) as [a|] eqn:Ef; cbn; auto.
      apply find_some in Ef. destruct Ef as [Hina Hnx]. apply Nat.eqb_eq in Hnx. subst nxt.
      destruct (in_combine_exists arms infos a Hlen Hina) as [dk Hk].
      apply (Ht (fst a) dk (Hin a dk Hk)).
      destruct (variables_introduced L (snd a) dk) as [dk' ek] eqn:Ek.
      assert (Hres : In (dk', ek) armres).
      { unfold armres. apply in_map_iff. exists (a, dk). cbn. auto. }
      assert (ek = []) by (apply (flat_map_nil _ _ Hn1 _ Hres)). subst ek.
      eapply intros_ok; eauto.
      apply merge_ok in Em. destruct Em as (Hdem & Hdrop & Haux).
      assert (Hindk : In dk' (map fst armres)).
      { apply in_map_iff. exists (dk', []). auto. }
      eapply inv_weaken; eauto.
      * intros x Hx. apply Hdem. eauto.
Qed.

Lemma dfs_ok fuel : forall stack t ds t',
  dfs L fuel stack t ds = Some (t', []) -> ds = [] /\ (table_ok t -> table_ok t').
Proof.
  induction fuel as [|fuel IH]; cbn; intros stack t ds t' H; try discriminate.
  destruct stack as [|b rest].
  - injection H as <- <-. auto.
  - destruct (get_block L b) as [blk|] eqn:Eg; try discriminate.
    destruct (missing_deps t (b_end blk)) as [[|m ms]|] eqn:Em; try discriminate.
    + destruct (calc_block_info L b blk t) as [[t1 ds1]|] eqn:Ec; try discriminate.
      apply IH in H. destruct H as [Hnil Hok]. apply app_eq_nil in Hnil. destruct Hnil as [-> ->].
      split; auto. intros Ht. apply Hok. eapply calc_ok; eauto.
    + apply IH in H. auto.
Qed.

Theorem borrow_sound : borrow_check L = [] -> forall p, ~ bad L p.
Proof.
  unfold borrow_check, borrow_check_full, bad, exec_path. intros H p.
  destruct (l_blocks L) as [|b0 bs] eqn:Eb.
  - (* no root block *)
    destruct (p_blocks p); cbn; unfold get_block; rewrite Eb; cbn; auto.
  - rewrite <- Eb in *.
    destruct (dfs L (dfs_fuel L) [0] (map (fun _ => None) (l_blocks L)) []) as [[t ds]|] eqn:Ed;
      try discriminate.
    destruct (nth_error t 0) as [[root|]|] eqn:Er; try discriminate.
    destruct (variables_introduced L (l_params L) root) as [d e] eqn:Ei.
    assert (Hall : ds = [] /\ e = [] /\ d_vars d = []).
    { destruct (d_vars d) eqn:Ev.
      - apply app_eq_nil in H. tauto.
      - apply app_eq_nil in H. destruct H as [_ H]. discriminate. }
    destruct Hall as (-> & -> & Hfin).
    apply dfs_ok in Ed. destruct Ed as [_ Hok].
    assert (Ht : table_ok t).
    { apply Hok. intros b d' Hn. exfalso.
      rewrite nth_error_map in Hn. destruct (nth_error (l_blocks L) b); discriminate. }
    apply (Ht 0 root Er). eapply intros_ok; eauto.
    constructor; cbn.
    + intros x Hx. exfalso. apply Hx. unfold dem. now rewrite Hfin.
    + intros x y i Hx. exfalso. apply Hx. now rewrite Hfin.
    + intros i o Hn. destruct i; discriminate.
    + intros x i Hx. discriminate.
Qed.

End Sound.
