(* C08/Complete.v -- a completeness result for the shape of violation that the mutation generator
   injects: a non-copyable variable used twice in one block (twice in one input list, or by two
   statements with no re-introduction in between), in a block reachable from the root.  If the
   analysis terminates normally, the modelled checker reports VariableMoved for that variable.
   (Full completeness w.r.t. Spec.v is not proved.) *)
From Coq Require Import List Bool Arith Lia.
From C08 Require Import Lowered Borrow Spec Sound.
Import ListNotations.

Definition uses (v : var) (s : stmt) : Prop := In v (map fst (stmt_inputs s)).

(* v is used by some statement of the list before being re-introduced *)
Inductive uses_later (v : var) : list stmt -> Prop :=
| ul_here s ss : uses v s -> uses_later v (s :: ss)
| ul_next s ss : ~ In v (stmt_outputs s) -> uses_later v ss -> uses_later v (s :: ss).

Inductive double_use (v : var) : list stmt -> Prop :=
| du_same s ss a b c : map fst (stmt_inputs s) = a ++ v :: b ++ v :: c -> double_use v (s :: ss)
| du_split s ss : uses v s -> ~ In v (stmt_outputs s) -> uses_later v ss -> double_use v (s :: ss)
| du_skip s ss : double_use v ss -> double_use v (s :: ss).

Definition succs (e : block_end) : list blockid :=
  match e with
  | EGoto t _ => [t]
  | EMatch _ _ arms => map fst arms
  | _ => []
  end.

Section Complete.
Variable L : lowered.

Inductive reach : blockid -> blockid -> Prop :=
| reach_refl b : reach b b
| reach_step b blk b' b'' : get_block L b = Some blk -> In b' (succs (b_end blk)) -> reach b' b'' ->
    reach b b''.

(* ---------- Demand operations keep / add demand and only append diagnostics ---------- *)
Lemma dem_dset d k p x : dem d x \/ x = k -> dem (Dem (dset k p (d_vars d)) (d_aux d)) x.
Proof.
  unfold dem. cbn. intros [H| ->].
  - destruct (Nat.eq_dec k x) as [->|Hne].
    + rewrite dlookup_dset_same. discriminate.
    + rewrite dlookup_dset_other; auto.
  - rewrite dlookup_dset_same. discriminate.
Qed.

Lemma use1_fst u d e : fst (use1 L u (d, e)) = Dem (dset (fst u) (snd u) (d_vars d)) (d_aux d).
Proof. destruct u. reflexivity. Qed.
Lemma use1_snd_mono u acc x : In x (snd acc) -> In x (snd (use1 L u acc)).
Proof. destruct acc as [d e], u as [v p]. cbn. intros H. apply in_or_app. auto. Qed.
Lemma use1_dup v p d e : dem d v -> copyable L v = false ->
  exists l, In (VariableMoved v l) (snd (use1 L (v, p) (d, e))).
Proof.
  unfold dem. intros Hd Hc. cbn. destruct (dlookup v (d_vars d)) as [l|] eqn:E; [|congruence].
  exists l. apply in_or_app. right. unfold dup. unfold copyable in Hc. rewrite Hc. now left.
Qed.

Lemma used_dem us : forall d x, dem d x \/ In x (map fst us) -> dem (fst (variables_used L us d)) x.
Proof.
  unfold variables_used. induction us as [|u us IH]; cbn; intros d x H.
  - destruct H as [H|[]]; auto.
  - destruct (fold_right (use1 L) (d, []) us) as [dm em] eqn:E. rewrite use1_fst.
    apply dem_dset. specialize (IH d x). rewrite E in IH. cbn in IH.
    destruct H as [H|[H|H]]; auto.
Qed.
Lemma used_snd_app a : forall b d,
  fold_right (use1 L) (d, []) (a ++ b) = fold_right (use1 L) (fold_right (use1 L) (d, []) b) a.
Proof. intros. apply fold_right_app. Qed.
Lemma used_mono a acc x : In x (snd acc) -> In x (snd (fold_right (use1 L) acc a)).
Proof. induction a; cbn; auto. intros H. apply use1_snd_mono. auto. Qed.

Lemma used_dup us d v : copyable L v = false ->
  (dem d v /\ In v (map fst us)) \/ (exists a b c, map fst us = a ++ v :: b ++ v :: c) ->
  exists l, In (VariableMoved v l) (snd (variables_used L us d)).
Proof.
  intros Hc H.
  assert (exists a p rest, us = a ++ (v, p) :: rest /\ (dem d v \/ In v (map fst rest)))
    as (a & p & rest & -> & Hr).
  { destruct H as [[Hd Hin]|(a & b & c & Hm)].
    - apply in_map_iff in Hin. destruct Hin as [[v' p] [Hv Hin]]. cbn in Hv. subst v'.
      apply in_split in Hin. destruct Hin as (a & rest & ->). eauto 6.
    - clear -Hm. revert a Hm. induction us as [|[v' p] us IH]; intros a Hm.
      + destruct a; discriminate.
      + destruct a as [|x a]; cbn in Hm.
        * injection Hm as -> Hm. exists [], p, us. split; auto. right. rewrite Hm.
          apply in_or_app. right. now left.
        * injection Hm as -> Hm. destruct (IH a Hm) as (a' & p' & rest & -> & Hr).
          exists ((x, p) :: a'), p', rest. split; auto. }
  unfold variables_used. rewrite used_snd_app. cbn [fold_right].
  destruct (fold_right (use1 L) (d, []) rest) as [dm em] eqn:E.
  assert (Hdm : dem dm v).
  { pose proof (used_dem rest d v Hr) as H'. unfold variables_used in H'. now rewrite E in H'. }
  destruct (use1_dup v p dm em Hdm Hc) as [l Hl]. exists l. now apply used_mono.
Qed.

Lemma intro1_fst_dem acc v x : dem (fst acc) x -> x <> v -> dem (fst (intro1 L acc v)) x.
Proof.
  destruct acc as [d e]. unfold intro1, dremove. cbn. intros H Hne.
  destruct (dlookup v (d_vars d)); cbn; auto.
  unfold dem in *. cbn. rewrite dlookup_ddel_other; auto.
Qed.
Lemma introduced_dem vs : forall acc x, dem (fst acc) x -> ~ In x vs ->
  dem (fst (fold_left (intro1 L) vs acc)) x.
Proof.
  induction vs as [|v vs IH]; cbn; intros acc x H Hn; auto.
  apply IH; [|tauto]. apply intro1_fst_dem; auto; intros ->; tauto.
Qed.

(* ---------- one statement ---------- *)
Lemma visit_shape s d0 e0 :
  exists d2 e12, visit_stmt L s (d0, e0) =
    (fst (variables_used L (stmt_inputs s) d2), e0 ++ e12 ++ snd (variables_used L (stmt_inputs s) d2))
    /\ (forall x, dem d0 x -> ~ In x (stmt_outputs s) -> dem d2 x).
Proof.
  unfold visit_stmt.
  destruct (variables_introduced L (stmt_outputs s) d0) as [d1 e1] eqn:E1.
  assert (H1 : forall x, dem d0 x -> ~ In x (stmt_outputs s) -> dem d1 x).
  { intros x Hx Hn. pose proof (introduced_dem (stmt_outputs s) (d0, []) x Hx Hn) as H.
    unfold variables_introduced in E1. now rewrite E1 in H. }
  cbv beta iota.
  set (m := match s with
            | SCall true _ _ _ => merge_demands L [Dem [] EndsWithPanic; d1]
            | SDesnap _ out => (d1, if v_copyable (vinfo L out) then []
                                    else [DesnappingANonCopyableType out (v_loc (vinfo L out))])
            | _ => (d1, [])
            end).
  assert (Hm : forall x, dem d1 x -> dem (fst m) x).
  { intros x Hx. subst m. destruct s as [| [|] cl ins outs | | | | | | |]; cbn [fst]; auto.
    unfold merge_demands. cbn [fst]. unfold dem at 1. cbn [d_vars].
    apply merge_vars_dem. right. exists d1. cbn. auto. }
  destruct m as [d2 e2] eqn:Em. cbv beta iota.
  destruct (variables_used L (stmt_inputs s) d2) as [d3 e3] eqn:E3.
  exists d2, (e1 ++ e2). rewrite E3. split.
  - cbn. now rewrite <- app_assoc.
  - intros x Hx Hn. apply (Hm x). auto.
Qed.

Lemma visit_keeps s d0 e0 v : (dem d0 v /\ ~ In v (stmt_outputs s)) \/ uses v s ->
  dem (fst (visit_stmt L s (d0, e0))) v.
Proof.
  destruct (visit_shape s d0 e0) as (d2 & e12 & -> & Hk). cbn [fst]. intros H.
  apply used_dem. destruct H as [[H1 H2]|H]; auto.
Qed.
Lemma visit_mono s d0 e0 x : In x e0 -> In x (snd (visit_stmt L s (d0, e0))).
Proof.
  destruct (visit_shape s d0 e0) as (d2 & e12 & -> & _). cbn [snd]. intros H. apply in_or_app. auto.
Qed.
Lemma visit_reports s d0 e0 v : copyable L v = false ->
  (dem d0 v /\ ~ In v (stmt_outputs s) /\ uses v s) \/
  (exists a b c, map fst (stmt_inputs s) = a ++ v :: b ++ v :: c) ->
  exists l, In (VariableMoved v l) (snd (visit_stmt L s (d0, e0))).
Proof.
  destruct (visit_shape s d0 e0) as (d2 & e12 & -> & Hk). cbn [snd]. intros Hc H.
  destruct (used_dup (stmt_inputs s) d2 v Hc) as [l Hl].
  - destruct H as [(H1 & H2 & H3)|H]; auto.
  - exists l. apply in_or_app. right. apply in_or_app. auto.
Qed.

(* ---------- statement lists ---------- *)
Lemma stmts_keep v ss : uses_later v ss -> forall info, dem (fst (fold_right (visit_stmt L) info ss)) v.
Proof.
  induction 1 as [s ss Hu|s ss Hn Hl IH]; intros info; cbn;
    destruct (fold_right (visit_stmt L) info ss) as [dm em] eqn:E; apply visit_keeps; auto.
  left. split; auto. specialize (IH info). now rewrite E in IH.
Qed.
Lemma stmts_mono ss info x : In x (snd info) -> In x (snd (fold_right (visit_stmt L) info ss)).
Proof.
  induction ss as [|s ss IH]; cbn; auto. intros H.
  destruct (fold_right (visit_stmt L) info ss) as [dm em] eqn:E. apply visit_mono. auto.
Qed.
Lemma stmts_report v ss : copyable L v = false -> double_use v ss ->
  forall info, exists l, In (VariableMoved v l) (snd (fold_right (visit_stmt L) info ss)).
Proof.
  intros Hc. induction 1 as [s ss a b c Hm|s ss Hu Hn Hl|s ss Hd IH]; intros info; cbn;
    destruct (fold_right (visit_stmt L) info ss) as [dm em] eqn:E.
  - apply visit_reports; eauto 6.
  - apply visit_reports; auto. left. repeat split; auto.
    pose proof (stmts_keep v ss Hl info) as H. now rewrite E in H.
  - destruct (IH info) as [l Hl]. rewrite E in Hl. exists l. now apply visit_mono.
Qed.

(* ---------- the DFS covers every reachable block ---------- *)
Definition reported (ds : list diag) (b : blockid) : Prop :=
  forall blk v, get_block L b = Some blk -> copyable L v = false -> double_use v (b_stmts blk) ->
    exists l, In (VariableMoved v l) ds.

Inductive cov (ds : list diag) : blockid -> Prop :=
| cov_intro b blk : get_block L b = Some blk -> reported ds b ->
    (forall b', In b' (succs (b_end blk)) -> cov ds b') -> cov ds b.

Lemma cov_mono ds ds' b : cov ds b -> cov (ds ++ ds') b.
Proof.
  induction 1 as [b blk Hg Hr Hs IH]. econstructor; eauto.
  intros blk' v Hg' Hc Hd. destruct (Hr blk' v Hg' Hc Hd) as [l Hl]. exists l. apply in_or_app. auto.
Qed.

Lemma cov_reach ds b b' : reach b b' -> cov ds b -> cov ds b'.
Proof.
  induction 1 as [b|b blk b1 b2 Hg Hin Hr IH]; auto.
  intros Hc. apply IH. inversion Hc as [b0 blk0 Hg0 _ Hs]; subst.
  rewrite Hg in Hg0. injection Hg0 as <-. auto.
Qed.

Definition table_cov (t : table) (ds : list diag) : Prop :=
  forall b d, nth_error t b = Some (Some d) -> cov ds b.

Lemma calc_cov b blk t t' ds ds' : get_block L b = Some blk -> table_cov t ds ->
  calc_block_info L b blk t = Some (t', ds') -> table_cov t' (ds ++ ds').
Proof.
  intros Hg Ht. unfold calc_block_info.
  destruct (get_end_info L (b_end blk) t) as [[info t1]|] eqn:Eend; try discriminate.
  destruct (fold_right (visit_stmt L) info (b_stmts blk)) as [d dsb] eqn:Efold.
  intros [= <- <-].
  assert (Hsucc : (forall b', In b' (succs (b_end blk)) -> cov ds b') /\
                  (forall b' d', nth_error t1 b' = Some (Some d') -> nth_error t b' = Some (Some d'))).
  { unfold get_end_info in Eend. destruct (b_end blk) as [|vs|u|target r|ml ins arms]; try discriminate; cbn.
    - injection Eend as _ <-. split; [contradiction|auto].
    - injection Eend as _ <-. split; [contradiction|auto].
    - destruct (nth_error t target) as [[dt|]|] eqn:Et; try discriminate. injection Eend as _ <-.
      split; auto. intros b' [<-|[]]. eauto.
    - destruct (take_arms arms t) as [[infos t2]|] eqn:Et; try discriminate.
      injection Eend as _ <-. apply take_arms_spec in Et. destruct Et as (Hlen & Hin & Hsub).
      split; auto. intros b' Hb'. apply in_map_iff in Hb'. destruct Hb' as [a [<- Ha]].
      destruct (in_combine_exists arms infos a Hlen Ha) as [dk Hk]. eapply Ht. eapply Hin. eauto. }
  destruct Hsucc as [Hsucc Hsub].
  intros b' d' H'. destruct (Nat.eq_dec b b') as [<-|Hne].
  - econstructor; eauto.
    + intros blk' v Hg' Hc Hd. rewrite Hg in Hg'. injection Hg' as <-.
      destruct (stmts_report v (b_stmts blk) Hc Hd info) as [l Hl]. rewrite Efold in Hl. cbn in Hl.
      exists l. apply in_or_app. auto.
    + intros b' Hb'. apply cov_mono. auto.
  - rewrite tset_other in H' by auto. apply cov_mono. eapply Ht. eauto.
Qed.

Lemma dfs_cov fuel : forall stack t ds t' ds',
  dfs L fuel stack t ds = Some (t', ds') -> table_cov t ds -> table_cov t' ds'.
Proof.
  induction fuel as [|fuel IH]; cbn; intros stack t ds t' ds' H Ht; try discriminate.
  destruct stack as [|b rest].
  - now injection H as <- <-.
  - destruct (get_block L b) as [blk|] eqn:Eg; try discriminate.
    destruct (missing_deps t (b_end blk)) as [[|m ms]|] eqn:Em; try discriminate.
    + destruct (calc_block_info L b blk t) as [[t1 ds1]|] eqn:Ec; try discriminate.
      eapply IH; eauto. eapply calc_cov; eauto.
    + eapply IH; eauto.
Qed.

Theorem moved_detected b blk v :
  ~ In (InternalError 0) (borrow_check L) ->
  reach 0 b -> get_block L b = Some blk ->
  copyable L v = false -> double_use v (b_stmts blk) ->
  exists l, In (VariableMoved v l) (borrow_check L).
Proof.
  unfold borrow_check, borrow_check_full. intros Hni Hr Hg Hc Hd.
  destruct (l_blocks L) as [|b0 bs] eqn:Eb.
  - exfalso. clear -Hr Hg Eb. unfold get_block in Hg. rewrite Eb in Hg. destruct b; discriminate.
  - rewrite <- Eb in *.
    destruct (dfs L (dfs_fuel L) [0] (map (fun _ => None) (l_blocks L)) []) as [[t ds]|] eqn:Ed;
      [|exfalso; apply Hni; now left].
    destruct (nth_error t 0) as [[root|]|] eqn:Er; try (exfalso; apply Hni; now left).
    apply dfs_cov in Ed.
    + pose proof (cov_reach ds 0 b Hr (Ed 0 root Er)) as Hcov.
      inversion Hcov as [b1 blk1 Hg1 Hrep _]; subst.
      destruct (Hrep blk v Hg Hc Hd) as [l Hl]. exists l.
      destruct (variables_introduced L (l_params L) root) as [d e].
      destruct (d_vars d); repeat (apply in_or_app; left); auto.
    + intros b' d' Hn. exfalso. rewrite nth_error_map in Hn.
      destruct (nth_error (l_blocks L) b'); discriminate.
Qed.

End Complete.
