(* C08/Lowered.v -- the lowered IR of cairo-lang-lowering (objects.rs) restricted to what the borrow
   checker reads: per statement its input usages and output variables (Statement::inputs /
   Statement::outputs, objects.rs:303-335), whether a call is panicable
   (stmt.function.signature(db, Monomorphized).panicable, borrow_check/mod.rs:187-189), which
   statement is a Desnap; block ends; per-variable TypeInfo flags (`Result::is_ok` of
   copyable / droppable / destruct_impl / panic_destruct_impl) and the variable's location.
   Locations are natural numbers (the harness numbers the distinct StableLocations of a function).
   No proofs in this file. *)
From Coq Require Import List Bool Arith.
Import ListNotations.

Definition var := nat.
Definition loc := nat.
Definition blockid := nat.
(* VarUsage { var_id, location } *)
Definition usage := (var * loc)%type.

Inductive stmt :=
| SConst (out : var)
| SCall (panicable : bool) (call_loc : loc) (ins : list usage) (outs : list var)
| SStructConstruct (ins : list usage) (out : var)
| SStructDestructure (inp : usage) (outs : list var)
| SEnumConstruct (inp : usage) (out : var)
| SSnapshot (inp : usage) (out_original out_snapshot : var)
| SDesnap (inp : usage) (out : var)
| SIntoBox (inp : usage) (out : var)
| SUnbox (inp : usage) (out : var).

(* Statement::inputs *)
Definition stmt_inputs (s : stmt) : list usage :=
  match s with
  | SConst _ => []
  | SCall _ _ ins _ => ins
  | SStructConstruct ins _ => ins
  | SStructDestructure i _ | SEnumConstruct i _ | SSnapshot i _ _ | SDesnap i _
  | SIntoBox i _ | SUnbox i _ => [i]
  end.

(* Statement::outputs *)
Definition stmt_outputs (s : stmt) : list var :=
  match s with
  | SConst o => [o]
  | SCall _ _ _ outs => outs
  | SStructConstruct _ o => [o]
  | SStructDestructure _ outs => outs
  | SEnumConstruct _ o => [o]
  | SSnapshot _ o1 o2 => [o1; o2]
  | SDesnap _ o | SIntoBox _ o | SUnbox _ o => [o]
  end.

(* BlockEnd; a remapping is the OrderedHashMap dst -> VarUsage src in insertion order; a match is
   MatchInfo::{inputs, arms (block_id, var_ids), location} *)
Inductive block_end :=
| ENotSet
| EReturn (vs : list usage)
| EPanic (v : usage)
| EGoto (target : blockid) (remapping : list (var * usage))
| EMatch (mloc : loc) (ins : list usage) (arms : list (blockid * list var)).

Record block := Blk { b_stmts : list stmt; b_end : block_end }.

Record varinfo := mkv {
  v_copyable : bool;
  v_droppable : bool;
  v_destruct : bool;
  v_panic_destruct : bool;
  v_loc : loc }.

(* Lowered { parameters, variables, blocks } + the is_panic_destruct_fn argument of borrow_check *)
Record lowered := Low {
  l_params : list var;
  l_is_panic_destruct_fn : bool;
  l_vars : list varinfo;
  l_blocks : list block }.

(* lowered.variables[v]; the arena would panic on an index out of range, the translator never
   prints one; the default makes such a variable have no capability at all *)
Definition dflt_var : varinfo := mkv false false false false 0.
Definition vinfo (L : lowered) (v : var) : varinfo := nth v (l_vars L) dflt_var.
Definition copyable (L : lowered) (v : var) : bool := v_copyable (vinfo L v).

Definition get_block (L : lowered) (b : blockid) : option block := nth_error (l_blocks L) b.
