(* C08/Corr.v -- comparison of the model with what the real borrow checker reported on the same
   Lowered (case files written by harness/h08, evaluated with vm_compute).
   Diagnostics are compared as multisets of (kind, location).  Also checked on every function:
   the hypothesis `remap_flags_ok` of C08_borrow_sound. *)
From Coq Require Import List Bool Arith.
From C08 Require Import Lowered Borrow Spec.
Import ListNotations.

Record bcase := mkcase {
  c_id : nat;
  c_fn : lowered;
  c_expected : list (nat * nat);   (* 0 VariableMoved, 1 VariableNotDropped, 2 Desnapping.., 3 other *)
  c_lowering_has_errors : bool;
  (* flag_add_withdraw_gas && in_cycle(f, Cost), as db.rs evaluates it for the function itself *)
  c_withdraw_gas_check : bool;
  (* locations of the VariableNotDropped entries of function_with_body_lowering_diagnostics(f) *)
  c_fn_not_dropped : list nat }.

Definition key (d : diag) : nat * nat :=
  match d with
  | VariableMoved _ l => (0, l)
  | VariableNotDropped _ l => (1, l)
  | DesnappingANonCopyableType _ l => (2, l)
  | InternalError n => (4 + n, 0)
  end.
Definition enc (k : nat * nat) : nat := snd k * 8 + fst k.

Fixpoint insert_sorted (x : nat) (l : list nat) : list nat :=
  match l with
  | [] => [x]
  | y :: l' => if Nat.leb x y then x :: l else y :: insert_sorted x l'
  end.
Definition sort (l : list nat) : list nat := fold_right insert_sorted [] l.
Fixpoint list_eqb (a b : list nat) : bool :=
  match a, b with
  | [], [] => true
  | x :: a', y :: b' => Nat.eqb x y && list_eqb a' b'
  | _, _ => false
  end.

(* what the model says the real checker reports: the finalize assert is skipped when the lowering
   itself had errors *)
Definition model_answer (c : bcase) : list (nat * nat) :=
  let '(ds, fin) := borrow_check_full (c_fn c) in
  map key (if fin || c_lowering_has_errors c then ds else ds ++ [InternalError 1]).

(* VariableNotDropped locations of the whole function-level diagnostics: borrow check plus, on a
   Cost cycle, the withdraw_gas parameter check *)
Definition not_dropped_locs (ds : list diag) : list nat :=
  flat_map (fun d => match d with VariableNotDropped _ l => [l] | _ => [] end) ds.
Definition model_fn_not_dropped (c : bcase) : list nat :=
  not_dropped_locs (fst (borrow_check_full (c_fn c)))
  ++ (if c_withdraw_gas_check c then not_dropped_locs (borrow_check_possible_withdraw_gas (c_fn c)) else []).

Definition check_case (c : bcase) : list (nat * list (nat * nat) * list (nat * nat) * bool * list nat) :=
  let m := model_answer c in
  let hyp := remap_flags_ok (c_fn c) in
  let nd := model_fn_not_dropped c in
  if list_eqb (sort (map enc m)) (sort (map enc (c_expected c))) && hyp
     && list_eqb (sort nd) (sort (c_fn_not_dropped c)) then []
  else [(c_id c, m, c_expected c, hyp, nd)].

Definition check_cases (cs : list bcase) := flat_map check_case cs.
